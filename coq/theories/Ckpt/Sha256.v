(* Model of what `compute_checksum` (src/checkpoint.rs) runs: SHA-256.
   Definitions only; proofs are in Proofs/CkptSha256.v.

   1. Section MD: the hash construction, generic in the compression function
        md_spec                   FIPS 180-4 section 6.2, one shot: pad the whole message (5.1.1), cut it
                                  into 64-byte blocks (5.2.1), fold the compression function over them from
                                  the initial hash value, emit the digest.
        md_new / md_update / md_finalize
                                  the STREAMING hasher the Rust code drives (`Sha256::new()`,
                                  `Digest::update`, `Digest::finalize`), transcribed from sha2-0.10
                                  `Sha256VarCore` + block-buffer-0.10 `BlockBuffer<U64, Eager>`
                                  (`digest_blocks`, `len64_padding_be`): a 64-byte buffer that is
                                  compressed as soon as it is full, a block counter, and the padding
                                  written into the buffer at `finalize`.
        md_stream data            = md_finalize (md_update md_new data): the body of compute_checksum
                                  before the `{:x}` formatting.
   2. Section FIPS: the SHA-256 compression function (FIPS 180-4 4.1.2, 4.2.2, 5.3.3, 6.2.2), written
      once over an abstract 32-bit word type with its operations (`wordops`).
   3. Two instances of the word operations:
        ops_z    words are Z in 0..2^32-1 (the reference; no primitive types)      -> sha256_z, sha256_spec_z
        ops_int  words are Coq's primitive 63-bit machine integers holding values below 2^32 (fast: this
                 is what the correspondence run evaluates)                           -> sha256, sha256_spec
      The two differ ONLY in the eight word operations; they are compared with each other inside Coq
      on the test vectors and on every short `sum` case of the correspondence run (Corr/C12.v).
   Store.compute_checksum sha256 data is the whole Rust function. A byte is a Z in 0..255. *)
From Coq Require Import List ZArith Bool Uint63.
From IB Require Import Ckpt.Bincode.
Import ListNotations.
Open Scope Z_scope.

(* a 64-bit number as 8 bytes, big-endian *)
Definition be64 (n : Z) : bytes :=
  [Z.land (Z.shiftr n 56) 255; Z.land (Z.shiftr n 48) 255; Z.land (Z.shiftr n 40) 255;
   Z.land (Z.shiftr n 32) 255; Z.land (Z.shiftr n 24) 255; Z.land (Z.shiftr n 16) 255;
   Z.land (Z.shiftr n 8) 255; Z.land n 255].

(* 5.1.1: 0x80, then k zero bytes with len + 1 + k = 56 (mod 64), then the bit length *)
Definition sha_pad (len : Z) : bytes :=
  128 :: repeat 0 (Z.to_nat ((55 - len) mod 64)) ++ be64 (8 * len).

(* enough fuel to consume l in 64-byte steps (written so that no unary number of the size of the
   message is built) *)
Definition blocks_fuel (l : bytes) : nat := S (Z.to_nat (Z.of_nat (length l) / 64)).

(* ------------------------------------------------------------------ 1. the construction *)
Section MD.
  Variable hst : Type.                        (* the chaining value (8 words) *)
  Variable compress : hst -> bytes -> hst.    (* sha2: compress256(state, &[block]) *)
  Variable h0 : hst.                          (* the initial hash value *)
  Variable digest_of : hst -> bytes.          (* the words, big-endian *)

  (* fold the compression function over the 64-byte blocks of l; fuel >= number of blocks *)
  Fixpoint hash_blocks (fuel : nat) (h : hst) (l : bytes) : hst :=
    match fuel with
    | O => h
    | S f =>
        match l with
        | [] => h
        | _ :: _ => hash_blocks f (compress h (firstn 64 l)) (skipn 64 l)
        end
    end.

  (* one-shot specification *)
  Definition md_spec (data : bytes) : bytes :=
    let m := data ++ sha_pad (Z.of_nat (length data)) in
    digest_of (hash_blocks (blocks_fuel m) h0 m).

  (* CoreWrapper<Sha256VarCore>: the hash state, the number of blocks compressed so far
     (`block_len`), and the BlockBuffer (its first `pos` bytes; always pos < 64: Eager) *)
  Record hasher := mk_hasher { hs_state : hst; hs_blocks : Z; hs_buf : bytes }.

  Definition md_new : hasher := mk_hasher h0 0 [].

  (* BlockBuffer::digest_blocks(input, |blocks| { block_len += blocks.len(); compress256(state, blocks) }) *)
  Definition md_update (hs : hasher) (input : bytes) : hasher :=
    let pos := length (hs_buf hs) in
    let rem := (64 - pos)%nat in
    if Nat.ltb (length input) rem then
      (* `if n < rem { buffer[pos..][..n] = input; pos += n; return }` *)
      mk_hasher (hs_state hs) (hs_blocks hs) (hs_buf hs ++ input)
    else
      (* `if pos != 0 { fill the buffer with input[..rem], compress it }` *)
      let '(st, nb, input1) :=
        match hs_buf hs with
        | [] => (hs_state hs, hs_blocks hs, input)
        | _ :: _ => (compress (hs_state hs) (hs_buf hs ++ firstn rem input), hs_blocks hs + 1,
                     skipn rem input)
        end in
      (* `let (blocks, leftover) = split_blocks(input); compress(blocks); buffer = leftover` *)
      let nfull := (length input1 / 64)%nat in
      let full := firstn (nfull * 64) input1 in
      mk_hasher (hash_blocks nfull st full) (nb + Z.of_nat nfull) (skipn (nfull * 64) input1).

  (* Sha256VarCore::finalize_variable_core: bit_len = 8 * (pos + block_len * 64);
     buffer.len64_padding_be(bit_len, compress): buffer[pos] = 0x80, zero the rest; if fewer than 8
     bytes are left after the 0x80, compress and start an all-zero block; the last 8 bytes are the
     big-endian bit length; compress. *)
  Definition md_finalize (hs : hasher) : bytes :=
    let pos := length (hs_buf hs) in
    let bit_len := 8 * (Z.of_nat pos + hs_blocks hs * 64) in
    let b1 := hs_buf hs ++ [128] in
    let st :=
      if Nat.leb (length b1) 56 then
        compress (hs_state hs) (b1 ++ repeat 0 (56 - length b1) ++ be64 bit_len)
      else
        compress (compress (hs_state hs) (b1 ++ repeat 0 (64 - length b1)))
                 (repeat 0 56 ++ be64 bit_len) in
    digest_of st.

  (* compute_checksum(data) before formatting: new, one update with the whole slice, finalize *)
  Definition md_stream (data : bytes) : bytes := md_finalize (md_update md_new data).
End MD.
Arguments hash_blocks {hst} compress fuel h l.
Arguments md_spec {hst} compress h0 digest_of data.
Arguments mk_hasher {hst} hs_state hs_blocks hs_buf.
Arguments hs_state {hst} h.
Arguments hs_blocks {hst} h.
Arguments hs_buf {hst} h.
Arguments md_new {hst} h0.
Arguments md_update {hst} compress hs input.
Arguments md_finalize {hst} compress digest_of hs.
Arguments md_stream {hst} compress h0 digest_of data.

(* ------------------------------------------------------------------ 2. the compression function *)
(* the operations on 32-bit words the algorithm needs *)
Record wordops (W : Type) := mk_ops {
  w_add : W -> W -> W;                  (* addition modulo 2^32 *)
  w_and : W -> W -> W;
  w_xor : W -> W -> W;
  w_not : W -> W;                       (* complement within 32 bits *)
  w_rotr : Z -> W -> W;                 (* ROTR^n, 0 < n < 32 *)
  w_shr : Z -> W -> W;                  (* SHR^n *)
  w_of_bytes : Z -> Z -> Z -> Z -> W;   (* four bytes, big-endian, to a word *)
  w_bytes : W -> bytes;                 (* a word to four bytes, big-endian *)
  w_k : list W;                         (* the 64 round constants (4.2.2) as words *)
  w_h0 : list W                         (* the 8 words of the initial hash value (5.3.3) *)
}.
Arguments w_add {W} w. Arguments w_and {W} w. Arguments w_xor {W} w. Arguments w_not {W} w.
Arguments w_rotr {W} w. Arguments w_shr {W} w. Arguments w_of_bytes {W} w. Arguments w_bytes {W} w.
Arguments w_k {W} w. Arguments w_h0 {W} w.

(* FIPS 180-4 4.2.2 *)
Definition sha_k : list Z :=
  [0x428a2f98; 0x71374491; 0xb5c0fbcf; 0xe9b5dba5; 0x3956c25b; 0x59f111f1; 0x923f82a4; 0xab1c5ed5;
   0xd807aa98; 0x12835b01; 0x243185be; 0x550c7dc3; 0x72be5d74; 0x80deb1fe; 0x9bdc06a7; 0xc19bf174;
   0xe49b69c1; 0xefbe4786; 0x0fc19dc6; 0x240ca1cc; 0x2de92c6f; 0x4a7484aa; 0x5cb0a9dc; 0x76f988da;
   0x983e5152; 0xa831c66d; 0xb00327c8; 0xbf597fc7; 0xc6e00bf3; 0xd5a79147; 0x06ca6351; 0x14292967;
   0x27b70a85; 0x2e1b2138; 0x4d2c6dfc; 0x53380d13; 0x650a7354; 0x766a0abb; 0x81c2c92e; 0x92722c85;
   0xa2bfe8a1; 0xa81a664b; 0xc24b8b70; 0xc76c51a3; 0xd192e819; 0xd6990624; 0xf40e3585; 0x106aa070;
   0x19a4c116; 0x1e376c08; 0x2748774c; 0x34b0bcb5; 0x391c0cb3; 0x4ed8aa4a; 0x5b9cca4f; 0x682e6ff3;
   0x748f82ee; 0x78a5636f; 0x84c87814; 0x8cc70208; 0x90befffa; 0xa4506ceb; 0xbef9a3f7; 0xc67178f2].
(* FIPS 180-4 5.3.3 *)
Definition sha_iv : list Z :=
  [0x6a09e667; 0xbb67ae85; 0x3c6ef372; 0xa54ff53a; 0x510e527f; 0x9b05688c; 0x1f83d9ab; 0x5be0cd19].

Section FIPS.
  Variable W : Type.
  Variable ops : wordops W.
  Let add := w_add ops.
  Let xor := w_xor ops.
  Let and := w_and ops.
  Let rotr := w_rotr ops.
  Let shr := w_shr ops.

  (* FIPS 180-4 4.1.2 *)
  Definition ch (x y z : W) : W := xor (and x y) (and (w_not ops x) z).
  Definition maj (x y z : W) : W := xor (xor (and x y) (and x z)) (and y z).
  Definition bsig0 (x : W) : W := xor (xor (rotr 2 x) (rotr 13 x)) (rotr 22 x).
  Definition bsig1 (x : W) : W := xor (xor (rotr 6 x) (rotr 11 x)) (rotr 25 x).
  Definition ssig0 (x : W) : W := xor (xor (rotr 7 x) (rotr 18 x)) (shr 3 x).
  Definition ssig1 (x : W) : W := xor (xor (rotr 17 x) (rotr 19 x)) (shr 10 x).

  Record hstate := mk_h { ha : W; hb : W; hc : W; hd : W; he : W; hf : W; hg : W; hh : W }.

  Definition fips_h0 : hstate :=
    let z := w_of_bytes ops 0 0 0 0 in
    let iv := w_h0 ops in
    mk_h (nth 0 iv z) (nth 1 iv z) (nth 2 iv z) (nth 3 iv z) (nth 4 iv z) (nth 5 iv z) (nth 6 iv z)
         (nth 7 iv z).

  Fixpoint be_words (l : bytes) : list W :=
    match l with
    | b0 :: b1 :: b2 :: b3 :: r => w_of_bytes ops b0 b1 b2 b3 :: be_words r
    | _ => []
    end.

  (* 6.2.2 step 1: the message schedule. `w` is the window W[t-16 .. t-1] (oldest first); emits
     W[t], W[t+1], ... for n steps *)
  Fixpoint schedule (n : nat) (w : list W) : list W :=
    match n with
    | O => []
    | S n' =>
        match w with
        | w0 :: rest =>
            let next := add (add (ssig1 (nth 13 rest w0)) (nth 8 rest w0))
                            (add (ssig0 (nth 0 rest w0)) w0) in
            w0 :: schedule n' (rest ++ [next])
        | [] => []
        end
    end.

  (* 6.2.2 step 3: one round *)
  Definition sha_round (s : hstate) (kw : W * W) : hstate :=
    let t1 := add (add (add (hh s) (bsig1 (he s))) (add (ch (he s) (hf s) (hg s)) (fst kw)))
                  (snd kw) in
    let t2 := add (bsig0 (ha s)) (maj (ha s) (hb s) (hc s)) in
    mk_h (add t1 t2) (ha s) (hb s) (hc s) (add (hd s) t1) (he s) (hf s) (hg s).

  (* 6.2.2: the compression function on one 64-byte block *)
  Definition fips_compress (h : hstate) (block : bytes) : hstate :=
    let w := schedule 64 (be_words block) in
    let s := fold_left sha_round (combine (w_k ops) w) h in
    mk_h (add (ha h) (ha s)) (add (hb h) (hb s)) (add (hc h) (hc s)) (add (hd h) (hd s))
         (add (he h) (he s)) (add (hf h) (hf s)) (add (hg h) (hg s)) (add (hh h) (hh s)).

  Definition fips_digest (h : hstate) : bytes :=
    w_bytes ops (ha h) ++ w_bytes ops (hb h) ++ w_bytes ops (hc h) ++ w_bytes ops (hd h)
    ++ w_bytes ops (he h) ++ w_bytes ops (hf h) ++ w_bytes ops (hg h) ++ w_bytes ops (hh h).
End FIPS.
Arguments fips_h0 {W} ops.
Arguments fips_compress {W} ops h block.
Arguments fips_digest {W} ops h.

(* ------------------------------------------------------------------ 3a. words as Z *)
Definition zmask32 : Z := 4294967295.
Definition ops_z : wordops Z :=
  mk_ops Z
    (fun a b => Z.land (a + b) zmask32)
    Z.land
    Z.lxor
    (fun x => Z.lxor x zmask32)
    (fun n x => Z.lor (Z.shiftr x n) (Z.land (Z.shiftl x (32 - n)) zmask32))
    (fun n x => Z.shiftr x n)
    (fun b0 b1 b2 b3 => ((Z.land b0 255 * 256 + Z.land b1 255) * 256 + Z.land b2 255) * 256 + Z.land b3 255)
    (fun w => [Z.land (Z.shiftr w 24) 255; Z.land (Z.shiftr w 16) 255; Z.land (Z.shiftr w 8) 255;
               Z.land w 255])
    sha_k
    sha_iv.

Definition sha256_spec_z : bytes -> bytes :=
  md_spec (fips_compress ops_z) (fips_h0 ops_z) (fips_digest ops_z).
Definition sha256_z : bytes -> bytes :=
  md_stream (fips_compress ops_z) (fips_h0 ops_z) (fips_digest ops_z).

(* ------------------------------------------------------------------ 3b. words as machine integers *)
Definition imask32 : int := 0xffffffff%uint63.
Definition byte_int (b : Z) : int := (Uint63.of_Z b land 255)%uint63.
Definition sha_k_int : list int := Eval vm_compute in map Uint63.of_Z sha_k.
Definition sha_iv_int : list int := Eval vm_compute in map Uint63.of_Z sha_iv.
Definition ops_int : wordops int :=
  mk_ops int
    (fun a b => ((a + b) land imask32)%uint63)
    Uint63.land
    Uint63.lxor
    (fun x => (x lxor imask32)%uint63)
    (fun n x => let k := Uint63.of_Z n in ((x >> k) lor ((x << (32 - k)) land imask32))%uint63)
    (fun n x => (x >> Uint63.of_Z n)%uint63)
    (fun b0 b1 b2 b3 =>
       ((byte_int b0 << 24) lor (byte_int b1 << 16) lor (byte_int b2 << 8) lor byte_int b3)%uint63)
    (fun w => [Z.land (Uint63.to_Z (w >> 24)%uint63) 255; Z.land (Uint63.to_Z (w >> 16)%uint63) 255;
               Z.land (Uint63.to_Z (w >> 8)%uint63) 255; Z.land (Uint63.to_Z w) 255])
    sha_k_int
    sha_iv_int.

Definition compress := fips_compress ops_int.
Definition sha_h0 := fips_h0 ops_int.
Definition digest_of := fips_digest ops_int.

Definition sha256_spec : bytes -> bytes := md_spec compress sha_h0 digest_of.
Definition sha_new := md_new sha_h0.
Definition sha_update := md_update compress.
Definition sha_finalize := md_finalize compress digest_of.
Definition sha256 : bytes -> bytes := md_stream compress sha_h0 digest_of.
