(* The checkpointing engines of src/runner.rs on top of the engine model (Engine/Exec.v) and of the
   checkpoint store model (Ckpt/Store.v, property C12).  Definitions only; proofs are in
   Proofs/CkptRunner*.v, the property theorems in Props/C11.v.

   Rust source                                   model
   -------------------------------------------   -------------------------------------------------
   Runner::run_collect (dispatch)                run_collect
   exec_seq_with_checkpointing                   exec_seq_ckpt   (arms: ckpt_arm, its own copy)
   the same function before commit 7ffa936       exec_seq_ckpt_old (arms: ckpt_arm_old)
   exec_par_with_checkpointing                   exec_par_ckpt
   CheckpointManager::new (create_dir_all)       mkdir
   generate_pipeline_id                          pid_of / pid_seq / pid_par
   current_timestamp_ms                          ts_ms

   What stands for what:
   * The checkpoint directory is `option dir`: None = it does not exist yet.  With checkpointing
     enabled `CheckpointManager::new` creates it first, so every later `read_dir` finds it (the
     `?` on `find_latest_checkpoint` can then only propagate an I/O error of the operating system,
     which is outside the model, as is a `create_dir_all` that fails).
   * A run that died earlier is NOT modelled operationally: all it leaves behind is the content of
     the directory, so "for every crash point, every torn or overwritten file" is "for every
     initial directory" (any names, any bytes).
   * Time: `clock idx j` is the j-th reading of the system clock (nanoseconds since the epoch, may
     be negative or go backwards) made while the checkpoint step of node `idx` runs:
     j = 0 `SystemTime::now()` inside should_checkpoint, j = 1 `current_timestamp_ms()`,
     j = 2 `SystemTime::now()` inside save_checkpoint.  The parallel wrapper reads `clock total 1`
     for its "Failed" checkpoint.  Every function nat -> nat -> Z is a possible clock.
   * `pct idx total` is `((idx as f64 / total as f64) * 100.0) as u8`, a diagnostic field; the float
     computation is not modelled, any function may be supplied.
   * `H` is SHA-256 as an arbitrary function, `avail` what the allocator can serve, `readdir` the
     directory listing order, `sh` the HashMap iteration oracle (see Store.v, Exec.v).
   * A process abort while loading a checkpoint (Store.Abort) is the engine outcome `Panic`. *)
From Coq Require Import List ZArith Bool Arith String.
From IB Require Import Util.J Engine.Val Engine.Ops Engine.Nodes Engine.Exec.
From IB Require Ckpt.Bincode Ckpt.Store.
Import ListNotations.

Definition bytes := Bincode.bytes.
Definition dir := Store.dir.

(* CheckpointConfig without the directory path (the directory is the `option dir` argument) *)
Record cfg := mk_cfg {
  c_enabled : bool;
  c_policy : Store.policy;
  c_auto_recover : bool;
  c_max : option Z              (* max_checkpoints *)
}.

(* "CoGroup requires subplan execution": the error of the old sequential checkpointing engine *)
Definition E_COGROUP_CKPT := 5%nat.

(* `matches!(node, GroupByKey | CombineValues | CoGroup | CombineGlobal)` *)
Definition is_barrier (n : node) : bool :=
  match n with
  | NB (BGroupByKey _ _) | NB (BCombineValues _ _ _ _ _) | NB (BCombineGlobal _ _ _ _ _) => true
  | NCoGroup _ _ _ _ _ _ => true
  | NB (BSource _) | NB (BStateless _) | NB (BMaterialized _ _) => false
  end.

Definition node_type (n : node) : bytes :=
  match n with
  | NB (BSource _) => string_bytes "Source"
  | NB (BStateless _) => string_bytes "Stateless"
  | NB (BGroupByKey _ _) => string_bytes "GroupByKey"
  | NB (BCombineValues _ _ _ _ _) => string_bytes "CombineValues"
  | NCoGroup _ _ _ _ _ _ => string_bytes "CoGroup"
  | NB (BMaterialized _ _) => string_bytes "Materialized"
  | NB (BCombineGlobal _ _ _ _ _) => string_bytes "CombineGlobal"
  end.

(* the numbering of map-iteration sites used by Exec.seq_main *)
Definition node_next_site (i : nat) (n : node) : nat :=
  match n with NB b => next_site i b | NCoGroup _ _ _ _ _ _ => S i end.

(* current_timestamp_ms: duration_since(UNIX_EPOCH).unwrap_or_default().as_millis() as u64 *)
Definition ts_ms (reading : Z) : Z :=
  if (reading <? 0)%Z then 0%Z else ((reading / 1000000) mod 18446744073709551616)%Z.

(* CheckpointManager::new with enabled = true: create_dir_all *)
Definition mkdir (fs : option dir) : dir := match fs with Some d => d | None => [] end.

Definition c_colon : Z := 58%Z.

(* the manager's mutable state: last_checkpoint_time and the directory *)
Record mgr := mk_mgr { m_last : option Z; m_dir : dir }.

Section Runner.
  Variable sh : nat -> list val -> list val.
  Variable readdir : dir -> list Store.name.
  Variable H : bytes -> bytes.
  Variable avail : Z.
  Variable pct : nat -> nat -> Z.
  Variable clock : nat -> nat -> Z.

  (* generate_pipeline_id: format!("{:x}", sha256(s))[..16] *)
  Definition pid_of (s : bytes) : bytes := firstn 16 (Store.compute_checksum H s).
  (* sequential: generate_pipeline_id(&format!("{:?}", chain.len())) *)
  Definition pid_seq (total : nat) : bytes := pid_of (Store.dec (Z.of_nat total)).
  (* parallel: generate_pipeline_id(&format!("{:?}:{}", chain.len(), partitions)) *)
  Definition pid_par (total partitions : nat) : bytes :=
    pid_of (Store.dec (Z.of_nat total) ++ [c_colon] ++ Store.dec (Z.of_nat partitions)).

  (* the CheckpointState both engines build: checksum = compute_checksum of
     "{pipeline_id}:{completed_node_index}:{timestamp}:{partition_count}" *)
  Definition mk_state (pid : bytes) (idx ts parts : Z) (mode : bytes) (total : Z) (ntype : bytes)
             (pc : Z) : Bincode.cstate :=
    let meta := Bincode.mk_cmeta total ntype pc in
    let s0 := Bincode.mk_cstate pid idx ts parts [] mode meta in
    Bincode.mk_cstate pid idx ts parts (Store.compute_checksum H (Store.meta_str s0)) mode meta.

  (* the recovery block of both engines:
       if auto_recover && let Some(path) = find_latest_checkpoint(id)? { match load_checkpoint(path)
         { Ok(state) => eprintln!(..), Err(e) => eprintln!(..) } }
     Its only possible effect on the run is to kill it: false = the process died in the decoder. *)
  Definition recover (c : cfg) (pid : bytes) (d : dir) : bool :=
    if c_auto_recover c then
      match Store.latest readdir (c_enabled c) pid d with
      | Some n => match Store.load H avail d n with
                  | Store.Abort => false
                  | Store.Ok _ | Store.Err _ => true
                  end
      | None => true
      end
    else true.

  (* the block after each node of the sequential engine:
       if manager.should_checkpoint(idx, is_barrier, total) { build state; match save_checkpoint
         { Ok(path) => eprintln!(..), Err(e) => eprintln!("Warning ..") } }
     save_checkpoint sets last_checkpoint_time only after the file has been written *)
  Definition ckpt_after (c : cfg) (pid : bytes) (total idx : nat) (n : node) (m : mgr) : mgr :=
    if Store.should_checkpoint (c_enabled c) (c_policy c) (m_last m) (clock idx 0)
                               (Z.of_nat idx) (is_barrier n)
    then
      let st := mk_state pid (Z.of_nat idx) (ts_ms (clock idx 1)) 1 (string_bytes "sequential")
                         (Z.of_nat total) (node_type n) (pct idx total) in
      match Store.save readdir (c_max c) (m_dir m) st with
      | (Store.Ok _, d') => mk_mgr (Some (clock idx 2)) d'
      | (Store.Err _, d') => mk_mgr (m_last m) d'
      | (Store.Abort, d') => mk_mgr (m_last m) d'
      end
    else m.

  (* ---------------- the node arms of exec_seq_with_checkpointing ("same logic as exec_seq") ----
     i = map-iteration site, term = tag of Vec<T> *)
  Definition ckpt_arm (i : nat) (term : tag) (n : node) (buf : option part) : outcome part :=
    match n with
    | NB (BSource s) => Ok (s_tag s, s_all s)
    | NB (BStateless ops) => obind (take buf) (apply_ops ops)
    | NB (BGroupByKey tin tout) => obind (take buf) (fun p => run_gbk sh i tin tout [p])
    | NB (BCombineValues c tp tg tout lg) =>
        obind (take buf) (fun p => run_combine_values sh i c tp tg tout lg [p])
    | NB (BMaterialized t payload) =>
        if Nat.eqb t term then Ok (t, payload) else Err E_TERMINAL_MISMATCH
    | NCoGroup lc rc kind tl tr tout =>
        (* the arm added by the fix: the same sub-plan routine as the plain engine *)
        obind (run_subplan_seq sh (1000 * S i) lc) (fun lp =>
        obind (run_subplan_seq sh (2000 * S i) rc) (fun rp =>
        run_cogroup sh i kind tl tr tout [lp] [rp]))
    | NB (BCombineGlobal c lifted tin tout _) =>
        obind (take buf) (run_combine_global_seq c lifted tin tout)
    end.

  (* the arms as they were before the fix: `Node::CoGroup { .. } => bail!("CoGroup requires
     subplan execution")` *)
  Definition ckpt_arm_old (i : nat) (term : tag) (n : node) (buf : option part) : outcome part :=
    match n with
    | NCoGroup _ _ _ _ _ _ => Err E_COGROUP_CKPT
    | _ => ckpt_arm i term n buf
    end.

  Section Seq.
    Variable arm : nat -> tag -> node -> option part -> outcome part.
    Variable c : cfg.
    Variable pid : bytes.
    Variable total : nat.
    Variable term : tag.

    (* `for (idx, node) in chain.into_iter().enumerate()`: run the node, then the checkpoint
       block; an error (`?`) or a panic inside a node leaves the loop at once *)
    Fixpoint seq_ckpt_loop (i idx : nat) (chain : list node) (buf : option part) (m : mgr)
      : outcome (option part) * mgr :=
      match chain with
      | [] => (Ok buf, m)
      | n :: r =>
          match arm i term n buf with
          | Ok p => seq_ckpt_loop (node_next_site i n) (S idx) r (Some p)
                                  (ckpt_after c pid total idx n m)
          | Err e => (Err e, m)
          | Panic => (Panic, m)
          | Diverge => (Diverge, m)
          end
      end.
  End Seq.

  (* exec_seq_with_checkpointing::<T>(chain, config), for a given set of node arms *)
  Definition exec_seq_ckpt_with (arm : nat -> tag -> node -> option part -> outcome part)
             (c : cfg) (fs : option dir) (term : tag) (chain : list node)
    : outcome (list val) * dir :=
    let total := List.length chain in
    let d0 := mkdir fs in
    let pid := pid_seq total in
    if recover c pid d0 then
      let '(res, m) := seq_ckpt_loop arm c pid total term 0 0 chain None (mk_mgr None d0) in
      match res with
      | Ok buf =>
          (* `buf.unwrap()`, the terminal downcast, then clear_checkpoints(..).ok() *)
          match take buf with
          | Ok p => if Nat.eqb (fst p) term
                    then (Ok (snd p), Store.clear readdir pid (m_dir m))
                    else (Err E_TERMINAL_MISMATCH, m_dir m)
          | Err e => (Err e, m_dir m)
          | Panic => (Panic, m_dir m)
          | Diverge => (Diverge, m_dir m)
          end
      | Err e => (Err e, m_dir m)
      | Panic => (Panic, m_dir m)
      | Diverge => (Diverge, m_dir m)
      end
    else (Panic, d0).

  Definition exec_seq_ckpt := exec_seq_ckpt_with ckpt_arm.
  Definition exec_seq_ckpt_old := exec_seq_ckpt_with ckpt_arm_old.

  (* exec_par_with_checkpointing::<T>(chain, partitions, config): recovery lookup, the plain
     parallel engine, clear on Ok, one "Failed" checkpoint on Err (`save_checkpoint(..).ok()`);
     a panic unwinds through the wrapper and does neither *)
  Definition exec_par_ckpt (c : cfg) (fs : option dir) (term : tag) (chain : list node)
             (partitions : nat) : outcome (list val) * dir :=
    let total := List.length chain in
    let d0 := mkdir fs in
    let pid := pid_par total partitions in
    if recover c pid d0 then
      let res := exec_par sh term chain partitions in
      match res with
      | Ok _ => (res, Store.clear readdir pid d0)
      | Err _ =>
          let st := mk_state pid 0 (ts_ms (clock total 1)) (Z.of_nat partitions)
                             (string_bytes "parallel:" ++ Store.dec (Z.of_nat partitions))
                             (Z.of_nat total) (string_bytes "Failed") 0 in
          (res, snd (Store.save readdir (c_max c) d0 st))
      | Panic | Diverge => (res, d0)
      end
    else (Panic, d0).

  (* Runner::run_collect after planning: checkpointing engines only when a configuration is present
     AND enabled, else the plain engines (which never touch the directory).  In parallel mode BOTH
     branches resolve the partition count the same way:
       `partitions.or(suggested_parts).unwrap_or(self.default_partitions)`
     suggested = the planner's hint (Plan::suggested_partitions), default = Runner::default_partitions;
     both are inputs here. *)
  Inductive xmode := XSeq | XPar (partitions : option nat).

  Definition resolve_parts (suggested : option nat) (default : nat) (partitions : option nat) : nat :=
    match partitions with
    | Some n => n
    | None => match suggested with Some n => n | None => default end
    end.

  Definition run_plain (mode : xmode) (suggested : option nat) (default : nat) (term : tag)
             (chain : list node) : outcome (list val) :=
    match mode with
    | XSeq => exec_seq sh term chain
    | XPar p => exec_par sh term chain (resolve_parts suggested default p)
    end.

  Definition run_collect (mode : xmode) (suggested : option nat) (default : nat) (co : option cfg)
             (fs : option dir) (term : tag) (chain : list node) : outcome (list val) * option dir :=
    match co with
    | Some c =>
        if c_enabled c then
          match mode with
          | XSeq => let '(r, d) := exec_seq_ckpt c fs term chain in (r, Some d)
          | XPar p =>
              let '(r, d) := exec_par_ckpt c fs term chain (resolve_parts suggested default p) in
              (r, Some d)
          end
        else (run_plain mode suggested default term chain, fs)
    | None => (run_plain mode suggested default term chain, fs)
    end.

  (* the pipeline id the run uses *)
  Definition run_pid (mode : xmode) (suggested : option nat) (default : nat) (chain : list node) : bytes :=
    match mode with
    | XSeq => pid_seq (List.length chain)
    | XPar p => pid_par (List.length chain) (resolve_parts suggested default p)
    end.
End Runner.

(* ---------------- what a crashed run can leave behind (used to state c11_recovers) ----------
   Any sequence of completed saves (any states: any pipeline ids, indices, timestamps), after which
   the newest file of the pipeline is replaced by arbitrary bytes (a truncation at any offset is
   the special case `firstn k` of its content). *)
Definition overwrite_latest (readdir : dir -> list Store.name) (pid : bytes) (junk : bytes) (d : dir)
  : dir :=
  match Store.latest readdir true pid d with
  | Some n => Store.dir_write d n junk
  | None => d
  end.
Definition truncate_latest (readdir : dir -> list Store.name) (pid : bytes) (k : nat) (d : dir) : dir :=
  match Store.latest readdir true pid d with
  | Some n => match Store.dir_lookup d n with
              | Some b => Store.dir_write d n (firstn k b)
              | None => d
              end
  | None => d
  end.
Definition saves_of (readdir : dir -> list Store.name) (max : option Z) (d : dir)
           (h : list Bincode.cstate) : dir :=
  fold_left (fun d s => snd (Store.save readdir max d s)) h d.
