(* The CheckpointManager of src/checkpoint.rs used DIRECTLY through its public entry points (property
   C11): sequences of `should_checkpoint`, `save_checkpoint` and assignments to the public field
   `last_checkpoint_time`.  Definitions only; proofs are in Proofs/CkptManager.v, the theorems in
   Props/C11.v.

   Rust source                                         model
   -------------------------------------------------   ----------------------------------------------
   CheckpointManager { config, last_checkpoint_time }  Runner.mgr (m_last, m_dir) + Runner.cfg
   should_checkpoint(node_index, is_barrier, _total)   MCall   -> Store.should_checkpoint
   save_checkpoint(&state)                             MSave   -> Store.save, then last := now
   manager.last_checkpoint_time = ..  (pub field)      MSetLast

   Time is in nanoseconds since the epoch as an unbounded integer (negative = before the epoch): the
   policy parameters are any u64 / usize, and nothing in the decision can overflow.  The reading of the
   system clock an operation makes is given with the operation (`now`):
   for MCall the `SystemTime::now()` of the TimeInterval / Hybrid arm, for MSave the one
   `save_checkpoint` stores in `last_checkpoint_time` after the file has been written and synced.
   `should_checkpoint` takes `&mut self` but changes nothing; `_total_nodes` is ignored. *)
From Coq Require Import List ZArith Bool.
From IB Require Import Ckpt.Runner.
From IB Require Ckpt.Bincode Ckpt.Store.
Import ListNotations.

Inductive mop : Type :=
| MCall (node_index : Z) (is_barrier : bool)
| MSave (s : Bincode.cstate)
| MSetLast (l : option Z).

Inductive mres : Type :=
| RDecision (b : bool)      (* what should_checkpoint returned *)
| RSaved (ok : bool)        (* save_checkpoint returned Ok / Err *)
| RSet.

Definition is_call (op : mop) : bool := match op with MCall _ _ => true | _ => false end.
Definition is_decision (r : mres) : bool := match r with RDecision _ => true | _ => false end.
(* a script with its should_checkpoint calls removed *)
Definition without_calls (ops : list (Z * mop)) : list (Z * mop) :=
  filter (fun o => negb (is_call (snd o))) ops.

Section Manager.
  Variable readdir : dir -> list Store.name.
  Variable c : cfg.

  Definition mgr_step (now : Z) (m : mgr) (op : mop) : mres * mgr :=
    match op with
    | MCall idx b =>
        (RDecision (Store.should_checkpoint (c_enabled c) (c_policy c) (m_last m) now idx b), m)
    | MSave s =>
        match Store.save readdir (c_max c) (m_dir m) s with
        | (Store.Ok _, d') => (RSaved true, mk_mgr (Some now) d')
        | (Store.Err _, d') => (RSaved false, mk_mgr (m_last m) d')
        | (Store.Abort, d') => (RSaved false, mk_mgr (m_last m) d')
        end
    | MSetLast l => (RSet, mk_mgr l (m_dir m))
    end.

  (* a script: every operation with the clock reading it makes *)
  Fixpoint mgr_run (m : mgr) (ops : list (Z * mop)) : list mres * mgr :=
    match ops with
    | [] => ([], m)
    | (now, op) :: r =>
        let '(x, m1) := mgr_step now m op in
        let '(xs, m2) := mgr_run m1 r in
        (x :: xs, m2)
    end.
End Manager.

(* what the call sequence of the sequential engine looks like for one node (Runner.ckpt_after):
   decide; if told to, build the state and save it *)
Definition decide_then_save (readdir : dir -> list Store.name) (c : cfg) (now_call now_save : Z)
           (idx : Z) (barrier : bool) (st : Bincode.cstate) (m : mgr) : mgr :=
  match fst (mgr_step readdir c now_call m (MCall idx barrier)) with
  | RDecision true => snd (mgr_step readdir c now_save m (MSave st))
  | _ => m
  end.

(* the interval of a time policy does not elapse at any of the should_checkpoint calls the sequential
   engine makes after the nodes lo .. hi-1 (`clock j 0`), counted from a save at time t0: the clock
   reads before t0 or less than s seconds after it.  Holds for every run shorter than s seconds, and
   for s = u64::MAX ("never by time") on every clock below 2^64 seconds. *)
Definition interval_pending (clock : nat -> nat -> Z) (s t0 : Z) (lo hi : nat) : Prop :=
  forall j, (lo <= j < hi)%nat -> (clock j 0%nat < t0 \/ clock j 0%nat - t0 < s * 1000000000)%Z.
