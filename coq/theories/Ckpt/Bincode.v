(* Model of the bincode 2.0.1 `standard()` wire format as used by src/checkpoint.rs for
   `CheckpointState` (serde path: bincode::serde::{encode_to_vec, decode_from_slice}).
   Definitions only; proofs are in Proofs/CkptBincode.v.

   Transcribed from ~/.cargo/registry/src/*/bincode-2.0.1:
     src/varint/encode_unsigned.rs  varint_encode_u64            -> varint_enc
     src/varint/decode_unsigned.rs  varint_decode_u64 (+ cold)   -> varint_dec
     src/de/impls.rs                u8::decode, u64::decode      -> dec_u8, dec_u64 (claim 1 / claim 8)
     src/de/mod.rs                  decode_slice_len, claim_container_read
     src/de/decoder.rs              DecoderImpl::claim_bytes_read -> claim
     src/features/impl_alloc.rs     Vec<u8>::decode (`vec![0u8; len]` BEFORE the read), String::decode
     src/features/serde/de_borrowed.rs  deserialize_struct = the fields in order, no prefix;
                                    usize is (de)serialised by serde as u64
     src/de/read.rs                 SliceReader::read (UnexpectedEnd)
   A byte is a Z in 0..255, a string is the list of its UTF-8 bytes, a number is a Z.
   The decoder threads an explicit state: remaining input, bytes claimed against the configured
   limit, and the log of every allocation request it made; it is parameterised by
     limit : option Z   the `Limit<N>` of the configuration (None = `standard()` without limit)
     avail : Z          the total the allocator is able to serve; a request beyond it is the
                        outcome DAbort (capacity-overflow panic / allocation-failure abort). *)
From Coq Require Import List ZArith Bool.
Import ListNotations.
Open Scope Z_scope.

Definition bytes := list Z.

(* ------------------------------------------------------------------ the serialised record *)
(* src/checkpoint.rs: CheckpointMetadata, CheckpointState (field order = wire order) *)
Record cmeta := mk_cmeta {
  total_nodes : Z;            (* usize *)
  last_node_type : bytes;     (* String *)
  progress_percent : Z        (* u8 *)
}.
Record cstate := mk_cstate {
  pipeline_id : bytes;        (* String *)
  completed_node_index : Z;   (* usize *)
  timestamp : Z;              (* u64 *)
  partition_count : Z;        (* usize *)
  checksum : bytes;           (* String *)
  exec_mode : bytes;          (* String *)
  metadata : cmeta
}.

Definition u64_max : Z := 18446744073709551615.

(* ------------------------------------------------------------------ UTF-8 (String::from_utf8) *)
(* Well-formed byte sequences, Unicode Table 3-7 (what core::str::from_utf8 accepts). *)
Definition in_rng (lo hi b : Z) : bool := (lo <=? b) && (b <=? hi).
Definition is_cont (b : Z) : bool := in_rng 128 191 b.

Fixpoint utf8_valid (l : bytes) : bool :=
  match l with
  | [] => true
  | b0 :: r0 =>
      if in_rng 0 127 b0 then utf8_valid r0
      else match r0 with
      | [] => false
      | b1 :: r1 =>
          if in_rng 194 223 b0 then is_cont b1 && utf8_valid r1
          else match r1 with
          | [] => false
          | b2 :: r2 =>
              if in_rng 224 239 b0 then
                (if b0 =? 224 then in_rng 160 191 b1
                 else if b0 =? 237 then in_rng 128 159 b1
                 else is_cont b1) && is_cont b2 && utf8_valid r2
              else match r2 with
              | [] => false
              | b3 :: r3 =>
                  if in_rng 240 244 b0 then
                    (if b0 =? 240 then in_rng 144 191 b1
                     else if b0 =? 244 then in_rng 128 143 b1
                     else is_cont b1) && is_cont b2 && is_cont b3 && utf8_valid r3
                  else false
              end
          end
      end
  end.

(* ------------------------------------------------------------------ encoding *)
Fixpoint le_bytes (k : nat) (v : Z) : bytes :=
  match k with O => [] | S k' => (v mod 256) :: le_bytes k' (v / 256) end.
Fixpoint le_value (l : bytes) : Z :=
  match l with [] => 0 | b :: r => b + 256 * le_value r end.

(* varint_encode_u64 (little endian): SINGLE_BYTE_MAX = 250, U16_BYTE 251, U32_BYTE 252, U64_BYTE 253 *)
Definition varint_enc (v : Z) : bytes :=
  if v <=? 250 then [v]
  else if v <=? 65535 then 251 :: le_bytes 2 v
  else if v <=? 4294967295 then 252 :: le_bytes 4 v
  else 253 :: le_bytes 8 v.

(* str / [u8]: encode_slice_len (len as u64) then the raw bytes *)
Definition enc_string (s : bytes) : bytes := varint_enc (Z.of_nat (length s)) ++ s.

Definition enc_meta (m : cmeta) : bytes :=
  varint_enc (total_nodes m) ++ enc_string (last_node_type m) ++ [progress_percent m].

(* encode_to_vec(state, standard()) *)
Definition encode (s : cstate) : bytes :=
  enc_string (pipeline_id s) ++ varint_enc (completed_node_index s) ++ varint_enc (timestamp s)
  ++ varint_enc (partition_count s) ++ enc_string (checksum s) ++ enc_string (exec_mode s)
  ++ enc_meta (metadata s).

(* ------------------------------------------------------------------ decoding *)
Inductive derr : Type :=
| EEnd            (* DecodeError::UnexpectedEnd *)
| EDiscriminant   (* DecodeError::InvalidIntegerType (marker 254 / 255) *)
| ELimit          (* DecodeError::LimitExceeded *)
| EUtf8.          (* DecodeError::Utf8 *)

Inductive dres (A : Type) : Type :=
| DOk (a : A)
| DErr (e : derr)
| DAbort.         (* the process panics / aborts inside the allocator *)
Arguments DOk {A} a.
Arguments DErr {A} e.
Arguments DAbort {A}.

Record dstate := mk_dstate {
  d_rest : bytes;        (* SliceReader.slice *)
  d_claimed : Z;         (* DecoderImpl.bytes_read *)
  d_allocs : list Z      (* every allocation request so far, newest first *)
}.

Definition zsum (l : list Z) : Z := fold_right Z.add 0 l.

Definition M (A : Type) : Type := dstate -> dres A * dstate.
Definition ret {A} (a : A) : M A := fun st => (DOk a, st).
Definition bind {A B} (m : M A) (f : A -> M B) : M B :=
  fun st => match m st with
            | (DOk a, st') => f a st'
            | (DErr e, st') => (DErr e, st')
            | (DAbort, st') => (DAbort, st')
            end.

Section Decoder.
  Variable limit : option Z.
  Variable avail : Z.

  (* DecoderImpl::claim_bytes_read: checked_add, then `bytes_read > limit` *)
  Definition claim (n : Z) : M unit := fun st =>
    match limit with
    | None => (DOk tt, st)
    | Some lim =>
        let c := d_claimed st + n in
        if (c >? u64_max) || (c >? lim) then (DErr ELimit, st)
        else (DOk tt, mk_dstate (d_rest st) c (d_allocs st))
    end.

  (* SliceReader::read / peek_read + consume of exactly n bytes *)
  Definition take (n : Z) : M bytes := fun st =>
    if Z.of_nat (length (d_rest st)) <? n then (DErr EEnd, st)
    else (DOk (firstn (Z.to_nat n) (d_rest st)),
          mk_dstate (skipn (Z.to_nat n) (d_rest st)) (d_claimed st) (d_allocs st)).

  (* `vec![0u8; n]` *)
  Definition alloc (n : Z) : M unit := fun st =>
    if zsum (d_allocs st) + n >? avail then (DAbort, st)
    else (DOk tt, mk_dstate (d_rest st) (d_claimed st) (n :: d_allocs st)).

  (* u8::decode *)
  Definition dec_u8 : M Z :=
    bind (claim 1) (fun _ => bind (take 1) (fun b => ret (hd 0 b))).

  (* varint_decode_u64: the 9-byte fast path and the cold path return the same value / error
     on every input (the fast path is taken when >= 9 bytes remain) *)
  Definition varint_dec : M Z :=
    bind (take 1) (fun d =>
      let b := hd 0 d in
      if b <=? 250 then ret b
      else if b =? 251 then bind (take 2) (fun l => ret (le_value l))
      else if b =? 252 then bind (take 4) (fun l => ret (le_value l))
      else if b =? 253 then bind (take 8) (fun l => ret (le_value l))
      else fun st => (DErr EDiscriminant, st)).

  (* u64::decode (also every usize field: serde routes usize through deserialize_u64) *)
  Definition dec_u64 : M Z := bind (claim 8) (fun _ => varint_dec).

  (* Vec<u8>::decode: decode_slice_len, claim_container_read::<u8>(len), vec![0u8; len], read *)
  Definition dec_vec_u8 : M bytes :=
    bind dec_u64 (fun len =>
    bind (claim len) (fun _ =>          (* a no-op when no limit is configured *)
    bind (alloc len) (fun _ => take len))).

  (* String::decode *)
  Definition dec_string : M bytes :=
    bind dec_vec_u8 (fun b => if utf8_valid b then ret b else fun st => (DErr EUtf8, st)).

  Definition dec_meta : M cmeta :=
    bind dec_u64 (fun tn => bind dec_string (fun lnt => bind dec_u8 (fun pp =>
    ret (mk_cmeta tn lnt pp)))).

  Definition dec_state : M cstate :=
    bind dec_string (fun pid => bind dec_u64 (fun cni => bind dec_u64 (fun ts =>
    bind dec_u64 (fun pc => bind dec_string (fun cks => bind dec_string (fun em =>
    bind dec_meta (fun md => ret (mk_cstate pid cni ts pc cks em md)))))))).

  (* decode_from_slice(bytes, config): trailing bytes are ignored *)
  Definition decode_run (b : bytes) : dres cstate * dstate := dec_state (mk_dstate b 0 []).
  Definition decode (b : bytes) : dres cstate := fst (decode_run b).
  (* the allocation requests performed while decoding b (whatever the outcome) *)
  Definition decode_allocs (b : bytes) : list Z := d_allocs (snd (decode_run b)).
End Decoder.

(* what the limit accounting charges for a complete record: 8 per integer (whatever its width on
   the wire), 8 + length per string, 1 for the u8 *)
Definition claim_total (s : cstate) : Z :=
  65 + Z.of_nat (length (pipeline_id s)) + Z.of_nat (length (checksum s))
     + Z.of_nat (length (exec_mode s)) + Z.of_nat (length (last_node_type (metadata s))).

(* src/checkpoint.rs: MAX_CHECKPOINT_DECODE_BYTES *)
Definition ckpt_limit : Z := 16777216.

Definition is_u64 (v : Z) : Prop := 0 <= v <= u64_max.
Definition is_byte (v : Z) : Prop := 0 <= v <= 255.

(* a value of the Rust type: numbers in range, strings valid UTF-8 *)
Definition wf_state (s : cstate) : Prop :=
  utf8_valid (pipeline_id s) = true /\ is_u64 (completed_node_index s) /\ is_u64 (timestamp s)
  /\ is_u64 (partition_count s) /\ utf8_valid (checksum s) = true
  /\ utf8_valid (exec_mode s) = true /\ is_u64 (total_nodes (metadata s))
  /\ utf8_valid (last_node_type (metadata s)) = true /\ is_byte (progress_percent (metadata s)).
