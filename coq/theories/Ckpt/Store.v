(* Model of the checkpoint store of src/checkpoint.rs (CheckpointManager) over a directory model.
   Definitions only; proofs are in Proofs/CkptStore.v, Proofs/CkptRetention.v.

   INTERFACE (used by Ckpt/Runner.v, property C11):
     name  = file name as bytes;  dir = finite map name -> file content, as an association list
             (`dir_ok d` = no name twice);  dir_lookup / dir_write / dir_remove / dir_names
     readdir : dir -> list name    the OS directory listing; the only thing assumed about it is
                                   `forall d, Permutation (readdir d) (dir_names d)` (arbitrary order)
     H : bytes -> bytes            SHA-256 as an arbitrary function (digest bytes)
     save readdir max d s          = save_checkpoint   (write, then retention for s's pipeline)
     load H avail d n / load_bytes = load_checkpoint   (decode with the 16 MiB limit, checksum re-check)
     retain readdir max pid d      = cleanup_old_checkpoints
     latest readdir enabled pid d  = find_latest_checkpoint
     clear readdir pid d           = clear_checkpoints
     should_checkpoint ...         = should_checkpoint (clock readings are inputs)
   Not represented: sub-directories and special files inside the checkpoint directory, I/O errors
   other than "cannot create a file of that name" and "no such file". *)
From Coq Require Import List ZArith Bool.
From IB Require Import Ckpt.Bincode.
Import ListNotations.
Open Scope Z_scope.

(* ------------------------------------------------------------------ byte strings *)
Fixpoint bytes_eqb (a b : bytes) : bool :=
  match a, b with
  | [], [] => true
  | x :: a', y :: b' => (x =? y) && bytes_eqb a' b'
  | _, _ => false
  end.

(* str::strip_prefix *)
Fixpoint strip_prefix (p l : bytes) : option bytes :=
  match p, l with
  | [], _ => Some l
  | x :: p', y :: l' => if x =? y then strip_prefix p' l' else None
  | _ :: _, [] => None
  end.
(* str::strip_suffix *)
Definition strip_suffix (suf l : bytes) : option bytes :=
  match strip_prefix (rev suf) (rev l) with Some r => Some (rev r) | None => None end.

Definition s_checkpoint_ : bytes := [99;104;101;99;107;112;111;105;110;116;95]. (* "checkpoint_" *)
Definition s_bin : bytes := [46;98;105;110].                                     (* ".bin" *)
Definition c_us : Z := 95.      (* '_' *)
Definition c_colon : Z := 58.   (* ':' *)
Definition c_plus : Z := 43.    (* '+' *)

(* ------------------------------------------------------------------ decimal numbers *)
(* `{}` of u64 / usize: canonical decimal, least significant digit first, then reversed.
   fuel = 1 + log2 n >= number of digits (kept logarithmic so that vm_compute never builds a
   unary number of the size of n). *)
Fixpoint digits_rev (fuel : nat) (n : Z) : bytes :=
  match fuel with
  | O => []
  | S f => (48 + n mod 10) :: (if n <? 10 then [] else digits_rev f (n / 10))
  end.
Definition dec (n : Z) : bytes := rev (digits_rev (S (Z.to_nat (Z.log2 n))) n).

(* <u64 as FromStr>::from_str: optional single leading '+', then one or more ASCII digits (leading
   zeros allowed), value <= u64::MAX; everything else (empty, "+", '-', spaces, overflow) is an error *)
Definition is_digit (b : Z) : bool := in_rng 48 57 b.
Fixpoint parse_digits (acc : Z) (l : bytes) : option Z :=
  match l with
  | [] => Some acc
  | d :: r =>
      if is_digit d then
        let a := acc * 10 + (d - 48) in
        if a >? u64_max then None else parse_digits a r
      else None
  end.
Definition parse_u64 (l : bytes) : option Z :=
  match l with
  | [] => None
  | b :: r =>
      if b =? c_plus then (match r with [] => None | _ :: _ => parse_digits 0 r end)
      else parse_digits 0 l
  end.

(* ------------------------------------------------------------------ checksum *)
(* format!("{:x}", digest): two lower-case hex digits per byte *)
Definition hex_digit (n : Z) : Z := if n <? 10 then 48 + n else 87 + n.
Definition hex (l : bytes) : bytes :=
  flat_map (fun b => [hex_digit (b / 16); hex_digit (b mod 16)]) l.

(* load_checkpoint: format!("{}:{}:{}:{}", pipeline_id, completed_node_index, timestamp, partition_count) *)
Definition meta_str (s : cstate) : bytes :=
  pipeline_id s ++ [c_colon] ++ dec (completed_node_index s) ++ [c_colon] ++ dec (timestamp s)
  ++ [c_colon] ++ dec (partition_count s).

(* the fields the checksum protects *)
Definition protected (s : cstate) : bytes * Z * Z * Z :=
  (pipeline_id s, completed_node_index s, timestamp s, partition_count s).

(* ------------------------------------------------------------------ outcomes *)
Inductive lerr : Type :=
| LMissing              (* File::open failed: no such file *)
| LDecode (e : derr)    (* "Failed to deserialize checkpoint" *)
| LChecksum             (* "Checkpoint integrity check failed: checksum mismatch" *)
| LCreate.              (* File::create failed: the name is not a creatable file name *)

Inductive outcome (A : Type) : Type :=
| Ok (a : A)
| Err (e : lerr)
| Abort.                (* the process panics / aborts *)
Arguments Ok {A} a.
Arguments Err {A} e.
Arguments Abort {A}.

(* ------------------------------------------------------------------ directory model *)
Definition name := bytes.
Definition dir := list (name * bytes).

Definition dir_names (d : dir) : list name := map fst d.
Fixpoint dir_lookup (d : dir) (n : name) : option bytes :=
  match d with
  | [] => None
  | (k, v) :: r => if bytes_eqb k n then Some v else dir_lookup r n
  end.
Definition dir_remove (d : dir) (n : name) : dir :=
  filter (fun e => negb (bytes_eqb (fst e) n)) d.
Definition dir_write (d : dir) (n : name) (b : bytes) : dir := (n, b) :: dir_remove d n.
Definition dir_remove_all (d : dir) (ns : list name) : dir := fold_left dir_remove ns d.
Definition dir_ok (d : dir) : Prop := NoDup (dir_names d).

(* ------------------------------------------------------------------ file names *)
Definition ckpt_prefix (pid : bytes) : bytes := s_checkpoint_ ++ pid ++ [c_us].
(* save_checkpoint: format!("checkpoint_{}_{}.bin", pipeline_id, timestamp) *)
Definition ckpt_name (pid : bytes) (ts : Z) : name := ckpt_prefix pid ++ dec ts ++ s_bin.

(* checkpoint_file_timestamp(name, prefix) *)
Definition file_ts (prefix : bytes) (n : name) : option Z :=
  match strip_prefix prefix n with
  | None => None
  | Some r => match strip_suffix s_bin r with None => None | Some t => parse_u64 t end
  end.
Definition is_ckpt (pid : bytes) (n : name) : bool :=
  match file_ts (ckpt_prefix pid) n with Some _ => true | None => false end.
(* the sort key of find_latest_checkpoint / cleanup_old_checkpoints (`.unwrap_or(0)`) *)
Definition ts_key (pid : bytes) (n : name) : Z :=
  match file_ts (ckpt_prefix pid) n with Some t => t | None => 0 end.

(* a name File::create can create inside the (flat) directory on Linux: no '/', no NUL, at most
   255 bytes. (pipeline_id is caller-chosen; the runner only uses 16 hex digits.) *)
Definition name_ok (n : name) : bool :=
  (Z.of_nat (length n) <=? 255) && forallb (fun b => negb (b =? 47) && negb (b =? 0)) n.

(* Vec::sort_by_key: stable; insertion sort (an element goes before the first strictly greater or
   equal-keyed later element, so equal keys keep their listing order) *)
Section Sort.
  Variable key : name -> Z.
  Fixpoint insert_by (x : name) (l : list name) : list name :=
    match l with
    | [] => [x]
    | y :: r => if key x <=? key y then x :: l else y :: insert_by x r
    end.
  Definition sort_by (l : list name) : list name := fold_right insert_by [] l.
End Sort.

Section Store.
  Variable readdir : dir -> list name.   (* directory listing, in the order the OS returns it *)

  (* the three identical directory filters *)
  Definition ckpts_of (pid : bytes) (d : dir) : list name := filter (is_ckpt pid) (readdir d).

  (* cleanup_old_checkpoints(pipeline_id) with config.max_checkpoints = max *)
  Definition retain (max : option Z) (pid : bytes) (d : dir) : dir :=
    match max with
    | None => d
    | Some m =>
        let cks := ckpts_of pid d in
        let n := Z.of_nat (length cks) in
        if n <=? m then d
        else dir_remove_all d (firstn (Z.to_nat (n - m)) (sort_by (ts_key pid) cks))
    end.

  (* save_checkpoint: create + write + fsync, then cleanup for this state's pipeline id.
     Returns the file name (Ok even when retention has already deleted that very file). *)
  Definition save (max : option Z) (d : dir) (s : cstate) : outcome name * dir :=
    let n := ckpt_name (pipeline_id s) (timestamp s) in
    if name_ok n then (Ok n, retain max (pipeline_id s) (dir_write d n (encode s)))
    else (Err LCreate, d).

  (* find_latest_checkpoint: None when disabled or no file of this pipeline; else the last of the
     stably sorted list *)
  Definition latest (enabled : bool) (pid : bytes) (d : dir) : option name :=
    if enabled then
      match ckpts_of pid d with
      | [] => None
      | cks => Some (last (sort_by (ts_key pid) cks) [])
      end
    else None.

  (* clear_checkpoints *)
  Definition clear (pid : bytes) (d : dir) : dir := dir_remove_all d (ckpts_of pid d).
End Store.

Section Load.
  Variable H : bytes -> bytes.   (* SHA-256: any function from bytes to digest bytes *)
  Variable avail : Z.            (* what the allocator can serve, see Bincode.v *)

  (* compute_checksum *)
  Definition compute_checksum (data : bytes) : bytes := hex (H data).

  (* load_checkpoint on the content of the file *)
  Definition load_bytes (b : bytes) : outcome cstate :=
    match decode (Some ckpt_limit) avail b with
    | DOk s =>
        if bytes_eqb (compute_checksum (meta_str s)) (checksum s) then Ok s else Err LChecksum
    | DErr e => Err (LDecode e)
    | DAbort => Abort
    end.

  Definition load (d : dir) (n : name) : outcome cstate :=
    match dir_lookup d n with
    | None => Err LMissing
    | Some b => load_bytes b
    end.
End Load.

(* ------------------------------------------------------------------ should_checkpoint *)
Inductive policy : Type :=
| AfterEveryBarrier
| EveryNNodes (n : Z)
| TimeInterval (secs : Z)
| Hybrid (barriers : bool) (interval_secs : Z).

(* last.is_none_or(|last| now.duration_since(last).is_ok_and(|e| e >= Duration::from_secs(secs)));
   clock readings in nanoseconds; `last` = time of the previous successful save_checkpoint of this
   manager (save_checkpoint sets it to SystemTime::now()) *)
Definition time_due (last : option Z) (now secs : Z) : bool :=
  match last with
  | None => true
  | Some t => (t <=? now) && (secs * 1000000000 <=? now - t)
  end.

(* should_checkpoint(node_index, is_barrier, _total_nodes); usize::is_multiple_of(0) is `== 0` *)
Definition should_checkpoint (enabled : bool) (pol : policy) (last : option Z) (now : Z)
           (node_index : Z) (is_barrier : bool) : bool :=
  if enabled then
    match pol with
    | AfterEveryBarrier => is_barrier
    | EveryNNodes n =>
        (0 <? node_index) && (if n =? 0 then node_index =? 0 else node_index mod n =? 0)
    | TimeInterval secs => time_due last now secs
    | Hybrid barriers secs => (barriers && is_barrier) || time_due last now secs
    end
  else false.
