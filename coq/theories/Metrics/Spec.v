(* Vocabulary used in the statements of the C16 theorems (definitions only). *)
From Coq Require Import List ZArith NArith Bool.
From IB Require Import Metrics.Metrics.
Import ListNotations.

(* section x leaves counter n alone except by an atomic increment *)
Definition incr_only (n : name) (x : section) : bool :=
  match x with
  | SIncr _ _ => true
  | SSet k _ => negb (Z.eqb k n)
  | SReg k _ => negb (Z.eqb k n)
  | SStart _ | SEnd _ => true
  | SIncrOldRead k _ => negb (Z.eqb k n)
  end.
(* ... or by an atomic increment or a set_counter *)
Definition incr_or_set (n : name) (x : section) : bool :=
  match x with
  | SIncr _ _ | SSet _ _ => true
  | SReg k _ => negb (Z.eqb k n)
  | SStart _ | SEnd _ => true
  | SIncrOldRead k _ => negb (Z.eqb k n)
  end.
Definition call_incr_only (n : name) (c : call) : bool := forallb (incr_only n) (sections_of c).
Definition call_incr_or_set (n : name) (c : call) : bool := forallb (incr_or_set n) (sections_of c).

(* sum of all increments of counter n issued by a pool of threads *)
Definition total_increments (n : name) (threads : list (list call)) : N :=
  sum_incr_threads n (compile threads).

(* name n is not bound to a non-counter metric *)
Definition not_other (n : name) (s : mstate) : bool :=
  match lookup n (ms_metrics s) with Some (Other _) => false | _ => true end.

(* the last set_counter on n in a linearisation, with the sections executed after it *)
Fixpoint last_set (n : name) (tr : list section) : option (N * list section) :=
  match tr with
  | [] => None
  | x :: r =>
      match last_set n r with
      | Some p => Some p
      | None => match x with
                | SSet k v => if Z.eqb k n then Some (v, r) else None
                | _ => None
                end
      end
  end.

(* x is a set_counter on n / an atomic increment of n *)
Definition has_set (n : name) (x : section) : bool :=
  match x with SSet k _ => Z.eqb k n | _ => false end.
Definition has_incr (n : name) (x : section) : bool :=
  match x with SIncr k _ => Z.eqb k n | _ => false end.

(* the code as it stands: no call is the pre-fix increment *)
Definition current_section (x : section) : bool :=
  match x with SIncrOldRead _ _ => false | _ => true end.
Definition current_call (c : call) : bool := forallb current_section (sections_of c).

(* u64 budget: everything the counters hold plus everything the calls may add *)
Definition metric_volume (m : metric) : N := match m with Counter c => c | Other _ => 0%N end.
Definition store_volume (s : store) : N :=
  fold_right (fun p acc => (metric_volume (snd p) + acc)%N) 0%N s.
Definition section_volume (x : section) : N :=
  match x with
  | SIncr _ v | SSet _ v | SIncrOldRead _ v => v
  | SReg _ m => metric_volume m
  | _ => 0%N
  end.
Definition worklist_volume (w : worklist) : N :=
  fold_right (fun x acc => (section_volume x + acc)%N) 0%N w.
Definition pool_volume (ts : list worklist) : N :=
  fold_right (fun w acc => (worklist_volume w + acc)%N) 0%N ts.
Definition budget (s : mstate) (threads : list (list call)) : N :=
  (store_volume (ms_metrics s) + pool_volume (compile threads))%N.

(* names a call writes under (each is a key of the collector afterwards) *)
Definition call_names (c : call) : list name :=
  match c with
  | Incr n _ | SetC n _ | Reg n _ | IncrOld n _ => [n]
  | RegAll ms => map fst ms
  | RecStart _ | RecEnd _ => []
  end.
Definition section_name (x : section) : option name :=
  match x with
  | SIncr n _ | SSet n _ | SReg n _ | SIncrOldRead n _ => Some n
  | SStart _ | SEnd _ => None
  end.

(* the metric register_all leaves under name n: the LAST element of that name *)
Fixpoint last_assoc (n : name) (ms : list (name * metric)) : option metric :=
  match ms with
  | [] => None
  | (k, m) :: r =>
      match last_assoc n r with
      | Some x => Some x
      | None => if Z.eqb k n then Some m else None
      end
  end.

Definition monotone (clk : nat -> Z) : Prop := forall a b, (a <= b)%nat -> (clk a <= clk b)%Z.
