(* Model of src/metrics.rs (MetricsCollector), of the metrics plumbing of src/pipeline.rs
   (set_metrics / record_metrics_start / record_metrics_end) and of src/runner.rs: run_collect
   as far as the collector is concerned.  Definitions only (proofs: Proofs/Metrics*.v).

   Granularity: the collector is an Arc<Mutex<MetricsCollectorInner>>; every public method
   takes the lock once or several times.  One lock acquisition = one CRITICAL SECTION = one
   atomic step of the model.  A call is the list of sections it executes, a thread is a list of
   calls, a schedule is the sequence of thread ids that are granted the next section.

   Names: metric names are strings in Rust; the model uses integers (the harness maps the
   integer k to the string "c<k>", and exec_time_name to "execution_time_ms").
   Counter values: u64, modelled in N.  `count + value` is a checked addition in the profile the
   harness is built with (dev, overflow-checks = true): on overflow the thread panics WHILE
   HOLDING the lock, the Mutex is poisoned and every later `lock().unwrap()` panics.  The model
   makes that explicit (ms_poisoned) instead of hiding it. *)
From Coq Require Import List ZArith NArith Bool.
Import ListNotations.

Definition name := Z.
Definition U64_MOD : N := 18446744073709551616%N.

(* Box<dyn Metric>: a CounterMetric (the only kind increment_counter can update: downcast_ref)
   or anything else (GaugeMetric, HistogramMetric, user types), identified by an opaque tag. *)
Inductive metric := Counter (c : N) | Other (tag : Z).

Definition metric_eqb (a b : metric) : bool :=
  match a, b with
  | Counter x, Counter y => N.eqb x y
  | Other x, Other y => Z.eqb x y
  | _, _ => false
  end.

(* HashMap<String, Box<dyn Metric>> as an association list without duplicate keys *)
Definition store := list (name * metric).

Fixpoint lookup (n : name) (s : store) : option metric :=
  match s with
  | [] => None
  | (k, m) :: r => if Z.eqb k n then Some m else lookup n r
  end.

(* HashMap::insert: replaces the value of an existing key, adds a missing one *)
Fixpoint insert (n : name) (m : metric) (s : store) : store :=
  match s with
  | [] => [(n, m)]
  | (k, x) :: r => if Z.eqb k n then (k, m) :: r else (k, x) :: insert n m r
  end.

(* MetricsCollectorInner { metrics, start_time, end_time } + the poison flag of its Mutex.
   Instants are integers (nanoseconds of a monotone clock, an oracle input). *)
Record mstate := MS {
  ms_metrics : store;
  ms_start : option Z;
  ms_end : option Z;
  ms_poisoned : bool
}.

Definition empty_state : mstate := MS [] None None false.     (* MetricsCollector::new *)

Definition set_metrics (f : store -> store) (s : mstate) : mstate :=
  MS (f (ms_metrics s)) (ms_start s) (ms_end s) (ms_poisoned s).
Definition poison (s : mstate) : mstate :=
  MS (ms_metrics s) (ms_start s) (ms_end s) true.

(* ---------- critical sections ---------- *)
Inductive section :=
| SIncr (n : name) (v : N)          (* increment_counter AS IT STANDS: read-modify-write, one lock *)
| SSet (n : name) (v : N)           (* set_counter *)
| SReg (n : name) (m : metric)      (* register (metric.name() = n) *)
| SStart (t : Z)                    (* record_start, Instant::now() = t *)
| SEnd (t : Z)                      (* record_end *)
| SIncrOldRead (n : name) (v : N).  (* PRE-FIX increment_counter (before commit e2bce57): first lock
                                       acquisition reads the counter; the write happens in a
                                       second acquisition (set_counter) *)

(* One critical section: new state and the sections the SAME call still has to run afterwards.
   Transcribes the bodies in src/metrics.rs between `inner.lock().unwrap()` and the guard drop. *)
Definition exec_section (x : section) (s : mstate) : mstate * list section :=
  if ms_poisoned s then (s, [])       (* lock().unwrap() panics; the call does nothing *)
  else
    match x with
    | SIncr n v =>
        match lookup n (ms_metrics s) with
        | Some (Counter c) =>
            if N.ltb (c + v) U64_MOD then (set_metrics (insert n (Counter (c + v))) s, [])
            else (poison s, [])                      (* `counter.count + value` overflows *)
        | Some (Other _) => (s, [])                  (* downcast fails: nothing happens *)
        | None => (set_metrics (insert n (Counter v)) s, [])
        end
    | SSet n v => (set_metrics (insert n (Counter v)) s, [])
    | SReg n m => (set_metrics (insert n m) s, [])
    | SStart t => (MS (ms_metrics s) (Some t) (ms_end s) false, [])
    | SEnd t => (MS (ms_metrics s) (ms_start s) (Some t) false, [])
    | SIncrOldRead n v =>
        match lookup n (ms_metrics s) with
        | Some (Counter c) =>
            if N.ltb (c + v) U64_MOD then (s, [SSet n (c + v)])   (* drop(inner); set_counter(..) *)
            else (poison s, [])
        | Some (Other _) => (s, [])
        | None => (set_metrics (insert n (Counter v)) s, [])
        end
    end.

(* ---------- API calls and the sections they run ---------- *)
Inductive call :=
| Incr (n : name) (v : N)                  (* increment_counter(name, v) *)
| SetC (n : name) (v : N)                  (* set_counter(name, v) *)
| Reg (n : name) (m : metric)              (* register(Box<dyn Metric>) *)
| RegAll (ms : list (name * metric))       (* register_all: one `register` per element, in order *)
| RecStart (t : Z)
| RecEnd (t : Z)
| IncrOld (n : name) (v : N).              (* the pre-fix increment_counter, for the regression *)

Arguments Counter c%N.
Arguments Other tag%Z.
Arguments SIncr n%Z v%N.
Arguments SSet n%Z v%N.
Arguments SReg n%Z m.
Arguments SStart t%Z.
Arguments SEnd t%Z.
Arguments SIncrOldRead n%Z v%N.
Arguments Incr n%Z v%N.
Arguments SetC n%Z v%N.
Arguments Reg n%Z m.
Arguments RecStart t%Z.
Arguments RecEnd t%Z.
Arguments IncrOld n%Z v%N.

Definition sections_of (c : call) : list section :=
  match c with
  | Incr n v => [SIncr n v]
  | SetC n v => [SSet n v]
  | Reg n m => [SReg n m]
  | RegAll ms => map (fun p => SReg (fst p) (snd p)) ms
  | RecStart t => [SStart t]
  | RecEnd t => [SEnd t]
  | IncrOld n v => [SIncrOldRead n v]
  end.

(* a thread = the sections it still has to run *)
Definition worklist := list section.
Definition compile_thread (cs : list call) : worklist := flat_map sections_of cs.
Definition compile (ts : list (list call)) : list worklist := map compile_thread ts.

(* ---------- schedules ---------- *)
(* Grant one turn to thread `tid`: it runs its next critical section.  A finished (or missing)
   thread ignores the grant.  Returns the executed section for the trace. *)
Fixpoint step (tid : nat) (ts : list worklist) (s : mstate)
  : list worklist * mstate * option section :=
  match ts with
  | [] => ([], s, None)
  | w :: r =>
      match tid with
      | O =>
          match w with
          | [] => (ts, s, None)
          | x :: w' => let '(s', k) := exec_section x s in ((k ++ w') :: r, s', Some x)
          end
      | S t => let '(r', s', ev) := step t r s in (w :: r', s', ev)
      end
  end.

Fixpoint run_full (sched : list nat) (ts : list worklist) (s : mstate)
  : list worklist * mstate * list section :=
  match sched with
  | [] => (ts, s, [])
  | t :: rest =>
      let '(ts1, s1, ev) := step t ts s in
      let '(ts2, s2, tr) := run_full rest ts1 s1 in
      (ts2, s2, match ev with Some x => x :: tr | None => tr end)
  end.

Definition run (sched : list nat) (ts : list worklist) (s : mstate) : mstate :=
  snd (fst (run_full sched ts s)).
Definition remaining (sched : list nat) (ts : list worklist) (s : mstate) : list worklist :=
  fst (fst (run_full sched ts s)).
(* the linearisation: critical sections in the order in which they were executed *)
Definition trace (sched : list nat) (ts : list worklist) (s : mstate) : list section :=
  snd (run_full sched ts s).

Definition all_done (ts : list worklist) : bool :=
  forallb (fun w => match w with [] => true | _ => false end) ts.
(* a schedule is complete for a thread pool when every thread has run to its end *)
Definition complete (sched : list nat) (ts : list worklist) (s : mstate) : bool :=
  all_done (remaining sched ts s).

(* When a schedule is used up before the threads are, the harness lets thread 0 run to its end,
   then thread 1, ...  (a section leaves at most one further section behind, hence 2 * length) *)
Definition drain_sched (ts : list worklist) : list nat :=
  flat_map (fun t => repeat t (2 * length (nth t ts []))) (seq 0 (length ts)).
Definition run_drained (sched : list nat) (ts : list worklist) (s : mstate) : mstate :=
  let '(ts1, s1, _) := run_full sched ts s in run (drain_sched ts1) ts1 s1.

(* sequential execution of a list of sections (one thread alone) *)
Definition exec_seq (tr : list section) (s : mstate) : mstate :=
  fold_left (fun st x => fst (exec_section x st)) tr s.
(* a single-threaded script of calls on the current code *)
Definition run_calls (cs : list call) (s : mstate) : mstate := exec_seq (compile_thread cs) s.

(* ---------- observers ---------- *)
Definition counter_of (n : name) (s : mstate) : option N :=
  match lookup n (ms_metrics s) with Some (Counter c) => Some c | _ => None end.
(* counter value with "missing" read as 0 (what increment_counter starts from) *)
Definition cval (n : name) (s : mstate) : N :=
  match counter_of n s with Some c => c | None => 0%N end.

(* elapsed(): Some(end.duration_since(start)); Instant::duration_since saturates at zero *)
Definition elapsed (s : mstate) : option Z :=
  match ms_start s, ms_end s with
  | Some a, Some b => Some (Z.max 0 (b - a))
  | _, _ => None
  end.

(* to_json(): one key per stored metric, plus "execution_time_ms" when both stamps are present
   (serde_json::Map::insert: a user metric of that very name is replaced by the time object) *)
Definition exec_time_name : name := (-1)%Z.
Inductive jentry := JMetric (m : metric) | JTime (ms : Z).
Fixpoint jinsert (n : name) (e : jentry) (l : list (name * jentry)) : list (name * jentry) :=
  match l with
  | [] => [(n, e)]
  | (k, x) :: r => if Z.eqb k n then (k, e) :: r else (k, x) :: jinsert n e r
  end.
Definition to_json (s : mstate) : list (name * jentry) :=
  let base := map (fun p => (fst p, JMetric (snd p))) (ms_metrics s) in
  match elapsed s with
  | Some d => jinsert exec_time_name (JTime (d / 1000000)) base
  | None => base
  end.
Definition json_keys (s : mstate) : list name := map fst (to_json s).
(* the "value" of the execution_time_ms entry of to_json (None: no such entry, or a user metric):
   end.duration_since(start).as_millis() of the SAME two stamps elapsed() reads; the clock counts
   nanoseconds *)
Fixpoint jlookup (n : name) (l : list (name * jentry)) : option jentry :=
  match l with
  | [] => None
  | (k, x) :: r => if Z.eqb k n then Some x else jlookup n r
  end.
Definition json_time (s : mstate) : option Z :=
  match jlookup exec_time_name (to_json s) with Some (JTime ms) => Some ms | _ => None end.

(* sum of the increments of counter n in a list of sections / calls *)
Definition incr_amount (n : name) (x : section) : N :=
  match x with SIncr k v => if Z.eqb k n then v else 0%N | _ => 0%N end.
Definition sum_incr (n : name) (tr : list section) : N :=
  fold_right (fun x acc => (incr_amount n x + acc)%N) 0%N tr.
Definition sum_incr_threads (n : name) (ts : list worklist) : N :=
  fold_right (fun w acc => (sum_incr n w + acc)%N) 0%N ts.

(* ---------- run_collect (src/runner.rs) and the pipeline's optional collector ---------- *)
Inductive outcome (A : Type) : Type := Ok (a : A) | Err (e : Z) | Panic.
Arguments Ok {A} a.
Arguments Err {A} e.
Arguments Panic {A}.

(* Pipeline::record_metrics_start / _end: `if let Some(ref metrics) = g.metrics { .. }` *)
Definition record_metrics_start (attached : bool) (t : Z) (m : mstate) : mstate :=
  if attached then fst (exec_section (SStart t) m) else m.
Definition record_metrics_end (attached : bool) (t : Z) (m : mstate) : mstate :=
  if attached then fst (exec_section (SEnd t) m) else m.

(* Runner::run_collect.  `plan` is the result of build_plan(p, terminal) (reads nodes and edges
   through Pipeline::snapshot, never the collector), `exec` the chosen engine on the plan's chain
   (exec_seq / exec_par / the checkpointing variants take the chain only).  clk is the clock
   oracle, i and j the indices of the two Instant::now() reads.
     - `build_plan(..)?` returns early on Err: record_metrics_end is NOT reached;
     - an Err of the engine is returned AFTER record_metrics_end;
     - a panic unwinds past record_metrics_end;
     - if the attached collector's Mutex is poisoned (an earlier panic inside one of its critical
       sections), record_start's `lock().unwrap()` panics and so does run_collect.
   The collector is assumed not to be used by other threads while run_collect runs. *)
Definition run_collect {C R : Type} (attached : bool) (plan : outcome C) (exec : C -> outcome R)
           (clk : nat -> Z) (i j : nat) (m : mstate) : outcome R * mstate :=
  if attached && ms_poisoned m then (Panic, m)
  else
    let m1 := record_metrics_start attached (clk i) m in
    match plan with
    | Err e => (Err e, m1)
    | Panic => (Panic, m1)
    | Ok c =>
        match exec c with
        | Panic => (Panic, m1)
        | r => (r, record_metrics_end attached (clk j) m1)
        end
    end.

(* ---------- the pipeline's metrics slot (src/pipeline.rs: `metrics: Option<MetricsCollector>`) ---------- *)
(* A MetricsCollector is a handle (Arc) on shared state: collectors are numbered, ps_colls holds
   the state behind each handle and the slot holds a handle.
     set_metrics(m):  g.metrics = Some(m)        the slot is REPLACED, whatever it held
     take_metrics():  g.metrics.take()           returns the slot and empties it
     get_metrics():   g.metrics.clone()          returns a handle on the same state
   A run stamps the collector in the slot (record_metrics_start/_end look at g.metrics at the time
   of the call) and no other. *)
Record pstate := PS { ps_slot : option nat; ps_colls : list mstate }.
Definition p_set_metrics (k : nat) (p : pstate) : pstate := PS (Some k) (ps_colls p).
Definition p_take_metrics (p : pstate) : option nat * pstate := (ps_slot p, PS None (ps_colls p)).
Definition p_get_metrics (p : pstate) : option nat := ps_slot p.
Fixpoint upd {A : Type} (k : nat) (x : A) (l : list A) : list A :=
  match l, k with
  | [], _ => []
  | _ :: r, O => x :: r
  | y :: r, S k' => y :: upd k' x r
  end.
Definition coll (k : nat) (p : pstate) : mstate := nth k (ps_colls p) empty_state.
Definition run_on {C R : Type} (plan : outcome C) (exec : C -> outcome R) (clk : nat -> Z)
           (i j : nat) (p : pstate) : outcome R * pstate :=
  match ps_slot p with
  | Some k =>
      let rm := run_collect true plan exec clk i j (coll k p) in
      (fst rm, PS (ps_slot p) (upd k (snd rm) (ps_colls p)))
  | None => (fst (run_collect false plan exec clk i j empty_state), p)
  end.
