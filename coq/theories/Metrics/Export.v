(* Model of the EXPORT side of src/metrics.rs, down to the bytes:

     to_json()        the serde_json::Value it builds (serde_json::Map is a BTreeMap here: the crate
                      does not enable `preserve_order`, so keys come out in byte order of the strings)
     to_string_pretty serde_json's PrettyFormatter (indent = two spaces), `{}` on a Value = the
                      CompactFormatter; string escaping = serde_json::ser::format_escaped_str
     snapshot()       name -> value() of the stored metrics (canonical view: sorted by name)
     print()          the text written to stdout
     save_to_file()   to_json, File::create (create + TRUNCATE), to_string_pretty, write_all - on a
                      byte-level file model in which a write at offset 0 that does not truncate
                      leaves the tail of a longer old file in place (write_at0); the variant that
                      opens the file without truncating (OpenOptions::new().write(true)
                      .create(true)) is modelled next to it for the regression theorem.

   Definitions only (proofs: Proofs/MetricsExport.v).  The collector state is Metrics.mstate;
   what a non-counter metric (`Other tag`) returns from value() / description() and how a model
   name is spelled are parameters (record env): user Metric implementations are arbitrary. *)
From Coq Require Import List ZArith NArith Bool String Ascii.
From IB Require Import Metrics.Metrics.
Import ListNotations.
Open Scope Z_scope.

(* ---------- bytes and strings ---------- *)
Definition text := list Z.                       (* a byte string; Rust String / file content *)

Fixpoint txt (s : string) : text :=
  match s with
  | EmptyString => []
  | String a r => Z.of_N (N_of_ascii a) :: txt r
  end.
Arguments txt s%string.

Fixpoint text_eqb (a b : text) : bool :=
  match a, b with
  | [], [] => true
  | x :: a', y :: b' => if x =? y then text_eqb a' b' else false
  | _, _ => false
  end.

(* <str as Ord>::cmp == Less: bytewise lexicographic, a proper prefix is smaller *)
Fixpoint text_ltb (a b : text) : bool :=
  match a, b with
  | _, [] => false
  | [], _ :: _ => true
  | x :: a', y :: b' => if x <? y then true else if y <? x then false else text_ltb a' b'
  end.

(* decimal digits of an unsigned integer (itoa): the standard library's conversion to a decimal
   numeral, digit by digit as bytes *)
Fixpoint uint_text (d : Decimal.uint) : text :=
  match d with
  | Decimal.Nil => []
  | Decimal.D0 r => 48 :: uint_text r
  | Decimal.D1 r => 49 :: uint_text r
  | Decimal.D2 r => 50 :: uint_text r
  | Decimal.D3 r => 51 :: uint_text r
  | Decimal.D4 r => 52 :: uint_text r
  | Decimal.D5 r => 53 :: uint_text r
  | Decimal.D6 r => 54 :: uint_text r
  | Decimal.D7 r => 55 :: uint_text r
  | Decimal.D8 r => 56 :: uint_text r
  | Decimal.D9 r => 57 :: uint_text r
  end.
Definition dec (n : N) : text := uint_text (N.to_uint n).

(* ---------- serde_json::Value ---------- *)
Inductive jv :=
| JNull
| JBool (b : bool)
| JNat (n : N)                     (* Number from a u64 / usize / non-negative i64 *)
| JRaw (literal : text)            (* any other Number, given by the literal ryu/itoa prints *)
| JStr (s : text)
| JArr (l : list jv)
| JObj (l : list (text * jv)).     (* Map<String, Value> = BTreeMap: sorted by key, keys distinct *)

(* BTreeMap::insert on the sorted association list: a present key keeps its place and gets the
   new value *)
Fixpoint bt_insert {A : Type} (k : text) (v : A) (l : list (text * A)) : list (text * A) :=
  match l with
  | [] => [(k, v)]
  | (k', v') :: r =>
      if text_ltb k k' then (k, v) :: l
      else if text_ltb k' k then (k', v') :: bt_insert k v r
      else (k, v) :: r
  end.
Fixpoint bt_lookup {A : Type} (k : text) (l : list (text * A)) : option A :=
  match l with
  | [] => None
  | (k', v) :: r => if text_eqb k k' then Some v else bt_lookup k r
  end.

(* ---------- serde_json::ser ---------- *)
Definition hex_digit (d : Z) : Z := if d <? 10 then 48 + d else 87 + d.       (* lower case *)
(* format_escaped_str_contents: the double quote, the backslash and the control characters; everything else (DEL, UTF-8
   continuation bytes) is written as it is *)
Definition escape_byte (b : Z) : text :=
  if b =? 34 then [92; 34]
  else if b =? 92 then [92; 92]
  else if b =? 8 then [92; 98]
  else if b =? 12 then [92; 102]
  else if b =? 10 then [92; 110]
  else if b =? 13 then [92; 114]
  else if b =? 9 then [92; 116]
  else if b <? 32 then [92; 117; 48; 48; hex_digit (b / 16); hex_digit (b mod 16)]
  else [b].
Definition quote (t : text) : text := 34 :: flat_map escape_byte t ++ [34].

Definition scalar_text (v : jv) : text :=
  match v with
  | JNull => txt "null"
  | JBool true => txt "true"
  | JBool false => txt "false"
  | JNat n => dec n
  | JRaw t => t
  | JStr s => quote s
  | _ => []
  end.

(* CompactFormatter: what `{}` (Display) and to_string print *)
Fixpoint compact (v : jv) : text :=
  match v with
  | JArr l =>
      91 :: (fix go (first : bool) (l : list jv) : text :=
               match l with
               | [] => []
               | x :: r => (if first then [] else [44]) ++ compact x ++ go false r
               end) true l ++ [93]
  | JObj l =>
      123 :: (fix go (first : bool) (l : list (text * jv)) : text :=
                match l with
                | [] => []
                | (k, x) :: r => (if first then [] else [44]) ++ quote k ++ [58] ++ compact x ++ go false r
                end) true l ++ [125]
  | _ => scalar_text v
  end.

(* PrettyFormatter::new() (indent "  "): an empty array / object is [] / {}; otherwise every
   element on its own line, one level deeper; "key": value *)
Definition indent (lvl : nat) : text := List.concat (repeat [32; 32] lvl).
Fixpoint pretty_at (lvl : nat) (v : jv) : text :=
  match v with
  | JArr [] => [91; 93]
  | JArr l =>
      91 :: (fix go (first : bool) (l : list jv) : text :=
               match l with
               | [] => []
               | x :: r => (if first then [10] else [44; 10]) ++ indent (S lvl) ++ pretty_at (S lvl) x
                           ++ go false r
               end) true l ++ [10] ++ indent lvl ++ [93]
  | JObj [] => [123; 125]
  | JObj l =>
      123 :: (fix go (first : bool) (l : list (text * jv)) : text :=
                match l with
                | [] => []
                | (k, x) :: r => (if first then [10] else [44; 10]) ++ indent (S lvl) ++ quote k
                                 ++ [58; 32] ++ pretty_at (S lvl) x ++ go false r
                end) true l ++ [10] ++ indent lvl ++ [125]
  | _ => scalar_text v
  end.
Definition pretty (v : jv) : text := pretty_at 0 v.              (* serde_json::to_string_pretty *)

(* ---------- the environment: user metrics and the spelling of names ---------- *)
Record env := Env {
  e_name : name -> text;            (* the Rust string of a model name *)
  e_val : Z -> jv;                  (* Metric::value() of the non-counter metric `Other tag` *)
  e_desc : Z -> option text         (* Metric::description() of it *)
}.
Definition TIME_KEY : text := txt "execution_time_ms".
Definition TIME_DESC : text := txt "Total pipeline execution time in milliseconds".
Definition KEY_VALUE : text := txt "value".
Definition KEY_DESC : text := txt "description".

(* CounterMetric: value() = json!(count), description() = None (the trait's default) *)
Definition metric_value (E : env) (m : metric) : jv :=
  match m with Counter c => JNat c | Other t => e_val E t end.
Definition metric_desc (E : env) (m : metric) : option text :=
  match m with Counter _ => None | Other t => e_desc E t end.

(* to_json: metric_obj = { "value": .., "description": .. } - a Map, so "description" comes first *)
Definition metric_obj (E : env) (m : metric) : jv :=
  JObj (match metric_desc E m with Some d => [(KEY_DESC, JStr d)] | None => [] end
        ++ [(KEY_VALUE, metric_value E m)]).
Definition time_obj (ms : Z) : jv :=
  JObj [(KEY_DESC, JStr TIME_DESC); (KEY_VALUE, JNat (Z.to_N ms))].

(* the Map to_json fills: one insert per stored metric (any iteration order of the HashMap gives
   the same BTreeMap), then - when both stamps are there - the execution time, which REPLACES a
   user metric stored under that very name *)
Definition export_base (E : env) (st : store) : list (text * jv) :=
  fold_left (fun acc p => bt_insert (e_name E (fst p)) (metric_obj E (snd p)) acc) st [].
Definition export_entries (E : env) (s : mstate) : list (text * jv) :=
  match elapsed s with
  | Some d => bt_insert TIME_KEY (time_obj (d / 1000000)) (export_base E (ms_metrics s))
  | None => export_base E (ms_metrics s)
  end.
Definition export_json (E : env) (s : mstate) : jv := JObj (export_entries E s).
Definition export_text (E : env) (s : mstate) : text := pretty (export_json E s).

(* snapshot(): HashMap name -> value(); canonical view = the same map sorted by name *)
Definition snapshot_entries (E : env) (s : mstate) : list (text * jv) :=
  fold_left (fun acc p => bt_insert (e_name E (fst p)) (metric_value E (snd p)) acc) (ms_metrics s) [].
Definition snapshot_json (E : env) (s : mstate) : jv := JObj (snapshot_entries E s).

(* ---------- print() ---------- *)
Definition pad3 (n : Z) : text :=
  [48 + (n / 100) mod 10; 48 + (n / 10) mod 10; 48 + n mod 10].
(* `{:.3}` of elapsed.as_secs_f64(): the duration rounded to whole milliseconds (round half up
   here; the binary float decides an exact tie of d ns = x.xxx5 s, see secs3_alt) *)
Definition secs3_of_ms (r : Z) : text := dec (Z.to_N (r / 1000)) ++ [46] ++ pad3 (r mod 1000).
Definition secs3 (d : Z) : text := secs3_of_ms ((d + 500000) / 1000000).
Definition secs3_alt (d : Z) : text :=
  if d mod 1000000 =? 500000 then secs3_of_ms (d / 1000000) else secs3 d.

(* sorted_metrics.sort_by_key(name): the stored metrics in byte order of their names *)
Definition print_entries (E : env) (s : mstate) : list (text * metric) :=
  fold_left (fun acc p => bt_insert (e_name E (fst p)) (snd p) acc) (ms_metrics s) [].
Definition metric_line (E : env) (p : text * metric) : text :=
  fst p ++ [58; 32] ++ compact (metric_value E (snd p)) ++
  match metric_desc E (snd p) with Some d => [32; 40] ++ d ++ [41] | None => [] end.
Definition time_lines (secs : Z -> text) (s : mstate) : list text :=
  match elapsed s with
  | Some d => [txt "Execution Time: " ++ secs d ++ txt "s (" ++ dec (Z.to_N (d / 1000000)) ++ txt " ms)";
               txt "--------------------------------------"]
  | None => []
  end.
Definition print_lines_with (secs : Z -> text) (E : env) (s : mstate) : list text :=
  [[]; txt "========== Pipeline Metrics =========="] ++ time_lines secs s ++
  map (metric_line E) (print_entries E s) ++
  [txt "======================================"; []].
Definition unlines (ls : list text) : text := flat_map (fun l => l ++ [10]) ls.
Definition print_text (E : env) (s : mstate) : text := unlines (print_lines_with secs3 E s).
Definition print_text_alt (E : env) (s : mstate) : text := unlines (print_lines_with secs3_alt E s).

(* ---------- files ---------- *)
Definition path := Z.
(* the directory: path -> content.  Paths >= 0 can be created; a negative path stands for one that
   cannot (missing parent directory, or the path of a directory): File::create fails on it *)
Definition fs := list (path * text).
Fixpoint fs_read (p : path) (f : fs) : option text :=
  match f with
  | [] => None
  | (q, t) :: r => if q =? p then Some t else fs_read p r
  end.
Fixpoint fs_set (p : path) (t : text) (f : fs) : fs :=
  match f with
  | [] => [(p, t)]
  | (q, u) :: r => if q =? p then (q, t) :: r else (q, u) :: fs_set p t r
  end.
Fixpoint fs_remove (p : path) (f : fs) : fs :=
  match f with
  | [] => []
  | (q, u) :: r => if q =? p then r else (q, u) :: fs_remove p r
  end.
Definition creatable (p : path) : bool := 0 <=? p.

(* write_all at offset 0 of a file that holds `old`: the bytes beyond the written ones stay *)
Definition write_at0 (data old : text) : text := data ++ skipn (List.length data) old.
(* File::create: OpenOptions write + create + truncate *)
Definition file_create (p : path) (f : fs) : fs := fs_set p [] f.
(* OpenOptions::new().write(true).create(true).open(path): an existing file keeps its content *)
Definition file_open_keep (p : path) (f : fs) : fs :=
  match fs_read p f with Some _ => f | None => fs_set p [] f end.
Definition file_write_all (p : path) (data : text) (f : fs) : fs :=
  match fs_read p f with Some old => fs_set p (write_at0 data old) f | None => f end.

(* MetricsCollector::save_to_file as it stands *)
Definition save_to_file (E : env) (p : path) (s : mstate) (f : fs) : outcome unit * fs :=
  if ms_poisoned s then (Panic, f)                              (* to_json: lock().unwrap() *)
  else if creatable p then (Ok tt, file_write_all p (export_text E s) (file_create p f))
  else (Err 0, f).
(* ... and with the file opened without truncation (the regression the check guards against) *)
Definition save_to_file_keep (E : env) (p : path) (s : mstate) (f : fs) : outcome unit * fs :=
  if ms_poisoned s then (Panic, f)
  else if creatable p then (Ok tt, file_write_all p (export_text E s) (file_open_keep p f))
  else (Err 0, f).

(* ---------- scripts: several collectors, several paths ---------- *)
Inductive xstep :=
| XCall (c : call)                       (* a call on the current collector *)
| XSave (p : path)                       (* current collector .save_to_file(p) *)
| XRemove (p : path)                     (* the environment removes the file *)
| XForeign (p : path) (data : text)      (* the environment puts some other file there *)
| XUse (k : nat)                         (* go on with collector k *)
| XSleep (ms : Z).                       (* time passes *)

Record world := W { w_colls : list mstate; w_cur : nat; w_fs : fs }.
Definition cur (w : world) : mstate := nth (w_cur w) (w_colls w) empty_state.
Definition fresh_world (ncoll : nat) : world := W (repeat empty_state ncoll) 0 [].

Definition xstep_run (E : env) (x : xstep) (w : world) : world * outcome unit :=
  match x with
  | XCall c =>
      let s' := run_calls [c] (cur w) in
      (W (upd (w_cur w) s' (w_colls w)) (w_cur w) (w_fs w),
       if ms_poisoned s' && negb (match sections_of c with [] => true | _ => false end)
       then Panic else Ok tt)
  | XSave p =>
      let '(r, f) := save_to_file E p (cur w) (w_fs w) in (W (w_colls w) (w_cur w) f, r)
  | XRemove p => (W (w_colls w) (w_cur w) (fs_remove p (w_fs w)), Ok tt)
  | XForeign p data => (W (w_colls w) (w_cur w) (fs_set p data (w_fs w)), Ok tt)
  | XUse k => (W (w_colls w) k (w_fs w), Ok tt)
  | XSleep _ => (w, Ok tt)
  end.
Definition xrun (E : env) (xs : list xstep) (w : world) : world :=
  fold_left (fun w x => fst (xstep_run E x w)) xs w.

(* the step does something to path p *)
Definition touches (p : path) (x : xstep) : bool :=
  match x with
  | XSave q | XRemove q | XForeign q _ => q =? p
  | _ => false
  end.

(* ---------- vocabulary of the statements ---------- *)
(* strictly increasing in byte order (hence without duplicates) *)
Fixpoint keys_sorted (l : list text) : bool :=
  match l with
  | a :: ((b :: _) as r) => text_ltb a b && keys_sorted r
  | _ => true
  end.
(* the "value" field of an exported metric object *)
Definition obj_value (v : jv) : option jv :=
  match v with JObj l => bt_lookup KEY_VALUE l | _ => None end.
(* reading an escaped string back (the inverse of flat_map escape_byte, as a JSON parser does it
   for the escapes serde_json writes) *)
Definition unhex_digit (c : Z) : Z := if c <? 58 then c - 48 else c - 87.
Definition unescape1 (x : Z) : Z :=
  if x =? 98 then 8 else if x =? 102 then 12 else if x =? 110 then 10
  else if x =? 114 then 13 else if x =? 116 then 9 else x.
Fixpoint unescape (l : text) : text :=
  match l with
  | [] => []
  | c :: r =>
      if c =? 92 then
        match r with
        | [] => []
        | x :: r1 =>
            if x =? 117 then
              match r1 with
              | _ :: _ :: h :: g :: r2 => (16 * unhex_digit h + unhex_digit g) :: unescape r2
              | _ => []
              end
            else unescape1 x :: unescape r1
        end
      else c :: unescape r
  end.
Definition is_byte (b : Z) : Prop := 0 <= b < 256.
