(* Model of HistogramMetric (src/metrics.rs): new / with_values / record / stats.  Definitions only
   (proofs: Proofs/MetricsHistogram.v).

   Samples are f64 in Rust; the model takes them as integers - multiples of a unit small enough
   for every sample and every partial sum to be exact in binary64 (the harness uses quarters
   below 2^50).  NaN samples are outside the model (sort_by(partial_cmp .. unwrap_or(Equal)) is not
   a total order then).  `mean = sum / count as f64` is one correctly rounded division of two
   exact numbers: the model keeps sum and count. *)
From Coq Require Import List ZArith Bool.
Import ListNotations.
Open Scope Z_scope.

Definition samples := list Z.

(* HistogramMetric::new: no values; with_values: the given ones; record: push *)
Definition hist_new : samples := [].
Definition hist_with_values (vs : list Z) : samples := vs.
Definition hist_record (v : Z) (h : samples) : samples := h ++ [v].

(* sorted.sort_by(partial_cmp): any correct sort gives the same list of numbers *)
Fixpoint ins (x : Z) (l : list Z) : list Z :=
  match l with
  | [] => [x]
  | y :: r => if x <=? y then x :: l else y :: ins x r
  end.
Definition sort_samples (l : samples) : list Z := fold_right ins [] l.

Definition zsum (l : list Z) : Z := fold_right Z.add 0 l.

Record hstats := HS {
  hs_count : nat; hs_sum : Z; hs_min : Z; hs_max : Z; hs_p50 : Z; hs_p95 : Z; hs_p99 : Z
}.
Definition hist_default : hstats := HS 0 0 0 0 0 0 0.        (* HistogramStats::default() *)

(* sorted[i]: an index out of range panics (None) *)
Definition pick (sorted : list Z) (i : nat) : option Z := nth_error sorted i.

(* stats(): default when empty; otherwise count, sum, min = sorted[0], max = sorted[count - 1],
   p50 = sorted[count / 2], p95 = sorted[count * 95 / 100], p99 = sorted[count * 99 / 100] *)
Definition stats (values : samples) : option hstats :=
  match values with
  | [] => Some hist_default
  | _ =>
      let sorted := sort_samples values in
      let n := List.length sorted in
      match pick sorted 0, pick sorted (n - 1), pick sorted (n / 2)%nat,
            pick sorted (n * 95 / 100)%nat, pick sorted (n * 99 / 100)%nat with
      | Some a, Some b, Some c, Some d, Some e => Some (HS n (zsum sorted) a b c d e)
      | _, _, _, _, _ => None
      end
  end.
