(* C08 model, part 5: what a Source node READS (definitions only; proofs: Proofs/PipelineSource.v).

   The graph model (Graph.v) carries `NSource d`: a source node is the list of rows every run
   obtains from it.  This file models where that list comes from for the sources a user can
   create through the public API, and shows (in the proofs) that it is ONE list: the same for
   the sequential and the parallel engine, for every partition count, however often and in
   whatever order the sources that share an adapter object are read.

   Transcribes:
     src/type_token.rs   trait VecOps {len, split, clone_any};  VecOpsImpl<T>
     src/node.rs         Node::Source {payload: Arc<dyn Any>, vec_ops: Arc<dyn VecOps>}
     src/helpers/stdlib.rs  from_vec (payload Vec<T>, VecOpsImpl), from_custom_source (any
                         payload, any user VecOps)
     src/runner.rs       exec_seq / run_subplan_seq, Source arm:  clone_any(..).ok_or(..)?
                         exec_par / run_subplan_par, head:
                           total_len = len(..).unwrap_or(0);
                           parts = partitions.max(1).min(total_len.max(1));
                           split(payload, parts).unwrap_or_else(|| vec![clone_any(..).expect(..)])
     src/io/jsonl.rs     JsonlShards, build_jsonl_shards, read_jsonl_range, JsonlVecOps
     src/io/csv.rs       CsvShards, build_csv_shards, read_csv_range, CsvVecOps
     src/io/parquet.rs   ParquetShards, build_parquet_shards, read_parquet_row_group_range,
                         ParquetVecOps
     src/helpers/{jsonl,csv,parquet}.rs  read_*_streaming = insert Source{build_*_shards(..),
                         <Format>VecOps::new()}
   The shard arithmetic (`ranges`, `group_ranges`, `slice`) is the C09 model IO/Shards.v.

   A file is its content at the time of the run: a JSONL file a list of lines, each a row or a
   blank line (blank lines count for the line ranges and are skipped by the reader); a CSV file
   its list of data rows (the header is consumed by the reader); a Parquet file its list of row
   groups.  Lines that do not parse are C09's subject and not modelled here. *)
From Coq Require Import List Arith NArith Bool.
From IB Require Import IO.Shards.
Import ListNotations.
Close Scope N_scope.
Open Scope nat_scope.

Section Source.
  Variable V : Type.

  (* ---------- trait VecOps: the adapter knows how to read a payload of type P ---------- *)
  Record vec_ops (P : Type) : Type := mk_ops {
    vo_len : P -> option nat;
    vo_split : P -> nat -> option (list (list V));
    vo_clone : P -> option (list V)
  }.
  Arguments vo_len {P} _ _.
  Arguments vo_split {P} _ _ _.
  Arguments vo_clone {P} _ _.

  (* Node::Source: a payload and the adapter that reads it (the element TypeTag plays no role
     in execution) *)
  Record source : Type := mk_source {
    s_P : Type;
    s_ops : vec_ops s_P;
    s_payload : s_P
  }.

  Inductive rd (A : Type) : Type := ROk (a : A) | RErr | RPanic.
  Arguments ROk {A} a.
  Arguments RErr {A}.
  Arguments RPanic {A}.

  (* runner.rs exec_seq / run_subplan_seq, Source arm *)
  Definition seq_read (s : source) : rd (list V) :=
    match vo_clone (s_ops s) (s_payload s) with
    | Some l => ROk l
    | None => RErr                      (* "unsupported source vec type" *)
    end.

  (* runner.rs exec_par / run_subplan_par, head source *)
  Definition par_parts (s : source) (partitions : nat) : nat :=
    let total := match vo_len (s_ops s) (s_payload s) with Some n => n | None => 0 end in
    Nat.min (Nat.max partitions 1) (Nat.max total 1).
  Definition par_head (s : source) (partitions : nat) : rd (list (list V)) :=
    match vo_split (s_ops s) (s_payload s) (par_parts s partitions) with
    | Some ps => ROk ps
    | None =>
        match vo_clone (s_ops s) (s_payload s) with
        | Some l => ROk [l]
        | None => RPanic                (* .expect("cloneable source") *)
        end
    end.
  (* a source that is collected directly: the terminal concatenates the partitions in order *)
  Definition par_read (s : source) (partitions : nat) : rd (list V) :=
    match par_head s partitions with
    | ROk ps => ROk (concat ps)
    | RErr => RErr
    | RPanic => RPanic
    end.

  (* the contract the engines rely on: clone_any yields the rows, and whenever split answers,
     its partitions are the rows in order *)
  Definition lawful {P} (o : vec_ops P) (p : P) (rows : list V) : Prop :=
    vo_clone o p = Some rows /\
    forall n ps, vo_split o p n = Some ps -> concat ps = rows.

  (* ---------- VecOpsImpl<T> (from_vec) ---------- *)
  (* `v.chunks(k)`, k > 0; fuel = |v| suffices *)
  Fixpoint chunks_fuel (fuel k : nat) (l : list V) : list (list V) :=
    match fuel with
    | O => []
    | S f => match l with
             | [] => []
             | _ => firstn k l :: chunks_fuel f k (skipn k l)
             end
    end.
  Definition chunks (k : nat) (l : list V) : list (list V) := chunks_fuel (length l) k l.
  Definition div_ceil_nat (a b : nat) : nat := (a + b - 1) / b.
  Definition impl_split (v : list V) (n : nat) : list (list V) :=
    if (n <=? 1) || (length v <=? 1) then [v] else chunks (div_ceil_nat (length v) n) v.
  Definition impl_ops : vec_ops (list V) :=
    mk_ops (list V) (fun v => Some (length v)) (fun v n => Some (impl_split v n)) (fun v => Some v).
  Definition vec_source (v : list V) : source := mk_source (list V) impl_ops v.

  (* ---------- user-written adapters (from_custom_source) ---------- *)
  (* an adapter that does everything like `o` but cannot tell the length (len() = None:
     "unknown until read"; harness/src/engine.rs NoLenOps) *)
  Definition nolen_ops {P} (o : vec_ops P) : vec_ops P :=
    mk_ops P (fun _ => None) (vo_split o) (vo_clone o).

  (* a paged feed (the shape of the `from_custom_source` documentation example): the payload is a
     list of pages; len known or not; split refuses / hands out the pages / chunks the rows *)
  Inductive split_mode := SplitNone | SplitPages | SplitChunks.
  Definition pages_ops (len_known : bool) (sm : split_mode) : vec_ops (list (list V)) :=
    mk_ops (list (list V))
      (fun pg => if len_known then Some (length (concat pg)) else None)
      (fun pg n => match sm with
                   | SplitNone => None
                   | SplitPages => Some pg
                   | SplitChunks => Some (impl_split (concat pg) n)
                   end)
      (fun pg => Some (concat pg)).
  Definition pages_source (len_known : bool) (sm : split_mode) (pg : list (list V)) : source :=
    mk_source (list (list V)) (pages_ops len_known sm) pg.

  (* ---------- streamed files ---------- *)
  (* JsonlShards {path, ranges, total_lines} with the file's lines in place of the path *)
  Record line_shards : Type := mk_line_shards {
    ls_lines : list (option V);          (* None = blank line *)
    ls_ranges : list range;
    ls_total : N
  }.
  Definition rows_of_lines (ls : list (option V)) : list V :=
    flat_map (fun o => match o with Some v => [v] | None => [] end) ls.
  (* build_jsonl_shards: every line counts, blank or not *)
  Definition build_jsonl_shards (ls : list (option V)) (per : N) : line_shards :=
    mk_line_shards ls (ranges (nlen ls) per) (nlen ls).
  (* read_jsonl_range: the lines with index in [start, end), blank ones skipped *)
  Definition read_jsonl_range (ls : list (option V)) (r : range) : list V :=
    rows_of_lines (slice ls r).
  Definition jsonl_ops : vec_ops line_shards :=
    mk_ops line_shards
      (fun s => Some (N.to_nat (ls_total s)))
      (fun s _ => Some (map (read_jsonl_range (ls_lines s)) (ls_ranges s)))
      (fun s => Some (read_jsonl_range (ls_lines s) (0%N, ls_total s))).
  (* read_jsonl_streaming, or from_custom_source(build_jsonl_shards(..), JsonlVecOps::new()) *)
  Definition jsonl_source (ls : list (option V)) (per : N) : source :=
    mk_source line_shards jsonl_ops (build_jsonl_shards ls per).

  (* CsvShards {path, ranges, total_rows, has_headers}: the data rows in place of the path *)
  Record row_shards : Type := mk_row_shards {
    rs_rows : list V;
    rs_ranges : list range;
    rs_total : N
  }.
  Definition build_csv_shards (rows : list V) (per : N) : row_shards :=
    mk_row_shards rows (ranges (nlen rows) per) (nlen rows).
  Definition csv_ops : vec_ops row_shards :=
    mk_ops row_shards
      (fun s => Some (N.to_nat (rs_total s)))
      (fun s _ => Some (map (slice (rs_rows s)) (rs_ranges s)))
      (fun s => Some (slice (rs_rows s) (0%N, rs_total s))).
  Definition csv_source (rows : list V) (per : N) : source :=
    mk_source row_shards csv_ops (build_csv_shards rows per).

  (* ParquetShards {path, group_ranges, total_rows}: the row groups in place of the path *)
  Record group_shards : Type := mk_group_shards {
    gs_groups : list (list V);
    gs_ranges : list range;
    gs_total : N
  }.
  Definition build_parquet_shards (groups : list (list V)) (per : N) : group_shards :=
    mk_group_shards groups (group_ranges (nlen groups) per) (nlen (concat groups)).
  Definition read_group_range (groups : list (list V)) (r : range) : list V :=
    concat (slice groups r).
  Definition parquet_ops : vec_ops group_shards :=
    mk_ops group_shards
      (fun s => Some (N.to_nat (gs_total s)))
      (fun s _ => Some (map (read_group_range (gs_groups s)) (gs_ranges s)))
      (fun s => Some (read_group_range (gs_groups s)
                        (0%N, match rev (gs_ranges s) with r :: _ => snd r | [] => 0%N end))).
  Definition parquet_source (groups : list (list V)) (per : N) : source :=
    mk_source group_shards parquet_ops (build_parquet_shards groups per).

  (* ---------- adapter objects shared between sources; adapters WITH state ---------- *)
  (* `Arc<dyn VecOps>` is an object: nothing in the trait prevents an implementation from
     keeping state behind interior mutability.  A stateful adapter threads its state St through
     every call; the reads of a whole program are a sequence over ONE adapter object. *)
  Record st_ops (St P : Type) : Type := mk_st_ops {
    so_len : St -> P -> option nat;
    so_split : St -> P -> nat -> St * option (list (list V));
    so_clone : St -> P -> St * option (list V)
  }.
  Arguments so_len {St P} _ _ _.
  Arguments so_split {St P} _ _ _ _.
  Arguments so_clone {St P} _ _ _.

  Inductive read_mode := RdSeq | RdPar (partitions : nat).

  Definition st_read {St P} (o : st_ops St P) (st : St) (p : P) (m : read_mode)
    : St * rd (list V) :=
    match m with
    | RdSeq =>
        match so_clone o st p with
        | (st', Some l) => (st', ROk l)
        | (st', None) => (st', RErr)
        end
    | RdPar partitions =>
        let total := match so_len o st p with Some n => n | None => 0 end in
        let parts := Nat.min (Nat.max partitions 1) (Nat.max total 1) in
        match so_split o st p parts with
        | (st', Some ps) => (st', ROk (concat ps))
        | (st', None) =>
            match so_clone o st' p with
            | (st'', Some l) => (st'', ROk l)
            | (st'', None) => (st'', RPanic)
            end
        end
    end.

  (* the reads of a program, in program order, all through the same adapter object *)
  Fixpoint st_reads {St P} (o : st_ops St P) (st : St) (l : list (P * read_mode))
    : list (rd (list V)) :=
    match l with
    | [] => []
    | (p, m) :: rest => let '(st', r) := st_read o st p m in r :: st_reads o st' rest
    end.

  (* a stateless adapter (PhantomData only: VecOpsImpl, JsonlVecOps, CsvVecOps, ParquetVecOps) *)
  Definition pure_st {P} (o : vec_ops P) : st_ops unit P :=
    mk_st_ops unit P (fun _ p => vo_len o p)
              (fun st p n => (st, vo_split o p n)) (fun st p => (st, vo_clone o p)).

  (* in every state the adapter can be in, it answers with the payload's own rows (for the
     payloads `ok` it is meant for, e.g. shards built by build_jsonl_shards) *)
  Definition st_lawful {St P} (o : st_ops St P) (ok : P -> Prop) (rows : P -> list V) : Prop :=
    forall st p, ok p ->
      snd (so_clone o st p) = Some (rows p) /\
      forall n ps, snd (so_split o st p n) = Some ps -> concat ps = rows p.

  (* The adapter of the seeded change C08-r4m1: decoded shards are remembered by LINE RANGE
     ("re-collecting a source does not re-parse the file"); the key has no identity of the file *)
  Fixpoint memo_get (k : range) (m : list (range * list V)) : option (list V) :=
    match m with
    | [] => None
    | (k', v) :: r => if (N.eqb (fst k) (fst k') && N.eqb (snd k) (snd k'))%bool then Some v
                      else memo_get k r
    end.
  Definition memo_rows (m : list (range * list V)) (s : line_shards) (r : range)
    : list (range * list V) * list V :=
    match memo_get r m with
    | Some v => (m, v)
    | None => let v := read_jsonl_range (ls_lines s) r in ((r, v) :: m, v)
    end.
  Fixpoint memo_split (m : list (range * list V)) (s : line_shards) (rs : list range)
    : list (range * list V) * list (list V) :=
    match rs with
    | [] => (m, [])
    | r :: rest =>
        let '(m1, v) := memo_rows m s r in
        let '(m2, vs) := memo_split m1 s rest in (m2, v :: vs)
    end.
  Definition memo_jsonl_ops : st_ops (list (range * list V)) line_shards :=
    mk_st_ops (list (range * list V)) line_shards
      (fun _ s => Some (N.to_nat (ls_total s)))
      (fun m s _ => let '(m', ps) := memo_split m s (ls_ranges s) in (m', Some ps))
      (fun m s => let '(m', v) := memo_rows m s (0%N, ls_total s) in (m', Some v)).
End Source.

Arguments mk_ops {V P} _ _ _.
Arguments vo_len {V P} _ _.
Arguments vo_split {V P} _ _ _.
Arguments vo_clone {V P} _ _.
Arguments mk_source {V} _ _ _.
Arguments s_P {V} s.
Arguments s_ops {V} s.
Arguments s_payload {V} s.
Arguments ROk {A} a.
Arguments RErr {A}.
Arguments RPanic {A}.
Arguments seq_read {V} s.
Arguments par_parts {V} s partitions.
Arguments par_head {V} s partitions.
Arguments par_read {V} s partitions.
Arguments lawful {V P} o p rows.
Arguments chunks_fuel {V} fuel k l.
Arguments chunks {V} k l.
Arguments impl_split {V} v n.
Arguments impl_ops {V}.
Arguments vec_source {V} v.
Arguments nolen_ops {V P} o.
Arguments pages_ops {V} len_known sm.
Arguments pages_source {V} len_known sm pg.
Arguments mk_line_shards {V} _ _ _.
Arguments ls_lines {V} l.
Arguments ls_ranges {V} l.
Arguments ls_total {V} l.
Arguments rows_of_lines {V} ls.
Arguments build_jsonl_shards {V} ls per.
Arguments read_jsonl_range {V} ls r.
Arguments jsonl_ops {V}.
Arguments jsonl_source {V} ls per.
Arguments mk_row_shards {V} _ _ _.
Arguments rs_rows {V} r.
Arguments rs_ranges {V} r.
Arguments rs_total {V} r.
Arguments build_csv_shards {V} rows per.
Arguments csv_ops {V}.
Arguments csv_source {V} rows per.
Arguments mk_group_shards {V} _ _ _.
Arguments gs_groups {V} g.
Arguments gs_ranges {V} g.
Arguments gs_total {V} g.
Arguments build_parquet_shards {V} groups per.
Arguments read_group_range {V} groups r.
Arguments parquet_ops {V}.
Arguments parquet_source {V} groups per.
Arguments mk_st_ops {V St P} _ _ _.
Arguments so_len {V St P} _ _ _.
Arguments so_split {V St P} _ _ _ _.
Arguments so_clone {V St P} _ _ _.
Arguments st_read {V St P} o st p m.
Arguments st_reads {V St P} o st l.
Arguments pure_st {V P} o.
Arguments st_lawful {V St P} o ok rows.
Arguments memo_get {V} k m.
Arguments memo_rows {V} m s r.
Arguments memo_split {V} m s rs.
Arguments memo_jsonl_ops {V}.
