(* C08 model, part 1: the shared pipeline graph and what a run does with a snapshot of it.

   Transcribes (definitions only, no proofs):
     src/pipeline.rs   PipelineInner {next_id, nodes: HashMap<NodeId,Node>, edges: Vec<(NodeId,NodeId)>},
                       Pipeline::insert_node / connect / snapshot  (each = ONE critical section
                       of the single Mutex: these are the atomic steps of the model)
     src/planner.rs    backwalk_linear   (identical copy: src/helpers/joins.rs chain_from)
     src/runner.rs     exec_seq, run_subplan_seq  restricted to the node kinds that the build
                       operations of this property create (Source, Stateless, CoGroup)

   Abstraction. Elements are an arbitrary type V. `NStateless f` stands for ANY single-input node
   (Node::Stateless, GroupByKey, CombineValues, CombineGlobal): exec_seq / run_subplan_seq apply
   one function to the whole buffer for each of them, and every builder that creates one
   (map, filter, flat_map, key_by, map_values, filter_values, map_batches, map_values_batches,
   group_by_key, combine_values(_lifted), combine_globally(_lifted), apply_transform, and the
   composites distinct, distinct_per_key, top_k_per_key, the windowing helpers) is the same
   [insert_node; connect parent new] sequence, repeated once per node it inserts.
   A Stateless node carries the NAME f : F of
   a user function and a CoGroup node the NAME g : G of a join function; names are opaque to
   every build operation.  Only the execution functions of the second section take an
   interpretation of the names (interp_f, interp_g), i.e. only they can apply a user function.
   NodeId is a u64 counter; it is modelled by nat (the counter would need 2^64 insertions to
   wrap; that is outside the model). *)
From Coq Require Import List Arith Bool.
Import ListNotations.

Section Graph.
  Variables V F G : Type.

  (* src/node.rs Node, the kinds used here.  NDummy is the `Source { payload: vec![0u8] }` that
     joins.rs insert_dummy_source puts in front of every CoGroup. *)
  Inductive node : Type :=
  | NSource (d : list V)
  | NDummy
  | NStateless (f : F)
  | NCoGroup (lc rc : list node) (g : G).

  Record state : Type := mk_state {
    next_id : nat;
    nodes : list (nat * node);       (* HashMap<NodeId,Node>: association list, first match wins *)
    edges : list (nat * nat)         (* Vec<(from,to)>, push = append at the end *)
  }.

  Definition init_state : state := mk_state 0 [] [].

  (* ---- the three atomic steps (pipeline.rs) ---- *)
  Definition insert_node (s : state) (n : node) : nat * state :=
    (next_id s, mk_state (S (next_id s)) ((next_id s, n) :: nodes s) (edges s)).

  Definition connect (s : state) (a b : nat) : state :=
    mk_state (next_id s) (nodes s) (edges s ++ [(a, b)]).

  Definition snapshot (s : state) : list (nat * node) * list (nat * nat) := (nodes s, edges s).

  (* ---- HashMap get / remove on the association list ---- *)
  Fixpoint lookup (i : nat) (m : list (nat * node)) : option node :=
    match m with
    | [] => None
    | (k, n) :: r => if k =? i then Some n else lookup i r
    end.

  Fixpoint remove_key (i : nat) (m : list (nat * node)) : list (nat * node) :=
    match m with
    | [] => []
    | (k, n) :: r => if k =? i then remove_key i r else (k, n) :: remove_key i r
    end.

  (* `edges.iter().find(|(_, to)| *to == cur)`: the FIRST edge into cur *)
  Fixpoint pred_of (es : list (nat * nat)) (cur : nat) : option nat :=
    match es with
    | [] => None
    | (a, b) :: r => if b =? cur then Some a else pred_of r cur
    end.

  Inductive error : Type := EMissingNode | ENestedCoGroup | ETypeMismatch.

  Inductive outcome (A : Type) : Type :=
  | Ok (a : A)
  | Err (e : error)
  | Panic.
  Arguments Ok {A} a.
  Arguments Err {A} e.
  Arguments Panic {A}.

  (* planner.rs backwalk_linear / joins.rs chain_from.  The Rust loop removes the visited node
     from the (owned) map, so it ends after at most |nodes| rounds or with "missing node";
     fuel = |nodes| + 1 is therefore never exhausted (the 0 case is unreachable and mapped to
     the same error). `acc` is the chain built so far, already in forward order. *)
  Fixpoint backwalk (fuel : nat) (ns : list (nat * node)) (es : list (nat * nat)) (cur : nat)
           (acc : list node) : outcome (list node) :=
    match fuel with
    | O => Err EMissingNode
    | S fuel' =>
        match lookup cur ns with
        | None => Err EMissingNode
        | Some n =>
            match pred_of es cur with
            | Some from => backwalk fuel' (remove_key cur ns) es from (n :: acc)
            | None => Ok (n :: acc)
            end
        end
    end.

  Definition chain_from (snap : list (nat * node) * list (nat * nat)) (terminal : nat)
    : outcome (list node) :=
    backwalk (S (length (fst snap))) (fst snap) (snd snap) terminal [].

  (* ================= execution: the only place where user functions are applied ========== *)
  Variable interp_f : F -> list V -> list V.
  Variable interp_g : G -> list V -> list V -> list V.

  (* the type-erased partition buffer: data rows, or the dummy Vec<u8> *)
  Inductive buf : Type := BData (l : list V) | BDummy.

  (* runner.rs run_subplan_seq: one side of a CoGroup *)
  Fixpoint run_sub (chain : list node) (cur : option buf) : outcome (option buf) :=
    match chain with
    | [] => Ok cur
    | NSource d :: rest => run_sub rest (Some (BData d))
    | NDummy :: rest => run_sub rest (Some BDummy)
    | NStateless f :: rest =>
        match cur with
        | Some (BData l) => run_sub rest (Some (BData (interp_f f l)))
        | _ => Panic                       (* unwrap of None / downcast of the dummy buffer *)
        end
    | NCoGroup _ _ _ :: _ => Err ENestedCoGroup   (* "nested CoGroup not supported in subplan" *)
    end.

  (* `Ok(vec![curr.unwrap()])` followed by the downcast in the CoGroup's exec closure *)
  Definition sub_result (chain : list node) : outcome (list V) :=
    match run_sub chain None with
    | Ok (Some (BData l)) => Ok l
    | Ok _ => Panic
    | Err e => Err e
    | Panic => Panic
    end.

  (* runner.rs exec_seq *)
  Fixpoint exec_nodes (chain : list node) (cur : option buf) : outcome (option buf) :=
    match chain with
    | [] => Ok cur
    | NSource d :: rest => exec_nodes rest (Some (BData d))
    | NDummy :: rest => exec_nodes rest (Some BDummy)
    | NStateless f :: rest =>
        match cur with
        | Some (BData l) => exec_nodes rest (Some (BData (interp_f f l)))
        | _ => Panic
        end
    | NCoGroup lc rc g :: rest =>
        match sub_result lc with
        | Ok l =>
            match sub_result rc with
            | Ok r => exec_nodes rest (Some (BData (interp_g g l r)))
            | Err e => Err e
            | Panic => Panic
            end
        | Err e => Err e
        | Panic => Panic
        end
    end.

  Definition exec_chain (chain : list node) : outcome (list V) :=
    match exec_nodes chain None with
    | Ok (Some (BData l)) => Ok l
    | Ok (Some BDummy) => Err ETypeMismatch     (* "terminal type mismatch" *)
    | Ok None => Panic                          (* buf.unwrap() on an empty chain *)
    | Err e => Err e
    | Panic => Panic
    end.

  (* runner.rs run_collect after the snapshot: plan (backwalk) + execution.  The optimiser
     passes between the two are semantics-preserving on Source/Stateless/CoGroup chains
     (fusion of adjacent Stateless blocks = composition; that is property C03's subject) and
     sequential = parallel execution is property C01's; both are left out here. *)
  Definition exec_outcome (c : outcome (list node)) : outcome (list V) :=
    match c with
    | Ok chain => exec_chain chain
    | Err e => Err e
    | Panic => Panic
    end.

  Definition collect_state (s : state) (terminal : nat) : outcome (list V) :=
    exec_outcome (chain_from (snapshot s) terminal).
End Graph.

Arguments NSource {V F G} d.
Arguments NDummy {V F G}.
Arguments NStateless {V F G} f.
Arguments NCoGroup {V F G} lc rc g.
Arguments mk_state {V F G} _ _ _.
Arguments next_id {V F G} s.
Arguments nodes {V F G} s.
Arguments edges {V F G} s.
Arguments init_state {V F G}.
Arguments insert_node {V F G} s n.
Arguments connect {V F G} s a b.
Arguments snapshot {V F G} s.
Arguments lookup {V F G} i m.
Arguments remove_key {V F G} i m.
Arguments backwalk {V F G} fuel ns es cur acc.
Arguments chain_from {V F G} snap terminal.
Arguments Ok {A} a.
Arguments Err {A} e.
Arguments Panic {A}.
Arguments BData {V} l.
Arguments BDummy {V}.
Arguments run_sub {V F G} interp_f chain cur.
Arguments sub_result {V F G} interp_f chain.
Arguments exec_nodes {V F G} interp_f interp_g chain cur.
Arguments exec_chain {V F G} interp_f interp_g chain.
Arguments exec_outcome {V F G} interp_f interp_g c.
Arguments collect_state {V F G} interp_f interp_g s terminal.
