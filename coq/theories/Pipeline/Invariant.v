(* C08 model, part 3: the invariant of the concurrent pipeline graph (definitions only; the
   proofs that every atomic step preserves it are in Proofs/PipelineInv.v).

   GInv s   structural facts about the shared graph: node ids are below next_id and pairwise
            distinct; every edge (a, b) joins existing nodes and goes from an older to a newer
            node (a < b); every node has AT MOST ONE incoming edge, so the planner's "first edge
            into cur" (`edges.iter().find(..)`) is "the edge into cur".
   repr s i x   node i is the root of a sub-graph that spells the lineage term x.
   Inv c    GInv + every completed handle (pool) is represented + handle ids pairwise distinct +
            what every thread that is in the middle of a call knows (PInv) + the nodes that are
            inserted but not yet connected ("pending") belong to one thread each.

   Note on DESIGN.md section 5 C08: "b was the newest node when the edge was added" is false
   under interleavings (another thread may insert between a call's insert_node and its connect);
   what holds, and what the proof needs, is: b was inserted by the same call, is not a source and
   has no incoming edge when (a, b) is added. *)
From Coq Require Import List Arith Bool.
From IB Require Import Pipeline.Graph Pipeline.History.
Import ListNotations.

Section Invariant.
  Variables V F G : Type.
  Notation node := (node V F G).
  Notation state := (state V F G).
  Notation lineage := (lineage V F G).
  Notation handle := (handle V F G).
  Notation config := (config V F G).
  Notation tstate := (tstate V F G).
  Notation pc := (pc V F G).

  Definition keys (s : state) : list nat := map fst (nodes s).

  Record GInv (s : state) : Prop := mk_GInv {
    g_keys_lt : forall k, In k (keys s) -> k < next_id s;
    g_keys_nodup : NoDup (keys s);
    g_edges : forall a b, In (a, b) (edges s) -> a < b /\ In a (keys s) /\ In b (keys s);
    g_one_pred : NoDup (map snd (edges s))
  }.

  Inductive repr (s : state) : nat -> lineage -> Prop :=
  | repr_src : forall i d,
      lookup i (nodes s) = Some (NSource d) -> pred_of (edges s) i = None ->
      repr s i (LSrc d)
  | repr_derive : forall i j f p,
      lookup i (nodes s) = Some (NStateless f) -> pred_of (edges s) i = Some j -> j < i ->
      repr s j p -> repr s i (LDerive f p)
  | repr_join : forall i j g l r,
      lookup i (nodes s) = Some (NCoGroup (chain_of l) (chain_of r) g) ->
      pred_of (edges s) i = Some j -> j < i ->
      lookup j (nodes s) = Some NDummy -> pred_of (edges s) j = None ->
      repr s i (LJoin g l r).

  (* a node that may still be the target of a `connect` *)
  Definition not_source (n : node) : Prop :=
    match n with NStateless _ | NCoGroup _ _ _ => True | _ => False end.

  Definition hrepr (s : state) (h : handle) : Prop := repr s (h_id h) (h_lin h).

  (* what a thread that is inside a call knows about the graph *)
  Definition PInv (s : state) (p : pc) : Prop :=
    match p with
    | PDerive1 f ph i =>
        hrepr s ph /\ lookup i (nodes s) = Some (NStateless f) /\
        pred_of (edges s) i = None /\ h_id ph < i
    | PJoin1 g l r lc => hrepr s l /\ hrepr s r /\ lc = chain_of (h_lin l)
    | PJoin2 g l r lc rc =>
        hrepr s l /\ hrepr s r /\ lc = chain_of (h_lin l) /\ rc = chain_of (h_lin r)
    | PJoin3 g l r lc rc d =>
        lc = chain_of (h_lin l) /\ rc = chain_of (h_lin r) /\
        lookup d (nodes s) = Some NDummy /\ pred_of (edges s) d = None
    | PJoin4 g l r d i =>
        lookup d (nodes s) = Some NDummy /\ pred_of (edges s) d = None /\
        lookup i (nodes s) = Some (NCoGroup (chain_of (h_lin l)) (chain_of (h_lin r)) g) /\
        pred_of (edges s) i = None /\ d < i
    | PCollect1 x => hrepr s x
    | PCollect2 x plan => plan = Ok (chain_of (h_lin x))
    end.

  Definition TInv (s : state) (ts : tstate) : Prop :=
    match ts with Busy p => PInv s p | _ => True end.

  (* the node a thread has inserted and will `connect` INTO with its next-but-last step *)
  Definition pending (ts : tstate) : option nat :=
    match ts with
    | Busy (PDerive1 _ _ i) => Some i
    | Busy (PJoin4 _ _ _ _ i) => Some i
    | _ => None
    end.

  Record Inv (c : config) : Prop := mk_Inv {
    i_graph : GInv (c_state c);
    i_pool : forall x, In x (c_pool c) -> hrepr (c_state c) x;
    i_ids : NoDup (map h_id (c_pool c));
    i_threads : forall t, TInv (c_state c) (c_threads c t);
    i_pending : forall t1 t2 i, t1 <> t2 ->
        pending (c_threads c t1) = Some i -> pending (c_threads c t2) = Some i -> False
  }.

  (* the graph only grows: nodes are added in front, edges appended *)
  Definition extends (s s' : state) : Prop :=
    next_id s <= next_id s' /\
    (exists ns, nodes s' = ns ++ nodes s) /\
    (exists es, edges s' = edges s ++ es).
End Invariant.

Arguments keys {V F G} s.
Arguments GInv {V F G} s.
Arguments g_keys_lt {V F G} s _ k _.
Arguments g_keys_nodup {V F G} s _.
Arguments g_edges {V F G} s _ a b _.
Arguments g_one_pred {V F G} s _.
Arguments repr {V F G} s _ _.
Arguments repr_src {V F G} s i d _ _.
Arguments repr_derive {V F G} s i j f p _ _ _ _.
Arguments repr_join {V F G} s i j g l r _ _ _ _ _.
Arguments not_source {V F G} n.
Arguments hrepr {V F G} s h.
Arguments PInv {V F G} s p.
Arguments TInv {V F G} s ts.
Arguments pending {V F G} ts.
Arguments Inv {V F G} c.
Arguments i_graph {V F G} c _.
Arguments i_pool {V F G} c _ x _.
Arguments i_ids {V F G} c _.
Arguments i_threads {V F G} c _ t.
Arguments i_pending {V F G} c _ t1 t2 i _ _ _.
Arguments extends {V F G} s s'.
