(* C08 model, part 2: API calls as sequences of atomic steps, threads, histories, lineage.

   Transcribes (definitions only):
     src/helpers/stdlib.rs  from_vec            = [insert_node Source]
     src/helpers/common.rs  map / filter / flat_map, src/collection.rs apply_transform
                                                = [insert_node Stateless; connect parent new]
     src/helpers/joins.rs   join_inner/left/right/full (four textual copies of one sequence)
                                                = [snapshot (chain_from left); snapshot (chain_from
                                                   right); insert_node dummy Source; insert_node
                                                   CoGroup{left_chain,right_chain}; connect dummy cogroup]
     src/runner.rs          run_collect (default features: metrics on)
                                                = [record_metrics_start; snapshot; record_metrics_end]
                                                  the two metrics steps take the pipeline lock but
                                                  do not touch the graph; planning and execution
                                                  after the snapshot are pure.
   One atomic step = one acquisition of the pipeline Mutex = one `yield_point("pipeline")`.

   A handle (PCollection {pipeline, id}) is its node id; the model additionally carries, as
   ghost data, the LINEAGE term recorded when the handle was created.  No step looks at the
   lineage of a handle; steps use `h_id` only.

   Threads: any number, identified by nat.  A label (t, None) lets busy thread t perform the
   next atomic step of its current call; (t, Some c) lets idle thread t start call c and
   perform its first atomic step.  Arguments of a call are indices into the pool of COMPLETED
   handles (a handle enters the pool with the last atomic step of its creating call), so a
   history is valid exactly when every call uses only handles whose creating call has returned.
   Nothing in this file mentions an interpretation of the function names: building, and even the
   snapshot/backwalk part of collecting, cannot apply a user function. *)
From Coq Require Import List Arith Bool.
From IB Require Import Pipeline.Graph.
Import ListNotations.

Section History.
  Variables V F G : Type.
  Notation node := (node V F G).
  Notation state := (state V F G).

  (* the expression tree of a collection *)
  Inductive lineage : Type :=
  | LSrc (d : list V)
  | LDerive (f : F) (p : lineage)
  | LJoin (g : G) (l r : lineage).

  Record handle : Type := mk_handle { h_id : nat; h_lin : lineage }.

  (* the chain a backwalk from a collection with this lineage must produce *)
  Fixpoint chain_of (x : lineage) : list node :=
    match x with
    | LSrc d => [NSource d]
    | LDerive f p => chain_of p ++ [NStateless f]
    | LJoin g l r => [NDummy; NCoGroup (chain_of l) (chain_of r) g]
    end.

  Inductive call : Type :=
  | CSource (d : list V)
  | CDerive (f : F) (p : nat)          (* parent: index into the pool *)
  | CJoin (g : G) (l r : nat)
  | CCollect (x : nat).

  (* where a thread is inside its current call (what it holds in local variables) *)
  Inductive pc : Type :=
  | PDerive1 (f : F) (p : handle) (new : nat)                       (* inserted; connect pending *)
  | PJoin1 (g : G) (l r : handle) (lc : list node)                  (* left chain captured *)
  | PJoin2 (g : G) (l r : handle) (lc rc : list node)               (* both chains captured *)
  | PJoin3 (g : G) (l r : handle) (lc rc : list node) (dummy : nat) (* dummy source inserted *)
  | PJoin4 (g : G) (l r : handle) (dummy cg : nat)                  (* CoGroup inserted; connect pending *)
  | PCollect1 (x : handle)                                          (* metrics start done *)
  | PCollect2 (x : handle) (plan : outcome (list node)).            (* snapshot taken and walked *)

  (* Dead: the call panicked (`chain_from(..).expect(..)` in the joins) *)
  Inductive tstate : Type := Idle | Busy (p : pc) | Dead.

  Inductive event : Type :=
  | EvHandle (t : nat) (h : handle)                          (* a build call returned h *)
  | EvCollect (t : nat) (x : handle) (plan : outcome (list node))
      (* a collect of x returned; its value is `exec_outcome interp plan` (Graph.v) *)
  | EvPanic (t : nat).

  Record config : Type := mk_config {
    c_state : state;
    c_threads : nat -> tstate;
    c_pool : list handle
  }.

  Definition init_config : config := mk_config init_state (fun _ => Idle) [].

  Definition set_thread (ts : nat -> tstate) (t : nat) (x : tstate) : nat -> tstate :=
    fun u => if u =? t then x else ts u.

  Definition label : Type := (nat * option call)%type.

  (* result of one atomic step of one thread: new graph, new local state, handle completed
     (goes to the pool), event *)
  Definition tresult : Type := (state * tstate * option handle * list event)%type.

  Definition start_call (t : nat) (s : state) (pool : list handle) (c : call) : option tresult :=
    match c with
    | CSource d =>
        let '(i, s') := insert_node s (NSource d) in
        let h := mk_handle i (LSrc d) in
        Some (s', Idle, Some h, [EvHandle t h])
    | CDerive f p =>
        match nth_error pool p with
        | Some ph =>
            let '(i, s') := insert_node s (NStateless f) in
            Some (s', Busy (PDerive1 f ph i), None, [])
        | None => None
        end
    | CJoin g l r =>
        match nth_error pool l, nth_error pool r with
        | Some lh, Some rh =>
            match chain_from (snapshot s) (h_id lh) with
            | Ok lc => Some (s, Busy (PJoin1 g lh rh lc), None, [])
            | _ => Some (s, Dead, None, [EvPanic t])
            end
        | _, _ => None
        end
    | CCollect x =>
        match nth_error pool x with
        | Some xh => Some (s, Busy (PCollect1 xh), None, [])     (* record_metrics_start *)
        | None => None
        end
    end.

  Definition continue_call (t : nat) (s : state) (p : pc) : tresult :=
    match p with
    | PDerive1 f ph i =>
        let h := mk_handle i (LDerive f (h_lin ph)) in
        (connect s (h_id ph) i, Idle, Some h, [EvHandle t h])
    | PJoin1 g lh rh lc =>
        match chain_from (snapshot s) (h_id rh) with
        | Ok rc => (s, Busy (PJoin2 g lh rh lc rc), None, [])
        | _ => (s, Dead, None, [EvPanic t])
        end
    | PJoin2 g lh rh lc rc =>
        let '(d, s') := insert_node s NDummy in
        (s', Busy (PJoin3 g lh rh lc rc d), None, [])
    | PJoin3 g lh rh lc rc d =>
        let '(i, s') := insert_node s (NCoGroup lc rc g) in
        (s', Busy (PJoin4 g lh rh d i), None, [])
    | PJoin4 g lh rh d i =>
        let h := mk_handle i (LJoin g (h_lin lh) (h_lin rh)) in
        (connect s d i, Idle, Some h, [EvHandle t h])
    | PCollect1 xh =>
        (s, Busy (PCollect2 xh (chain_from (snapshot s) (h_id xh))), None, [])
    | PCollect2 xh plan =>
        (s, Idle, None, [EvCollect t xh plan])                   (* record_metrics_end *)
    end.

  Definition tstep (t : nat) (s : state) (pool : list handle) (ts : tstate) (oc : option call)
    : option tresult :=
    match ts, oc with
    | Idle, Some c => start_call t s pool c
    | Busy p, None => Some (continue_call t s p)
    | _, _ => None
    end.

  Definition cstep (cfg : config) (l : label) : option (config * list event) :=
    let '(t, oc) := l in
    match tstep t (c_state cfg) (c_pool cfg) (c_threads cfg t) oc with
    | Some (s', ts', oh, evs) =>
        Some (mk_config s' (set_thread (c_threads cfg) t ts')
                        (match oh with Some h => c_pool cfg ++ [h] | None => c_pool cfg end),
              evs)
    | None => None
    end.

  Fixpoint run (cfg : config) (ls : list label) : option (config * list event) :=
    match ls with
    | [] => Some (cfg, [])
    | l :: rest =>
        match cstep cfg l with
        | Some (cfg', evs) =>
            match run cfg' rest with
            | Some (cfg'', evs') => Some (cfg'', evs ++ evs')
            | None => None
            end
        | None => None
        end
    end.

  Fixpoint handles_of (evs : list event) : list handle :=
    match evs with
    | [] => []
    | EvHandle _ h :: r => h :: handles_of r
    | _ :: r => handles_of r
    end.

  (* does this label perform a step of a collect call? *)
  Definition is_collect_label (cfg : config) (l : label) : bool :=
    match c_threads cfg (fst l), snd l with
    | Idle, Some (CCollect _) => true
    | Busy (PCollect1 _), None => true
    | Busy (PCollect2 _ _), None => true
    | _, _ => false
    end.

  (* ================= the value of a collection, from its lineage alone ================= *)
  Variable interp_f : F -> list V -> list V.
  Variable interp_g : G -> list V -> list V -> list V.

  (* a join is the root of the main chain: such a collection cannot be an input of a further
     join (runner.rs: "nested CoGroup not supported in subplan") *)
  Fixpoint root_is_join (x : lineage) : bool :=
    match x with
    | LSrc _ => false
    | LDerive _ p => root_is_join p
    | LJoin _ _ _ => true
    end.

  Fixpoint value_of_lineage (x : lineage) : outcome (list V) :=
    match x with
    | LSrc d => Ok d
    | LDerive f p =>
        match value_of_lineage p with
        | Ok l => Ok (interp_f f l)
        | o => o
        end
    | LJoin g l r =>
        if root_is_join l || root_is_join r then Err ENestedCoGroup
        else match value_of_lineage l, value_of_lineage r with
             | Ok a, Ok b => Ok (interp_g g a b)
             | Ok _, o => o
             | o, _ => o
             end
    end.

  (* collect of handle x on graph state s: what `x.collect_seq()` returns when its snapshot
     sees s *)
  Definition collect (s : state) (x : handle) : outcome (list V) :=
    collect_state interp_f interp_g s (h_id x).

  Definition collect_value (plan : outcome (list node)) : outcome (list V) :=
    exec_outcome interp_f interp_g plan.
End History.

Arguments LSrc {V F G} d.
Arguments LDerive {V F G} f p.
Arguments LJoin {V F G} g l r.
Arguments mk_handle {V F G} _ _.
Arguments h_id {V F G} h.
Arguments h_lin {V F G} h.
Arguments chain_of {V F G} x.
Arguments CSource {V F G} d.
Arguments CDerive {V F G} f p.
Arguments CJoin {V F G} g l r.
Arguments CCollect {V F G} x.
Arguments PDerive1 {V F G} f p new.
Arguments PJoin1 {V F G} g l r lc.
Arguments PJoin2 {V F G} g l r lc rc.
Arguments PJoin3 {V F G} g l r lc rc dummy.
Arguments PJoin4 {V F G} g l r dummy cg.
Arguments PCollect1 {V F G} x.
Arguments PCollect2 {V F G} x plan.
Arguments Idle {V F G}.
Arguments Busy {V F G} p.
Arguments Dead {V F G}.
Arguments EvHandle {V F G} t h.
Arguments EvCollect {V F G} t x plan.
Arguments EvPanic {V F G} t.
Arguments mk_config {V F G} _ _ _.
Arguments c_state {V F G} c.
Arguments c_threads {V F G} c _.
Arguments c_pool {V F G} c.
Arguments init_config {V F G}.
Arguments set_thread {V F G} ts t x _.
Arguments start_call {V F G} t s pool c.
Arguments continue_call {V F G} t s p.
Arguments tstep {V F G} t s pool ts oc.
Arguments cstep {V F G} cfg l.
Arguments run {V F G} cfg ls.
Arguments handles_of {V F G} evs.
Arguments is_collect_label {V F G} cfg l.
Arguments root_is_join {V F G} x.
Arguments value_of_lineage {V F G} interp_f interp_g x.
Arguments collect {V F G} interp_f interp_g s x.
Arguments collect_value {V F G} interp_f interp_g plan.
