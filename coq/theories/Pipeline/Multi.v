(* C08 model, part 6: several Pipelines in one program (definitions only).

   `Pipeline::default()` creates an independent graph behind its own Mutex; a PCollection carries
   its pipeline, so every build / collect call locks exactly one pipeline.  A multi-pipeline
   configuration is a family of single-pipeline configurations (History.v); a step names the
   pipeline it locks.  Thread identifiers are global: thread t of the program may work on
   pipeline q now and on pipeline q' later; inside each pipeline's configuration it appears
   under the same identifier.  What pipelines share is outside this state machine: payloads,
   files and adapter objects of their sources (Source.v). *)
From Coq Require Import List Arith Bool.
From IB Require Import Pipeline.Graph Pipeline.History.
Import ListNotations.

Section Multi.
  Variables V F G : Type.
  Notation config := (config V F G).
  Notation label := (label V F G).
  Notation event := (event V F G).

  Definition mconfig : Type := nat -> config.
  Definition mlabel : Type := (nat * label)%type.          (* pipeline, step *)

  Definition minit : mconfig := fun _ => init_config.

  Definition mset (mc : mconfig) (q : nat) (c : config) : mconfig :=
    fun u => if u =? q then c else mc u.

  Definition mstep (mc : mconfig) (ml : mlabel) : option (mconfig * list event) :=
    match cstep (mc (fst ml)) (snd ml) with
    | Some (c', evs) => Some (mset mc (fst ml) c', evs)
    | None => None
    end.

  Fixpoint mrun (mc : mconfig) (h : list mlabel) : option (mconfig * list event) :=
    match h with
    | [] => Some (mc, [])
    | ml :: rest =>
        match mstep mc ml with
        | Some (mc1, evs) =>
            match mrun mc1 rest with
            | Some (mc2, evs') => Some (mc2, evs ++ evs')
            | None => None
            end
        | None => None
        end
    end.

  (* the steps of a history that lock pipeline q, in order *)
  Definition proj (q : nat) (h : list mlabel) : list label :=
    map snd (filter (fun ml => fst ml =? q) h).
End Multi.

Arguments minit {V F G} _.
Arguments mset {V F G} mc q c _.
Arguments mstep {V F G} mc ml.
Arguments mrun {V F G} mc h.
Arguments proj {V F G} q h.
