(* C08 model, part 4: renaming of the user-function names throughout the state machine
   (definitions only).  Used to state laziness as a parametricity theorem: every build step
   and the snapshot/backwalk of a collect commute with an arbitrary renaming phi : F -> F',
   psi : G -> G' of the names, hence cannot inspect, let alone apply, a user function. *)
From Coq Require Import List Arith Bool.
From IB Require Import Pipeline.Graph Pipeline.History.
Import ListNotations.

Section Rename.
  Variables V F G F' G' : Type.
  Variable phi : F -> F'.
  Variable psi : G -> G'.

  Fixpoint map_node (n : node V F G) : node V F' G' :=
    match n with
    | NSource d => NSource d
    | NDummy => NDummy
    | NStateless f => NStateless (phi f)
    | NCoGroup lc rc g => NCoGroup (map map_node lc) (map map_node rc) (psi g)
    end.

  Definition map_nodes (m : list (nat * node V F G)) : list (nat * node V F' G') :=
    map (fun p => (fst p, map_node (snd p))) m.

  Definition map_state (s : state V F G) : state V F' G' :=
    mk_state (next_id s) (map_nodes (nodes s)) (edges s).

  Fixpoint map_lineage (x : lineage V F G) : lineage V F' G' :=
    match x with
    | LSrc d => LSrc d
    | LDerive f p => LDerive (phi f) (map_lineage p)
    | LJoin g l r => LJoin (psi g) (map_lineage l) (map_lineage r)
    end.

  Definition map_handle (h : handle V F G) : handle V F' G' :=
    mk_handle (h_id h) (map_lineage (h_lin h)).

  Definition map_plan (o : outcome (list (node V F G))) : outcome (list (node V F' G')) :=
    match o with
    | Ok c => Ok (map map_node c)
    | Err e => Err e
    | Panic => Panic
    end.

  Definition map_call (c : call V F G) : call V F' G' :=
    match c with
    | CSource d => CSource d
    | CDerive f p => CDerive (phi f) p
    | CJoin g l r => CJoin (psi g) l r
    | CCollect x => CCollect x
    end.

  Definition map_label (l : label V F G) : label V F' G' :=
    (fst l, option_map map_call (snd l)).

  Definition map_pc (p : pc V F G) : pc V F' G' :=
    match p with
    | PDerive1 f ph i => PDerive1 (phi f) (map_handle ph) i
    | PJoin1 g l r lc => PJoin1 (psi g) (map_handle l) (map_handle r) (map map_node lc)
    | PJoin2 g l r lc rc =>
        PJoin2 (psi g) (map_handle l) (map_handle r) (map map_node lc) (map map_node rc)
    | PJoin3 g l r lc rc d =>
        PJoin3 (psi g) (map_handle l) (map_handle r) (map map_node lc) (map map_node rc) d
    | PJoin4 g l r d i => PJoin4 (psi g) (map_handle l) (map_handle r) d i
    | PCollect1 x => PCollect1 (map_handle x)
    | PCollect2 x plan => PCollect2 (map_handle x) (map_plan plan)
    end.

  Definition map_tstate (ts : tstate V F G) : tstate V F' G' :=
    match ts with
    | Idle => Idle
    | Busy p => Busy (map_pc p)
    | Dead => Dead
    end.

  Definition map_event (e : event V F G) : event V F' G' :=
    match e with
    | EvHandle t h => EvHandle t (map_handle h)
    | EvCollect t x plan => EvCollect t (map_handle x) (map_plan plan)
    | EvPanic t => EvPanic t
    end.

  Definition map_tresult (r : tresult V F G) : tresult V F' G' :=
    let '(s, ts, oh, evs) := r in
    (map_state s, map_tstate ts, option_map map_handle oh, map map_event evs).
End Rename.

Arguments map_node {V F G F' G'} phi psi n.
Arguments map_nodes {V F G F' G'} phi psi m.
Arguments map_state {V F G F' G'} phi psi s.
Arguments map_lineage {V F G F' G'} phi psi x.
Arguments map_handle {V F G F' G'} phi psi h.
Arguments map_plan {V F G F' G'} phi psi o.
Arguments map_call {V F G F' G'} phi psi c.
Arguments map_label {V F G F' G'} phi psi l.
Arguments map_pc {V F G F' G'} phi psi p.
Arguments map_tstate {V F G F' G'} phi psi ts.
Arguments map_event {V F G F' G'} phi psi e.
Arguments map_tresult {V F G F' G'} phi psi r.
