(* Model of the remaining assertions of src/testing/assertions.rs:
     assert_all / assert_any / assert_none / assert_collection_size / assert_contains / assert_maps_equal
   and the HashMap they are given (as built by HashMap::insert / FromIterator).
   Definitions only; proofs are in Proofs/AssertionsMoreProofs.v.
   `true` = the assertion returns normally, `false` = it panics. *)
From Coq Require Import List ZArith Bool.
From IB Require Import Testing.Assertions.
Import ListNotations.

(* ---------- predicate assertions ---------- *)
Section Predicates.
  Variable A : Type.
  Variable p : A -> bool.      (* the caller's predicate: impl Fn(&T) -> bool *)

  (* assert_all: for (i, item) in collection.iter().enumerate() { assert!(predicate(item)) } *)
  Fixpoint assert_all (l : list A) : bool :=
    match l with
    | [] => true
    | x :: r => if p x then assert_all r else false
    end.

  (* assert_any: assert!(collection.iter().any(&predicate)) *)
  Fixpoint assert_any (l : list A) : bool :=
    match l with
    | [] => false
    | x :: r => if p x then true else assert_any r
    end.

  (* assert_none: for item in collection { assert!(!predicate(item)) } *)
  Fixpoint assert_none (l : list A) : bool :=
    match l with
    | [] => true
    | x :: r => if p x then false else assert_none r
    end.

  (* how often the predicate is invoked: assert_all stops at the first element that fails it,
     Iterator::any and assert_none stop at the first element that satisfies it *)
  Fixpoint calls_all (l : list A) : nat :=
    match l with
    | [] => 0
    | x :: r => S (if p x then calls_all r else 0)
    end.
  Fixpoint calls_until_hit (l : list A) : nat :=
    match l with
    | [] => 0
    | x :: r => S (if p x then 0 else calls_until_hit r)
    end.
End Predicates.

Arguments assert_all {A}.
Arguments assert_any {A}.
Arguments assert_none {A}.
Arguments calls_all {A}.
Arguments calls_until_hit {A}.

(* ---------- size / membership ---------- *)
(* assert_collection_size: assert_eq!(collection.len(), expected_size); both are usize.
   Only the length of the slice matters, which is what the `_len` form says (used directly for
   slices of zero-sized elements that are too long to write down as a list). *)
Definition assert_collection_size_len (len expected_size : Z) : bool := Z.eqb len expected_size.
Definition assert_collection_size {A} (l : list A) (expected_size : Z) : bool :=
  assert_collection_size_len (Z.of_nat (length l)) expected_size.

(* assert_contains: assert!(collection.contains(element));
   <[T]>::contains(x) = self.iter().any(|e| *e == *x) *)
Fixpoint assert_contains {A} (eqb : A -> A -> bool) (l : list A) (x : A) : bool :=
  match l with
  | [] => false
  | y :: r => if eqb y x then true else assert_contains eqb r x
  end.

(* ---------- HashMap<K, V, S> as a finite map: association list with pairwise distinct keys ---------- *)
Section Maps.
  Variable K V : Type.
  Variable keqb : K -> K -> bool.
  Variable veqb : V -> V -> bool.

  (* HashMap::get(key): the value stored under the entry whose key equals `key` *)
  Fixpoint lookup (k : K) (m : list (K * V)) : option V :=
    match m with
    | [] => None
    | (k', v) :: r => if keqb k k' then Some v else lookup k r
    end.

  (* HashMap::insert(k, v): an existing entry keeps its key object and gets the new value,
     otherwise a new entry is added *)
  Fixpoint insert (k : K) (v : V) (m : list (K * V)) : list (K * V) :=
    match m with
    | [] => [(k, v)]
    | (k', v') :: r => if keqb k k' then (k', v) :: r else (k', v') :: insert k v r
    end.

  (* a map built by inserting the pairs from left to right (HashMap::from_iter / collect / a loop
     of insert calls): the last value inserted under a key wins *)
  Definition map_of (ins : list (K * V)) : list (K * V) :=
    fold_left (fun m kv => insert (fst kv) (snd kv) m) ins [].

  (* the body of the `for (key, expected_value) in expected` loop *)
  Definition entry_ok (actual : list (K * V)) (kv : K * V) : bool :=
    match lookup (fst kv) actual with
    | Some av => veqb av (snd kv)       (* Some(actual_value) if actual_value == expected_value *)
    | None => false                     (* "HashMap missing key" *)
    end.

  (* assert_maps_equal: size check, then every entry of `expected` is looked up in `actual`.
     The loop visits the entries of `expected` in the HashMap's own order; every entry must pass,
     so the outcome does not depend on that order (Proofs: maps_equal_perm_invariant). *)
  Definition assert_maps_equal (actual expected : list (K * V)) : bool :=
    Nat.eqb (length actual) (length expected) && forallb (entry_ok actual) expected.
End Maps.

Arguments lookup {K V}.
Arguments insert {K V}.
Arguments map_of {K V}.
Arguments entry_ok {K V}.
Arguments assert_maps_equal {K V}.

(* ---------- a linear-time form of the count comparison, for long inputs ----------
   counts_equal compares the counts of every element of a ++ e (quadratic); comparing them once per
   DISTINCT element gives the same answer (Proofs: counts_equal_fast_eq). *)
Section Fast.
  Variable A : Type.
  Variable eqb : A -> A -> bool.

  Fixpoint mem (x : A) (l : list A) : bool :=
    match l with [] => false | y :: r => if eqb x y then true else mem x r end.

  (* distinct elements, first occurrences in order, accumulated in reverse *)
  Fixpoint distinct_acc (acc l : list A) : list A :=
    match l with
    | [] => acc
    | x :: r => if mem x acc then distinct_acc acc r else distinct_acc (x :: acc) r
    end.

  Definition counts_equal_fast (a e : list A) : bool :=
    forallb (fun x => Nat.eqb (count eqb x a) (count eqb x e)) (distinct_acc [] (a ++ e)).

  Definition assert_collections_unordered_equal_fast (actual expected : list A) : bool :=
    Nat.eqb (length actual) (length expected) && counts_equal_fast actual expected.
End Fast.

Arguments mem {A}.
Arguments distinct_acc {A}.
Arguments counts_equal_fast {A}.
Arguments assert_collections_unordered_equal_fast {A}.
