(* Model of src/testing/assertions.rs (after the two "fix:" commits of C20).
   Definitions only; proofs are in Proofs/AssertionsProofs.v.
   `true` = the assertion returns normally, `false` = it panics. *)
From Coq Require Import List ZArith Bool.
Import ListNotations.

Section Assertions.
  Variable A : Type.
  Variable eqb : A -> A -> bool.

  (* assert_collections_equal: length check, then pairwise assert_eq! *)
  Fixpoint pairwise_eqb (a e : list A) : bool :=
    match a, e with
    | [], [] => true
    | x :: a', y :: e' => eqb x y && pairwise_eqb a' e'
    | _, _ => true   (* zip stops at the shorter one; lengths were checked before *)
    end.

  Definition assert_collections_equal (actual expected : list A) : bool :=
    Nat.eqb (length actual) (length expected) && pairwise_eqb actual expected.

  (* occurrence count = value stored in the HashMap<&T, usize> built by the loop *)
  Fixpoint count (x : A) (l : list A) : nat :=
    match l with
    | [] => 0
    | y :: r => (if eqb x y then 1 else 0) + count x r
    end.

  (* HashMap equality of the two count maps: same keys with the same counts. A key of either
     map is an element of the corresponding slice, so it suffices to compare the counts of
     every element of actual ++ expected (an absent key counts 0 on that side). *)
  Definition counts_equal (a e : list A) : bool :=
    forallb (fun x => Nat.eqb (count x a) (count x e)) (a ++ e).

  (* assert_collections_unordered_equal: length check, then actual_counts == expected_counts *)
  Definition assert_collections_unordered_equal (actual expected : list A) : bool :=
    Nat.eqb (length actual) (length expected) && counts_equal actual expected.
End Assertions.

Arguments pairwise_eqb {A}.
Arguments assert_collections_equal {A}.
Arguments count {A}.
Arguments counts_equal {A}.
Arguments assert_collections_unordered_equal {A}.

(* Keyed assertions. Keys are integers (K : Ord in Rust); values any type with an equality. *)
Section Keyed.
  Variable V : Type.
  Variable veqb : V -> V -> bool.

  (* Vec::sort_by(|a, b| a.0.cmp(&b.0)) is a stable sort; stable insertion sort is the same
     function (a stable sort by a total preorder is unique). *)
  Fixpoint insert_by_key {X} (x : Z * X) (l : list (Z * X)) : list (Z * X) :=
    match l with
    | [] => [x]
    | y :: r => if Z.leb (fst x) (fst y) then x :: l else y :: insert_by_key x r
    end.
  Definition sort_by_key {X} (l : list (Z * X)) : list (Z * X) :=
    fold_right insert_by_key [] l.

  (* position(|(o,(k,v))| !used[o] && k == ak && v == av) over expected[start..end] *)
  Fixpoint find_unused (ak : Z) (av : V) (run : list (Z * V)) (used : list bool) : option nat :=
    match run, used with
    | (k, v) :: run', u :: used' =>
        if negb u && Z.eqb k ak && veqb v av then Some 0%nat
        else option_map S (find_unused ak av run' used')
    | _, _ => None
    end.

  Fixpoint set_used (n : nat) (used : list bool) : list bool :=
    match n, used with
    | O, _ :: r => true :: r
    | S n', u :: r => u :: set_used n' r
    | _, [] => []
    end.

  (* inner `for i in start..end` loop over one key run of `actual` *)
  Fixpoint match_run (arun erun : list (Z * V)) (used : list bool) : bool :=
    match arun with
    | [] => true
    | (ak, av) :: arun' =>
        match find_unused ak av erun used with
        | None => false
        | Some o => match_run arun' erun (set_used o used)
        end
    end.

  (* length of the maximal prefix of l whose keys equal k *)
  Fixpoint run_len (k : Z) (l : list (Z * V)) : nat :=
    match l with
    | (k', _) :: r => if Z.eqb k' k then S (run_len k r) else O
    | [] => O
    end.

  (* outer `while start < actual.len()` loop; fuel = number of runs still possible.
     Both lists are the not-yet-visited suffixes actual[start..], expected[start..]
     (equal lengths were asserted before). *)
  Fixpoint match_runs (fuel : nat) (a e : list (Z * V)) : bool :=
    match fuel with
    | O => match a with [] => true | _ => false end
    | S fuel' =>
        match a with
        | [] => true
        | (k, _) :: a' =>
            let n := S (run_len k a') in
            match_run (firstn n a) (firstn n e) (repeat false n)
            && match_runs fuel' (skipn n a) (skipn n e)
        end
    end.

  Definition assert_kv_collections_equal (actual expected : list (Z * V)) : bool :=
    let a := sort_by_key actual in
    let e := sort_by_key expected in
    Nat.eqb (length a) (length e) && match_runs (length a) a e.

  (* assert_grouped_kv_equal: stable sort by key, length check, then per index: keys equal and
     the two value-count maps equal *)
  Fixpoint grouped_pairwise (a e : list (Z * list V)) : bool :=
    match a, e with
    | (ak, av) :: a', (ek, ev) :: e' =>
        Z.eqb ak ek && counts_equal veqb av ev && grouped_pairwise a' e'
    | _, _ => true
    end.

  Definition assert_grouped_kv_equal (actual expected : list (Z * list V)) : bool :=
    let a := sort_by_key actual in
    let e := sort_by_key expected in
    Nat.eqb (length a) (length e) && grouped_pairwise a e.
End Keyed.

Arguments insert_by_key {X}.
Arguments sort_by_key {X}.
Arguments find_unused {V}.
Arguments match_run {V}.
Arguments run_len {V}.
Arguments match_runs {V}.
Arguments assert_kv_collections_equal {V}.
Arguments grouped_pairwise {V}.
Arguments assert_grouped_kv_equal {V}.
