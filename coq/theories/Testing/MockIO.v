(* Model of the file-content assertions of src/testing/mock_io.rs:
     read_jsonl_output / assert_jsonl_equals / mock_jsonl_file
     read_csv_output   / assert_csv_equals   / mock_csv_file
   A file is the list of its lines (None = the file cannot be opened). What serde_json / the csv
   crate do with ONE line is a parameter (`parse`, `blank`); what the functions of mock_io.rs do
   with the sequence of lines is transcribed.
   Definitions only; proofs are in Proofs/MockIOProofs.v. *)
From Coq Require Import List ZArith Bool.
From IB Require Import Testing.Assertions.
Import ListNotations.

Section Files.
  Variable L : Type.       (* a line of text *)
  Variable R : Type.       (* a record (T: DeserializeOwned + Debug + PartialEq) *)
  Variable reqb : R -> R -> bool.

  (* ----- JSON Lines ----- *)
  Variable blank : L -> bool.            (* line.trim().is_empty() *)
  Variable parse : L -> option R.        (* serde_json::from_str::<T>(&line) *)

  (* read_jsonl_output: for line in reader.lines() { if !line.trim().is_empty() { records.push(from_str(&line)?) } } *)
  Fixpoint read_jsonl (lines : list L) : option (list R) :=
    match lines with
    | [] => Some []
    | l :: r =>
        if blank l then read_jsonl r
        else match parse l with
             | None => None                                   (* `?` returns the error *)
             | Some x => match read_jsonl r with Some xs => Some (x :: xs) | None => None end
             end
    end.

  (* the tail of both assert_*_equals functions: record count check, then pairwise assert_eq! *)
  Definition assert_records (actual : option (list R)) (expected : list R) : bool :=
    match actual with
    | None => false                      (* .expect("Failed to read ... file") *)
    | Some a => assert_collections_equal reqb a expected
    end.

  (* assert_jsonl_equals(path, expected) *)
  Definition assert_jsonl_equals (file : option (list L)) (expected : list R) : bool :=
    match file with
    | None => false                      (* File::open fails *)
    | Some lines => assert_records (read_jsonl lines) expected
    end.

  (* ----- CSV ----- *)
  Variable cblank : L -> bool.           (* an empty line: the csv reader skips it *)
  Variable cparse : L -> L -> option R.  (* header row -> data row -> T (StringRecord::deserialize) *)

  Fixpoint parse_rows (h : L) (rows : list L) : option (list R) :=
    match rows with
    | [] => Some []
    | l :: r =>
        match cparse h l with
        | None => None
        | Some x => match parse_rows h r with Some xs => Some (x :: xs) | None => None end
        end
    end.

  (* read_csv_output: csv::Reader::from_path has has_headers = true, so the first (non-empty) row is
     the header row and is never yielded; every later row is deserialized against it *)
  Definition read_csv (lines : list L) : option (list R) :=
    match filter (fun l => negb (cblank l)) lines with
    | [] => Some []
    | h :: rows => parse_rows h rows
    end.

  (* assert_csv_equals(path, expected) *)
  Definition assert_csv_equals (file : option (list L)) (expected : list R) : bool :=
    match file with
    | None => false
    | Some lines => assert_records (read_csv lines) expected
    end.

  (* ----- the writers ----- *)
  Variable print : R -> L.               (* serde_json::to_string / one serialized csv row *)
  Variable header : L.                   (* the header row the csv writer derives from T's field names *)

  (* mock_jsonl_file: writeln!(file, "{json}") per record *)
  Definition mock_jsonl_file (data : list R) : list L := map print data.

  (* mock_csv_file(data, with_header): BOTH branches build a Writer with the default
     has_headers = true (Writer::from_path / Writer::from_writer), so the flag changes nothing: the
     header row is written together with the first record of a struct type, and an empty `data`
     gives an empty file. *)
  Definition mock_csv_file (data : list R) (with_header : bool) : list L :=
    match data with
    | [] => []
    | _ => header :: map print data
    end.
End Files.

Arguments read_jsonl {L R}.
Arguments assert_records {R}.
Arguments assert_jsonl_equals {L R}.
Arguments parse_rows {L R}.
Arguments read_csv {L R}.
Arguments assert_csv_equals {L R}.
Arguments mock_jsonl_file {L R}.
Arguments mock_csv_file {L R}.
