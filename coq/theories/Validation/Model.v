(* Model of the validation step (src/helpers/validation.rs, src/validation.rs).
   Definitions only; proofs are in Proofs/ValidationProofs.v.

   A record type R with a user-supplied `Validate::validate : &R -> Result<(), Vec<E>>` is a
   function `validate : R -> vresult E`. The error collector `Arc<Mutex<ErrorCollector>>` is a
   shared append-only list of `RecordError { record_id, errors }`; every partition appends to it
   under the mutex, so its final content is SOME interleaving of the per-partition append
   sequences (`interleaving` below). *)
From Coq Require Import List Bool Arith.
From IB Require Import Engine.Val.
Import ListNotations.

(* validation.rs: ValidationResult = Result<(), Vec<ValidationError>> *)
Inductive vresult (E : Type) : Type :=
| VOk                          (* Ok(()) *)
| VErr (errors : list E).      (* Err(errors) -- the list MAY be empty: still an invalid record *)
Arguments VOk {E}. Arguments VErr {E}.

(* validation.rs: enum ValidationMode *)
Inductive mode := SkipInvalid | LogAndContinue | FailFast.

(* validation.rs: RecordError { record_id: Some(format!("record_{idx}")), errors }
   (ValidateValuesOp writes "pair_{idx}").  `idx` is the position of the record in the partition
   the operator was applied to (`elements.into_iter().enumerate()`): it is PARTITION-LOCAL. *)
Record entry (E : Type) : Type := mk_entry { e_idx : nat; e_errors : list E }.
Arguments mk_entry {E}. Arguments e_idx {E}. Arguments e_errors {E}.

Section Apply.
  Context {R E : Type}.
  Variable validate : R -> vresult E.

  Definition is_valid (r : R) : bool := match validate r with VOk => true | VErr _ => false end.

  (* ValidateOp::apply, the loop `for (idx, elem) in elements.into_iter().enumerate()`, from
     position idx on. Result: (the `valid` vector, the sequence of ErrorCollector::add_error calls
     this partition performs, in program order), or Panic (panic! in FailFast).
       Ok(())      => valid.push(elem)
       Err(errors) => SkipInvalid    : nothing
                      LogAndContinue : if let Some(collector) { add_error(record_{idx}, errors) }
                      FailFast       : panic!  *)
  Fixpoint apply_from (m : mode) (has_collector : bool) (idx : nat) (l : list R)
    : outcome (list R * list (entry E)) :=
    match l with
    | [] => Ok ([], [])
    | x :: r =>
        match validate x with
        | VOk =>
            obind (apply_from m has_collector (S idx) r)
                  (fun vl => Ok (x :: fst vl, snd vl))
        | VErr es =>
            match m with
            | SkipInvalid => apply_from m has_collector (S idx) r
            | LogAndContinue =>
                obind (apply_from m has_collector (S idx) r)
                      (fun vl => Ok (fst vl,
                                     if has_collector then mk_entry idx es :: snd vl else snd vl))
            | FailFast => Panic
            end
        end
    end.

  Definition apply (m : mode) (has_collector : bool) (l : list R)
    : outcome (list R * list (entry E)) := apply_from m has_collector 0 l.

  (* A run over partitions `ps` (sequential engine: ps = [input]; parallel engine: ps = the chunks
     of VecOps::split, possibly already transformed by upstream stateless operators): the operator
     is applied to every partition; any panicking partition makes the run panic (a rayon worker
     panic propagates to the caller of collect_par). *)
  Definition run_parts (m : mode) (has_collector : bool) (ps : list (list R))
    : outcome (list (list R * list (entry E))) := oall (apply m has_collector) ps.

  (* terminal concatenation in partition order *)
  Definition output_of (rs : list (list R * list (entry E))) : list R := concat (map fst rs).
  (* the per-partition append sequences *)
  Definition logs_of (rs : list (list R * list (entry E))) : list (list (entry E)) := map snd rs.
End Apply.

(* ValidateValuesOp::apply on Vec<(K, V)>: the same loop, `value.validate()`, the pair is kept
   whole; ids are "pair_{idx}". *)
Definition validate_value {K V E : Type} (validate : V -> vresult E) (kv : K * V) : vresult E :=
  validate (snd kv).
Definition apply_values {K V E : Type} (validate : V -> vresult E) :=
  apply (validate_value (K := K) validate).
Definition run_parts_values {K V E : Type} (validate : V -> vresult E) :=
  run_parts (validate_value (K := K) validate).

(* Final content of the shared collector: the appends of each partition keep their program order
   (one thread per partition task, the mutex serialises single add_error calls), nothing else is
   known about the schedule. `interleaving ls out` = out is a shuffle of the sequences ls. *)
Inductive interleaving {A : Type} : list (list A) -> list A -> Prop :=
| il_done : forall ls, Forall (fun l => l = []) ls -> interleaving ls []
| il_step : forall pre x l post out,
    interleaving (pre ++ l :: post) out ->
    interleaving (pre ++ (x :: l) :: post) (x :: out).

(* The collector OUTLIVES a run (the caller owns the Arc): a later run on the same collector finds
   what the earlier ones left. One run turns the content `before` into `after`:
     - a run that completes appended some interleaving of its partitions' append sequences;
     - a run that panics (fail-fast) changed nothing: in FailFast mode no partition ever touches
       the collector (the panic! is raised without taking the lock), so nothing is appended and the
       mutex is not poisoned;
   ErrorCollector::clear() empties it. *)
Inductive run_effect {R E : Type} (validate : R -> vresult E) (m : mode) (has_collector : bool)
          (ps : list (list R)) (before : list (entry E)) : list (entry E) -> Prop :=
| re_completed : forall rs app,
    run_parts validate m has_collector ps = Ok rs ->
    interleaving (logs_of rs) app ->
    run_effect validate m has_collector ps before (before ++ app)
| re_panicked :
    run_parts validate m has_collector ps = Panic ->
    run_effect validate m has_collector ps before before.
Definition collector_clear {E : Type} (content : list (entry E)) : list (entry E) := [].

(* ---- specification-side vocabulary (independent of apply) ---- *)
Section Spec.
  Context {R E : Type}.
  Variable validate : R -> vresult E.

  (* the error lists of the invalid records of l, in order: one per invalid record *)
  Definition invalid_errors (l : list R) : list (list E) :=
    flat_map (fun r => match validate r with VOk => [] | VErr es => [es] end) l.
  Definition count_invalid (l : list R) : nat :=
    length (filter (fun r => negb (is_valid validate r)) l).

  (* the entries one partition contributes: (position in p, errors) of every invalid record *)
  Definition local_entries (p : list R) : list (entry E) :=
    flat_map (fun ir => match validate (snd ir) with
                        | VOk => []
                        | VErr es => [mk_entry (fst ir) es]
                        end)
             (combine (seq 0 (length p)) p).
End Spec.

(* validation.rs: combine_validations (as repaired in /repo commit 2f7c47a)
     for result in results {
         if let Err(mut errors) = result { failed = true; all_errors.append(&mut errors) } }
     if failed { Err(all_errors) } else { Ok(()) } *)
Definition result_errors {E : Type} (r : vresult E) : list E :=
  match r with VOk => [] | VErr es => es end.
Definition result_failed {E : Type} (r : vresult E) : bool :=
  match r with VOk => false | VErr _ => true end.
Definition combine_validations {E : Type} (results : list (vresult E)) : vresult E :=
  if existsb result_failed results then VErr (flat_map result_errors results) else VOk.

(* the definition BEFORE commit 2f7c47a, kept only to document the regression it repaired:
     if all_errors.is_empty() { Ok(()) } else { Err(all_errors) }
   a failed part with an empty error list (Err(vec![])) was reported as success *)
Definition combine_validations_old {E : Type} (results : list (vresult E)) : vresult E :=
  match flat_map result_errors results with
  | [] => VOk
  | all_errors => VErr all_errors
  end.
