(* C17 model, part 3: every validation BUILDER (the general entry points and the convenience
   wrappers, keyed and unkeyed) placed anywhere among the other element-wise builders, on a
   pipeline graph whose collections can feed SEVERAL steps (branching).  Definitions only; proofs
   are in Proofs/ValidationTree.v.

   Transcribed:
     src/helpers/validation.rs   validate_with_mode / validate_skip_invalid / validate_fail_fast,
                                 validate_values_with_mode / validate_values_skip_invalid
                                 (each: apply_transform(Arc::new(Validate[Values]Op {mode, collector})))
     src/collection.rs           PCollection::apply_transform = insert_node(Stateless([op])) ;
                                 connect(self.id, id) ; a handle on the NEW id
     src/pipeline.rs             insert_node / connect (fresh id = next_id, edges pushed at the end)
     src/planner.rs              backwalk_linear (the chain that ends in a handle), then fusion of
                                 the adjacent Stateless nodes into one block and the reorder pass
     src/helpers/{common,keyed,values,batches}.rs   map, filter, key_by (= map), map_values,
                                 filter_values, map_values_batches (planner flags as in Engine/Ops.v)
   The record type is the one of the correspondence runs (Pipe.v: validate_z); rows are
   VInt v (PCollection<Rec>) or VPair (VInt k) (VInt v) (PCollection<(i64, Rec)>). *)
From Coq Require Import List ZArith Bool Arith.
From IB Require Import Engine.Val Engine.Ops Engine.Planner Validation.Model Validation.Pipe.
Import ListNotations.
Open Scope Z_scope.

(* ---- the validation builders ---- *)
Inductive builder :=
| BWithMode (md : mode) (coll : option nat)  (* validate[_values]_with_mode(md, collector);
                                                the collector is one of the caller's, by number *)
| BSkipInvalid                               (* validate[_values]_skip_invalid() *)
| BFailFast.                                 (* validate_fail_fast()  (unkeyed only) *)
(* the operator each builder constructs: {mode, collector} *)
Definition builder_mode (b : builder) : mode :=
  match b with BWithMode md _ => md | BSkipInvalid => SkipInvalid | BFailFast => FailFast end.
Definition builder_coll (b : builder) : option nat :=
  match b with BWithMode _ c => c | BSkipInvalid => None | BFailFast => None end.
Definition builder_has_coll (b : builder) : bool :=
  match builder_coll b with Some _ => true | None => false end.

(* ---- element-wise builders ---- *)
Inductive tstep :=
| TMap (c : Z)                           (* PCollection<Rec>: .map(|r| Rec(r.0 + c)) *)
| TFilter (m r : Z)                      (* .filter(|r| r.0.rem_euclid(m) != r) *)
| TKeyBy (m : Z)                         (* .key_by(|r| r.0.rem_euclid(m)) : Rec -> (i64, Rec) *)
| TValidate (b : builder)                (* ValidateOp<Rec> *)
| TMapValues (c : Z)                     (* PCollection<(i64, Rec)>: .map_values(|r| Rec(r.0 + c)) *)
| TFilterValues (m r : Z)                (* .filter_values(|r| r.0.rem_euclid(m) != r) *)
| TMapValuesBatches (n : nat) (c : Z)    (* .map_values_batches(n, |vs| vs.map(|r| Rec(r.0 + c))) *)
| TValidateValues (b : builder)          (* ValidateValuesOp<i64, Rec> *)
| TValues.                               (* .map(|kv| kv.1.clone()) : (i64, Rec) -> Rec *)

Definition T_REC : tag := 0%nat.
Definition f_key (m : Z) (v : val) : val := VPair (VInt (zval v mod m)) v.

Definition is_tvalidation (s : tstep) : bool :=
  match s with TValidate _ | TValidateValues _ => true | _ => false end.

(* the DynOp a builder puts into its Stateless node (flags: Engine/Ops.v, Validation/Pipe.v) *)
Definition compile_tstep (uid : nat) (s : tstep) : dynop :=
  match s with
  | TMap c => op_map T_REC T_REC (f_add c) uid
  | TFilter m r => op_filter T_REC (p_modne m r) uid
  | TKeyBy m => op_map T_REC T_KV (f_key m) uid
  | TValidate b => op_validate T_REC validate_val (builder_mode b) (builder_has_coll b) uid
  | TMapValues c => op_map_values T_KV T_KV (f_add c) uid
  | TFilterValues m r => op_filter_values T_KV (p_modne m r) uid
  | TMapValuesBatches n c => op_batch_map_values T_KV T_KV n (map (f_add c)) uid
  | TValidateValues b =>
      op_validate_values T_KV validate_val (builder_mode b) (builder_has_coll b) uid
  | TValues => op_map T_KV T_REC vsnd uid
  end.
Fixpoint compile_tfrom (uid : nat) (ss : list tstep) : list dynop :=
  match ss with [] => [] | s :: r => compile_tstep uid s :: compile_tfrom (S uid) r end.

(* all these nodes are Stateless: fuse_stateless makes ONE block of the whole chain behind the
   source, reorder_value_only_runs then (maybe) sorts it; planned order = uids of the result *)
Definition plan_tsteps (ss : list tstep) : list tstep :=
  flat_map (fun o => match nth_error ss (op_uid o) with Some s => [s] | None => [] end)
           (reorder_ops (compile_tfrom 0 ss)).

(* ---- running a block on one partition ----
   An append to a collector: which collector, which operator family wrote it ("record_" /
   "pair_" identifiers), the entry. *)
Record tentry := mk_tentry { te_coll : nat; te_keyed : bool; te_entry : entry Z }.

Definition tag_log (b : builder) (keyed : bool) (lg : list (entry Z)) : list tentry :=
  match builder_coll b with Some c => map (mk_tentry c keyed) lg | None => [] end.

(* result of an operator / a block on one partition: the partition it returns (or Panic) and the
   appends performed until then (a fail-fast panic is raised without touching a collector, but
   operators EARLIER in the block have already written theirs) *)
Definition trun : Type := outcome (list val) * list tentry.

Definition tvalidate_run (validate : val -> vresult Z) (b : builder) (keyed : bool)
           (rows : list val) : trun :=
  match apply validate (builder_mode b) (builder_has_coll b) rows with
  | Ok vl => (Ok (fst vl), tag_log b keyed (snd vl))
  | Err e => (Err e, [])
  | Panic => (Panic, [])
  | Diverge => (Diverge, [])
  end.

Definition tstep_run (s : tstep) (rows : list val) : trun :=
  match s with
  | TMap c => (Ok (map (f_add c) rows), [])
  | TFilter m r => (Ok (filter (p_modne m r) rows), [])
  | TKeyBy m => (Ok (map (f_key m) rows), [])
  | TValidate b => tvalidate_run validate_val b false rows
  | TMapValues c => (Ok (map (on_snd (f_add c)) rows), [])
  | TFilterValues m r => (Ok (filter (fun kv => p_modne m r (vsnd kv)) rows), [])
  | TMapValuesBatches _ c => (Ok (map (on_snd (f_add c)) rows), [])
  | TValidateValues b => tvalidate_run (fun row => validate_val (vsnd row)) b true rows
  | TValues => (Ok (map vsnd rows), [])
  end.

(* `ops.iter().fold(p, |acc, op| op.apply(acc))` *)
Fixpoint trun_steps (ss : list tstep) (rows : list val) : trun :=
  match ss with
  | [] => (Ok rows, [])
  | s :: r =>
      match tstep_run s rows with
      | (Ok rows', lg) => let '(o, lg') := trun_steps r rows' in (o, lg ++ lg')
      | (o, lg) => (o, lg)
      end
  end.

(* a run over partitions: the planned block on every partition *)
Definition trun_parts (ss : list tstep) (ps : list (list val)) : list trun :=
  map (trun_steps (plan_tsteps ss)) ps.
(* what collect_* returns: any failing partition fails the run, else the concatenation *)
Definition tresult (rs : list trun) : outcome (list val) :=
  omap_out (@concat val) (oall (fun r : trun => fst r) rs).
(* the appends of a run, per partition in program order *)
Definition tlogs (rs : list trun) : list (list tentry) := map snd rs.

(* ---- the pipeline graph ---- *)
Inductive tnode := TNSource | TNOp (s : tstep).
Record tgraph := mk_tgraph {
  tg_next : nat;                       (* PipelineInner::next_id *)
  tg_nodes : list (nat * tnode);       (* HashMap<NodeId, Node>: association list *)
  tg_edges : list (nat * nat)          (* Vec<(from, to)> *)
}.
Definition tg_empty : tgraph := mk_tgraph 0 [] [].

Definition tg_insert (g : tgraph) (n : tnode) : nat * tgraph :=
  (tg_next g, mk_tgraph (S (tg_next g)) ((tg_next g, n) :: tg_nodes g) (tg_edges g)).
Definition tg_connect (g : tgraph) (a b : nat) : tgraph :=
  mk_tgraph (tg_next g) (tg_nodes g) (tg_edges g ++ [(a, b)]).

(* from_vec: insert_node(Source) *)
Definition tg_from_vec (g : tgraph) : nat * tgraph := tg_insert g TNSource.
(* PCollection::apply_transform on the handle `parent`: a NEW node, an edge parent -> new, and
   a handle on the new node; the parent handle is untouched (`&self`) *)
Definition tg_apply_transform (g : tgraph) (parent : nat) (s : tstep) : nat * tgraph :=
  let '(id, g1) := tg_insert g (TNOp s) in (id, tg_connect g1 parent id).

Fixpoint tg_lookup (i : nat) (m : list (nat * tnode)) : option tnode :=
  match m with
  | [] => None
  | (k, n) :: r => if (k =? i)%nat then Some n else tg_lookup i r
  end.
Fixpoint tg_remove (i : nat) (m : list (nat * tnode)) : list (nat * tnode) :=
  match m with
  | [] => []
  | (k, n) :: r => if (k =? i)%nat then tg_remove i r else (k, n) :: tg_remove i r
  end.
(* `edges.iter().find(|(_, to)| *to == cur)` *)
Fixpoint tg_pred (es : list (nat * nat)) (cur : nat) : option nat :=
  match es with
  | [] => None
  | (a, b) :: r => if (b =? cur)%nat then Some a else tg_pred r cur
  end.
(* planner.rs backwalk_linear: `nodes.remove(&cur)` (missing => error), push, follow the first
   edge into cur; the chain is reversed at the end (acc is already in forward order). Every round
   removes a node, so fuel = |nodes| + 1 is never exhausted. *)
Fixpoint tg_backwalk (fuel : nat) (ns : list (nat * tnode)) (es : list (nat * nat)) (cur : nat)
         (acc : list tnode) : option (list tnode) :=
  match fuel with
  | O => None
  | S fuel' =>
      match tg_lookup cur ns with
      | None => None                                (* "planner: missing node" *)
      | Some n =>
          match tg_pred es cur with
          | Some from => tg_backwalk fuel' (tg_remove cur ns) es from (n :: acc)
          | None => Some (n :: acc)
          end
      end
  end.
Definition tg_chain (g : tgraph) (terminal : nat) : option (list tnode) :=
  tg_backwalk (S (length (tg_nodes g))) (tg_nodes g) (tg_edges g) terminal [].

(* ids are handed out by the counter: every node key and every edge endpoint is below next_id
   (an invariant of insert_node / connect as the builders use them) *)
Definition tg_fresh (g : tgraph) : Prop :=
  (forall k n, In (k, n) (tg_nodes g) -> (k < tg_next g)%nat) /\
  (forall a b, In (a, b) (tg_edges g) -> (a < tg_next g)%nat /\ (b < tg_next g)%nat).

(* the operators behind the source of a chain (None: the chain does not start with the source or
   contains a second one; the runner reports an error) *)
Fixpoint chain_ops (c : list tnode) : option (list tstep) :=
  match c with
  | [] => Some []
  | TNOp s :: r => match chain_ops r with Some l => Some (s :: l) | None => None end
  | TNSource :: _ => None
  end.
Definition chain_steps (c : list tnode) : option (list tstep) :=
  match c with TNSource :: r => chain_ops r | _ => None end.

(* collect_seq / collect_par on a handle: snapshot, backwalk, plan, run the block on the
   partitions of the source (sequential engine: ps = [input]) *)
Definition tcollect (g : tgraph) (h : nat) (ps : list (list val)) : option (list trun) :=
  match tg_chain g h with
  | Some c => match chain_steps c with
              | Some ss => Some (trun_parts ss ps)
              | None => None
              end
  | None => None
  end.

(* ---- a build script: from_vec, then one builder call per entry (parent handle, step);
   handle 0 is the source, handle i the result of the i-th call ---- *)
Definition tbuild_step (gh : tgraph * list nat) (ps : nat * tstep) : tgraph * list nat :=
  let '(g, hs) := gh in
  let '(id, g') := tg_apply_transform g (nth (fst ps) hs 0%nat) (snd ps) in (g', hs ++ [id]).
Definition tbuild_from (gh : tgraph * list nat) (script : list (nat * tstep))
  : tgraph * list nat := fold_left tbuild_step script gh.
Definition tbuild (script : list (nat * tstep)) : tgraph * list nat :=
  let '(id, g) := tg_from_vec tg_empty in tbuild_from (g, [id]) script.

(* ---- specification-side vocabulary (independent of the graph and of the planner) ---- *)
(* the lineage of every handle: the steps between the source and it, in written order *)
Definition lineages_step (acc : list (list tstep)) (ps : nat * tstep) : list (list tstep) :=
  acc ++ [nth (fst ps) acc [] ++ [snd ps]].
Definition lineages_from (acc : list (list tstep)) (script : list (nat * tstep))
  : list (list tstep) := fold_left lineages_step script acc.
Definition lineages (script : list (nat * tstep)) : list (list tstep) :=
  lineages_from [[]] script.
(* every call names a handle that exists when it is made *)
Fixpoint script_wf (n : nat) (script : list (nat * tstep)) : bool :=
  match script with
  | [] => true
  | (p, _) :: r => (p <? n)%nat && script_wf (S n) r
  end.

(* list semantics of a lineage in WRITTEN order over the whole collection: the output (None: a
   fail-fast step met an invalid record) and what is appended: (collector, written by the keyed
   operator, errors) per invalid record that reaches a log-mode step with a collector *)
Definition tpayload : Type := nat * bool * list Z.
Definition tentry_payload (e : tentry) : tpayload :=
  (te_coll e, te_keyed e, e_errors (te_entry e)).
Definition den_validate (validate : val -> vresult Z) (b : builder) (keyed : bool)
           (rows : list val) : option (list val) * list tpayload :=
  match builder_mode b with
  | FailFast => if forallb (is_valid validate) rows then (Some rows, []) else (None, [])
  | SkipInvalid => (Some (filter (is_valid validate) rows), [])
  | LogAndContinue =>
      (Some (filter (is_valid validate) rows),
       match builder_coll b with
       | Some c => map (fun es => (c, keyed, es)) (invalid_errors validate rows)
       | None => []
       end)
  end.
Definition den_step (s : tstep) (rows : list val) : option (list val) * list tpayload :=
  match s with
  | TMap c => (Some (map (f_add c) rows), [])
  | TFilter m r => (Some (filter (p_modne m r) rows), [])
  | TKeyBy m => (Some (map (f_key m) rows), [])
  | TValidate b => den_validate validate_val b false rows
  | TMapValues c => (Some (map (on_snd (f_add c)) rows), [])
  | TFilterValues m r => (Some (filter (fun kv => p_modne m r (vsnd kv)) rows), [])
  | TMapValuesBatches _ c => (Some (map (on_snd (f_add c)) rows), [])
  | TValidateValues b => den_validate (fun row => validate_val (vsnd row)) b true rows
  | TValues => (Some (map vsnd rows), [])
  end.
Fixpoint den_steps (ss : list tstep) (rows : list val) : option (list val) * list tpayload :=
  match ss with
  | [] => (Some rows, [])
  | s :: r =>
      match den_step s rows with
      | (Some rows', pl) => let '(o, pl') := den_steps r rows' in (o, pl ++ pl')
      | (None, pl) => (None, pl)
      end
  end.

(* the convenience wrappers and their general twins *)
Definition twin_builder (b : builder) : builder :=
  match b with
  | BWithMode md c => BWithMode md c
  | BSkipInvalid => BWithMode SkipInvalid None
  | BFailFast => BWithMode FailFast None
  end.
Definition twin_step (s : tstep) : tstep :=
  match s with
  | TValidate b => TValidate (twin_builder b)
  | TValidateValues b => TValidateValues (twin_builder b)
  | _ => s
  end.

(* fail-fast steps replaced by skip steps: what the log-mode steps of a lineage would append if no
   fail-fast step ever failed -- an upper bound for the appends of a run that panics (which
   partitions ran, and how far, is not determined for the parallel engine) *)
Definition relax_builder (b : builder) : builder :=
  match b with
  | BWithMode FailFast c => BWithMode SkipInvalid c
  | BFailFast => BSkipInvalid
  | _ => b
  end.
Definition relax_step (s : tstep) : tstep :=
  match s with
  | TValidate b => TValidate (relax_builder b)
  | TValidateValues b => TValidateValues (relax_builder b)
  | _ => s
  end.
