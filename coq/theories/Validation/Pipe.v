(* The validation operators as planner-visible DynOps (capability flags transcribed from
   src/helpers/validation.rs and the defaults of src/node.rs), and a small closed pipeline
   language (map_values / filter_values / validate_values over (key, record) rows) run through
   the planner's reorder pass, for the correspondence runs. Definitions only. *)
From Coq Require Import List ZArith Bool Arith.
From IB Require Import Engine.Val Engine.Ops Engine.Planner Validation.Model.
Import ListNotations.
Open Scope Z_scope.

(* ---- DynOps ---- *)
(* DynOp::apply returns the partition or panics (op_fn: None = panic); the appends to the shared
   collector are a side effect the planner does not see *)
Definition out_rows {A B : Type} (o : outcome (list A * B)) : option (list A) :=
  match o with Ok vl => Some (fst vl) | _ => None end.
(* ValidateOp<T>: overrides nothing => key_preserving = value_only = reorder_safe = false, cost 10 *)
Definition op_validate {E : Type} (t : tag) (validate : val -> vresult E) (m : mode)
           (has_collector : bool) (uid : nat) : dynop :=
  mk_op t t (fun l => out_rows (apply validate m has_collector l)) false false false 10 uid.
(* ValidateValuesOp<K,V>: overrides key_preserving = true, value_only = true;
   reorder_safe_with_value_only stays at the default FALSE; cost_hint stays 10 *)
Definition op_validate_values {E : Type} (t : tag) (validate : val -> vresult E) (m : mode)
           (has_collector : bool) (uid : nat) : dynop :=
  mk_op t t (fun l => out_rows (apply (fun row => validate (vsnd row)) m has_collector l))
        true true false 10 uid.

(* ---- the record type of the correspondence runs (harness/src/bin/c17.rs: struct Rec(i64)) ----
   impl Validate for Rec:  v < 0        => Err(vec![])                      (invalid, no errors)
                           v mod 4 = 0  => Ok(())
                           v mod 4 = n  => Err([err(4v), .., err(4v+n-1)])  (n = 1..3 errors)
   an error is identified by its integer code. *)
Definition validate_z (v : Z) : vresult Z :=
  if v <? 0 then VErr []
  else let n := v mod 4 in
       if n =? 0 then VOk else VErr (map (fun k => 4 * v + Z.of_nat k) (seq 0 (Z.to_nat n))).
Definition zval (v : val) : Z := match v with VInt z => z | _ => 0 end.
Definition validate_val (v : val) : vresult Z := validate_z (zval v).

(* ---- pipeline steps over rows VPair (VInt k) (VInt v) ---- *)
Inductive vstep :=
| SMapValues (c : Z)                          (* .map_values(|r| Rec(r.0 + c)) *)
| SFilterValues (m r : Z)                     (* .filter_values(|r| r.0.rem_euclid(m) != r) *)
| SValidateValues (md : mode) (has_collector : bool).
                                              (* .validate_values_with_mode(md, collector?) *)

Definition T_KV : tag := 1%nat.

Definition f_add (c : Z) (v : val) : val := VInt (zval v + c).
Definition p_modne (m r : Z) (v : val) : bool := negb (zval v mod m =? r).

Definition compile_step (uid : nat) (s : vstep) : dynop :=
  match s with
  | SMapValues c => op_map_values T_KV T_KV (f_add c) uid
  | SFilterValues m r => op_filter_values T_KV (p_modne m r) uid
  | SValidateValues md hc => op_validate_values T_KV validate_val md hc uid
  end.
Fixpoint compile_from (uid : nat) (ss : list vstep) : list dynop :=
  match ss with [] => [] | s :: r => compile_step uid s :: compile_from (S uid) r end.

(* build_plan: each builder call inserts one Stateless([op]) node; fuse_stateless concatenates
   them in written order into one block; reorder_value_only_runs then (maybe) sorts the block.
   Planned order of the steps = the uids of the reordered block. *)
Definition plan_steps (ss : list vstep) : list vstep :=
  flat_map (fun o => match nth_error ss (op_uid o) with Some s => [s] | None => [] end)
           (reorder_ops (compile_from 0 ss)).

(* one operator applied to one partition: (rows out, appends to the collector) *)
Definition step_run (s : vstep) (rows : list val) : outcome (list val * list (entry Z)) :=
  match s with
  | SMapValues c => Ok (map (on_snd (f_add c)) rows, [])
  | SFilterValues m r => Ok (filter (fun kv => p_modne m r (vsnd kv)) rows, [])
  | SValidateValues md hc => apply (fun row => validate_val (vsnd row)) md hc rows
  end.
(* `ops.iter().fold(p, |acc, op| op.apply(acc))` on one partition *)
Fixpoint run_steps (ss : list vstep) (rows : list val) : outcome (list val * list (entry Z)) :=
  match ss with
  | [] => Ok (rows, [])
  | s :: r =>
      obind (step_run s rows)
            (fun a => obind (run_steps r (fst a)) (fun b => Ok (fst b, snd a ++ snd b)))
  end.
Definition run_pipe (ss : list vstep) (ps : list (list val))
  : outcome (list (list val * list (entry Z))) := oall (run_steps (plan_steps ss)) ps.
