(* Model of /repo/src/helpers/timestamped.rs (attach_timestamps, to_timestamped), of
   Timestamped::new / Window::new in /repo/src/window.rs and of key_by in
   /repo/src/helpers/keyed.rs (definitions only, no proofs).

   A `Timestamped<T> { ts, value }` is the pair (ts, value) (as in Window/Grouping.v); every helper
   here is one stateless `map`, so it acts on each partition separately and keeps the partition
   structure: a run over the partitions `ps` is `map (helper ..) ps`. *)
From Coq Require Import List ZArith Bool.
From IB Require Import Window.Tumble Window.Grouping.
Import ListNotations.
Open Scope Z_scope.

(* window.rs: pub const fn new(ts, value) -> Self { Self { ts, value } } *)
Definition timestamped_new {T} (ts : Z) (value : T) : Z * T := (ts, value).

(* timestamped.rs: self.map(move |t| Timestamped::new(ts_fn(t), t.clone())) *)
Definition attach_timestamps {T} (ts_fn : T -> Z) (p : list T) : list (Z * T) :=
  map (fun t => timestamped_new (ts_fn t) t) p.

(* timestamped.rs: self.map(|p| Timestamped::new(p.0, p.1.clone())) on PCollection<(TimestampMs, T)> *)
Definition to_timestamped {T} (p : list (Z * T)) : list (Z * T) :=
  map (fun x => timestamped_new (fst x) (snd x)) p.

(* keyed.rs: pub fn key_by(self, key_fn) = self.map(move |t| (key_fn(t), t.clone())) *)
Definition key_by {T K} (key_fn : T -> K) (p : list T) : list (K * T) :=
  map (fun t => (key_fn t, t)) p.

(* window.rs: pub fn new(start, end) -> Self { debug_assert!(end >= start); Self { start, end } }
   debug profile: the assertion is live; release profile: compiled out *)
Definition window_new_debug (s e : Z) : outcome window := if s <=? e then Ok (s, e) else Panic.
Definition window_new_release (s e : Z) : outcome window := Ok (s, e).

(* the usual pipelines built from the entry points (ps = the partitions of the source):
     src.attach_timestamps(f).group_by_window(size, off)
     src.to_timestamped().group_by_window(size, off)
     src.attach_timestamps(f).key_by(kf).group_by_key_and_window(size, off)                *)
Definition attach_group_by_window {T} (tumble : Z -> Z -> Z -> outcome window) (ts_fn : T -> Z)
           (size off : Z) (ps : list (list T)) : outcome (list (window * list T)) :=
  group_by_window tumble size off (map (attach_timestamps ts_fn) ps).

Definition to_timestamped_group_by_window {T} (tumble : Z -> Z -> Z -> outcome window)
           (size off : Z) (ps : list (list (Z * T))) : outcome (list (window * list T)) :=
  group_by_window tumble size off (map to_timestamped ps).

Definition attach_key_group {T K} (keqb : K -> K -> bool) (tumble : Z -> Z -> Z -> outcome window)
           (ts_fn : T -> Z) (key_fn : Z * T -> K) (size off : Z) (ps : list (list T))
  : outcome (list ((K * window) * list T)) :=
  group_by_key_and_window keqb tumble size off
                          (map (fun p => key_by key_fn (attach_timestamps ts_fn p)) ps).
