(* Model of the sorting collectors of /repo/src/helpers/collect_sorted.rs as far as they are used
   on window-keyed collections, and of the per-group digests the correspondence check uses for
   big event sets (definitions only, no proofs).

     collect_seq_sorted / collect_par_sorted :  let mut v = self.collect_*()?; v.sort(); Ok(v)
     collect_par_sorted_by_key               :  v.sort_by(|a, b| a.0.cmp(&b.0))
   `sort` / `sort_by` are stable; the model is a stable insertion sort parameterised by the
   comparison (`Window::cmp` = Tumble.window_cmp for window keys). *)
From Coq Require Import List ZArith Bool.
From IB Require Import Window.Tumble Window.Grouping.
Import ListNotations.
Open Scope Z_scope.

Definition le_of {A} (cmp : A -> A -> comparison) (a b : A) : bool :=
  match cmp a b with Gt => false | _ => true end.

(* insert x in front of the first element that is not smaller (x came earlier in the input) *)
Fixpoint insert_by {A} (cmp : A -> A -> comparison) (x : A) (l : list A) : list A :=
  match l with
  | [] => [x]
  | y :: r => if le_of cmp x y then x :: l else y :: insert_by cmp x r
  end.
Definition sort_by {A} (cmp : A -> A -> comparison) (l : list A) : list A :=
  fold_right (insert_by cmp) [] l.

Definition collect_sorted_by_key {K X} (kcmp : K -> K -> comparison) (rows : list (K * X)) : list (K * X) :=
  sort_by (fun a b => kcmp (fst a) (fst b)) rows.

(* (K, Window) keys: the derived tuple order, K first *)
Definition kw_cmp {K} (kcmp : K -> K -> comparison) (a b : K * window) : comparison :=
  match kcmp (fst a) (fst b) with Eq => window_cmp (snd a) (snd b) | c => c end.

(* ---- digests: (len, sum, first, last) of a group, computed in one pass ---- *)
Definition dg : Type := (Z * Z * Z * Z)%type.
Definition dg0 : dg := (0, 0, 0, 0).
Definition dstep (d : dg) (v : Z) : dg :=
  let '(n, s, f, _) := d in if n =? 0 then (1, v, v, v) else (n + 1, s + v, f, v).
Definition digest (vs : list Z) : dg := fold_left dstep vs dg0.

(* the one-pass table of digests: `push` of Grouping.v with the value list replaced by its digest *)
Fixpoint dpush {K} (keqb : K -> K -> bool) (k : K) (v : Z) (m : list (K * dg)) : list (K * dg) :=
  match m with
  | [] => [(k, dstep dg0 v)]
  | (k', d) :: r => if keqb k' k then (k', dstep d v) :: r else (k', d) :: dpush keqb k v r
  end.
Definition digest_table {K} (keqb : K -> K -> bool) (l : list (K * Z)) : list (K * dg) :=
  fold_left (fun m kv => dpush keqb (fst kv) (snd kv) m) l [].
Definition digests_of {K} (groups : list (K * list Z)) : list (K * dg) :=
  map (fun e => (fst e, digest (snd e))) groups.
