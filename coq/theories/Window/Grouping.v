(* Model of the window grouping helpers (definitions only, no proofs):
     /repo/src/helpers/tumbling.rs   key_by_window / group_by_window / group_by_key_and_window
     /repo/src/helpers/keyed.rs      group_by_key (local + merge closures)
     /repo/src/runner.rs             how a GroupByKey barrier is run:
                                       sequential : merge(vec![local(whole input)])
                                       parallel   : merge(parts.map(local))   (parts in order)
   A `HashMap<K, Vec<V>>` is modelled as an association list in first-insertion order; nothing
   that is compared with the real code depends on that order (iteration order of a HashMap is
   arbitrary).  Self-contained on purpose: the shared engine model covers partitioning for all
   barriers; here a run is described by the list of partitions `ps` (concat ps = the data). *)
From Coq Require Import List ZArith Bool.
From IB Require Import Window.Tumble.
Import ListNotations.
Open Scope Z_scope.

Section GroupByKey.
  Variables K V : Type.
  Variable keqb : K -> K -> bool.

  Definition table := list (K * list V).

  (* m.entry(k).or_default().push(v) *)
  Fixpoint push (k : K) (v : V) (m : table) : table :=
    match m with
    | [] => [(k, [v])]
    | (k', vs) :: r => if keqb k' k then (k', vs ++ [v]) :: r else (k', vs) :: push k v r
    end.

  (* acc.entry(k).or_default().extend(vs) *)
  Fixpoint extend (k : K) (vs : list V) (m : table) : table :=
    match m with
    | [] => [(k, vs)]
    | (k', vs') :: r => if keqb k' k then (k', vs' ++ vs) :: r else (k', vs') :: extend k vs r
    end.

  (* keyed.rs `local`: for (k, v) in kv { m.entry(k).or_default().push(v) } *)
  Definition gbk_local (p : list (K * V)) : table :=
    fold_left (fun m kv => push (fst kv) (snd kv) m) p [].

  (* keyed.rs `merge`: for p in parts { for (k, vs) in m { acc.entry(k).or_default().extend(vs) } } *)
  Definition merge_one (acc m : table) : table :=
    fold_left (fun a kvs => extend (fst kvs) (snd kvs) a) m acc.
  Definition gbk_merge (parts : list table) : table := fold_left merge_one parts [].

  (* the GroupByKey barrier over the partitions `ps` *)
  Definition gbk (ps : list (list (K * V))) : table := gbk_merge (map gbk_local ps).

  (* vocabulary for the statements *)
  Definition lookup (k : K) (m : table) : list V :=
    match find (fun e => keqb (fst e) k) m with Some e => snd e | None => [] end.
  Definition values_of (k : K) (l : list (K * V)) : list V :=
    map snd (filter (fun kv => keqb (fst kv) k) l).
  Definition flatten (m : table) : list (K * V) :=
    flat_map (fun e => map (pair (fst e)) (snd e)) m.
End GroupByKey.

Arguments push {K V}. Arguments extend {K V}. Arguments gbk_local {K V}.
Arguments merge_one {K V}. Arguments gbk_merge {K V}. Arguments gbk {K V}.
Arguments lookup {K V}. Arguments values_of {K V}. Arguments flatten {K V}.

(* `self.map(f)` where the closure may panic: the run panics as soon as one element does.
   (Stateless ops are applied partition by partition; which element panics first is not
   observable, only that the collect panics.) *)
Fixpoint map_outcome {A B} (f : A -> outcome B) (l : list A) : outcome (list B) :=
  match l with
  | [] => Ok []
  | x :: r => y <- f x ;; ys <- map_outcome f r ;; Ok (y :: ys)
  end.

Definition window := (Z * Z)%type.

Section Windowing.
  Variables K V : Type.
  Variable keqb : K -> K -> bool.
  Variable tumble : Z -> Z -> Z -> outcome window.   (* tumble_debug or tumble_release *)

  (* tumbling.rs, unkeyed key_by_window: |ev| (Window::tumble(ev.ts, size, off), ev.value.clone())
     an event `Timestamped { ts, value }` is the pair (ts, value) *)
  Definition tag_unkeyed (size off : Z) (ev : Z * V) : outcome (window * V) :=
    w <- tumble (fst ev) size off ;; Ok (w, snd ev).

  (* tumbling.rs, keyed key_by_window: |kv| ((kv.0.clone(), w), kv.1.value.clone()) *)
  Definition tag_keyed (size off : Z) (kv : K * (Z * V)) : outcome ((K * window) * V) :=
    w <- tumble (fst (snd kv)) size off ;; Ok ((fst kv, w), snd (snd kv)).

  Definition kw_eqb (a b : K * window) : bool := keqb (fst a) (fst b) && window_eqb (snd a) (snd b).

  Definition key_by_window_unkeyed size off (ps : list (list (Z * V))) :=
    map_outcome (map_outcome (tag_unkeyed size off)) ps.
  Definition key_by_window_keyed size off (ps : list (list (K * (Z * V)))) :=
    map_outcome (map_outcome (tag_keyed size off)) ps.

  (* group_by_window = key_by_window(..).group_by_key() *)
  Definition group_by_window size off (ps : list (list (Z * V))) : outcome (list (window * list V)) :=
    tagged <- key_by_window_unkeyed size off ps ;; Ok (gbk window_eqb tagged).

  (* group_by_key_and_window = key_by_window(..).group_by_key() on (K, Timestamped<V>) *)
  Definition group_by_key_and_window size off (ps : list (list (K * (Z * V))))
    : outcome (list ((K * window) * list V)) :=
    tagged <- key_by_window_keyed size off ps ;; Ok (gbk kw_eqb tagged).
End Windowing.

(* Multi-resolution windowing (a user pipeline made only of the pieces above: windows of TWO
   sizes computed by Window::tumble inside a `map`, then ONE group_by_key):
     .map(|(sel, ev)| (Window::tumble(ev.ts, if sel == 0 { s1 } else { s2 }, off), ev.value))
     .group_by_key()
   Windows with a common start (or a common end) but different lengths are different keys. *)
Definition group_by_tagged {E K V} (keqb : K -> K -> bool) (tagf : E -> outcome (K * V))
           (ps : list (list E)) : outcome (list (K * list V)) :=
  tagged <- map_outcome (map_outcome tagf) ps ;; Ok (gbk keqb tagged).

Definition tag_mixed {V} (tumble : Z -> Z -> Z -> outcome window) (s1 s2 off : Z)
           (e : Z * (Z * V)) : outcome (window * V) :=
  w <- tumble (fst (snd e)) (if fst e =? 0 then s1 else s2) off ;; Ok (w, snd (snd e)).

Definition group_by_mixed_window {V} (tumble : Z -> Z -> Z -> outcome window) (s1 s2 off : Z)
           (ps : list (list (Z * (Z * V)))) : outcome (list (window * list V)) :=
  group_by_tagged window_eqb (tag_mixed tumble s1 s2 off) ps.

Arguments tag_unkeyed {V}. Arguments tag_keyed {K V}. Arguments kw_eqb {K}.
Arguments key_by_window_unkeyed {V}. Arguments key_by_window_keyed {K V}.
Arguments group_by_window {V}. Arguments group_by_key_and_window {K V}.
