(* Model of the four joins of /repo/src/helpers/joins.rs and of the CoGroup barrier of
   /repo/src/runner.rs, as far as window groupings feed them (definitions only, no proofs).

   joins.rs `exec` closure: both coalesced sides are loaded into HashMap<K, Vec<_>> (`lm`, `rm`,
   entry(k).or_default().push(v) = Grouping.gbk_local), then
     inner : for (k, vs) in lm { if let Some(ws) = rm.get(&k) { for v in &vs { for w in ws { (k,(v,w)) }}}}
     left  : the same, and `None => for v in vs { (k,(v,None)) }`
     right : for (k, ws) in rm { match lm.get(&k) { Some(vs) => for w in &ws { for v in vs { .. }},
                                                    None => for w in ws { (k,(None,w)) }}}
     full  : for k in keys(lm) U keys(rm) { (Some,Some) => for v in vs { for w in ws }, (Some,None), (None,Some) }
   All four are modelled with the row type K * (option V * option W) (inner: both Some; left: the
   first Some; right: the second Some).  A HashMap is an association list in first-insertion order;
   the order of the emitted key blocks is therefore one particular order out of the arbitrary ones
   the real code may produce, the order INSIDE a key block is the real one.

   runner.rs, Node::CoGroup: the left sub-plan is run, then the right one (a panic in either
   aborts the collect), every side's partitions are concatenated (`coalesce_*`), then `exec`.
   A sub-plan ending in a GroupByKey barrier has exactly one partition (the merged table);
   one made of stateless ops only keeps the source's partitions. *)
From Coq Require Import List ZArith Bool.
From IB Require Import Window.Tumble Window.Grouping.
Import ListNotations.
Open Scope Z_scope.

Inductive jkind := JInner | JLeft | JRight | JFull.

Section Join.
  Variables K V W : Type.
  Variable keqb : K -> K -> bool.

  Definition jrow : Type := K * (option V * option W).

  (* HashMap::get *)
  Definition hget {X} (k : K) (m : list (K * list X)) : option (list X) :=
    match find (fun e => keqb (fst e) k) m with Some e => Some (snd e) | None => None end.

  Definition pairs_vw (k : K) (vs : list V) (ws : list W) : list jrow :=
    flat_map (fun v => map (fun w => (k, (Some v, Some w))) ws) vs.
  Definition pairs_wv (k : K) (vs : list V) (ws : list W) : list jrow :=
    flat_map (fun w => map (fun v => (k, (Some v, Some w))) vs) ws.
  Definition left_only (k : K) (vs : list V) : list jrow := map (fun v => (k, (Some v, None))) vs.
  Definition right_only (k : K) (ws : list W) : list jrow := map (fun w => (k, (None, Some w))) ws.

  Definition join_inner_exec (l : list (K * V)) (r : list (K * W)) : list jrow :=
    let lm := gbk_local keqb l in
    let rm := gbk_local keqb r in
    flat_map (fun e => match hget (fst e) rm with
                       | Some ws => pairs_vw (fst e) (snd e) ws
                       | None => []
                       end) lm.

  Definition join_left_exec (l : list (K * V)) (r : list (K * W)) : list jrow :=
    let lm := gbk_local keqb l in
    let rm := gbk_local keqb r in
    flat_map (fun e => match hget (fst e) rm with
                       | Some ws => pairs_vw (fst e) (snd e) ws
                       | None => left_only (fst e) (snd e)
                       end) lm.

  Definition join_right_exec (l : list (K * V)) (r : list (K * W)) : list jrow :=
    let lm := gbk_local keqb l in
    let rm := gbk_local keqb r in
    flat_map (fun e => match hget (fst e) lm with
                       | Some vs => pairs_wv (fst e) vs (snd e)
                       | None => right_only (fst e) (snd e)
                       end) rm.

  (* keys.extend(lm.keys()); keys.extend(rm.keys()) : the keys of lm, then the new ones of rm *)
  Definition full_keys {X Y} (lm : list (K * list X)) (rm : list (K * list Y)) : list K :=
    map fst lm ++ filter (fun k => negb (existsb (fun k' => keqb k' k) (map fst lm))) (map fst rm).

  Definition join_full_exec (l : list (K * V)) (r : list (K * W)) : list jrow :=
    let lm := gbk_local keqb l in
    let rm := gbk_local keqb r in
    flat_map (fun k => match hget k lm, hget k rm with
                       | Some vs, Some ws => pairs_vw k vs ws
                       | Some vs, None => left_only k vs
                       | None, Some ws => right_only k ws
                       | None, None => []
                       end) (full_keys lm rm).

  Definition join_exec (jk : jkind) : list (K * V) -> list (K * W) -> list jrow :=
    match jk with
    | JInner => join_inner_exec
    | JLeft => join_left_exec
    | JRight => join_right_exec
    | JFull => join_full_exec
    end.

  (* runner.rs Node::CoGroup over the two sub-plan results (lists of partitions) *)
  Definition cogroup (jk : jkind) (left : outcome (list (list (K * V))))
             (right : outcome (list (list (K * W)))) : outcome (list jrow) :=
    lp <- left ;; rp <- right ;; Ok (join_exec jk (concat lp) (concat rp)).
End Join.

Arguments hget {K} keqb {X}. Arguments pairs_vw {K V W}. Arguments pairs_wv {K V W}.
Arguments left_only {K V W}. Arguments right_only {K V W}.
Arguments join_inner_exec {K V W}. Arguments join_left_exec {K V W}.
Arguments join_right_exec {K V W}. Arguments join_full_exec {K V W}.
Arguments full_keys {K} keqb {X Y}. Arguments join_exec {K V W}. Arguments cogroup {K V W}.

(* sub-plans that are window transforms (the source is split into the partitions `ps`) *)
Definition sub_group_by_window {V} (tumble : Z -> Z -> Z -> outcome window) (size off : Z)
           (ps : list (list (Z * V))) : outcome (list (list (window * list V))) :=
  g <- group_by_window tumble size off ps ;; Ok [g].

Definition sub_group_by_key_and_window {K V} (keqb : K -> K -> bool)
           (tumble : Z -> Z -> Z -> outcome window) (size off : Z)
           (ps : list (list (K * (Z * V)))) : outcome (list (list ((K * window) * list V))) :=
  g <- group_by_key_and_window keqb tumble size off ps ;; Ok [g].

(* events.group_by_window(size, off).join_<jk>(&table)   and   table.join_<jk>(&events.group_by_window(..)) *)
Definition window_groups_join_table {V W} (jk : jkind) (tumble : Z -> Z -> Z -> outcome window)
           (size off : Z) (ps : list (list (Z * V))) (table : list (list (window * W)))
  : outcome (list (window * (option (list V) * option W))) :=
  cogroup window_eqb jk (sub_group_by_window tumble size off ps) (Ok table).

Definition table_join_window_groups {V W} (jk : jkind) (tumble : Z -> Z -> Z -> outcome window)
           (size off : Z) (table : list (list (window * W))) (ps : list (list (Z * V)))
  : outcome (list (window * (option W * option (list V)))) :=
  cogroup window_eqb jk (Ok table) (sub_group_by_window tumble size off ps).

(* keyed: events.group_by_key_and_window(size, off).join_<jk>(&table), table keyed by (K, Window) *)
Definition key_window_groups_join_table {K V W} (keqb : K -> K -> bool) (jk : jkind)
           (tumble : Z -> Z -> Z -> outcome window) (size off : Z)
           (ps : list (list (K * (Z * V)))) (table : list (list ((K * window) * W)))
  : outcome (list ((K * window) * (option (list V) * option W))) :=
  cogroup (kw_eqb keqb) jk (sub_group_by_key_and_window keqb tumble size off ps) (Ok table).

(* no grouping: events.key_by_window(size, off).join_<jk>(&table); the sub-plan is stateless, its
   partitions are concatenated in order by `coalesce_left` *)
Definition tagged_window_join_table {V W} (jk : jkind) (tumble : Z -> Z -> Z -> outcome window)
           (size off : Z) (ps : list (list (Z * V))) (table : list (list (window * W)))
  : outcome (list (window * (option V * option W))) :=
  cogroup window_eqb jk (key_by_window_unkeyed tumble size off ps) (Ok table).
