(* Model of /repo/src/window.rs : Window::tumble and div_floor (definitions only, no proofs).

   `u64` arithmetic is made explicit over Z.  Two profiles:
     tumble_debug    what a build with overflow checks + debug assertions does (the harness `dev`
                     profile, `cargo test`): every overflowing `-`, `*`, `+` and the failing
                     `debug_assert!(size_ms > 0)` is `Panic`;
     tumble_release  what an optimised build does: `-`, `*`, `+` wrap modulo 2^64, the
                     debug_assert is compiled out, `%` and `/` by zero still panic.
   A `Window { start, end }` is modelled as the pair (start, end); its Eq/Hash/Ord impls all look
   at exactly (start, end), i.e. they are the ones of the pair. *)
From Coq Require Import ZArith Bool.
Open Scope Z_scope.

Inductive outcome (A : Type) : Type :=
| Ok (a : A)
| Panic.
Arguments Ok {A} a.
Arguments Panic {A}.

Definition bind {A B} (x : outcome A) (f : A -> outcome B) : outcome B :=
  match x with Ok a => f a | Panic => Panic end.
Notation "x <- e ;; k" := (bind e (fun x => k)) (at level 61, e at next level, right associativity).

Definition U64 : Z := 2 ^ 64.
Definition in_u64 (z : Z) : bool := (0 <=? z) && (z <? U64).

(* ---- checked u64 operators (overflow-checks = on) ---- *)
Definition csub (a b : Z) : outcome Z := if b <=? a then Ok (a - b) else Panic.
Definition cadd (a b : Z) : outcome Z := if a + b <? U64 then Ok (a + b) else Panic.
Definition cmul (a b : Z) : outcome Z := if a * b <? U64 then Ok (a * b) else Panic.
(* `/` and `%` panic on a zero divisor in every profile; on u64 both truncate = floor *)
Definition cdiv (a b : Z) : outcome Z := if b =? 0 then Panic else Ok (a / b).
Definition crem (a b : Z) : outcome Z := if b =? 0 then Panic else Ok (a mod b).

(* ---- wrapping u64 operators (overflow-checks = off) ---- *)
Definition wsub (a b : Z) : outcome Z := Ok ((a - b) mod U64).
Definition wadd (a b : Z) : outcome Z := Ok ((a + b) mod U64).
Definition wmul (a b : Z) : outcome Z := Ok ((a * b) mod U64).

(* window.rs: const fn div_floor(a: u64, b: u64) -> u64
     let q = a / b; let r = a % b;
     if (r != 0) && ((r > 0) != (b > 0)) { q - 1 } else { q }                              *)
Definition div_floor_with (sub : Z -> Z -> outcome Z) (a b : Z) : outcome Z :=
  q <- cdiv a b ;;
  r <- crem a b ;;
  if negb (r =? 0) && negb (Bool.eqb (0 <? r) (0 <? b)) then sub q 1 else Ok q.

(* window.rs: pub fn tumble(ts, size_ms, offset_ms) -> Window
     debug_assert!(size_ms > 0);
     let rel = ts - offset_ms % size_ms;
     let k = div_floor(rel, size_ms);
     let win_start = k * size_ms + offset_ms % size_ms;
     Self { start: win_start, end: win_start + size_ms }                                    *)
Definition tumble_with (dbg_assert : bool) (sub add mul : Z -> Z -> outcome Z)
           (ts size off : Z) : outcome (Z * Z) :=
  if dbg_assert && negb (0 <? size) then Panic else
  m     <- crem off size ;;
  rel   <- sub ts m ;;
  k     <- div_floor_with sub rel size ;;
  ks    <- mul k size ;;
  m2    <- crem off size ;;
  start <- add ks m2 ;;
  e     <- add start size ;;
  Ok (start, e).

Definition tumble_debug : Z -> Z -> Z -> outcome (Z * Z) := tumble_with true csub cadd cmul.
Definition tumble_release : Z -> Z -> Z -> outcome (Z * Z) := tumble_with false wsub wadd wmul.

(* ---- specification-side vocabulary (used by the theorems and, independently of the model,
        by the correspondence check) ---- *)

(* the mathematically correct window start: the unique s = off + j*size (j any integer) with
   s <= ts < s + size *)
Definition win_start (ts size off : Z) : Z := ts - (ts - off) mod size.

(* "[s, e) is the tumbling window of ts" as a decidable predicate on a candidate window *)
Definition is_window_of (ts size off : Z) (w : Z * Z) : bool :=
  let '(s, e) := w in
  (e - s =? size) && (s <=? ts) && (ts <? e) && ((s - off) mod size =? 0).

(* the open known-finding class C13-unrepresentable-window: no `Window { start: u64, end: u64 }`
   can hold the correct window (start negative, or end above u64::MAX) *)
Definition unrepresentable (ts size off : Z) : bool :=
  (1 <=? size) && ((ts <? off mod size) || (U64 <=? win_start ts size off + size)).

(* window.rs: impl PartialEq for Window: self.start == other.start && self.end == other.end *)
Definition window_eqb (a b : Z * Z) : bool := (fst a =? fst b) && (snd a =? snd b).

(* window.rs: impl Ord for Window: self.start.cmp(&o.start).then(self.end.cmp(&o.end));
   impl PartialOrd: Some(self.cmp(o)) *)
Definition window_cmp (a b : Z * Z) : comparison :=
  match fst a ?= fst b with Eq => snd a ?= snd b | c => c end.
Definition window_partial_cmp (a b : Z * Z) : option comparison := Some (window_cmp a b).

(* window.rs: impl Hash for Window: self.start.hash(state); self.end.hash(state);
   the model of a hash is the sequence of words fed to the hasher (equal feeds => equal hashes
   for every Hasher) *)
Definition window_hash_feed (a : Z * Z) : list Z := cons (fst a) (cons (snd a) nil).
