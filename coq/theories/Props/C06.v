(* C06: built-in combiners are mergeable: any split and merge order equals the fold.
   This file holds ONLY the property theorems (each closed by `exact`) and their non-vacuity
   examples.  Models: Combiners/{Lawful,Basic,TopK,Distinct}.v; proofs: Proofs/Combiners*.v.
   Integers are Z (machine overflow out of scope); AverageF64 is exact over Q (floating-point
   rounding is outside the theorems); Min/Max finish returning None = the `expect` panic. *)
From Coq Require Import List ZArith QArith Bool Permutation Sorted Lia.
From IB Require Import Combiners.Lawful Combiners.Basic Combiners.TopK Combiners.Distinct
  Combiners.Shapes Combiners.Checked Combiners.ExtReal.
From IB Require Import Proofs.CombinersLawful Proofs.CombinersBasic Proofs.CombinersTopK
  Proofs.CombinersDistinct Proofs.CombinersKMV Proofs.CombinersC06 Proofs.CombinersShapes
  Proofs.CombinersC06Big Proofs.CombinersChecked Proofs.CombinersExtReal.
Import ListNotations.
Open Scope Z_scope.

(* ================= 1. every built-in combiner is lawful ================= *)

Theorem c06_count_lawful : forall V : Type, lawful (count_combiner V) count_R count_spec.
Proof. exact count_lawful. Qed.

Theorem c06_sum_lawful : lawful sum_combiner sum_R sum_spec.
Proof. exact sum_lawful. Qed.

Theorem c06_min_lawful : lawful min_combiner min_R min_spec.
Proof. exact min_lawful. Qed.

Theorem c06_max_lawful : lawful max_combiner max_R max_spec.
Proof. exact max_lawful. Qed.

Theorem c06_average_lawful : lawful average_combiner average_R average_spec.
Proof. exact average_lawful. Qed.

Theorem c06_distinct_count_lawful :
  forall (T : Type) (eqb : T -> T -> bool), (forall x y, reflect (x = y) (eqb x y)) ->
    lawful (distinct_count_combiner eqb) (@set_R T) (@distinct_count_spec T).
Proof. exact @distinct_count_lawful. Qed.

Theorem c06_distinct_set_lawful :
  forall (T : Type) (eqb : T -> T -> bool), (forall x y, reflect (x = y) (eqb x y)) ->
    lawful (distinct_set_combiner eqb) (@set_R T) (@distinct_set_spec T).
Proof. exact @distinct_set_lawful. Qed.

Theorem c06_topk_lawful : forall k : nat, lawful (topk_combiner k) (topk_R k) (topk_spec k).
Proof. exact topk_lawful. Qed.

(* a user combiner whose merge is an associative, commutative operation with identity `create`
   and whose add_input merges a singleton is lawful *)
Theorem c06_comm_monoid_lawful :
  forall (V A O : Type) (c : combiner V A O) (inject : V -> A),
    comm_monoid_combiner c inject ->
    lawful c (fun a m => a = cm_acc c inject m) (fun m o => o = c_finish c (cm_acc c inject m)).
Proof. exact @comm_monoid_lawful. Qed.

(* ================= 2. the generic mergeability theorems ================= *)

(* any number of parts (empty ones included), each accumulated one value at a time or built from
   the whole part, merged along ANY tree in ANY order: the output is the mathematical one for
   all the values *)
Theorem c06_merge_tree_spec :
  forall (V A O : Type) (c : combiner V A O) R spec, lawful c R spec ->
  forall (t : mtree V) (vs : list V),
    Permutation (concat (mparts t)) vs -> spec vs (c_finish c (meval c t)).
Proof. exact @merge_tree_spec. Qed.

(* even more generally: any accumulator built from create / add_input / merge /
   build_from_group in any nesting (inputs added after merges, builds merged into folds...) *)
Theorem c06_any_expression_spec :
  forall (V A O : Type) (c : combiner V A O) R spec, lawful c R spec ->
  forall (e : aexpr V) (vs : list V),
    Permutation (avalues e) vs -> spec vs (c_finish c (aeval c e)).
Proof. exact @aexpr_spec. Qed.

(* ... and it EQUALS the output of accumulating all values into one accumulator, up to the
   equivalence that the specification determines outputs by *)
Theorem c06_merge_tree_eq_fold :
  forall (V A O : Type) (c : combiner V A O) R spec, lawful c R spec ->
  forall eqO : O -> O -> Prop, (forall m o o', spec m o -> spec m o' -> eqO o o') ->
  forall (t : mtree V) (vs : list V),
    Permutation (concat (mparts t)) vs ->
    eqO (c_finish c (meval c t)) (c_finish c (fold_acc c vs)).
Proof. exact @merge_tree_eq_fold. Qed.

Theorem c06_any_expression_eq_fold :
  forall (V A O : Type) (c : combiner V A O) R spec, lawful c R spec ->
  forall eqO : O -> O -> Prop, (forall m o o', spec m o -> spec m o' -> eqO o o') ->
  forall (e : aexpr V) (vs : list V),
    Permutation (avalues e) vs ->
    eqO (c_finish c (aeval c e)) (c_finish c (fold_acc c vs)).
Proof. exact @aexpr_eq_fold. Qed.

(* building an accumulator from a whole group equals adding the values one at a time *)
Theorem c06_build_equals_fold :
  forall (V A O : Type) (c : combiner V A O) R spec, lawful c R spec ->
  forall vs : list V, R (c_build c vs) vs /\ R (fold_acc c vs) vs.
Proof. exact @build_fold_R. Qed.

Theorem c06_build_eq_fold_output :
  forall (V A O : Type) (c : combiner V A O) R spec, lawful c R spec ->
  forall eqO : O -> O -> Prop, (forall m o o', spec m o -> spec m o' -> eqO o o') ->
  forall vs : list V, eqO (c_finish c (c_build c vs)) (c_finish c (fold_acc c vs)).
Proof. exact @build_eq_fold. Qed.

(* merging with a fresh accumulator, on either side, changes nothing *)
Theorem c06_merge_with_fresh_right :
  forall (V A O : Type) (c : combiner V A O) R spec, lawful c R spec ->
  forall a m, R a m -> R (c_merge c a (c_create c)) m.
Proof. exact @merge_create_r. Qed.

Theorem c06_merge_with_fresh_left :
  forall (V A O : Type) (c : combiner V A O) R spec, lawful c R spec ->
  forall a m, R a m -> R (c_merge c (c_create c) a) m.
Proof. exact @merge_create_l. Qed.

Theorem c06_merge_with_fresh_output :
  forall (V A O : Type) (c : combiner V A O) R spec, lawful c R spec ->
  forall eqO : O -> O -> Prop, (forall m o o', spec m o -> spec m o' -> eqO o o') ->
  forall a m, R a m ->
    eqO (c_finish c (c_merge c a (c_create c))) (c_finish c a) /\
    eqO (c_finish c (c_merge c (c_create c) a)) (c_finish c a).
Proof. exact @merge_create_eq. Qed.

(* the specifications determine the outputs (what `eqO` is for each built-in) *)
Theorem c06_specs_functional :
  (forall V (m : list V) o o', count_spec m o -> count_spec m o' -> o = o') /\
  (forall m o o', sum_spec m o -> sum_spec m o' -> o = o') /\
  (forall m o o', min_spec m o -> min_spec m o' -> o = o') /\
  (forall m o o', max_spec m o -> max_spec m o' -> o = o') /\
  (forall m o o', average_spec m o -> average_spec m o' -> (o == o')%Q) /\
  (forall T (m : list T) o o', distinct_count_spec m o -> distinct_count_spec m o' -> o = o') /\
  (forall T (m o o' : list T), distinct_set_spec m o -> distinct_set_spec m o' ->
                               Permutation o o') /\
  (forall k m o o', topk_spec k m o -> topk_spec k m o' -> o = o').
Proof.
  exact (conj count_spec_functional (conj sum_spec_functional (conj min_spec_functional
        (conj max_spec_functional (conj average_spec_functional
        (conj (@distinct_count_spec_functional) (conj (@distinct_set_spec_functional)
        topk_spec_functional))))))).
Qed.

(* ================= 3. the property per combiner, in its own words ================= *)

Theorem c06_count : forall (V : Type) (t : mtree V) vs,
    Permutation (concat (mparts t)) vs ->
    c_finish (count_combiner V) (meval (count_combiner V) t) = Z.of_nat (length vs).
Proof. exact count_tree. Qed.

Theorem c06_sum : forall t vs,
    Permutation (concat (mparts t)) vs ->
    c_finish sum_combiner (meval sum_combiner t) = fold_right Z.add 0 vs.
Proof. exact sum_tree. Qed.

(* Min / Max: the `expect` panic (None) exactly when there is no value at all, in every split
   and merge order as in the fold; otherwise the least / greatest value *)
Theorem c06_min : forall t vs,
    Permutation (concat (mparts t)) vs ->
    match c_finish min_combiner (meval min_combiner t) with
    | None => vs = []
    | Some x => In x vs /\ forall y, In y vs -> x <= y
    end.
Proof. exact min_tree. Qed.

Theorem c06_max : forall t vs,
    Permutation (concat (mparts t)) vs ->
    match c_finish max_combiner (meval max_combiner t) with
    | None => vs = []
    | Some x => In x vs /\ forall y, In y vs -> y <= x
    end.
Proof. exact max_tree. Qed.

Theorem c06_min_eq_fold : forall t vs,
    Permutation (concat (mparts t)) vs ->
    c_finish min_combiner (meval min_combiner t) = c_finish min_combiner (fold_acc min_combiner vs).
Proof. exact min_tree_eq_fold. Qed.

Theorem c06_max_eq_fold : forall t vs,
    Permutation (concat (mparts t)) vs ->
    c_finish max_combiner (meval max_combiner t) = c_finish max_combiner (fold_acc max_combiner vs).
Proof. exact max_tree_eq_fold. Qed.

(* mean = sum / number of values (0 for none), as rationals *)
Theorem c06_average : forall t vs,
    Permutation (concat (mparts t)) vs ->
    (c_finish average_combiner (meval average_combiner t) ==
     match vs with
     | [] => 0
     | _ => fold_right Qplus 0 vs / inject_Z (Z.of_nat (length vs))
     end)%Q.
Proof. exact average_tree. Qed.

Theorem c06_distinct_set :
  forall (T : Type) (eqb : T -> T -> bool), (forall x y, reflect (x = y) (eqb x y)) ->
  forall (t : mtree T) vs,
    Permutation (concat (mparts t)) vs ->
    let o := c_finish (distinct_set_combiner eqb) (meval (distinct_set_combiner eqb) t) in
    NoDup o /\ forall x, In x o <-> In x vs.
Proof. exact @distinct_set_tree. Qed.

Theorem c06_distinct_count :
  forall (T : Type) (eqb : T -> T -> bool), (forall x y, reflect (x = y) (eqb x y)) ->
  forall (t : mtree T) vs,
    Permutation (concat (mparts t)) vs ->
    exists s, NoDup s /\ (forall x, In x s <-> In x vs) /\
      c_finish (distinct_count_combiner eqb) (meval (distinct_count_combiner eqb) t)
      = Z.of_nat (length s).
Proof. exact @distinct_count_tree. Qed.

(* TopK: the k largest values in descending order: every k (0 included), ties, any sizes *)
Theorem c06_topk : forall (k : nat) t vs,
    Permutation (concat (mparts t)) vs ->
    c_finish (topk_combiner k) (meval (topk_combiner k) t) = firstn k (sort_desc vs).
Proof. exact topk_tree. Qed.

Theorem c06_topk_eq_fold : forall (k : nat) t vs,
    Permutation (concat (mparts t)) vs ->
    c_finish (topk_combiner k) (meval (topk_combiner k) t)
    = c_finish (topk_combiner k) (fold_acc (topk_combiner k) vs).
Proof. exact topk_tree_eq_fold. Qed.

(* sort_desc is THE descending sort: the unique descending list that is a permutation *)
Theorem c06_sort_desc_is_the_descending_sort : forall m s,
    s = sort_desc m <-> (StronglySorted Z.ge s /\ Permutation s m).
Proof. exact sort_desc_characterisation. Qed.

(* and the k-prefix of it is a descending list of min(k, n) values that dominates the rest *)
Theorem c06_topk_output_characterisation : forall k m,
    StronglySorted Z.ge (topk_of k m) /\ length (topk_of k m) = Nat.min k (length m) /\
    exists rest, Permutation (topk_of k m ++ rest) m /\
                 forall x y, In x (topk_of k m) -> In y rest -> y <= x.
Proof. exact topk_of_characterisation. Qed.

(* the bounded heap: an accumulator never holds more than k values, and merging a fresh
   accumulator on either side returns the very same accumulator *)
Theorem c06_topk_bounded_and_identity : forall k a m,
    topk_R k a m ->
    (length a <= k)%nat /\ topk_merge k a [] = a /\ topk_merge k [] a = a.
Proof.
  exact (fun k a m H => conj (topk_R_length k a m H) (topk_merge_create_eq k a m H)).
Qed.

(* merging with a fresh accumulator returns the very same accumulator (not merely the same
   output) for Count, Sum, Min, Max, the Distinct sets; for AverageF64 the same count and the same
   rational sum *)
Theorem c06_merge_with_fresh_is_identity :
  (forall V a, c_merge (count_combiner V) a (c_create (count_combiner V)) = a /\
               c_merge (count_combiner V) (c_create (count_combiner V)) a = a) /\
  (forall a, c_merge sum_combiner a (c_create sum_combiner) = a /\
             c_merge sum_combiner (c_create sum_combiner) a = a) /\
  (forall a, c_merge min_combiner a (c_create min_combiner) = a /\
             c_merge min_combiner (c_create min_combiner) a = a) /\
  (forall a, c_merge max_combiner a (c_create max_combiner) = a /\
             c_merge max_combiner (c_create max_combiner) a = a) /\
  (forall a, let r := c_merge average_combiner a (c_create average_combiner) in
             let l := c_merge average_combiner (c_create average_combiner) a in
             (fst r == fst a)%Q /\ snd r = snd a /\ (fst l == fst a)%Q /\ snd l = snd a) /\
  (forall T (eqb : T -> T -> bool) a,
      c_merge (distinct_set_combiner eqb) a (c_create (distinct_set_combiner eqb)) = a /\
      c_merge (distinct_set_combiner eqb) (c_create (distinct_set_combiner eqb)) a = a).
Proof. exact identity_exact. Qed.

(* ================= 4. KMV sketch: mergeability only (estimator and hash: C15) ================= *)

(* for any rank function, any estimator computed from (set.len(), heap.peek()) and any k >= 1
   (KMVApproxDistinctCount::new forces k >= 4) the sketch is lawful: the heap holds exactly the k
   smallest distinct ranks of the values that went in, however they were split and merged *)
Theorem c06_kmv_lawful :
  forall (V O : Type) (rank : V -> Z) (est : nat -> option Z -> O) (k : nat), (1 <= k)%nat ->
    lawful (kmv_combiner rank est k) (kmv_R rank k) (kmv_spec rank est k).
Proof. exact @kmv_lawful. Qed.

(* "the k smallest distinct ranks, largest first" determines the list *)
Theorem c06_kmv_k_smallest_unique : forall k h h' rs,
    k_smallest k h rs -> k_smallest k h' rs -> h = h'.
Proof. exact k_smallest_unique. Qed.

Theorem c06_kmv_tree_eq_fold :
  forall (V O : Type) (rank : V -> Z) (est : nat -> option Z -> O) (k : nat), (1 <= k)%nat ->
  forall (t : mtree V) vs,
    Permutation (concat (mparts t)) vs ->
    c_finish (kmv_combiner rank est k) (meval (kmv_combiner rank est k) t)
    = c_finish (kmv_combiner rank est k) (fold_acc (kmv_combiner rank est k) vs).
Proof.
  exact (fun V O rank est k Hk =>
           merge_tree_eq_fold _ _ _ (kmv_lawful rank est k Hk) eq (kmv_spec_functional rank est k)).
Qed.

(* ================= 5. large groups: chunked merges, canonical accumulators ================= *)

(* the compact description of a large group used by the correspondence runs is the closed form
   ((a*i + b) mod m) + off, i = start .. start+n-1 *)
Theorem c06_generator_closed_form : forall start n a b m off,
    0 < m ->
    gen_values start n a b m off
    = map (fun j => (a * (start + Z.of_nat j) + b) mod m + off) (seq 0 n).
Proof. exact gen_values_closed_form. Qed.

(* cutting a group into consecutive chunks of any size loses and duplicates nothing, and no chunk
   is empty or longer than asked *)
Theorem c06_chunks_partition : forall (V : Type) psize (l : list V),
    concat (chunks psize l) = l /\
    forall p, In p (chunks psize l) -> p <> [] /\ (length p <= Nat.max 1 psize)%nat.
Proof. exact (fun V psize l => conj (concat_chunks psize l) (chunks_bounds psize l)). Qed.

(* create followed by add_input of every value IS the fold; a merge tree IS an accumulator
   expression with the same values *)
Theorem c06_fold_expression_is_fold :
  forall (V A O : Type) (c : combiner V A O) (vs : list V), aeval c (fold_expr vs) = fold_acc c vs.
Proof. exact @aeval_fold_expr. Qed.

Theorem c06_merge_tree_is_expression :
  forall (V A O : Type) (c : combiner V A O) (t : mtree V),
    aeval c (aexpr_of_mtree t) = meval c t /\
    Permutation (avalues (aexpr_of_mtree t)) (concat (mparts t)).
Proof. exact (fun V A O c t => conj (aeval_aexpr_of_mtree c t) (avalues_aexpr_of_mtree t)). Qed.

(* a group of ANY size cut into chunks of ANY size, each chunk lifted or not (3 leaf modes),
   merged left-nested, right-nested or along a balanced tree: the mathematical output, and the
   same output as the plain fold *)
Theorem c06_chunked_merge_spec :
  forall (V A O : Type) (c : combiner V A O) R spec, lawful c R spec ->
  forall (mode nest psize : nat) (vs : list V),
    spec vs (c_finish c (aeval c (chunked mode nest psize vs))).
Proof. exact @chunked_spec. Qed.

Theorem c06_chunked_merge_eq_fold :
  forall (V A O : Type) (c : combiner V A O) R spec, lawful c R spec ->
  forall eqO : O -> O -> Prop, (forall m o o', spec m o -> spec m o' -> eqO o o') ->
  forall (mode nest psize : nat) (vs : list V),
    eqO (c_finish c (aeval c (chunked mode nest psize vs))) (c_finish c (fold_acc c vs)).
Proof. exact @chunked_eq_fold. Qed.

(* when the represented multiset determines the accumulator, any two accumulator expressions over
   the same values evaluate to the SAME accumulator (not merely to equivalent outputs) *)
Theorem c06_canonical_accumulator :
  forall (V A O : Type) (c : combiner V A O) R spec, lawful c R spec ->
  (forall a a' m, R a m -> R a' m -> a = a') ->
  forall e e' : aexpr V, Permutation (avalues e) (avalues e') -> aeval c e = aeval c e'.
Proof. exact @canonical_accumulator. Qed.

(* ... which is the case for Count, Sum, Min, Max and TopK (every k) *)
Theorem c06_canonical_builtins :
  (forall V, same_accumulator (count_combiner V)) /\ same_accumulator sum_combiner /\
  same_accumulator min_combiner /\ same_accumulator max_combiner /\
  (forall k, same_accumulator (topk_combiner k)).
Proof. exact canonical_builtins. Qed.

(* for AverageF64: the same count and the same rational sum *)
Theorem c06_average_same_accumulator : forall e e' : aexpr Q,
    Permutation (avalues e) (avalues e') ->
    (fst (aeval average_combiner e) == fst (aeval average_combiner e'))%Q /\
    snd (aeval average_combiner e) = snd (aeval average_combiner e').
Proof. exact average_same_accumulator. Qed.

(* build_from_group of a group IS the fold of the group, and build_from_group of a concatenation
   IS the merge of the two builds, as accumulators, for groups of every size *)
Theorem c06_build_is_fold_and_splits :
  (forall V, build_is_fold_and_splits (count_combiner V)) /\
  build_is_fold_and_splits sum_combiner /\
  build_is_fold_and_splits min_combiner /\ build_is_fold_and_splits max_combiner /\
  (forall k, build_is_fold_and_splits (topk_combiner k)).
Proof. exact build_canonical_builtins. Qed.

(* TopK::merge's fast path (`acc.extend(other)` when everything fits) is only an optimisation: the
   two-pointer path computes the same heap for every input *)
Theorem c06_topk_merge_is_two_pointer : forall k acc other,
    StronglySorted Z.le acc ->
    topk_merge k acc other = heap_extend [] (two_pointer k (rev acc) (rev (sort_asc other))).
Proof. exact topk_merge_is_two_pointer. Qed.

(* Min and Max commute with any strictly increasing re-labelling of the values, whatever the call
   shape: the theorems above hold for every totally ordered element type that embeds into Z
   (the correspondence uses this for Min / Max over OrdF64 with f64::total_cmp) *)
Theorem c06_min_monotone_key : forall f : Z -> Z, (forall x y, x < y <-> f x < f y) ->
    forall e, aeval min_combiner (map_aexpr f e) = option_map f (aeval min_combiner e).
Proof. exact min_monotone_key. Qed.

Theorem c06_max_monotone_key : forall f : Z -> Z, (forall x y, x < y <-> f x < f y) ->
    forall e, aeval max_combiner (map_aexpr f e) = option_map f (aeval max_combiner e).
Proof. exact max_monotone_key. Qed.

(* ================= 6. Sum over machine integers (lo .. hi) ================= *)

(* overflow-checked `+` (None = panicked): whatever the split, lifting and merge order, a result
   that comes back is the exact sum: never a wrong number *)
Theorem c06_sum_checked_sound : forall lo hi e z,
    aeval (sum_checked_combiner lo hi) e = Some z -> z = zsum (avalues e).
Proof. exact sum_checked_sound. Qed.

(* when the positive values total at most hi and the negative ones at least lo, no way of
   splitting, lifting, merging or ordering panics, and the machine sum is the Z model's sum *)
Theorem c06_sum_no_overflow : forall lo hi e,
    lo <= - zneg (avalues e) -> zpos (avalues e) <= hi ->
    aeval (sum_checked_combiner lo hi) e = Some (aeval sum_combiner e).
Proof. exact sum_checked_no_overflow. Qed.

(* without that hypothesis the panic (not the value) depends on the grouping: i8, 127 + 1 - 1 *)
Theorem c06_sum_checked_panic_is_order_dependent :
  let c := sum_checked_combiner (-128) 127 in
  let e1 := ABuild [127; 1; -1] in
  let e2 := AMerge (ABuild [127]) (ABuild [1; -1]) in
  Permutation (avalues e1) (avalues e2) /\ aeval c e1 = None /\ aeval c e2 = Some 127.
Proof. exact sum_checked_order_dependent. Qed.

(* wrapping `+` (release build, std::num::Wrapping): lawful for the sum modulo 2^bits; equal to
   the Z model whenever the exact sum is representable *)
Theorem c06_sum_wrapping_lawful : forall lo modulus,
    0 < modulus -> lo <= 0 < lo + modulus ->
    lawful (sum_wrapping_combiner lo modulus) (wrap_R lo modulus) (wrap_spec lo modulus).
Proof. exact sum_wrapping_lawful. Qed.

Theorem c06_sum_wrapping_exact : forall lo modulus,
    0 < modulus -> lo <= 0 < lo + modulus ->
    forall e, lo <= zsum (avalues e) < lo + modulus ->
    aeval (sum_wrapping_combiner lo modulus) e = aeval sum_combiner e.
Proof. exact sum_wrapping_exact. Qed.

(* ================= 7. NaN and infinities: Sum<f64> and AverageF64 ================= *)

Theorem c06_nonfinite_sum_lawful : lawful xsum_combiner xsum_R xsum_spec.
Proof. exact xsum_lawful. Qed.

Theorem c06_nonfinite_average_lawful : lawful xavg_combiner xavg_R xavg_spec.
Proof. exact xavg_lawful. Qed.

(* every merge tree gives the class-wise total: NaN if there is a NaN or infinities of both
   signs, else the infinity present, else the exact finite sum *)
Theorem c06_nonfinite_sum : forall (t : mtree xr) vs,
    Permutation (concat (mparts t)) vs ->
    c_finish xsum_combiner (meval xsum_combiner t) = xtotal vs.
Proof. exact xsum_tree. Qed.

(* and the mean is that total over the number of ALL samples (0 for none) *)
Theorem c06_nonfinite_average : forall (t : mtree xr) vs,
    Permutation (concat (mparts t)) vs ->
    c_finish xavg_combiner (meval xavg_combiner t)
    = xavg_finish (xtotal vs, Z.of_nat (length vs)).
Proof. exact xavg_tree. Qed.

Theorem c06_nonfinite_total :
  (forall m, In XNaN m -> xtotal m = XNaN) /\ (forall zs, xtotal (map XFin zs) = XFin (zsum zs)).
Proof. exact (conj xtotal_nan xtotal_finite). Qed.

(* ================= non-vacuity examples ================= *)
(* KMV with k = 2, ranks = the values: of 5 3 9 1 3 7 the two smallest distinct are 1 and 3 *)
Example ex_kmv :
  let c := kmv_combiner (fun v : Z => v) (fun m pk => (m, pk)) 2 in
  c_finish c (meval c (MNode (MLeaf false [5; 3; 9]) (MLeaf true [1; 3; 7]))) = (2%nat, Some 3)
  /\ k_smallest 2 [3; 1] [5; 3; 9; 1; 3; 7].
Proof.
  split; [reflexivity|]. unfold k_smallest. repeat split.
  - repeat constructor.
  - cbn; lia.
  - cbn. intuition.
  - cbn in *. intuition; subst; lia.
Qed.

(* a tree with an empty part, a lifted part, ties, and the two-pointer path (k = 2 < 2 + 2) *)
Definition ex_tree : mtree Z :=
  MNode (MNode (MLeaf false [1; 3]) (MLeaf true [])) (MNode (MLeaf true [3; 2]) (MLeaf false [0])).
Example ex_tree_values : Permutation (concat (mparts ex_tree)) [0; 1; 2; 3; 3].
Proof.
  cbn. apply perm_trans with (0 :: [1; 3; 3; 2]).
  - symmetry. apply (Permutation_cons_append [1; 3; 3; 2] 0).
  - do 2 apply perm_skip. apply perm_trans with [3; 2; 3]; [apply perm_skip, perm_swap|apply perm_swap].
Qed.
Example ex_topk : c_finish (topk_combiner 2) (meval (topk_combiner 2) ex_tree) = [3; 3].
Proof. reflexivity. Qed.
Example ex_topk_all : map (fun k => c_finish (topk_combiner k) (meval (topk_combiner k) ex_tree))
                          [0; 1; 4; 5; 6]%nat
                      = [[]; [3]; [3; 3; 2; 1]; [3; 3; 2; 1; 0]; [3; 3; 2; 1; 0]].
Proof. reflexivity. Qed.
Example ex_sum : c_finish sum_combiner (meval sum_combiner ex_tree) = 9.
Proof. reflexivity. Qed.
Example ex_min_max :
  c_finish min_combiner (meval min_combiner ex_tree) = Some 0 /\
  c_finish max_combiner (meval max_combiner ex_tree) = Some 3 /\
  c_finish min_combiner (meval min_combiner (MNode (MLeaf true []) (MLeaf false []))) = None.
Proof. repeat split. Qed.
Example ex_count : c_finish (count_combiner Z) (meval (count_combiner Z) ex_tree) = 5.
Proof. reflexivity. Qed.
Example ex_distinct :
  c_finish (distinct_set_combiner Z.eqb) (meval (distinct_set_combiner Z.eqb) ex_tree) = [1; 3; 2; 0]
  /\ c_finish (distinct_count_combiner Z.eqb) (meval (distinct_count_combiner Z.eqb) ex_tree) = 4.
Proof. split; reflexivity. Qed.
Example ex_average :
  (c_finish average_combiner
     (meval average_combiner (MNode (MLeaf false [1#2; 3#1]) (MLeaf true [5#2]))) == 2#1)%Q.
Proof. reflexivity. Qed.
(* Z.eqb decides equality, so the Distinct theorems apply to integers *)
Example ex_eqb_reflect : forall x y : Z, reflect (x = y) (x =? y).
Proof. exact Z.eqb_spec. Qed.
(* an accumulator expression that is not a merge tree: inputs added after a merge *)
Example ex_expr :
  let e := AAdd (AMerge (ABuild [2; 5]) (AAdd ACreate 7)) 5 in
  Permutation (avalues e) [7; 5; 5; 2] /\
  c_finish (topk_combiner 3) (aeval (topk_combiner 3) e) = [7; 5; 5].
Proof.
  split; [|reflexivity]. cbn.
  apply perm_trans with ([5; 5; 2] ++ [7]).
  - cbn. apply perm_skip. apply perm_swap.
  - symmetry. apply (Permutation_cons_append [5; 5; 2] 7).
Qed.
(* a commutative-monoid user combiner: bitwise or *)
Definition lor_combiner : combiner Z Z Z :=
  {| c_create := 0; c_add := Z.lor; c_merge := Z.lor; c_finish := fun a => a;
     c_build := fun vs => fold_left Z.lor vs 0 |}.
Example ex_monoid : comm_monoid_combiner lor_combiner (fun v => v).
Proof.
  constructor; cbn [lor_combiner c_merge c_create c_add c_build].
  - intros a b d. symmetry. apply Z.lor_assoc.
  - apply Z.lor_comm.
  - apply Z.lor_0_r.
  - reflexivity.
  - reflexivity.
Qed.

(* large groups: 70 scrambled values in chunks of 8 (the last chunk has 6), alternating lifted and
   unlifted leaves, balanced tree: the sum, the top 3, and the same accumulator as one build *)
Definition ex_group : list Z := gen_values 0 70 48271 3 257 (-100).
Example ex_gen : 0 < 257 /\ firstn 4 ex_group = [-97; 115; 70; 25] /\ length ex_group = 70%nat.
Proof. repeat split. Qed.
Example ex_chunked :
  length (chunks 8 ex_group) = 9%nat /\
  c_finish sum_combiner (aeval sum_combiner (chunked 2 2 8 ex_group)) = zsum ex_group /\
  c_finish (topk_combiner 3) (aeval (topk_combiner 3) (chunked 2 2 8 ex_group)) = [153; 152; 147] /\
  aeval (topk_combiner 3) (chunked 2 2 8 ex_group) = c_build (topk_combiner 3) ex_group.
Proof. repeat split. Qed.
Example ex_functional_R : forall a a' m, sum_R a m -> sum_R a' m -> a = a'.
Proof. exact sum_R_functional. Qed.
(* machine integers: i8 values whose positive part totals 127 and negative part -128 *)
Example ex_no_overflow :
  let e := AMerge (ABuild [100; -128]) (AAdd (ABuild [20]) 7) in
  -128 <= - zneg (avalues e) /\ zpos (avalues e) <= 127 /\
  aeval (sum_checked_combiner (-128) 127) e = Some (-1).
Proof. cbn. repeat split; lia. Qed.
Example ex_wrapping :
  0 < 256 /\ -128 <= 0 < -128 + 256 /\
  aeval (sum_wrapping_combiner (-128) 256) (ABuild [127; 1]) = -128 /\
  aeval (sum_wrapping_combiner (-128) 256) (AMerge (ABuild [127]) (ABuild [1; -1])) = 127.
Proof. cbn. repeat split; lia. Qed.
(* non-finite samples *)
Example ex_nonfinite :
  let t := MNode (MLeaf true [XFin 3; XPInf]) (MLeaf false [XFin (-5)]) in
  c_finish xsum_combiner (meval xsum_combiner t) = XPInf /\
  c_finish xavg_combiner (meval xavg_combiner t) = MPInf /\
  c_finish xsum_combiner (meval xsum_combiner (MNode t (MLeaf true [XNInf]))) = XNaN /\
  c_finish xavg_combiner (meval xavg_combiner (MNode (MLeaf true [XFin 3]) (MLeaf false [XFin 4; XFin 5])))
  = MFin 12 3.
Proof. repeat split. Qed.
(* a strictly increasing key; an ascending accumulator that does not fit with the other one *)
Example ex_key : (forall x y, x < y <-> 2 * x + 1 < 2 * y + 1) /\
  aeval min_combiner (map_aexpr (fun x => 2 * x + 1) (AMerge (ABuild [4; -3]) (AAdd ACreate 0))) = Some (-5).
Proof. split; [intros; lia | reflexivity]. Qed.
Example ex_two_pointer :
  StronglySorted Z.le [2; 5; 9] /\ topk_merge 4 [2; 5; 9] [7; 1] = [2; 5; 7; 9] /\
  topk_merge 5 [2; 5; 9] [7; 1] = [1; 2; 5; 7; 9].
Proof. repeat split. repeat constructor; lia. Qed.
