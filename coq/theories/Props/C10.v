(* C10: compression is transparent and format detection is sound.
   ONLY the property theorems (each closed by `exact`) and their non-vacuity examples.
   Model: IO/Compression.v (detection logic + entry-point table of src/io/compression.rs and its
   call sites).  The four codec libraries are abstract: `enc` / `dec` with the two premises
   `dec c (enc c b) = Some b` and `enc c b` starts with the real format signature of `c`.
   `write enc w path b` = the bytes stored by writer entry point `w` for serialised text `b`;
   `read dec r path stored` = the bytes reader entry point `r` hands to its parser (None = the
   read fails).  All statements are for ALL byte strings and ALL paths. *)
From Coq Require Import List ZArith Bool.
From IB Require Import IO.Compression Proofs.CompressionProofs Proofs.CompressionRegistryProofs.
Import ListNotations.
Open Scope Z_scope.

(* a concrete codec family meeting the premises, used by the examples only *)
Definition ex_enc (c : codec) (b : bytes) : bytes := signature c ++ b.
Fixpoint ex_strip (p s : bytes) : option bytes :=
  match p, s with
  | [], _ => Some s
  | _ :: _, [] => None
  | x :: p', y :: s' => if x =? y then ex_strip p' s' else None
  end.
Definition ex_dec (c : codec) (s : bytes) : option bytes := ex_strip (signature c) s.
Lemma ex_dec_enc : forall c b, ex_dec c (ex_enc c b) = Some b.
Proof. intros c b. destruct c; reflexivity. Qed.
Lemma ex_enc_sig : forall c b, starts_with (signature c) (ex_enc c b) = true.
Proof. intros c b. apply starts_with_app. Qed.

(* "y.jsonl.gz", "Y.JSONL.GZ", "data.csv", and the text  BZ,1\nCA,2\n  *)
Definition p_gz : bytes := [121; 46; 106; 115; 111; 110; 108; 46; 103; 122].
Definition p_GZ : bytes := [89; 46; 74; 83; 79; 78; 76; 46; 71; 90].
Definition p_csv : bytes := [100; 97; 116; 97; 46; 99; 115; 118].
Definition bz_text : bytes := [66; 90; 44; 49; 10; 67; 65; 44; 50; 10].

(* ---------- the table lemma: the magic bytes the code tests ARE the format signatures ----- *)
Theorem c10_magic_is_signature : forall c, magic c = signature c.
Proof. exact magic_is_signature. Qed.

Example c10_magic_is_signature_ex : magic Bzip2 = [66; 90; 104] /\ signature Bzip2 = [66; 90; 104].
Proof. split; reflexivity. Qed.

(* ---------- a codec extension, in any spelling, selects exactly that codec ---------- *)
Theorem c10_ext_unique :
  forall path c1 c2, has_ext c1 path = true -> has_ext c2 path = true -> c1 = c2.
Proof. exact ext_unique. Qed.

Example c10_ext_unique_ex : has_ext Gzip p_gz = true /\ has_ext Zstd p_gz = false.
Proof. split; vm_compute; reflexivity. Qed.

(* so "first match in registry order" = "the codec whose extension the path carries" *)
Theorem c10_detect_ext_iff : forall path c, detect_ext path = Some c <-> has_ext c path = true.
Proof. exact detect_ext_iff. Qed.

Example c10_detect_ext_iff_ex : detect_ext p_GZ = Some Gzip /\ detect_ext p_csv = None.
Proof. split; vm_compute; reflexivity. Qed.

Theorem c10_ext_any_case :
  forall c e e' stem, In e (extensions c) -> lower e' = e -> has_ext c (stem ++ e') = true.
Proof. exact has_ext_any_case. Qed.

(* ".BzIp2" *)
Example c10_ext_any_case_ex :
  In [46; 98; 122; 105; 112; 50] (extensions Bzip2) /\
  lower [46; 66; 122; 73; 112; 50] = [46; 98; 122; 105; 112; 50] /\
  has_ext Bzip2 ([120] ++ [46; 66; 122; 73; 112; 50]) = true.
Proof. split; [cbn; tauto|]. split; vm_compute; reflexivity. Qed.

(* the cloud writer's private suffix table agrees with the registry *)
Theorem c10_cloud_writer_same_table : forall key, cloud_writer_codec key = detect_ext key.
Proof. exact cloud_writer_codec_eq. Qed.

Example c10_cloud_writer_same_table_ex : cloud_writer_codec [46; 103; 122] = Some Gzip.
Proof. vm_compute. reflexivity. Qed.

(* ---------- codec extension: stored compressed, reads back identical ---------- *)
Theorem c10_ext_roundtrip :
  forall (enc : codec -> bytes -> bytes) (dec : codec -> bytes -> option bytes),
    (forall c b, dec c (enc c b) = Some b) ->
    (forall c b, starts_with (signature c) (enc c b) = true) ->
    forall c w r path b,
      writer_detects w = true -> reader_detects r = true -> has_ext c path = true ->
      write enc w path b = enc c b /\
      starts_with (signature c) (write enc w path b) = true /\
      read dec r path (write enc w path b) = Some b.
Proof. exact ext_roundtrip. Qed.

(* the old defect witness: write_jsonl_par to "y.jsonl.gz", read_jsonl_vec *)
Example c10_ext_roundtrip_ex :
  writer_detects WJsonlPar = true /\ reader_detects RJsonlVec = true /\ has_ext Gzip p_gz = true /\
  write ex_enc WJsonlPar p_gz [123; 125; 10] = [31; 139; 123; 125; 10] /\
  read ex_dec RJsonlVec p_gz (write ex_enc WJsonlPar p_gz [123; 125; 10]) = Some [123; 125; 10].
Proof. repeat split; vm_compute; reflexivity. Qed.

(* ---------- neutral name ---------- *)
Theorem c10_neutral_stored_verbatim :
  forall (enc : codec -> bytes -> bytes) w path b,
    detect_ext path = None -> write enc w path b = b.
Proof. exact neutral_stored_verbatim. Qed.

Example c10_neutral_stored_verbatim_ex :
  detect_ext p_csv = None /\ write ex_enc WCsvPar p_csv bz_text = bz_text.
Proof. split; vm_compute; reflexivity. Qed.

Theorem c10_neutral_verbatim :
  forall (dec : codec -> bytes -> option bytes) r path b,
    detect_ext path = None -> (forall c, starts_with (signature c) b = false) ->
    read dec r path b = Some b.
Proof. exact neutral_verbatim. Qed.

(* the old defect witness: CSV text "BZ,1\nCA,2\n" through read_csv_vec *)
Example c10_neutral_verbatim_ex :
  detect_ext p_csv = None /\ (forall c, starts_with (signature c) bz_text = false) /\
  read ex_dec RCsvVec p_csv bz_text = Some bz_text.
Proof.
  split; [vm_compute; reflexivity|]. split; [intros c; destruct c; vm_compute; reflexivity|].
  vm_compute. reflexivity.
Qed.

(* sufficient conditions for "does not begin with a signature": *)
(* (a) a non-empty proper prefix of a signature followed by any OTHER byte, then anything *)
Theorem c10_prefix_then_other_is_no_signature :
  forall c p y t x rest c',
    signature c = p ++ y :: t -> p <> [] -> x <> y ->
    starts_with (signature c') (p ++ x :: rest) = false.
Proof. exact prefix_then_other. Qed.

(* "BZ" followed by ',' instead of 'h' *)
Example c10_prefix_then_other_is_no_signature_ex :
  signature Bzip2 = [66; 90] ++ 104 :: [] /\ [66; 90] <> [] /\ 44 <> 104 /\
  forall c', starts_with (signature c') ([66; 90] ++ 44 :: [49; 10]) = false.
Proof.
  split; [reflexivity|]. split; [discriminate|]. split; [discriminate|].
  intros c'. exact (c10_prefix_then_other_is_no_signature Bzip2 [66; 90] 104 [] 44 [49; 10] c'
                      eq_refl ltac:(discriminate) ltac:(discriminate)).
Qed.

(* (b) a file that is shorter than the signature it is a prefix of *)
Theorem c10_proper_prefix_alone_is_no_signature :
  forall c p y t c', signature c = p ++ y :: t -> starts_with (signature c') p = false.
Proof. exact proper_prefix_alone. Qed.

Example c10_proper_prefix_alone_is_no_signature_ex :
  signature Xz = [253; 55; 122; 88; 90] ++ 0 :: [] /\
  forall c', starts_with (signature c') [253; 55; 122; 88; 90] = false.
Proof.
  split; [reflexivity|]. intros c'.
  exact (c10_proper_prefix_alone_is_no_signature Xz [253; 55; 122; 88; 90] 0 [] c' eq_refl).
Qed.

(* (c) pure ASCII text is read verbatim unless it begins with the three characters "BZh" *)
Theorem c10_ascii_text_verbatim :
  forall (dec : codec -> bytes -> option bytes) r path b,
    detect_ext path = None -> (forall x, In x b -> x < 128) ->
    starts_with [66; 90; 104] b = false ->
    read dec r path b = Some b.
Proof. exact ascii_text_verbatim. Qed.

Example c10_ascii_text_verbatim_ex :
  detect_ext p_csv = None /\ (forall x, In x bz_text -> x < 128) /\
  starts_with [66; 90; 104] bz_text = false /\
  read ex_dec RCsvStreamPar p_csv bz_text = Some bz_text.
Proof.
  split; [vm_compute; reflexivity|]. split.
  - intros x Hx. cbn in Hx. repeat (destruct Hx as [<- | Hx]; [reflexivity|]). contradiction.
  - split; vm_compute; reflexivity.
Qed.

(* genuinely compressed content under a neutral name is recognised by its signature *)
Theorem c10_neutral_detects :
  forall (enc : codec -> bytes -> bytes) (dec : codec -> bytes -> option bytes),
    (forall c b, dec c (enc c b) = Some b) ->
    (forall c b, starts_with (signature c) (enc c b) = true) ->
    forall c r path b,
      reader_detects r = true -> detect_ext path = None ->
      read dec r path (enc c b) = Some b.
Proof. exact neutral_detects. Qed.

Example c10_neutral_detects_ex :
  reader_detects RCloudJsonl = true /\ detect_ext p_csv = None /\
  read ex_dec RCloudJsonl p_csv (ex_enc Xz [123; 125; 10]) = Some [123; 125; 10].
Proof. repeat split; vm_compute; reflexivity. Qed.

(* ---------- extension wins over magic bytes ---------- *)
Theorem c10_ext_priority :
  forall r c path stored,
    reader_detects r = true -> has_ext c path = true ->
    ep_reader_codec r path stored = Some c.
Proof. exact ext_priority. Qed.

(* zstd-looking content under a .gz name is given to the gzip decoder *)
Example c10_ext_priority_ex :
  has_ext Gzip p_gz = true /\ detect_magic (signature Zstd ++ [1; 2]) = Some Zstd /\
  ep_reader_codec RJsonlRange p_gz (signature Zstd ++ [1; 2]) = Some Gzip.
Proof. repeat split; vm_compute; reflexivity. Qed.

(* ---------- end to end ---------- *)
Theorem c10_transparent :
  forall (enc : codec -> bytes -> bytes) (dec : codec -> bytes -> option bytes),
    (forall c b, dec c (enc c b) = Some b) ->
    (forall c b, starts_with (signature c) (enc c b) = true) ->
    forall w r path b,
      writer_detects w = true -> reader_detects r = true ->
      (detect_ext path = None -> forall c, starts_with (signature c) b = false) ->
      read dec r path (write enc w path b) = Some b.
Proof. exact transparent. Qed.

Example c10_transparent_ex :
  read ex_dec RCsvVec p_csv (write ex_enc WCsvPar p_csv bz_text) = Some bz_text /\
  read ex_dec RPcJsonlGlob p_GZ (write ex_enc WCloudJsonl p_GZ bz_text) = Some bz_text.
Proof. split; vm_compute; reflexivity. Qed.

(* which entry points are covered: every writer except write_parquet_vec and every reader except
   read_parquet_vec go through the detection (parquet has no codec layer: a codec-named parquet
   file is stored and read as plain parquet) *)
Theorem c10_entry_points :
  (forall w, writer_detects w = true <-> w <> WParquetVec) /\
  (forall r, reader_detects r = true <-> r <> RParquetVec).
Proof. exact entry_points. Qed.

Example c10_entry_points_ex : writer_detects WJsonlPar = true /\ reader_detects RParquetVec = false.
Proof. split; reflexivity. Qed.

(* ====================================================================================
   The registry is process state: register_codec may be called before or after the first I/O.
   ==================================================================================== *)

(* a custom codec: extension ".myz", magic "MYZ1"; and one whose extension "z" and magic 0x1f
   overlap built-in ones *)
Definition ex_custom : centry :=
  {| ce_id := CCustom 0; ce_exts := [[46; 109; 121; 122]]; ce_magic := Some [77; 89; 90; 49] |}.
Definition ex_overlap : centry :=
  {| ce_id := CCustom 1; ce_exts := [[122]]; ce_magic := Some [31] |}.
Definition exr_enc (c : cid) (b : bytes) : bytes :=
  match c with CBuiltin c' => signature c' ++ b | CCustom _ => [77; 89; 90; 49] ++ b end.
Definition exr_dec (c : cid) (s : bytes) : option bytes :=
  match c with CBuiltin c' => ex_strip (signature c') s | CCustom _ => ex_strip [77; 89; 90; 49] s end.

(* whatever the interleaving of I/O calls (get_registry) and registrations, detection sees the
   four built-in codecs first and then the registered ones in registration order; in particular
   registering BEFORE the first I/O call does not lose the built-in codecs *)
Theorem c10_registry_builtins_first :
  forall ops, reg_view (reg_run ops) = registry_after (registered ops).
Proof. exact registry_builtins_first. Qed.

Example c10_registry_builtins_first_ex :
  reg_view (reg_run [OpRegister ex_custom; OpGet; OpRegister ex_overlap]) =
  builtin_entries ++ [ex_custom; ex_overlap] /\
  reg_view (reg_run [OpGet; OpRegister ex_custom]) = builtin_entries ++ [ex_custom].
Proof. split; reflexivity. Qed.

(* a built-in decision is never changed by a registration, overlapping or not *)
Theorem c10_register_builtin_wins_ext :
  forall cs path c, has_ext c path = true ->
    detect_ext_in (registry_after cs) path = Some (CBuiltin c).
Proof. exact builtin_wins_ext. Qed.

(* "y.jsonl.gz" also ends with the custom extension "z" *)
Example c10_register_builtin_wins_ext_ex :
  entry_has_ext ex_overlap p_gz = true /\
  detect_ext_in (registry_after [ex_overlap]) p_gz = Some (CBuiltin Gzip).
Proof. split; vm_compute; reflexivity. Qed.

Theorem c10_register_builtin_wins_magic :
  forall cs s c, starts_with (signature c) s = true ->
    detect_magic_in (registry_after cs) s = Some (CBuiltin c).
Proof. exact builtin_wins_magic. Qed.

Example c10_register_builtin_wins_magic_ex :
  entry_has_magic ex_overlap [31; 139; 8] = true /\
  detect_magic_in (registry_after [ex_overlap]) [31; 139; 8] = Some (CBuiltin Gzip) /\
  detect_magic_in (registry_after [ex_overlap]) [31; 0] = Some (CCustom 1).
Proof. repeat split; vm_compute; reflexivity. Qed.

(* registered codecs whose extensions / magic do not match leave every decision of every entry
   point exactly as in a process that registered nothing *)
Theorem c10_register_conservative :
  forall cs,
    (forall w p, no_custom_ext cs p ->
       ep_writer_codec_in (registry_after cs) w p = option_map CBuiltin (ep_writer_codec w p)) /\
    (forall r p s, no_custom_ext cs p -> no_custom_magic cs s ->
       ep_reader_codec_in (registry_after cs) r p s = option_map CBuiltin (ep_reader_codec r p s)).
Proof. exact conservative. Qed.

Example c10_register_conservative_ex :
  no_custom_ext [ex_custom] p_csv /\ no_custom_magic [ex_custom] bz_text /\
  ep_reader_codec_in (registry_after [ex_custom]) RCsvVec p_csv bz_text = None /\
  ep_writer_codec_in (registry_after [ex_custom]) WCsvPar p_GZ = Some (CBuiltin Gzip).
Proof.
  split; [intros e [<- | []]; vm_compute; reflexivity|].
  split; [intros e [<- | []]; vm_compute; reflexivity|].
  split; vm_compute; reflexivity.
Qed.

Theorem c10_no_registration :
  forall w r p s,
    ep_writer_codec_in builtin_entries w p = option_map CBuiltin (ep_writer_codec w p) /\
    ep_reader_codec_in builtin_entries r p s = option_map CBuiltin (ep_reader_codec r p s).
Proof. exact no_registration. Qed.

Example c10_no_registration_ex :
  ep_writer_codec_in builtin_entries WJsonlVec p_gz = Some (CBuiltin Gzip).
Proof. vm_compute. reflexivity. Qed.

(* the property for built-in codecs under ANY sequence of registrations and I/O calls *)
Theorem c10_register_ext_roundtrip :
  forall (enc : cid -> bytes -> bytes) (dec : cid -> bytes -> option bytes),
    (forall c b, dec (CBuiltin c) (enc (CBuiltin c) b) = Some b) ->
    (forall c b, starts_with (signature c) (enc (CBuiltin c) b) = true) ->
    forall ops c w r path b,
      writer_detects w = true -> reader_detects r = true -> has_ext c path = true ->
      let reg := reg_view (reg_run ops) in
      write_in enc reg w path b = enc (CBuiltin c) b /\
      starts_with (signature c) (write_in enc reg w path b) = true /\
      read_in dec reg r path (write_in enc reg w path b) = Some b.
Proof. exact register_ext_roundtrip. Qed.

(* register first, then the first write goes to "y.jsonl.gz" *)
Example c10_register_ext_roundtrip_ex :
  let reg := reg_view (reg_run [OpRegister ex_overlap; OpRegister ex_custom]) in
  write_in exr_enc reg WJsonlVec p_gz [123; 125; 10] = [31; 139; 123; 125; 10] /\
  read_in exr_dec reg RJsonlVec p_gz (write_in exr_enc reg WJsonlVec p_gz [123; 125; 10])
  = Some [123; 125; 10].
Proof. split; vm_compute; reflexivity. Qed.

Theorem c10_register_neutral_detects :
  forall (enc : cid -> bytes -> bytes) (dec : cid -> bytes -> option bytes),
    (forall c b, dec (CBuiltin c) (enc (CBuiltin c) b) = Some b) ->
    (forall c b, starts_with (signature c) (enc (CBuiltin c) b) = true) ->
    forall ops c r path b,
      reader_detects r = true -> detect_ext path = None ->
      no_custom_ext (registered ops) path ->
      read_in dec (reg_view (reg_run ops)) r path (enc (CBuiltin c) b) = Some b.
Proof. exact register_neutral_detects. Qed.

Example c10_register_neutral_detects_ex :
  no_custom_ext (registered [OpRegister ex_custom]) p_csv /\
  read_in exr_dec (reg_view (reg_run [OpRegister ex_custom])) RCsvVec p_csv
          (exr_enc (CBuiltin Zstd) [97; 44; 49; 10]) = Some [97; 44; 49; 10].
Proof. split; [intros e [<- | []]; vm_compute; reflexivity | vm_compute; reflexivity]. Qed.

Theorem c10_register_neutral_verbatim :
  forall (enc : cid -> bytes -> bytes) (dec : cid -> bytes -> option bytes) ops w r path b,
    detect_ext path = None -> no_custom_ext (registered ops) path ->
    (forall c, starts_with (signature c) b = false) -> no_custom_magic (registered ops) b ->
    let reg := reg_view (reg_run ops) in
    write_in enc reg w path b = b /\ read_in dec reg r path b = Some b.
Proof. exact register_neutral_verbatim. Qed.

Example c10_register_neutral_verbatim_ex :
  let reg := reg_view (reg_run [OpRegister ex_custom]) in
  write_in exr_enc reg WCsvVec p_csv bz_text = bz_text /\
  read_in exr_dec reg RCsvVec p_csv bz_text = Some bz_text.
Proof. split; vm_compute; reflexivity. Qed.
