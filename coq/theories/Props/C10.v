(* C10: compression is transparent and format detection is sound.
   ONLY the property theorems (each closed by `exact`) and their non-vacuity examples.
   Model: IO/Compression.v (detection logic + entry-point table of src/io/compression.rs and its
   call sites).  The four codec libraries are abstract: `enc` / `dec` with the two premises
   `dec c (enc c b) = Some b` and `enc c b` starts with the real format signature of `c`.
   `write enc w path b` = the bytes stored by writer entry point `w` for serialised text `b`;
   `read dec r path stored` = the bytes reader entry point `r` hands to its parser (None = the
   read fails).  All statements are for ALL byte strings and ALL paths. *)
From Coq Require Import List ZArith NArith Bool.
From IB Require Import IO.Compression IO.CompressionPayload IO.Jsonl Proofs.CompressionProofs
  Proofs.CompressionRegistryProofs Proofs.CompressionPayloadProofs Proofs.CompressionLengthProofs.
Import ListNotations.
Open Scope Z_scope.

(* a concrete codec family meeting the premises, used by the examples only *)
Definition ex_enc (c : codec) (b : bytes) : bytes := signature c ++ b.
Fixpoint ex_strip (p s : bytes) : option bytes :=
  match p, s with
  | [], _ => Some s
  | _ :: _, [] => None
  | x :: p', y :: s' => if x =? y then ex_strip p' s' else None
  end.
Definition ex_dec (c : codec) (s : bytes) : option bytes := ex_strip (signature c) s.
Lemma ex_dec_enc : forall c b, ex_dec c (ex_enc c b) = Some b.
Proof. intros c b. destruct c; reflexivity. Qed.
Lemma ex_enc_sig : forall c b, starts_with (signature c) (ex_enc c b) = true.
Proof. intros c b. apply starts_with_app. Qed.

(* "y.jsonl.gz", "Y.JSONL.GZ", "data.csv", and the text  BZ,1\nCA,2\n  *)
Definition p_gz : bytes := [121; 46; 106; 115; 111; 110; 108; 46; 103; 122].
Definition p_GZ : bytes := [89; 46; 74; 83; 79; 78; 76; 46; 71; 90].
Definition p_csv : bytes := [100; 97; 116; 97; 46; 99; 115; 118].
Definition bz_text : bytes := [66; 90; 44; 49; 10; 67; 65; 44; 50; 10].

(* ---------- the table lemma: the magic bytes the code tests ARE the format signatures ----- *)
Theorem c10_magic_is_signature : forall c, magic c = signature c.
Proof. exact magic_is_signature. Qed.

Example c10_magic_is_signature_ex : magic Bzip2 = [66; 90; 104] /\ signature Bzip2 = [66; 90; 104].
Proof. split; reflexivity. Qed.

(* ---------- a codec extension, in any spelling, selects exactly that codec ---------- *)
Theorem c10_ext_unique :
  forall path c1 c2, has_ext c1 path = true -> has_ext c2 path = true -> c1 = c2.
Proof. exact ext_unique. Qed.

Example c10_ext_unique_ex : has_ext Gzip p_gz = true /\ has_ext Zstd p_gz = false.
Proof. split; vm_compute; reflexivity. Qed.

(* so "first match in registry order" = "the codec whose extension the path carries" *)
Theorem c10_detect_ext_iff : forall path c, detect_ext path = Some c <-> has_ext c path = true.
Proof. exact detect_ext_iff. Qed.

Example c10_detect_ext_iff_ex : detect_ext p_GZ = Some Gzip /\ detect_ext p_csv = None.
Proof. split; vm_compute; reflexivity. Qed.

Theorem c10_ext_any_case :
  forall c e e' stem, In e (extensions c) -> lower e' = e -> has_ext c (stem ++ e') = true.
Proof. exact has_ext_any_case. Qed.

(* ".BzIp2" *)
Example c10_ext_any_case_ex :
  In [46; 98; 122; 105; 112; 50] (extensions Bzip2) /\
  lower [46; 66; 122; 73; 112; 50] = [46; 98; 122; 105; 112; 50] /\
  has_ext Bzip2 ([120] ++ [46; 66; 122; 73; 112; 50]) = true.
Proof. split; [cbn; tauto|]. split; vm_compute; reflexivity. Qed.

(* the cloud writer's private suffix table agrees with the registry *)
Theorem c10_cloud_writer_same_table : forall key, cloud_writer_codec key = detect_ext key.
Proof. exact cloud_writer_codec_eq. Qed.

Example c10_cloud_writer_same_table_ex : cloud_writer_codec [46; 103; 122] = Some Gzip.
Proof. vm_compute. reflexivity. Qed.

(* ---------- codec extension: stored compressed, reads back identical ---------- *)
Theorem c10_ext_roundtrip :
  forall (enc : codec -> bytes -> bytes) (dec : codec -> bytes -> option bytes),
    (forall c b, dec c (enc c b) = Some b) ->
    (forall c b, starts_with (signature c) (enc c b) = true) ->
    forall c w r path b,
      writer_detects w = true -> reader_detects r = true -> has_ext c path = true ->
      write enc w path b = enc c b /\
      starts_with (signature c) (write enc w path b) = true /\
      read dec r path (write enc w path b) = Some b.
Proof. exact ext_roundtrip. Qed.

(* the old defect witness: write_jsonl_par to "y.jsonl.gz", read_jsonl_vec *)
Example c10_ext_roundtrip_ex :
  writer_detects WJsonlPar = true /\ reader_detects RJsonlVec = true /\ has_ext Gzip p_gz = true /\
  write ex_enc WJsonlPar p_gz [123; 125; 10] = [31; 139; 123; 125; 10] /\
  read ex_dec RJsonlVec p_gz (write ex_enc WJsonlPar p_gz [123; 125; 10]) = Some [123; 125; 10].
Proof. repeat split; vm_compute; reflexivity. Qed.

(* ---------- neutral name ---------- *)
Theorem c10_neutral_stored_verbatim :
  forall (enc : codec -> bytes -> bytes) w path b,
    detect_ext path = None -> write enc w path b = b.
Proof. exact neutral_stored_verbatim. Qed.

Example c10_neutral_stored_verbatim_ex :
  detect_ext p_csv = None /\ write ex_enc WCsvPar p_csv bz_text = bz_text.
Proof. split; vm_compute; reflexivity. Qed.

Theorem c10_neutral_verbatim :
  forall (dec : codec -> bytes -> option bytes) r path b,
    detect_ext path = None -> (forall c, starts_with (signature c) b = false) ->
    read dec r path b = Some b.
Proof. exact neutral_verbatim. Qed.

(* the old defect witness: CSV text "BZ,1\nCA,2\n" through read_csv_vec *)
Example c10_neutral_verbatim_ex :
  detect_ext p_csv = None /\ (forall c, starts_with (signature c) bz_text = false) /\
  read ex_dec RCsvVec p_csv bz_text = Some bz_text.
Proof.
  split; [vm_compute; reflexivity|]. split; [intros c; destruct c; vm_compute; reflexivity|].
  vm_compute. reflexivity.
Qed.

(* sufficient conditions for "does not begin with a signature": *)
(* (a) a non-empty proper prefix of a signature followed by any OTHER byte, then anything *)
Theorem c10_prefix_then_other_is_no_signature :
  forall c p y t x rest c',
    signature c = p ++ y :: t -> p <> [] -> x <> y ->
    starts_with (signature c') (p ++ x :: rest) = false.
Proof. exact prefix_then_other. Qed.

(* "BZ" followed by ',' instead of 'h' *)
Example c10_prefix_then_other_is_no_signature_ex :
  signature Bzip2 = [66; 90] ++ 104 :: [] /\ [66; 90] <> [] /\ 44 <> 104 /\
  forall c', starts_with (signature c') ([66; 90] ++ 44 :: [49; 10]) = false.
Proof.
  split; [reflexivity|]. split; [discriminate|]. split; [discriminate|].
  intros c'. exact (c10_prefix_then_other_is_no_signature Bzip2 [66; 90] 104 [] 44 [49; 10] c'
                      eq_refl ltac:(discriminate) ltac:(discriminate)).
Qed.

(* (b) a file that is shorter than the signature it is a prefix of *)
Theorem c10_proper_prefix_alone_is_no_signature :
  forall c p y t c', signature c = p ++ y :: t -> starts_with (signature c') p = false.
Proof. exact proper_prefix_alone. Qed.

Example c10_proper_prefix_alone_is_no_signature_ex :
  signature Xz = [253; 55; 122; 88; 90] ++ 0 :: [] /\
  forall c', starts_with (signature c') [253; 55; 122; 88; 90] = false.
Proof.
  split; [reflexivity|]. intros c'.
  exact (c10_proper_prefix_alone_is_no_signature Xz [253; 55; 122; 88; 90] 0 [] c' eq_refl).
Qed.

(* (c) pure ASCII text is read verbatim unless it begins with the three characters "BZh" *)
Theorem c10_ascii_text_verbatim :
  forall (dec : codec -> bytes -> option bytes) r path b,
    detect_ext path = None -> (forall x, In x b -> x < 128) ->
    starts_with [66; 90; 104] b = false ->
    read dec r path b = Some b.
Proof. exact ascii_text_verbatim. Qed.

Example c10_ascii_text_verbatim_ex :
  detect_ext p_csv = None /\ (forall x, In x bz_text -> x < 128) /\
  starts_with [66; 90; 104] bz_text = false /\
  read ex_dec RCsvStreamPar p_csv bz_text = Some bz_text.
Proof.
  split; [vm_compute; reflexivity|]. split.
  - intros x Hx. cbn in Hx. repeat (destruct Hx as [<- | Hx]; [reflexivity|]). contradiction.
  - split; vm_compute; reflexivity.
Qed.

(* genuinely compressed content under a neutral name is recognised by its signature *)
Theorem c10_neutral_detects :
  forall (enc : codec -> bytes -> bytes) (dec : codec -> bytes -> option bytes),
    (forall c b, dec c (enc c b) = Some b) ->
    (forall c b, starts_with (signature c) (enc c b) = true) ->
    forall c r path b,
      reader_detects r = true -> detect_ext path = None ->
      read dec r path (enc c b) = Some b.
Proof. exact neutral_detects. Qed.

Example c10_neutral_detects_ex :
  reader_detects RCloudJsonl = true /\ detect_ext p_csv = None /\
  read ex_dec RCloudJsonl p_csv (ex_enc Xz [123; 125; 10]) = Some [123; 125; 10].
Proof. repeat split; vm_compute; reflexivity. Qed.

(* ---------- extension wins over magic bytes ---------- *)
Theorem c10_ext_priority :
  forall r c path stored,
    reader_detects r = true -> has_ext c path = true ->
    ep_reader_codec r path stored = Some c.
Proof. exact ext_priority. Qed.

(* zstd-looking content under a .gz name is given to the gzip decoder *)
Example c10_ext_priority_ex :
  has_ext Gzip p_gz = true /\ detect_magic (signature Zstd ++ [1; 2]) = Some Zstd /\
  ep_reader_codec RJsonlRange p_gz (signature Zstd ++ [1; 2]) = Some Gzip.
Proof. repeat split; vm_compute; reflexivity. Qed.

(* ---------- end to end ---------- *)
Theorem c10_transparent :
  forall (enc : codec -> bytes -> bytes) (dec : codec -> bytes -> option bytes),
    (forall c b, dec c (enc c b) = Some b) ->
    (forall c b, starts_with (signature c) (enc c b) = true) ->
    forall w r path b,
      writer_detects w = true -> reader_detects r = true ->
      (detect_ext path = None -> forall c, starts_with (signature c) b = false) ->
      read dec r path (write enc w path b) = Some b.
Proof. exact transparent. Qed.

Example c10_transparent_ex :
  read ex_dec RCsvVec p_csv (write ex_enc WCsvPar p_csv bz_text) = Some bz_text /\
  read ex_dec RPcJsonlGlob p_GZ (write ex_enc WCloudJsonl p_GZ bz_text) = Some bz_text.
Proof. split; vm_compute; reflexivity. Qed.

(* which entry points are covered: every writer except write_parquet_vec and every reader except
   read_parquet_vec go through the detection (parquet has no codec layer: a codec-named parquet
   file is stored and read as plain parquet) *)
Theorem c10_entry_points :
  (forall w, writer_detects w = true <-> w <> WParquetVec) /\
  (forall r, reader_detects r = true <-> r <> RParquetVec).
Proof. exact entry_points. Qed.

Example c10_entry_points_ex : writer_detects WJsonlPar = true /\ reader_detects RParquetVec = false.
Proof. split; reflexivity. Qed.

(* ====================================================================================
   The registry is process state: register_codec may be called before or after the first I/O.
   ==================================================================================== *)

(* a custom codec: extension ".myz", magic "MYZ1"; and one whose extension "z" and magic 0x1f
   overlap built-in ones *)
Definition ex_custom : centry :=
  {| ce_id := CCustom 0; ce_exts := [[46; 109; 121; 122]]; ce_magic := Some [77; 89; 90; 49] |}.
Definition ex_overlap : centry :=
  {| ce_id := CCustom 1; ce_exts := [[122]]; ce_magic := Some [31] |}.
Definition exr_enc (c : cid) (b : bytes) : bytes :=
  match c with CBuiltin c' => signature c' ++ b | CCustom _ => [77; 89; 90; 49] ++ b end.
Definition exr_dec (c : cid) (s : bytes) : option bytes :=
  match c with CBuiltin c' => ex_strip (signature c') s | CCustom _ => ex_strip [77; 89; 90; 49] s end.

(* whatever the interleaving of I/O calls (get_registry) and registrations, detection sees the
   four built-in codecs first and then the registered ones in registration order; in particular
   registering BEFORE the first I/O call does not lose the built-in codecs *)
Theorem c10_registry_builtins_first :
  forall ops, reg_view (reg_run ops) = registry_after (registered ops).
Proof. exact registry_builtins_first. Qed.

Example c10_registry_builtins_first_ex :
  reg_view (reg_run [OpRegister ex_custom; OpGet; OpRegister ex_overlap]) =
  builtin_entries ++ [ex_custom; ex_overlap] /\
  reg_view (reg_run [OpGet; OpRegister ex_custom]) = builtin_entries ++ [ex_custom].
Proof. split; reflexivity. Qed.

(* a built-in decision is never changed by a registration, overlapping or not *)
Theorem c10_register_builtin_wins_ext :
  forall cs path c, has_ext c path = true ->
    detect_ext_in (registry_after cs) path = Some (CBuiltin c).
Proof. exact builtin_wins_ext. Qed.

(* "y.jsonl.gz" also ends with the custom extension "z" *)
Example c10_register_builtin_wins_ext_ex :
  entry_has_ext ex_overlap p_gz = true /\
  detect_ext_in (registry_after [ex_overlap]) p_gz = Some (CBuiltin Gzip).
Proof. split; vm_compute; reflexivity. Qed.

Theorem c10_register_builtin_wins_magic :
  forall cs s c, starts_with (signature c) s = true ->
    detect_magic_in (registry_after cs) s = Some (CBuiltin c).
Proof. exact builtin_wins_magic. Qed.

Example c10_register_builtin_wins_magic_ex :
  entry_has_magic ex_overlap [31; 139; 8] = true /\
  detect_magic_in (registry_after [ex_overlap]) [31; 139; 8] = Some (CBuiltin Gzip) /\
  detect_magic_in (registry_after [ex_overlap]) [31; 0] = Some (CCustom 1).
Proof. repeat split; vm_compute; reflexivity. Qed.

(* registered codecs whose extensions / magic do not match leave every decision of every entry
   point exactly as in a process that registered nothing *)
Theorem c10_register_conservative :
  forall cs,
    (forall w p, no_custom_ext cs p ->
       ep_writer_codec_in (registry_after cs) w p = option_map CBuiltin (ep_writer_codec w p)) /\
    (forall r p s, no_custom_ext cs p -> no_custom_magic cs s ->
       ep_reader_codec_in (registry_after cs) r p s = option_map CBuiltin (ep_reader_codec r p s)).
Proof. exact conservative. Qed.

Example c10_register_conservative_ex :
  no_custom_ext [ex_custom] p_csv /\ no_custom_magic [ex_custom] bz_text /\
  ep_reader_codec_in (registry_after [ex_custom]) RCsvVec p_csv bz_text = None /\
  ep_writer_codec_in (registry_after [ex_custom]) WCsvPar p_GZ = Some (CBuiltin Gzip).
Proof.
  split; [intros e [<- | []]; vm_compute; reflexivity|].
  split; [intros e [<- | []]; vm_compute; reflexivity|].
  split; vm_compute; reflexivity.
Qed.

Theorem c10_no_registration :
  forall w r p s,
    ep_writer_codec_in builtin_entries w p = option_map CBuiltin (ep_writer_codec w p) /\
    ep_reader_codec_in builtin_entries r p s = option_map CBuiltin (ep_reader_codec r p s).
Proof. exact no_registration. Qed.

Example c10_no_registration_ex :
  ep_writer_codec_in builtin_entries WJsonlVec p_gz = Some (CBuiltin Gzip).
Proof. vm_compute. reflexivity. Qed.

(* the property for built-in codecs under ANY sequence of registrations and I/O calls *)
Theorem c10_register_ext_roundtrip :
  forall (enc : cid -> bytes -> bytes) (dec : cid -> bytes -> option bytes),
    (forall c b, dec (CBuiltin c) (enc (CBuiltin c) b) = Some b) ->
    (forall c b, starts_with (signature c) (enc (CBuiltin c) b) = true) ->
    forall ops c w r path b,
      writer_detects w = true -> reader_detects r = true -> has_ext c path = true ->
      let reg := reg_view (reg_run ops) in
      write_in enc reg w path b = enc (CBuiltin c) b /\
      starts_with (signature c) (write_in enc reg w path b) = true /\
      read_in dec reg r path (write_in enc reg w path b) = Some b.
Proof. exact register_ext_roundtrip. Qed.

(* register first, then the first write goes to "y.jsonl.gz" *)
Example c10_register_ext_roundtrip_ex :
  let reg := reg_view (reg_run [OpRegister ex_overlap; OpRegister ex_custom]) in
  write_in exr_enc reg WJsonlVec p_gz [123; 125; 10] = [31; 139; 123; 125; 10] /\
  read_in exr_dec reg RJsonlVec p_gz (write_in exr_enc reg WJsonlVec p_gz [123; 125; 10])
  = Some [123; 125; 10].
Proof. split; vm_compute; reflexivity. Qed.

Theorem c10_register_neutral_detects :
  forall (enc : cid -> bytes -> bytes) (dec : cid -> bytes -> option bytes),
    (forall c b, dec (CBuiltin c) (enc (CBuiltin c) b) = Some b) ->
    (forall c b, starts_with (signature c) (enc (CBuiltin c) b) = true) ->
    forall ops c r path b,
      reader_detects r = true -> detect_ext path = None ->
      no_custom_ext (registered ops) path ->
      read_in dec (reg_view (reg_run ops)) r path (enc (CBuiltin c) b) = Some b.
Proof. exact register_neutral_detects. Qed.

Example c10_register_neutral_detects_ex :
  no_custom_ext (registered [OpRegister ex_custom]) p_csv /\
  read_in exr_dec (reg_view (reg_run [OpRegister ex_custom])) RCsvVec p_csv
          (exr_enc (CBuiltin Zstd) [97; 44; 49; 10]) = Some [97; 44; 49; 10].
Proof. split; [intros e [<- | []]; vm_compute; reflexivity | vm_compute; reflexivity]. Qed.

Theorem c10_register_neutral_verbatim :
  forall (enc : cid -> bytes -> bytes) (dec : cid -> bytes -> option bytes) ops w r path b,
    detect_ext path = None -> no_custom_ext (registered ops) path ->
    (forall c, starts_with (signature c) b = false) -> no_custom_magic (registered ops) b ->
    let reg := reg_view (reg_run ops) in
    write_in enc reg w path b = b /\ read_in dec reg r path b = Some b.
Proof. exact register_neutral_verbatim. Qed.

Example c10_register_neutral_verbatim_ex :
  let reg := reg_view (reg_run [OpRegister ex_custom]) in
  write_in exr_enc reg WCsvVec p_csv bz_text = bz_text /\
  read_in exr_dec reg RCsvVec p_csv bz_text = Some bz_text.
Proof. split; vm_compute; reflexivity. Qed.

(* ====================================================================================
   The SIZE dimension: contents of any length, read patterns across the 8 KiB buffer, serialised
   JSONL / CSV text of any number of records, a second write to the same name.
   ==================================================================================== *)

(* detection by content looks at the first six bytes and nothing else: the decision cannot
   depend on how long the content is or on what follows *)
Theorem c10_magic_window : forall s, detect_magic s = detect_magic (firstn 6 s).
Proof. exact detect_magic_window. Qed.

Example c10_magic_window_ex :
  detect_magic (signature Xz ++ repeat 7 (Z.to_nat 20000)) = Some Xz /\
  firstn 6 (signature Xz ++ repeat 7 (Z.to_nat 20000)) = signature Xz.
Proof. split; vm_compute; reflexivity. Qed.

Theorem c10_reader_size_independent :
  forall r path h t1 t2, (6 <= length h)%nat ->
    ep_reader_codec r path (h ++ t1) = ep_reader_codec r path (h ++ t2).
Proof. exact reader_codec_size_independent. Qed.

(* an xz header followed by nothing / by 20000 more bytes, neutral key, cloud reader *)
Example c10_reader_size_independent_ex :
  (6 <= length (signature Xz))%nat /\
  ep_reader_codec RCloudJsonl p_csv (signature Xz ++ []) = Some Xz /\
  ep_reader_codec RCloudJsonl p_csv (signature Xz ++ repeat 7 (Z.to_nat 20000)) = Some Xz.
Proof. split; [cbn; repeat constructor|]. split; vm_compute; reflexivity. Qed.

(* the peek of auto_detect_reader is BufReader::fill_buf on a fresh BufReader ... *)
Theorem c10_peek_is_fill_buf :
  forall content, peek content = br_peek buf_capacity (br_new content).
Proof. exact peek_is_br_peek. Qed.

Example c10_peek_is_fill_buf_ex :
  length (peek (repeat 1 (Z.to_nat 10000))) = buf_capacity /\
  br_rest (br_after_peek (repeat 1 (Z.to_nat 10000))) = repeat 1 (Z.to_nat 1808).
Proof. split; vm_compute; reflexivity. Qed.

(* ... and it consumes nothing: whatever sizes the consumer (decoder, line reader) then reads with,
   it receives the content from its first byte, for contents of every length *)
Theorem c10_after_peek_stream :
  forall content ks,
    concat (fst (br_reads buf_capacity ks (br_after_peek content)))
    ++ br_remaining (snd (br_reads buf_capacity ks (br_after_peek content))) = content.
Proof. exact after_peek_stream. Qed.

(* 10000 bytes; reads of 3, 9000 (larger than the buffer while it still holds 8189 bytes), 5000 *)
Example c10_after_peek_stream_ex :
  map (@length Z) (fst (br_reads buf_capacity (map Z.to_nat [3; 9000; 5000]) (br_after_peek (repeat 1 (Z.to_nat 10000)))))
  = map Z.to_nat [3; 8189; 1808] /\
  br_remaining (snd (br_reads buf_capacity (map Z.to_nat [3; 9000; 5000]) (br_after_peek (repeat 1 (Z.to_nat 10000))))) = [].
Proof. split; vm_compute; reflexivity. Qed.

Theorem c10_bufreader_progress :
  forall cap k b, (0 < cap)%nat -> (0 < k)%nat -> br_remaining b <> [] ->
    fst (br_read cap k b) <> [].
Proof. exact br_read_progress. Qed.

Example c10_bufreader_progress_ex :
  (0 < 4)%nat /\ (0 < 9)%nat /\ br_remaining (br_new [1; 2; 3; 4; 5; 6]) <> [] /\
  fst (br_read 4 9 (br_new [1; 2; 3; 4; 5; 6])) = [1; 2; 3; 4; 5; 6] /\
  fst (br_read 4 2 (br_new [1; 2; 3; 4; 5; 6])) = [1; 2].
Proof. repeat split; try (vm_compute; reflexivity); try (repeat constructor). discriminate. Qed.

(* two records: ("BZ", 1), ("k", 10) *)
Definition ex_recs : list prec := [([66; 90], 1%N); ([107], 10%N)].

(* length of the text the JSONL / CSV writers produce, for any number of records *)
Theorem c10_text_length :
  forall rs, length (jsonl_text rs) = sum_nat (map jsonl_line_len rs) /\
             length (csv_text rs) = sum_nat (map csv_line_len rs).
Proof. exact (fun rs => conj (jsonl_text_length rs) (csv_text_length rs)). Qed.

(* {"k":"BZ","v":1}\n{"k":"k","v":10}\n  and  BZ,1\nk,10\n *)
Example c10_text_length_ex :
  length (jsonl_text ex_recs) = 34%nat /\ sum_nat (map jsonl_line_len ex_recs) = 34%nat /\
  csv_text ex_recs = [66; 90; 44; 49; 10; 107; 44; 49; 48; 10].
Proof. repeat split; vm_compute; reflexivity. Qed.

(* payloads given by generator parameters have the announced shape, whatever the key characters *)
Theorem c10_payload_shape :
  forall kc g, length (pl_recs kc g) = N.to_nat (pg_n g) /\
               forall i, length (pl_key kc g i) = N.to_nat (pl_keylen g i).
Proof. exact (fun kc g => conj (pl_recs_length kc g) (pl_key_length kc g)). Qed.

Example c10_payload_shape_ex :
  let g := {| pg_n := 3; pg_klen := 2; pg_k0len := 5 |} in
  pl_recs (fun i j => 65 + Z.of_N i + Z.of_N j) g
  = [([65; 66; 67; 68; 69], 0%N); ([66; 67], 1%N); ([67; 68], 2%N)].
Proof. vm_compute. reflexivity. Qed.

(* the closed-form text length the correspondence run computes from the generator parameters
   (records * overhead + key lengths + number of decimal digits of 0 .. n-1) is the length of the
   rendered text, for every payload of up to 10^40 records *)
Theorem c10_payload_text_length :
  forall kc g, (pg_n g <= 10 ^ 40)%N ->
    N.of_nat (length (jsonl_text (pl_recs kc g))) = pl_text_len 14 g /\
    N.of_nat (length (csv_text (pl_recs kc g))) = pl_text_len 2 g.
Proof. exact (fun kc g H => conj (jsonl_payload_length kc g H) (csv_payload_length kc g H)). Qed.

(* 12 records: ten one-digit and two two-digit values *)
Example c10_payload_text_length_ex :
  let g := {| pg_n := 12; pg_klen := 2; pg_k0len := 5 |} in
  (pg_n g <= 10 ^ 40)%N /\ pl_text_len 14 g = 209%N /\
  length (jsonl_text (pl_recs (fun _ _ => 120) g)) = 209%nat /\ pl_text_len 2 g = 65%N.
Proof. cbv zeta. split; [vm_compute; discriminate|]. repeat split; vm_compute; reflexivity. Qed.

(* JSONL text of ANY size under ANY name (codec-named or neutral) comes back unchanged through
   every pair of detecting entry points: it is never mistaken for compressed data *)
Theorem c10_jsonl_text_transparent :
  forall (enc : codec -> bytes -> bytes) (dec : codec -> bytes -> option bytes),
    (forall c b, dec c (enc c b) = Some b) ->
    (forall c b, starts_with (signature c) (enc c b) = true) ->
    forall w r path rs,
      writer_detects w = true -> reader_detects r = true ->
      read dec r path (write enc w path (jsonl_text rs)) = Some (jsonl_text rs).
Proof. exact jsonl_text_transparent. Qed.

Example c10_jsonl_text_transparent_ex :
  read ex_dec RCloudJsonlGlob p_csv (write ex_enc WCloudJsonl p_csv (jsonl_text ex_recs))
  = Some (jsonl_text ex_recs) /\
  read ex_dec RJsonlStreamPar p_GZ (write ex_enc WPcJsonlPar p_GZ (jsonl_text ex_recs))
  = Some (jsonl_text ex_recs).
Proof. split; vm_compute; reflexivity. Qed.

(* what the line-based readers (BufRead::lines: local, streaming and cloud JSONL readers) get:
   exactly one line per record, in order, for any number of records - nothing cut, nothing added *)
Theorem c10_jsonl_lines :
  forall rs, (forall r, In r rs -> key_one_line (fst r)) ->
    lines (jsonl_text rs) = map jsonl_body rs.
Proof. exact lines_jsonl_text. Qed.

Example c10_jsonl_lines_ex :
  (forall r, In r ex_recs -> key_one_line (fst r)) /\
  map (@length Z) (lines (jsonl_text ex_recs)) = [16; 16]%nat.
Proof.
  split; [|vm_compute; reflexivity].
  intros r [<- | [<- | []]] x Hx; cbn in Hx;
    repeat (destruct Hx as [<- | Hx]; [split; discriminate|]); contradiction.
Qed.

Theorem c10_jsonl_roundtrip_lines :
  forall (enc : codec -> bytes -> bytes) (dec : codec -> bytes -> option bytes),
    (forall c b, dec c (enc c b) = Some b) ->
    (forall c b, starts_with (signature c) (enc c b) = true) ->
    forall w r path rs,
      writer_detects w = true -> reader_detects r = true ->
      (forall x, In x rs -> key_one_line (fst x)) ->
      option_map lines (read dec r path (write enc w path (jsonl_text rs))) = Some (map jsonl_body rs).
Proof. exact jsonl_roundtrip_lines. Qed.

Example c10_jsonl_roundtrip_lines_ex :
  option_map (@length (list Z))
    (option_map lines (read ex_dec RCloudJsonl p_GZ (write ex_enc WCloudJsonl p_GZ (jsonl_text ex_recs))))
  = Some 2%nat.
Proof. vm_compute. reflexivity. Qed.

(* no signature contains a comma: CSV text begins with a signature iff its first field does *)
Theorem c10_csv_first_field :
  forall c k rest, starts_with (signature c) (k ++ 44 :: rest) = starts_with (signature c) k.
Proof. exact csv_first_field. Qed.

Example c10_csv_first_field_ex :
  starts_with (signature Bzip2) ([66; 90] ++ 44 :: [49; 10]) = false /\
  starts_with (signature Bzip2) ([66; 90; 104; 57] ++ 44 :: [49; 10]) = true.
Proof. split; vm_compute; reflexivity. Qed.

Theorem c10_csv_text_transparent :
  forall (enc : codec -> bytes -> bytes) (dec : codec -> bytes -> option bytes),
    (forall c b, dec c (enc c b) = Some b) ->
    (forall c b, starts_with (signature c) (enc c b) = true) ->
    forall w r path rs,
      writer_detects w = true -> reader_detects r = true ->
      (forall c, starts_with (signature c) (match rs with [] => [] | r0 :: _ => fst r0 end) = false) ->
      read dec r path (write enc w path (csv_text rs)) = Some (csv_text rs).
Proof. exact csv_text_transparent. Qed.

(* first field "BZ": a proper prefix of the bzip2 signature *)
Example c10_csv_text_transparent_ex :
  (forall c, starts_with (signature c) (match ex_recs with [] => [] | r0 :: _ => fst r0 end) = false) /\
  read ex_dec RCsvStreamSeq p_csv (write ex_enc WCsvPar p_csv (csv_text ex_recs)) = Some (csv_text ex_recs).
Proof. split; [intros c; destruct c; vm_compute; reflexivity | vm_compute; reflexivity]. Qed.

(* ---------- a second write to the same name ---------- *)
(* the name holds what the LAST write put there, whatever was there before (same length or not);
   other names are untouched *)
Theorem c10_rewrite_last_wins :
  forall (enc : cid -> bytes -> bytes) reg st w name a b,
    store_get (store_write enc reg (store_write enc reg st w name a) w name b) name
    = store_get (store_write enc reg [] w name b) name /\
    forall other, other <> name ->
      store_get (store_write enc reg st w name b) other = store_get st other.
Proof.
  exact (fun enc reg st w name a b =>
           conj (write_to_last_wins enc reg st w name a b)
                (fun other => write_to_other_untouched enc reg st w name b other)).
Qed.

(* two texts of the same length under the neutral key "data.csv" *)
Example c10_rewrite_last_wins_ex :
  store_get (store_write exr_enc builtin_entries
               (store_write exr_enc builtin_entries [(p_gz, [9])] WCloudJsonl p_csv [1; 2; 3])
               WCloudJsonl p_csv [4; 5; 6]) p_csv = Some [4; 5; 6] /\
  store_get (store_write exr_enc builtin_entries [(p_gz, [9])] WCloudJsonl p_csv [4; 5; 6]) p_gz = Some [9].
Proof. split; vm_compute; reflexivity. Qed.

Theorem c10_rewrite_ext_roundtrip :
  forall (enc : cid -> bytes -> bytes) (dec : cid -> bytes -> option bytes),
    (forall c b, dec (CBuiltin c) (enc (CBuiltin c) b) = Some b) ->
    (forall c b, starts_with (signature c) (enc (CBuiltin c) b) = true) ->
    forall ops st c w r name a b,
      writer_detects w = true -> reader_detects r = true -> has_ext c name = true ->
      let reg := reg_view (reg_run ops) in
      let st' := store_write enc reg (store_write enc reg st w name a) w name b in
      store_get st' name = Some (enc (CBuiltin c) b) /\ store_read dec reg st' r name = Some b.
Proof. exact rewrite_ext_roundtrip. Qed.

Example c10_rewrite_ext_roundtrip_ex :
  let reg := reg_view (reg_run [OpGet]) in
  let st' := store_write exr_enc reg (store_write exr_enc reg [] WJsonlPar p_gz [1; 2; 3; 4]) WJsonlPar p_gz [5] in
  store_get st' p_gz = Some [31; 139; 5] /\ store_read exr_dec reg st' RJsonlRange p_gz = Some [5].
Proof. split; vm_compute; reflexivity. Qed.

Theorem c10_rewrite_neutral_verbatim :
  forall (enc : cid -> bytes -> bytes) (dec : cid -> bytes -> option bytes) ops st w r name a b,
    detect_ext name = None -> no_custom_ext (registered ops) name ->
    (forall c, starts_with (signature c) b = false) -> no_custom_magic (registered ops) b ->
    let reg := reg_view (reg_run ops) in
    let st' := store_write enc reg (store_write enc reg st w name a) w name b in
    store_get st' name = Some b /\ store_read dec reg st' r name = Some b.
Proof. exact rewrite_neutral_verbatim. Qed.

Example c10_rewrite_neutral_verbatim_ex :
  let reg := reg_view (reg_run [OpRegister ex_custom]) in
  let st' := store_write exr_enc reg (store_write exr_enc reg [] WCsvVec p_csv (csv_text ex_recs)) WCsvVec p_csv bz_text in
  store_get st' p_csv = Some bz_text /\ store_read exr_dec reg st' RCsvVec p_csv = Some bz_text.
Proof. split; vm_compute; reflexivity. Qed.
