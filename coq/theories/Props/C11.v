(* C11: checkpointing is transparent, cleans up after success and survives crashes.
   ONLY the property theorems (each closed by `exact`) and their non-vacuity examples.
   Model: Ckpt/Runner.v (src/runner.rs: run_collect's dispatch, exec_seq_with_checkpointing,
   exec_par_with_checkpointing) on top of the engine model (Engine/Exec.v) and the checkpoint store
   model of C12 (Ckpt/Store.v, Ckpt/Bincode.v).  Conventions (all universally quantified):
     sh       HashMap iteration oracle of the engines          readdir  directory listing order
     H        SHA-256 as an arbitrary function                 avail    what the allocator can serve
     pct      the progress_percent float computation           clock    every reading of the system clock
     c        the CheckpointConfig: policy (AfterEveryBarrier | EveryNNodes n, n = 0 included |
              TimeInterval s | Hybrid b s), max_checkpoints, auto_recover, enabled
     fs       the checkpoint directory before the run: None (absent) or ANY finite map from names to
              bytes - whatever an earlier run that died left there: complete files, files torn at any
              byte, files overwritten with anything, files of other pipelines, foreign files
     term, chain   the element type collected and ANY node chain (any closures inside). *)
From Coq Require Import List ZArith Bool Arith Permutation String Lia.
From IB Require Import Util.J Engine.Val Engine.Ops Engine.Nodes Engine.Exec Engine.Planner Engine.Lang
     Ckpt.Runner Ckpt.Manager Proofs.CkptRunner Proofs.CkptManager.
From IB Require Ckpt.Bincode Ckpt.Store.
Import ListNotations.

(* ------------------------------------------------------------------ 1. transparency *)

(* sequential engine: same outcome (Ok rows / Err class / Panic / Diverge) as the plain engine *)
Theorem c11_transparent_seq :
  forall sh readdir H avail pct clock, (Bincode.ckpt_limit <= avail)%Z ->
  forall c fs term chain,
    fst (exec_seq_ckpt sh readdir H avail pct clock c fs term chain) = exec_seq sh term chain.
Proof. exact seq_transparent. Qed.

Theorem c11_transparent_par :
  forall sh readdir H avail clock, (Bincode.ckpt_limit <= avail)%Z ->
  forall c fs term chain partitions,
    fst (exec_par_ckpt sh readdir H avail clock c fs term chain partitions)
    = exec_par sh term chain partitions.
Proof. exact par_transparent. Qed.

(* Runner::run_collect: whatever the configuration (absent, disabled, enabled) and the mode -
   Sequential, Parallel with an explicit partition count, or Parallel{partitions: None}, where the
   count is resolved from the planner's suggestion and the runner's default IDENTICALLY in the
   checkpointing and in the plain branch (so partition-sensitive programs agree too) *)
Theorem c11_transparent_run_collect :
  forall sh readdir H avail pct clock, (Bincode.ckpt_limit <= avail)%Z ->
  forall mode suggested default co fs term chain,
    fst (run_collect sh readdir H avail pct clock mode suggested default co fs term chain)
    = run_plain sh mode suggested default term chain.
Proof. exact run_collect_transparent. Qed.

(* an absent or disabled configuration leaves the directory alone (it is not even created) *)
Theorem c11_disabled_untouched :
  forall sh readdir H avail pct clock mode suggested default co fs term chain,
    match co with Some c => c_enabled c = false | None => True end ->
    snd (run_collect sh readdir H avail pct clock mode suggested default co fs term chain) = fs.
Proof. exact run_collect_disabled. Qed.

(* ------------------------------------------------------------------ 2. clean-up *)

(* After the sequential run, whatever its outcome: the directory is well formed and every file that
   is not a checkpoint of THIS pipeline id (other pipelines' checkpoints, foreign files) is there
   with its content; if the run returned Ok, no file of this pipeline id is left. *)
Theorem c11_cleanup_seq :
  forall sh readdir H avail pct clock, (Bincode.ckpt_limit <= avail)%Z -> listing_ok readdir ->
  forall c fs term chain,
    Store.dir_ok (mkdir fs) ->
    let pid := pid_seq H (List.length chain) in
    let '(res, d') := exec_seq_ckpt sh readdir H avail pct clock c fs term chain in
    Store.dir_ok d' /\ foreign_same pid (mkdir fs) d'
    /\ (forall rows, res = Ok rows -> own_files pid d' = []).
Proof. exact seq_directory. Qed.

Theorem c11_cleanup_par :
  forall sh readdir H avail clock, (Bincode.ckpt_limit <= avail)%Z -> listing_ok readdir ->
  forall c fs term chain partitions,
    Store.dir_ok (mkdir fs) ->
    let pid := pid_par H (List.length chain) partitions in
    let '(res, d') := exec_par_ckpt sh readdir H avail clock c fs term chain partitions in
    Store.dir_ok d' /\ foreign_same pid (mkdir fs) d'
    /\ (forall rows, res = Ok rows -> own_files pid d' = []).
Proof. exact par_directory. Qed.

(* EveryNNodes(0) (`node_index > 0 && node_index.is_multiple_of(0)`) never checkpoints: the
   sequential run writes nothing; the directory afterwards is the initial one, cleared of this
   pipeline's files exactly when the run returns Ok *)
Theorem c11_every0_writes_nothing :
  forall sh readdir H avail pct clock, (Bincode.ckpt_limit <= avail)%Z ->
  forall c fs term chain,
    c_policy c = Store.EveryNNodes 0 ->
    let pid := pid_seq H (List.length chain) in
    let '(res, d') := exec_seq_ckpt sh readdir H avail pct clock c fs term chain in
    d' = match res with Ok _ => Store.clear readdir pid (mkdir fs) | _ => mkdir fs end.
Proof. exact every0_writes_nothing. Qed.

(* ------------------------------------------------------------------ 3. recovery *)

(* The directory an earlier run left when it died: any history h of completed saves (any states:
   any pipeline ids, node indices, timestamps, retention max0) on top of any directory d0, after which
   the newest checkpoint of the pipeline is overwritten with arbitrary bytes, or torn at any byte k.
   A later run - any mode, any configuration, auto_recover included - returns what the
   checkpoint-free run returns (in particular it is not failed or aborted by those files). *)
Theorem c11_recovers :
  forall sh readdir H avail pct clock, (Bincode.ckpt_limit <= avail)%Z ->
  forall d0 max0 h junk k mode suggested default co term chain,
    let pid := run_pid H mode suggested default chain in
    let left := saves_of readdir max0 d0 h in
    fst (run_collect sh readdir H avail pct clock mode suggested default co
                     (Some (overwrite_latest readdir pid junk left)) term chain)
    = run_plain sh mode suggested default term chain
    /\ fst (run_collect sh readdir H avail pct clock mode suggested default co
                        (Some (truncate_latest readdir pid k left)) term chain)
       = run_plain sh mode suggested default term chain.
Proof. exact recovers. Qed.

(* ------------------------------------------------------------------ 4. the repaired defect *)

(* the sequential checkpointing engine as it was before commit 7ffa936 (`CoGroup => bail!`):
   whenever the plain engine succeeds on a plan that contains a join, it returned the error *)
Theorem c11_old_engine_fails_on_joins :
  forall sh readdir H avail pct clock, (Bincode.ckpt_limit <= avail)%Z ->
  forall c fs term chain rows,
    has_cogroup chain = true -> exec_seq sh term chain = Ok rows ->
    fst (exec_seq_ckpt_old sh readdir H avail pct clock c fs term chain) = Err E_COGROUP_CKPT.
Proof. exact old_engine_fails_on_joins. Qed.

(* and was the present engine on join-free plans *)
Theorem c11_old_engine_same_without_joins :
  forall sh readdir H avail pct clock,
  forall c fs term chain,
    has_cogroup chain = false ->
    exec_seq_ckpt_old sh readdir H avail pct clock c fs term chain
    = exec_seq_ckpt sh readdir H avail pct clock c fs term chain.
Proof. exact old_engine_same_without_joins. Qed.


(* ------------------------------------------------------------------ 5. the policies, for EVERY parameter
   CheckpointManager::should_checkpoint (Store.should_checkpoint; clock readings and `last` in nanoseconds
   as unbounded integers, the parameters any u64 / usize - u64::MAX, usize::MAX and 0 included): the full
   decision table, so no parameter value can make the decision fail or differ from the documentation. *)

(* a disabled manager never checkpoints; AfterEveryBarrier is exactly `is_barrier` *)
Theorem c11_policy_disabled_or_barrier :
  forall pol last now idx b,
    Store.should_checkpoint false pol last now idx b = false
    /\ Store.should_checkpoint true Store.AfterEveryBarrier last now idx b = b.
Proof. exact policy_disabled_or_barrier. Qed.

(* EveryNNodes(n): after node idx iff idx > 0, n > 0 and n divides idx (n = 0: never) *)
Theorem c11_policy_every_n :
  forall n last now idx b, (0 <= n)%Z ->
    Store.should_checkpoint true (Store.EveryNNodes n) last now idx b = true
    <-> (0 < idx /\ 0 < n /\ (n | idx))%Z.
Proof. exact policy_every_n. Qed.

(* the time policies before the first successful save: always, whatever the interval *)
Theorem c11_policy_time_first :
  forall now idx b,
    (forall s, Store.should_checkpoint true (Store.TimeInterval s) None now idx b = true)
    /\ (forall bb s, Store.should_checkpoint true (Store.Hybrid bb s) None now idx b = true).
Proof. exact policy_time_first. Qed.

(* .. and after a save at time t: exactly when the clock has not gone back and at least s whole
   seconds have elapsed; Hybrid adds `barriers && is_barrier` *)
Theorem c11_policy_time_later :
  forall t now s idx b bb,
    (Store.should_checkpoint true (Store.TimeInterval s) (Some t) now idx b = true
     <-> (t <= now /\ s * 1000000000 <= now - t)%Z)
    /\ (Store.should_checkpoint true (Store.Hybrid bb s) (Some t) now idx b = true
        <-> (bb = true /\ b = true) \/ (t <= now /\ s * 1000000000 <= now - t)%Z).
Proof. exact policy_time_later. Qed.

(* while the interval has not elapsed (in particular for every interval longer than the run, up to
   u64::MAX seconds = "never by time") TimeInterval stays silent and Hybrid is its barrier half *)
Theorem c11_policy_time_pending :
  forall t now s idx b bb, (now < t \/ now - t < s * 1000000000)%Z ->
    Store.should_checkpoint true (Store.TimeInterval s) (Some t) now idx b = false
    /\ Store.should_checkpoint true (Store.Hybrid bb s) (Some t) now idx b = bb && b.
Proof. exact policy_time_pending. Qed.

(* should_checkpoint (`&mut self`) is pure: removing every call from a script of manager operations
   (should_checkpoint / save_checkpoint / assignments to the public last_checkpoint_time) changes neither
   the final manager - last_checkpoint_time and directory - nor the outcome of any other operation *)
Theorem c11_should_checkpoint_is_pure :
  forall readdir c ops m,
    snd (mgr_run readdir c m ops) = snd (mgr_run readdir c m (without_calls ops))
    /\ filter (fun r => negb (is_decision r)) (fst (mgr_run readdir c m ops))
       = fst (mgr_run readdir c m (without_calls ops)).
Proof. exact calls_are_pure. Qed.

(* the checkpoint block the sequential engine runs after node idx is the manager call sequence
   should_checkpoint(idx, is_barrier, total), then - when told to - save_checkpoint of the engine's state *)
Theorem c11_checkpoint_block_is_manager_calls :
  forall readdir H pct clock c pid total idx n m,
    ckpt_after readdir H pct clock c pid total idx n m
    = decide_then_save readdir c (clock idx 0%nat) (clock idx 2%nat) (Z.of_nat idx) (is_barrier n)
        (mk_state H pid (Z.of_nat idx) (ts_ms (clock idx 1%nat)) 1%Z (string_bytes "sequential")
                  (Z.of_nat total) (node_type n) (pct idx total)) m.
Proof. exact ckpt_block_is_call_then_save. Qed.

(* EveryNNodes(n) with n = 0 or n at least the plan length (usize::MAX ..): the sequential run writes
   nothing (generalises c11_every0_writes_nothing) *)
Theorem c11_every_beyond_plan_writes_nothing :
  forall sh readdir H avail pct clock, (Bincode.ckpt_limit <= avail)%Z ->
  forall c n fs term chain,
    c_policy c = Store.EveryNNodes n -> (n = 0 \/ Z.of_nat (List.length chain) <= n)%Z ->
    let pid := pid_seq H (List.length chain) in
    let '(res, d') := exec_seq_ckpt sh readdir H avail pct clock c fs term chain in
    d' = match res with Ok _ => Store.clear readdir pid (mkdir fs) | _ => mkdir fs end.
Proof. exact every_beyond_writes_nothing. Qed.

(* Hybrid { barriers: false, interval_secs: s } is TimeInterval(s): same outcome AND same directory *)
Theorem c11_hybrid_without_barriers_is_time_interval :
  forall sh readdir H avail pct clock en s auto max fs term chain,
    exec_seq_ckpt sh readdir H avail pct clock (mk_cfg en (Store.Hybrid false s) auto max) fs term chain
    = exec_seq_ckpt sh readdir H avail pct clock (mk_cfg en (Store.TimeInterval s) auto max) fs term chain.
Proof. exact hybrid_false_is_time. Qed.

(* the parallel wrapper never consults the policy: outcome and directory do not depend on it *)
Theorem c11_parallel_ignores_policy :
  forall sh readdir H avail clock en p1 p2 auto max fs term chain partitions,
    exec_par_ckpt sh readdir H avail clock (mk_cfg en p1 auto max) fs term chain partitions
    = exec_par_ckpt sh readdir H avail clock (mk_cfg en p2 auto max) fs term chain partitions.
Proof. exact par_ignores_policy. Qed.


(* once a checkpoint has been saved at time t and the interval does not elapse during the rest of the run,
   the loop of the sequential engine under TimeInterval(s) writes nothing more: manager and directory
   are at the end what they were (the node arms `arm` are arbitrary) *)
Theorem c11_time_interval_pending_writes_nothing :
  forall readdir H pct clock arm c pid total term s t,
    c_policy c = Store.TimeInterval s ->
    forall chain i idx buf d,
      interval_pending clock s t idx (idx + List.length chain) ->
      snd (seq_ckpt_loop readdir H pct clock arm c pid total term i idx chain buf (mk_mgr (Some t) d))
      = mk_mgr (Some t) d.
Proof. exact time_pending_loop. Qed.

(* .. and under Hybrid { barriers: true, interval_secs: s } the rest of the run is the run under
   AfterEveryBarrier: same outcome, same saves, same directory (u64::MAX = "barriers only") *)
Theorem c11_hybrid_pending_is_after_every_barrier :
  forall readdir H pct clock arm en s auto max pid total term,
    forall chain i idx buf m t,
      (forall j, (idx <= j < idx + List.length chain)%nat ->
                 interval_pending clock s (clock j 2%nat) idx (idx + List.length chain)) ->
      m_last m = Some t -> interval_pending clock s t idx (idx + List.length chain) ->
      seq_ckpt_loop readdir H pct clock arm (mk_cfg en (Store.Hybrid true s) auto max) pid total term i idx chain buf m
      = seq_ckpt_loop readdir H pct clock arm (mk_cfg en Store.AfterEveryBarrier auto max) pid total term i idx chain buf m.
Proof. exact hybrid_pending_loop. Qed.

(* ================================================================== non-vacuity examples *)
Open Scope Z_scope.
Definition exH (x : bytes) : bytes :=
  let s := fold_left (fun a b => (a * 31 + b + 7) mod 1000003) x 17 in
  map (fun i => (s / (Z.of_nat i + 1) + Z.of_nat i * 37) mod 256) (seq 0 32).
Definition ex_avail : Z := 9223372036854775807.
Definition ex_clock (idx j : nat) : Z := (1700000000000 + Z.of_nat idx) * 1000000 + Z.of_nat j.
Definition ex_pct (idx total : nat) : Z := 0.
Definition rev_listing (d : dir) : list Store.name := rev (Store.dir_names d).
Lemma rev_listing_ok : listing_ok rev_listing.
Proof. intro d. apply Permutation_sym, Permutation_rev. Qed.
Lemma ex_avail_ok : Bincode.ckpt_limit <= ex_avail.
Proof. vm_compute. discriminate. Qed.

Definition kvz (k v : Z) : val := VPair (VInt k) (VInt v).
Definition ex_src : src := SrcVec TKV [kvz 0 3; kvz 1 4; kvz 0 5; kvz 2 (-1)].
(* map_values, a left join with a grouped right side, then group_by_key + lifted combine (which
   the planner lifts into one CombineValues node) and another map_values:
   plan = [Source; CoGroup; Stateless; CombineValues; Stateless] *)
Definition ex_steps : list step :=
  [SMapValues (FAdd 2);
   SJoin JLeft [SGroupByKey; SCombineValuesLifted CCount] [kvz 0 5; kvz 1 6; kvz 1 7; kvz 9 8];
   SGroupByKey; SCombineValuesLifted CCount; SMapValues (FAdd 1)].
Definition ex_steps_nojoin : list step := [SMapValues (FAdd 2); SGroupByKey; SCombineValuesLifted CSum].
Definition ex_chain : list node := plan ex_src ex_steps.
Definition ex_term : tag := term_tag ex_src ex_steps.
Definition ex_rows : list val := [kvz 0 3; kvz 1 2; kvz 2 2].

Definition ex_cfg (p : Store.policy) (max : option Z) : cfg := mk_cfg true p true max.
Definition ex_pid : bytes := pid_seq exH (List.length ex_chain).
Definition nm (s : string) : bytes := string_bytes s.
Definition ck (suffix : string) : bytes := Store.s_checkpoint_ ++ ex_pid ++ [Store.c_us] ++ nm suffix.
(* a directory with: a foreign file, a checkpoint of another pipeline, and two files the store's
   filter accepts for THIS pipeline, the newest one starting with the length prefix 2^63 *)
Definition ex_dir : dir :=
  [(nm "notes.tmp", [1; 2]); (nm "checkpoint_other_9.bin", [7]);
   (ck "5.bin", [0; 0]); (ck "77.bin", [253; 0; 0; 0; 0; 0; 0; 0; 128; 1]); (ck "x.bin", [9])].

(* c11_transparent_seq / c11_cleanup_seq: the hypotheses hold, the plan has a join and a barrier,
   the run checkpoints after every node, retention 2, reversed listing; result and final directory *)
Example ex_transparent_cleanup :
  Store.dir_ok ex_dir /\ List.length ex_chain = 5%nat /\ has_cogroup ex_chain = true
  /\ exec_seq id_sh ex_term ex_chain = Ok ex_rows
  /\ (let '(res, d') := exec_seq_ckpt id_sh rev_listing exH ex_avail ex_pct ex_clock
                                      (ex_cfg (Store.TimeInterval 0) (Some 2)) (Some ex_dir) ex_term ex_chain in
      res = Ok ex_rows
      /\ Store.dir_names d' = [nm "notes.tmp"; nm "checkpoint_other_9.bin"; ck "x.bin"])
  /\ Store.latest rev_listing true ex_pid ex_dir = Some (ck "77.bin")
  /\ Store.load exH ex_avail ex_dir (ck "77.bin") = Store.Err (Store.LDecode Bincode.ELimit).
Proof.
  split; [apply dir_ok_check; vm_compute; reflexivity|].
  vm_compute. repeat split; reflexivity.
Qed.

(* c11_recovers, operationally: the SAME pipeline with a stage that panics in the first run.  Under
   "after every barrier" the first run leaves the two checkpoints it completed (node indices 1, 3 - the
   join and the lifted combine) and dies; the newest is then torn at byte 40; the second run, with
   automatic recovery, returns the plain result and clears the directory. *)
Definition crash_op : dynop := op_custom TKV TKV (fun _ => None) false false false 10 999.
Definition ex_chain_crash : list node := ex_chain ++ [NB (BStateless [crash_op])].
Definition ex_chain_fine : list node := ex_chain ++ [NB (BStateless [op_map TKV TKV (fun x => x) 999])].
Definition ex_pid6 : bytes := pid_seq exH 6.
Definition left_by_crash : dir :=
  snd (exec_seq_ckpt id_sh rev_listing exH ex_avail ex_pct ex_clock
                     (ex_cfg Store.AfterEveryBarrier None) (Some [(nm "notes.tmp", [1; 2])])
                     ex_term ex_chain_crash).
Example ex_crash_then_recover :
  fst (exec_seq_ckpt id_sh rev_listing exH ex_avail ex_pct ex_clock
                     (ex_cfg Store.AfterEveryBarrier None) (Some [(nm "notes.tmp", [1; 2])])
                     ex_term ex_chain_crash) = Panic
  /\ map (fun e => match Store.load exH ex_avail left_by_crash (fst e) with
                   | Store.Ok s => Bincode.completed_node_index s
                   | _ => -1
                   end) left_by_crash = [3; 1; -1]
  /\ (let torn := truncate_latest rev_listing ex_pid6 40 left_by_crash in
      map (fun e => List.length (snd e)) torn = [40%nat; 114%nat; 2%nat]
      /\ exec_seq_ckpt id_sh rev_listing exH ex_avail ex_pct ex_clock
                       (ex_cfg Store.AfterEveryBarrier None) (Some torn) ex_term ex_chain_fine
         = (Ok ex_rows, [(nm "notes.tmp", [1; 2])])).
Proof. vm_compute. repeat split; reflexivity. Qed.

(* c11_transparent_par / c11_cleanup_par: a join fed by a join is the error "nested CoGroup" in the
   plain parallel engine; the wrapper returns the same error and leaves one "Failed" checkpoint *)
Definition ex_nested : list step :=
  [SJoin JInner [] [kvz 0 5]; SJoin JFull [] [kvz 1 6]].
Example ex_par_failed :
  exec_par id_sh (term_tag ex_src ex_nested) (plan ex_src ex_nested) 3 = Err E_NESTED_COGROUP
  /\ (let '(res, d') := exec_par_ckpt id_sh rev_listing exH ex_avail ex_clock
                                      (ex_cfg (Store.EveryNNodes 0) (Some 1)) None
                                      (term_tag ex_src ex_nested) (plan ex_src ex_nested) 3 in
      res = Err E_NESTED_COGROUP
      /\ map (fun e => match Store.load_bytes exH ex_avail (snd e) with
                       | Store.Ok s => (Bincode.last_node_type (Bincode.metadata s), Bincode.partition_count s)
                       | _ => ([], -1)
                       end) d' = [(nm "Failed", 3)]).
Proof. vm_compute. repeat split; reflexivity. Qed.

(* c11_transparent_run_collect / c11_disabled_untouched / c11_recovers: instances *)
Example ex_dispatch :
  run_collect id_sh rev_listing exH ex_avail ex_pct ex_clock XSeq (Some 16%nat) 32%nat
              (Some (mk_cfg false (Store.TimeInterval 0) true (Some 1))) None ex_term ex_chain
  = (Ok ex_rows, None)
  /\ fst (run_collect id_sh rev_listing exH ex_avail ex_pct ex_clock (XPar (Some 2%nat)) None 32%nat
                      (Some (ex_cfg (Store.Hybrid true 0) (Some 0)))
                      (Some (overwrite_latest rev_listing (run_pid exH (XPar (Some 2%nat)) None 32%nat ex_chain)
                                              [253; 0; 0; 0; 0; 1; 0; 0; 0] ex_dir))
                      ex_term ex_chain)
     = exec_par id_sh ex_term ex_chain 2.
Proof. vm_compute. repeat split; reflexivity. Qed.

(* Parallel{partitions: None} on a partition-SENSITIVE program (every chunk of a partition reversed):
   3 and 2 partitions give different results, the checkpointing branch follows the planner's
   suggestion exactly like the plain branch *)
Definition ex_sens_src : src := SrcVec TU (map VInt [1; 2; 3; 4; 5; 6]).
Definition ex_sens : list step := [SMapBatches 100 BRevChunk].
Example ex_partitions_none :
  let chain := plan ex_sens_src ex_sens in
  let term := term_tag ex_sens_src ex_sens in
  exec_par id_sh term chain 3 = Ok (map VInt [2; 1; 4; 3; 6; 5])
  /\ exec_par id_sh term chain 2 = Ok (map VInt [3; 2; 1; 6; 5; 4])
  /\ fst (run_collect id_sh rev_listing exH ex_avail ex_pct ex_clock (XPar None) (Some 3%nat) 2%nat
                      (Some (ex_cfg (Store.TimeInterval 0) None)) None term chain)
     = Ok (map VInt [2; 1; 4; 3; 6; 5])
  /\ fst (run_collect id_sh rev_listing exH ex_avail ex_pct ex_clock (XPar None) None 2%nat
                      (Some (ex_cfg (Store.TimeInterval 0) None)) None term chain)
     = Ok (map VInt [3; 2; 1; 6; 5; 4]).
Proof. vm_compute. repeat split; reflexivity. Qed.

(* c11_old_engine_fails_on_joins: the old witness (sequential mode + checkpointing + a join) *)
Example ex_join_refuted :
  has_cogroup ex_chain = true
  /\ exec_seq id_sh ex_term ex_chain = Ok ex_rows
  /\ fst (exec_seq_ckpt_old id_sh rev_listing exH ex_avail ex_pct ex_clock
                            (ex_cfg Store.AfterEveryBarrier (Some 10)) None ex_term ex_chain)
     = Err E_COGROUP_CKPT
  /\ fst (exec_seq_ckpt id_sh rev_listing exH ex_avail ex_pct ex_clock
                        (ex_cfg Store.AfterEveryBarrier (Some 10)) None ex_term ex_chain)
     = Ok ex_rows.
Proof. vm_compute. repeat split; reflexivity. Qed.

(* c11_old_engine_same_without_joins: a join-free plan with two barriers *)
Example ex_no_join :
  has_cogroup (plan ex_src ex_steps_nojoin) = false
  /\ List.length (plan ex_src ex_steps_nojoin) = 3%nat.
Proof. vm_compute. repeat split; reflexivity. Qed.

(* c11_every0_writes_nothing and the other policies: EveryNNodes 0 never checkpoints (`is_multiple_of(0)` holds only for 0, which the
   `node_index > 0` guard excludes); EveryNNodes 2 checkpoints after nodes 2 and 4 of the
   6-node plan whose last node panics;
   TimeInterval 0 after every node *)
Definition saved_indices (p : Store.policy) : list Z :=
  map (fun e => match Store.load_bytes exH ex_avail (snd e) with
                | Store.Ok s => Bincode.completed_node_index s
                | _ => -1
                end)
      (snd (exec_seq_ckpt id_sh rev_listing exH ex_avail ex_pct ex_clock (ex_cfg p None) None ex_term
                          (ex_chain ++ [NB (BStateless [crash_op])]))).
Example ex_policies :
  saved_indices (Store.EveryNNodes 0) = []
  /\ saved_indices (Store.EveryNNodes 2) = [4; 2]
  /\ saved_indices (Store.TimeInterval 0) = [4; 3; 2; 1; 0]
  /\ saved_indices (Store.TimeInterval 3600) = [0]
  /\ saved_indices Store.AfterEveryBarrier = [3; 1]
  /\ saved_indices (Store.Hybrid true 3600) = [3; 1; 0].
Proof. vm_compute. repeat split; reflexivity. Qed.

(* ---- section 5 ---- *)
Definition u64max : Z := 18446744073709551615.
Definition t_save : Z := 1790000000 * 1000000000.      (* a save in 2026 *)

(* c11_policy_disabled_or_barrier / c11_policy_every_n: n = 4 fires after nodes 4, 8 but not 0, 2;
   n = usize::MAX fires after node usize::MAX only; n = 0 never; and 4 | 8 *)
Example ex_policy_every :
  map (fun i => Store.should_checkpoint true (Store.EveryNNodes 4) None 0 i false) [0; 2; 4; 8; 9]
  = [false; false; true; true; false]
  /\ map (fun i => Store.should_checkpoint true (Store.EveryNNodes u64max) None 0 i true)
         [0; 1; 4294967296; u64max - 1; u64max] = [false; false; false; false; true]
  /\ map (fun i => Store.should_checkpoint true (Store.EveryNNodes 0) None 0 i true) [0; 1; u64max]
     = [false; false; false]
  /\ (0 < 8 /\ 0 < 4 /\ (4 | 8))%Z
  /\ Store.should_checkpoint false (Store.EveryNNodes 1) None 0 5 true = false
  /\ map (Store.should_checkpoint true Store.AfterEveryBarrier (Some 7) 0 3) [false; true] = [false; true].
Proof.
  repeat split; try (vm_compute; reflexivity); try lia. exists 2. reflexivity.
Qed.

(* c11_policy_time_first / _later / _pending: intervals 0, one hour and u64::MAX seconds, one
   millisecond and two hours after a save, and with a clock that went back *)
Example ex_policy_time :
  let ms := 1000000 in let hour := 3600 * 1000000000 in
  map (fun s => Store.should_checkpoint true (Store.TimeInterval s) None t_save 3 false) [0; 3600; u64max]
  = [true; true; true]
  /\ map (fun s => Store.should_checkpoint true (Store.TimeInterval s) (Some t_save) (t_save + ms) 3 true)
         [0; 3600; u64max] = [true; false; false]
  /\ map (fun s => Store.should_checkpoint true (Store.TimeInterval s) (Some t_save) (t_save + 2 * hour) 3 true)
         [0; 3600; 7200; 7201; u64max] = [true; true; true; false; false]
  /\ map (fun b => Store.should_checkpoint true (Store.Hybrid true u64max) (Some t_save) (t_save + ms) 3 b)
         [false; true] = [false; true]
  /\ map (fun b => Store.should_checkpoint true (Store.Hybrid false u64max) (Some t_save) (t_save + ms) 3 b)
         [false; true] = [false; false]
  /\ Store.should_checkpoint true (Store.TimeInterval 0) (Some t_save) (t_save - 1) 3 true = false
  /\ (t_save + ms - t_save < u64max * 1000000000)%Z
  /\ (t_save <= t_save + 2 * hour /\ 7200 * 1000000000 <= t_save + 2 * hour - t_save)%Z.
Proof. vm_compute. repeat split; try reflexivity; discriminate. Qed.

(* c11_should_checkpoint_is_pure / c11_checkpoint_block_is_manager_calls: a script under
   Hybrid{true, u64::MAX}, retention 1: decide (first call: by time), save, decide twice (barrier only),
   set last_checkpoint_time to None by hand, decide (by time again), save, decide *)
Definition ex_mstate (k ts : Z) : Bincode.cstate :=
  mk_state exH (nm "00000000000000aa") k ts 1 (nm "sequential") 1 (nm "Stateless") 0.
Definition ex_script : list (Z * mop) :=
  [(t_save, MCall 0 false); (t_save + 1, MSave (ex_mstate 1 1700000000001));
   (t_save + 2, MCall 1 false); (t_save + 3, MCall 2 true); (t_save + 4, MSetLast None);
   (t_save + 5, MCall 3 false); (t_save + 6, MSave (ex_mstate 6 1700000000002)); (t_save + 7, MCall 4 false)].
Example ex_manager_script :
  let c := ex_cfg (Store.Hybrid true u64max) (Some 1) in
  let '(rs, m) := mgr_run rev_listing c (mk_mgr None []) ex_script in
  rs = [RDecision true; RSaved true; RDecision false; RDecision true; RSet; RDecision true; RSaved true;
        RDecision false]
  /\ m_last m = Some (t_save + 6)
  /\ Store.dir_names (m_dir m) = [Store.ckpt_name (nm "00000000000000aa") 1700000000002]
  /\ List.length (without_calls ex_script) = 3%nat.
Proof. vm_compute. repeat split; reflexivity. Qed.

(* c11_every_beyond_plan_writes_nothing / c11_hybrid_without_barriers_is_time_interval /
   c11_parallel_ignores_policy on the 6-node plan whose last node panics: EveryNNodes(6) and
   EveryNNodes(usize::MAX) save nothing where EveryNNodes(5) saves node 5's predecessor.. ; the two
   spellings of "time only" leave the same files; Hybrid{true, u64::MAX} = barriers + the first node *)
Example ex_policies_extreme :
  List.length (ex_chain ++ [NB (BStateless [crash_op])]) = 6%nat
  /\ saved_indices (Store.EveryNNodes 6) = []
  /\ saved_indices (Store.EveryNNodes u64max) = []
  /\ saved_indices (Store.EveryNNodes 4) = [4]
  /\ saved_indices (Store.Hybrid false u64max) = [0]
  /\ saved_indices (Store.TimeInterval u64max) = [0]
  /\ saved_indices (Store.Hybrid true u64max) = [3; 1; 0]
  /\ saved_indices (Store.Hybrid false 0) = saved_indices (Store.TimeInterval 0)
  /\ exec_par_ckpt id_sh rev_listing exH ex_avail ex_clock (ex_cfg (Store.TimeInterval u64max) (Some 1)) None
                   (term_tag ex_src ex_nested) (plan ex_src ex_nested) 3
     = exec_par_ckpt id_sh rev_listing exH ex_avail ex_clock (ex_cfg (Store.EveryNNodes 0) (Some 1)) None
                     (term_tag ex_src ex_nested) (plan ex_src ex_nested) 3.
Proof. vm_compute. repeat split; reflexivity. Qed.

(* c11_time_interval_pending_writes_nothing / c11_hybrid_pending_is_after_every_barrier: on the example
   clock (one millisecond per node) the hypotheses hold for the nodes 1..5 of the 6-node plan after the save
   at node 0, for one hour and for u64::MAX seconds; accordingly the whole run saves node 0 only, resp.
   node 0 and then exactly what AfterEveryBarrier saves *)
Example ex_interval_pending :
  List.length ex_chain_crash = 6%nat
  /\ interval_pending ex_clock 3600 (ex_clock 0 2) 1 6
  /\ (forall j, (1 <= j < 6)%nat -> interval_pending ex_clock u64max (ex_clock j 2) 1 6)
  /\ saved_indices (Store.TimeInterval 3600) = [0]
  /\ saved_indices (Store.Hybrid true u64max) = saved_indices Store.AfterEveryBarrier ++ [0].
Proof.
  split; [vm_compute; reflexivity|]. split; [|split].
  - intros j Hj. right. unfold ex_clock. lia.
  - intros j Hj k Hk. right. unfold ex_clock, u64max. lia.
  - vm_compute. split; reflexivity.
Qed.
