(* C11: checkpointing is transparent, cleans up after success and survives crashes.
   ONLY the property theorems (each closed by `exact`) and their non-vacuity examples.
   Model: Ckpt/Runner.v (src/runner.rs: run_collect's dispatch, exec_seq_with_checkpointing,
   exec_par_with_checkpointing) on top of the engine model (Engine/Exec.v) and the checkpoint store
   model of C12 (Ckpt/Store.v, Ckpt/Bincode.v).  Conventions (all universally quantified):
     sh       HashMap iteration oracle of the engines          readdir  directory listing order
     H        SHA-256 as an arbitrary function                 avail    what the allocator can serve
     pct      the progress_percent float computation           clock    every reading of the system clock
     c        the CheckpointConfig: policy (AfterEveryBarrier | EveryNNodes n, n = 0 included |
              TimeInterval s | Hybrid b s), max_checkpoints, auto_recover, enabled
     fs       the checkpoint directory before the run: None (absent) or ANY finite map from names to
              bytes - whatever an earlier run that died left there: complete files, files torn at any
              byte, files overwritten with anything, files of other pipelines, foreign files
     term, chain   the element type collected and ANY node chain (any closures inside). *)
From Coq Require Import List ZArith Bool Arith Permutation String.
From IB Require Import Util.J Engine.Val Engine.Ops Engine.Nodes Engine.Exec Engine.Planner Engine.Lang
     Ckpt.Runner Proofs.CkptRunner.
From IB Require Ckpt.Bincode Ckpt.Store.
Import ListNotations.

(* ------------------------------------------------------------------ 1. transparency *)

(* sequential engine: same outcome (Ok rows / Err class / Panic / Diverge) as the plain engine *)
Theorem c11_transparent_seq :
  forall sh readdir H avail pct clock, (Bincode.ckpt_limit <= avail)%Z ->
  forall c fs term chain,
    fst (exec_seq_ckpt sh readdir H avail pct clock c fs term chain) = exec_seq sh term chain.
Proof. exact seq_transparent. Qed.

Theorem c11_transparent_par :
  forall sh readdir H avail clock, (Bincode.ckpt_limit <= avail)%Z ->
  forall c fs term chain partitions,
    fst (exec_par_ckpt sh readdir H avail clock c fs term chain partitions)
    = exec_par sh term chain partitions.
Proof. exact par_transparent. Qed.

(* Runner::run_collect: whatever the configuration (absent, disabled, enabled) and the mode -
   Sequential, Parallel with an explicit partition count, or Parallel{partitions: None}, where the
   count is resolved from the planner's suggestion and the runner's default IDENTICALLY in the
   checkpointing and in the plain branch (so partition-sensitive programs agree too) *)
Theorem c11_transparent_run_collect :
  forall sh readdir H avail pct clock, (Bincode.ckpt_limit <= avail)%Z ->
  forall mode suggested default co fs term chain,
    fst (run_collect sh readdir H avail pct clock mode suggested default co fs term chain)
    = run_plain sh mode suggested default term chain.
Proof. exact run_collect_transparent. Qed.

(* an absent or disabled configuration leaves the directory alone (it is not even created) *)
Theorem c11_disabled_untouched :
  forall sh readdir H avail pct clock mode suggested default co fs term chain,
    match co with Some c => c_enabled c = false | None => True end ->
    snd (run_collect sh readdir H avail pct clock mode suggested default co fs term chain) = fs.
Proof. exact run_collect_disabled. Qed.

(* ------------------------------------------------------------------ 2. clean-up *)

(* After the sequential run, whatever its outcome: the directory is well formed and every file that
   is not a checkpoint of THIS pipeline id (other pipelines' checkpoints, foreign files) is there
   with its content; if the run returned Ok, no file of this pipeline id is left. *)
Theorem c11_cleanup_seq :
  forall sh readdir H avail pct clock, (Bincode.ckpt_limit <= avail)%Z -> listing_ok readdir ->
  forall c fs term chain,
    Store.dir_ok (mkdir fs) ->
    let pid := pid_seq H (List.length chain) in
    let '(res, d') := exec_seq_ckpt sh readdir H avail pct clock c fs term chain in
    Store.dir_ok d' /\ foreign_same pid (mkdir fs) d'
    /\ (forall rows, res = Ok rows -> own_files pid d' = []).
Proof. exact seq_directory. Qed.

Theorem c11_cleanup_par :
  forall sh readdir H avail clock, (Bincode.ckpt_limit <= avail)%Z -> listing_ok readdir ->
  forall c fs term chain partitions,
    Store.dir_ok (mkdir fs) ->
    let pid := pid_par H (List.length chain) partitions in
    let '(res, d') := exec_par_ckpt sh readdir H avail clock c fs term chain partitions in
    Store.dir_ok d' /\ foreign_same pid (mkdir fs) d'
    /\ (forall rows, res = Ok rows -> own_files pid d' = []).
Proof. exact par_directory. Qed.

(* EveryNNodes(0) (`node_index > 0 && node_index.is_multiple_of(0)`) never checkpoints: the
   sequential run writes nothing; the directory afterwards is the initial one, cleared of this
   pipeline's files exactly when the run returns Ok *)
Theorem c11_every0_writes_nothing :
  forall sh readdir H avail pct clock, (Bincode.ckpt_limit <= avail)%Z ->
  forall c fs term chain,
    c_policy c = Store.EveryNNodes 0 ->
    let pid := pid_seq H (List.length chain) in
    let '(res, d') := exec_seq_ckpt sh readdir H avail pct clock c fs term chain in
    d' = match res with Ok _ => Store.clear readdir pid (mkdir fs) | _ => mkdir fs end.
Proof. exact every0_writes_nothing. Qed.

(* ------------------------------------------------------------------ 3. recovery *)

(* The directory an earlier run left when it died: any history h of completed saves (any states:
   any pipeline ids, node indices, timestamps, retention max0) on top of any directory d0, after which
   the newest checkpoint of the pipeline is overwritten with arbitrary bytes, or torn at any byte k.
   A later run - any mode, any configuration, auto_recover included - returns what the
   checkpoint-free run returns (in particular it is not failed or aborted by those files). *)
Theorem c11_recovers :
  forall sh readdir H avail pct clock, (Bincode.ckpt_limit <= avail)%Z ->
  forall d0 max0 h junk k mode suggested default co term chain,
    let pid := run_pid H mode suggested default chain in
    let left := saves_of readdir max0 d0 h in
    fst (run_collect sh readdir H avail pct clock mode suggested default co
                     (Some (overwrite_latest readdir pid junk left)) term chain)
    = run_plain sh mode suggested default term chain
    /\ fst (run_collect sh readdir H avail pct clock mode suggested default co
                        (Some (truncate_latest readdir pid k left)) term chain)
       = run_plain sh mode suggested default term chain.
Proof. exact recovers. Qed.

(* ------------------------------------------------------------------ 4. the repaired defect *)

(* the sequential checkpointing engine as it was before commit 7ffa936 (`CoGroup => bail!`):
   whenever the plain engine succeeds on a plan that contains a join, it returned the error *)
Theorem c11_old_engine_fails_on_joins :
  forall sh readdir H avail pct clock, (Bincode.ckpt_limit <= avail)%Z ->
  forall c fs term chain rows,
    has_cogroup chain = true -> exec_seq sh term chain = Ok rows ->
    fst (exec_seq_ckpt_old sh readdir H avail pct clock c fs term chain) = Err E_COGROUP_CKPT.
Proof. exact old_engine_fails_on_joins. Qed.

(* and was the present engine on join-free plans *)
Theorem c11_old_engine_same_without_joins :
  forall sh readdir H avail pct clock,
  forall c fs term chain,
    has_cogroup chain = false ->
    exec_seq_ckpt_old sh readdir H avail pct clock c fs term chain
    = exec_seq_ckpt sh readdir H avail pct clock c fs term chain.
Proof. exact old_engine_same_without_joins. Qed.

(* ================================================================== non-vacuity examples *)
Open Scope Z_scope.
Definition exH (x : bytes) : bytes :=
  let s := fold_left (fun a b => (a * 31 + b + 7) mod 1000003) x 17 in
  map (fun i => (s / (Z.of_nat i + 1) + Z.of_nat i * 37) mod 256) (seq 0 32).
Definition ex_avail : Z := 9223372036854775807.
Definition ex_clock (idx j : nat) : Z := (1700000000000 + Z.of_nat idx) * 1000000 + Z.of_nat j.
Definition ex_pct (idx total : nat) : Z := 0.
Definition rev_listing (d : dir) : list Store.name := rev (Store.dir_names d).
Lemma rev_listing_ok : listing_ok rev_listing.
Proof. intro d. apply Permutation_sym, Permutation_rev. Qed.
Lemma ex_avail_ok : Bincode.ckpt_limit <= ex_avail.
Proof. vm_compute. discriminate. Qed.

Definition kvz (k v : Z) : val := VPair (VInt k) (VInt v).
Definition ex_src : src := SrcVec TKV [kvz 0 3; kvz 1 4; kvz 0 5; kvz 2 (-1)].
(* map_values, a left join with a grouped right side, then group_by_key + lifted combine (which
   the planner lifts into one CombineValues node) and another map_values:
   plan = [Source; CoGroup; Stateless; CombineValues; Stateless] *)
Definition ex_steps : list step :=
  [SMapValues (FAdd 2);
   SJoin JLeft [SGroupByKey; SCombineValuesLifted CCount] [kvz 0 5; kvz 1 6; kvz 1 7; kvz 9 8];
   SGroupByKey; SCombineValuesLifted CCount; SMapValues (FAdd 1)].
Definition ex_steps_nojoin : list step := [SMapValues (FAdd 2); SGroupByKey; SCombineValuesLifted CSum].
Definition ex_chain : list node := plan ex_src ex_steps.
Definition ex_term : tag := term_tag ex_src ex_steps.
Definition ex_rows : list val := [kvz 0 3; kvz 1 2; kvz 2 2].

Definition ex_cfg (p : Store.policy) (max : option Z) : cfg := mk_cfg true p true max.
Definition ex_pid : bytes := pid_seq exH (List.length ex_chain).
Definition nm (s : string) : bytes := string_bytes s.
Definition ck (suffix : string) : bytes := Store.s_checkpoint_ ++ ex_pid ++ [Store.c_us] ++ nm suffix.
(* a directory with: a foreign file, a checkpoint of another pipeline, and two files the store's
   filter accepts for THIS pipeline, the newest one starting with the length prefix 2^63 *)
Definition ex_dir : dir :=
  [(nm "notes.tmp", [1; 2]); (nm "checkpoint_other_9.bin", [7]);
   (ck "5.bin", [0; 0]); (ck "77.bin", [253; 0; 0; 0; 0; 0; 0; 0; 128; 1]); (ck "x.bin", [9])].

(* c11_transparent_seq / c11_cleanup_seq: the hypotheses hold, the plan has a join and a barrier,
   the run checkpoints after every node, retention 2, reversed listing; result and final directory *)
Example ex_transparent_cleanup :
  Store.dir_ok ex_dir /\ List.length ex_chain = 5%nat /\ has_cogroup ex_chain = true
  /\ exec_seq id_sh ex_term ex_chain = Ok ex_rows
  /\ (let '(res, d') := exec_seq_ckpt id_sh rev_listing exH ex_avail ex_pct ex_clock
                                      (ex_cfg (Store.TimeInterval 0) (Some 2)) (Some ex_dir) ex_term ex_chain in
      res = Ok ex_rows
      /\ Store.dir_names d' = [nm "notes.tmp"; nm "checkpoint_other_9.bin"; ck "x.bin"])
  /\ Store.latest rev_listing true ex_pid ex_dir = Some (ck "77.bin")
  /\ Store.load exH ex_avail ex_dir (ck "77.bin") = Store.Err (Store.LDecode Bincode.ELimit).
Proof.
  split; [apply dir_ok_check; vm_compute; reflexivity|].
  vm_compute. repeat split; reflexivity.
Qed.

(* c11_recovers, operationally: the SAME pipeline with a stage that panics in the first run.  Under
   "after every barrier" the first run leaves the two checkpoints it completed (node indices 1, 3 - the
   join and the lifted combine) and dies; the newest is then torn at byte 40; the second run, with
   automatic recovery, returns the plain result and clears the directory. *)
Definition crash_op : dynop := op_custom TKV TKV (fun _ => None) false false false 10 999.
Definition ex_chain_crash : list node := ex_chain ++ [NB (BStateless [crash_op])].
Definition ex_chain_fine : list node := ex_chain ++ [NB (BStateless [op_map TKV TKV (fun x => x) 999])].
Definition ex_pid6 : bytes := pid_seq exH 6.
Definition left_by_crash : dir :=
  snd (exec_seq_ckpt id_sh rev_listing exH ex_avail ex_pct ex_clock
                     (ex_cfg Store.AfterEveryBarrier None) (Some [(nm "notes.tmp", [1; 2])])
                     ex_term ex_chain_crash).
Example ex_crash_then_recover :
  fst (exec_seq_ckpt id_sh rev_listing exH ex_avail ex_pct ex_clock
                     (ex_cfg Store.AfterEveryBarrier None) (Some [(nm "notes.tmp", [1; 2])])
                     ex_term ex_chain_crash) = Panic
  /\ map (fun e => match Store.load exH ex_avail left_by_crash (fst e) with
                   | Store.Ok s => Bincode.completed_node_index s
                   | _ => -1
                   end) left_by_crash = [3; 1; -1]
  /\ (let torn := truncate_latest rev_listing ex_pid6 40 left_by_crash in
      map (fun e => List.length (snd e)) torn = [40%nat; 114%nat; 2%nat]
      /\ exec_seq_ckpt id_sh rev_listing exH ex_avail ex_pct ex_clock
                       (ex_cfg Store.AfterEveryBarrier None) (Some torn) ex_term ex_chain_fine
         = (Ok ex_rows, [(nm "notes.tmp", [1; 2])])).
Proof. vm_compute. repeat split; reflexivity. Qed.

(* c11_transparent_par / c11_cleanup_par: a join fed by a join is the error "nested CoGroup" in the
   plain parallel engine; the wrapper returns the same error and leaves one "Failed" checkpoint *)
Definition ex_nested : list step :=
  [SJoin JInner [] [kvz 0 5]; SJoin JFull [] [kvz 1 6]].
Example ex_par_failed :
  exec_par id_sh (term_tag ex_src ex_nested) (plan ex_src ex_nested) 3 = Err E_NESTED_COGROUP
  /\ (let '(res, d') := exec_par_ckpt id_sh rev_listing exH ex_avail ex_clock
                                      (ex_cfg (Store.EveryNNodes 0) (Some 1)) None
                                      (term_tag ex_src ex_nested) (plan ex_src ex_nested) 3 in
      res = Err E_NESTED_COGROUP
      /\ map (fun e => match Store.load_bytes exH ex_avail (snd e) with
                       | Store.Ok s => (Bincode.last_node_type (Bincode.metadata s), Bincode.partition_count s)
                       | _ => ([], -1)
                       end) d' = [(nm "Failed", 3)]).
Proof. vm_compute. repeat split; reflexivity. Qed.

(* c11_transparent_run_collect / c11_disabled_untouched / c11_recovers: instances *)
Example ex_dispatch :
  run_collect id_sh rev_listing exH ex_avail ex_pct ex_clock XSeq (Some 16%nat) 32%nat
              (Some (mk_cfg false (Store.TimeInterval 0) true (Some 1))) None ex_term ex_chain
  = (Ok ex_rows, None)
  /\ fst (run_collect id_sh rev_listing exH ex_avail ex_pct ex_clock (XPar (Some 2%nat)) None 32%nat
                      (Some (ex_cfg (Store.Hybrid true 0) (Some 0)))
                      (Some (overwrite_latest rev_listing (run_pid exH (XPar (Some 2%nat)) None 32%nat ex_chain)
                                              [253; 0; 0; 0; 0; 1; 0; 0; 0] ex_dir))
                      ex_term ex_chain)
     = exec_par id_sh ex_term ex_chain 2.
Proof. vm_compute. repeat split; reflexivity. Qed.

(* Parallel{partitions: None} on a partition-SENSITIVE program (every chunk of a partition reversed):
   3 and 2 partitions give different results, the checkpointing branch follows the planner's
   suggestion exactly like the plain branch *)
Definition ex_sens_src : src := SrcVec TU (map VInt [1; 2; 3; 4; 5; 6]).
Definition ex_sens : list step := [SMapBatches 100 BRevChunk].
Example ex_partitions_none :
  let chain := plan ex_sens_src ex_sens in
  let term := term_tag ex_sens_src ex_sens in
  exec_par id_sh term chain 3 = Ok (map VInt [2; 1; 4; 3; 6; 5])
  /\ exec_par id_sh term chain 2 = Ok (map VInt [3; 2; 1; 6; 5; 4])
  /\ fst (run_collect id_sh rev_listing exH ex_avail ex_pct ex_clock (XPar None) (Some 3%nat) 2%nat
                      (Some (ex_cfg (Store.TimeInterval 0) None)) None term chain)
     = Ok (map VInt [2; 1; 4; 3; 6; 5])
  /\ fst (run_collect id_sh rev_listing exH ex_avail ex_pct ex_clock (XPar None) None 2%nat
                      (Some (ex_cfg (Store.TimeInterval 0) None)) None term chain)
     = Ok (map VInt [3; 2; 1; 6; 5; 4]).
Proof. vm_compute. repeat split; reflexivity. Qed.

(* c11_old_engine_fails_on_joins: the old witness (sequential mode + checkpointing + a join) *)
Example ex_join_refuted :
  has_cogroup ex_chain = true
  /\ exec_seq id_sh ex_term ex_chain = Ok ex_rows
  /\ fst (exec_seq_ckpt_old id_sh rev_listing exH ex_avail ex_pct ex_clock
                            (ex_cfg Store.AfterEveryBarrier (Some 10)) None ex_term ex_chain)
     = Err E_COGROUP_CKPT
  /\ fst (exec_seq_ckpt id_sh rev_listing exH ex_avail ex_pct ex_clock
                        (ex_cfg Store.AfterEveryBarrier (Some 10)) None ex_term ex_chain)
     = Ok ex_rows.
Proof. vm_compute. repeat split; reflexivity. Qed.

(* c11_old_engine_same_without_joins: a join-free plan with two barriers *)
Example ex_no_join :
  has_cogroup (plan ex_src ex_steps_nojoin) = false
  /\ List.length (plan ex_src ex_steps_nojoin) = 3%nat.
Proof. vm_compute. repeat split; reflexivity. Qed.

(* c11_every0_writes_nothing and the other policies: EveryNNodes 0 never checkpoints (`is_multiple_of(0)` holds only for 0, which the
   `node_index > 0` guard excludes); EveryNNodes 2 checkpoints after nodes 2 and 4 of the
   6-node plan whose last node panics;
   TimeInterval 0 after every node *)
Definition saved_indices (p : Store.policy) : list Z :=
  map (fun e => match Store.load_bytes exH ex_avail (snd e) with
                | Store.Ok s => Bincode.completed_node_index s
                | _ => -1
                end)
      (snd (exec_seq_ckpt id_sh rev_listing exH ex_avail ex_pct ex_clock (ex_cfg p None) None ex_term
                          (ex_chain ++ [NB (BStateless [crash_op])]))).
Example ex_policies :
  saved_indices (Store.EveryNNodes 0) = []
  /\ saved_indices (Store.EveryNNodes 2) = [4; 2]
  /\ saved_indices (Store.TimeInterval 0) = [4; 3; 2; 1; 0]
  /\ saved_indices (Store.TimeInterval 3600) = [0]
  /\ saved_indices Store.AfterEveryBarrier = [3; 1]
  /\ saved_indices (Store.Hybrid true 3600) = [3; 1; 0].
Proof. vm_compute. repeat split; reflexivity. Qed.
