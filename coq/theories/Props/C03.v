(* C03: plan optimisation never changes what a pipeline computes.
   ONLY property theorems (each closed by `exact`) and non-vacuity examples.
   Quantified over ARBITRARY node chains (not only builder-reachable ones) unless stated. *)
From Coq Require Import List ZArith Bool Permutation.
From IB Require Import Engine.Val Engine.Ops Engine.AMap Engine.Nodes Engine.Exec Engine.Planner
     Engine.Lang Engine.Denote Engine.Static Combiners.Lawful Proofs.EnginePlanner Proofs.EngineEquiv.
Import ListNotations.

(* ---- fusion keeps every element-wise step exactly once and in order, touches nothing else, and
   does not change what either engine returns - for every chain whatsoever ---- *)
Theorem c03_fuse_keeps_ops : forall c,
    stateless_ops (fuse c) = stateless_ops c /\ other_nodes (fuse c) = other_nodes c.
Proof. exact fuse_keeps_ops. Qed.
(* ... and no operator crosses a barrier, source or marker: the blocks of operators between
   consecutive non-Stateless nodes are unchanged *)
Theorem c03_fuse_keeps_segments : forall c, segments (fuse c) = segments c.
Proof. exact fuse_keeps_segments. Qed.
Theorem c03_reorder_keeps_segments : forall c,
    Forall2 (fun a b => Permutation a b) (segments c) (segments (reorder c)).
Proof. exact reorder_keeps_segments. Qed.
Theorem c03_fuse_sound_seq : forall sh term c, exec_seq sh term (fuse c) = exec_seq sh term c.
Proof. exact fuse_sound_seq. Qed.
Theorem c03_fuse_sound_par : forall sh term c parts,
    exec_par sh term (fuse c) parts = exec_par sh term c parts.
Proof. exact fuse_sound_par. Qed.

(* ---- reorder only permutes operators inside one Stateless node, never across nodes ---- *)
Theorem c03_reorder_within_blocks : forall c,
    Forall2 (fun n n' =>
               n' = n \/
               exists ops ops', n = NB (BStateless ops) /\ n' = NB (BStateless ops') /\
                                Permutation ops ops')
            c (reorder c).
Proof. exact reorder_within_blocks. Qed.
(* validation-style operators (not reorder-safe) pin the whole block *)
Theorem c03_reorder_pinned : forall ops,
    existsb (fun o => negb (op_vo o && op_kp o && op_rs o)) ops = true -> reorder_ops ops = ops.
Proof. exact reorder_pinned. Qed.

(* ---- lifting fires exactly on GroupByKey directly followed by a combine with a lifted local,
   and the direct combine gives the same per-key result as the pair, for any partitioning ---- *)
Theorem c03_lift_fires : forall a b cb tp tg tout r,
    lift (NB (BGroupByKey a b) :: NB (BCombineValues cb tp tg tout true) :: r)
    = NB (BCombineValues cb tp tg tout false) :: lift r.
Proof. exact lift_fires. Qed.
Theorem c03_lift_only_there : forall n r,
    (forall a b cb tp tg tout r', n = NB (BGroupByKey a b) ->
                                  r <> NB (BCombineValues cb tp tg tout true) :: r') ->
    lift (n :: r) = n :: lift r.
Proof. exact lift_only_there. Qed.
Theorem c03_lift_pair_sound : forall sh sh' i j cb tp tg tout ps qs,
    perm_oracle sh -> perm_oracle sh' -> lawful_vcomb cb ->
    check_tags tp ps = true -> check_tags tp qs = true ->
    Permutation (concat (map snd ps)) (concat (map snd qs)) ->
    exists g r1 r2,
      run_gbk sh i tp tg ps = Ok g /\
      run_combine_values sh (S i) cb tp tg tout true [g] = Ok r1 /\
      run_combine_values sh' j cb tp tg tout false qs = Ok r2 /\
      fst r1 = tout /\ fst r2 = tout /\ Permutation (snd r1) (snd r2).
Proof. exact lift_pair_sound. Qed.

(* ---- only non-terminal materialisation markers are dropped ---- *)
Theorem c03_drop_mid_keeps_rest : forall c,
    filter (fun n => match n with NB (BMaterialized _ _) => false | _ => true end) (drop_mid c)
    = filter (fun n => match n with NB (BMaterialized _ _) => false | _ => true end) c
    /\ last (map kind_of (drop_mid c)) KSource = last (map kind_of c) KSource.
Proof. exact drop_mid_keeps_rest. Qed.
Theorem c03_drop_mid_identity : forall c,
    forallb (fun n => match n with NB (BMaterialized _ _) => false | _ => true end) c = true ->
    drop_mid c = c.
Proof. exact drop_mid_identity. Qed.

(* ---- the whole optimiser on a classified plan (incl. the class-D rules: GroupByKey after a
   hash step, lifted combines / order-insensitive operators on its groups; lifting fires there
   too): same rows, up to the plan's order class, in both engines, provided the reorder pass is a no-op on it (else: known finding C02-reorder) ---- *)
(* (lift_typed: a lifted combine that directly follows a GroupByKey was built for that GroupByKey's
   row type - forced by rustc for every chain the typed builders can produce) *)
Definition lift_typed (chain : list node) : Prop :=
  forall pre a b cb tp tg tout post,
    chain = pre ++ NB (BGroupByKey a b) :: NB (BCombineValues cb tp tg tout true) :: post -> tp = a.
Theorem c03_optimise_sound : forall sh sh' chain t c parts,
    perm_oracle sh -> perm_oracle sh' -> plan_cls chain t c -> reorder_noop (fuse chain) ->
    lift_typed chain ->
    exists r1 r2 r3 r4,
      exec_seq sh t (optimise chain) = Ok r1 /\ exec_seq sh' t chain = Ok r2 /\
      exec_par sh t (optimise chain) parts = Ok r3 /\ exec_par sh' t chain parts = Ok r4 /\
      rel c r1 r2 /\ rel c r3 r4.
Proof. exact optimise_sound. Qed.

(* ---- the plan reported by explain is the plan that runs: one step per node, same kinds ---- *)
Theorem c03_explain_is_plan : forall c, explain c = map kind_of c /\ length (explain c) = length c.
Proof. exact explain_is_plan. Qed.

Example c03_example_fuse_lift :
  map kind_of (optimise (cs_chain (compile (SrcVec TU [VInt 1; VInt 2; VInt 3])
                 [SMap (FAdd 1); SKeyBy (FMod 2); SGroupByKey; SCombineValuesLifted CSum; SUnkey])))
  = [KSource; KStateless 2; KCombineValues false; KStateless 1].
Proof. vm_compute. reflexivity. Qed.
