(* C18: cloud operation helpers behave correctly under every sequence of failures.
   ONLY the property theorems (each closed by `exact`) and their non-vacuity examples.
   Model: Cloud/Ops.v (transcription of src/io/cloud/utils.rs and src/helpers/cloud.rs);
   vocabulary (budget, transient_err, delay_seq, batch_outputs, page_good, pages_cat,
   page_calls ...): Proofs/CloudOps.v, Proofs/CloudOpsBatch.v.
   A user closure is a function of the number of calls made so far (and of its argument). *)
From Coq Require Import List NArith Bool Arith Lia.
From IB Require Import Cloud.Ops Proofs.CloudOps Proofs.CloudOpsBatch Proofs.CloudOpsClock Proofs.CloudOpsCtx.
Import ListNotations.

(* ------------------------------------------------------------------ retry *)

(* the kinds that are retried are exactly Network, Timeout, ServiceUnavailable, RateLimited *)
Theorem c18_transient_set :
  forall k, transient k = true <-> In k [Network; Timeout; ServiceUnavailable; RateLimited].
Proof. exact transient_iff. Qed.
Example c18_transient_set_ex : transient RateLimited = true /\ transient InternalError = false.
Proof. split; reflexivity. Qed.

(* Everything retry_with_backoff does, for every configuration, closure and starting call
   number: it returns (never diverges, never panics); it makes a attempts, 1 <= a <= max(1,
   max_attempts); every attempt before the last ended in a transient error; the loop stopped
   because the budget was used up or because the last outcome was Ok or a permanent error;
   the caller gets exactly the outcome of attempt a; the sleeps are the first a-1 terms of
   initial, next initial, next (next initial), ... *)
Theorem c18_retry_spec :
  forall (X M : Type) (c : retry_cfg) (op : nat -> res X M) (idx : nat),
  exists a,
    (1 <= a <= N.to_nat (N.max 1 (max_attempts c)))%nat /\
    run_calls (retry c op idx) = a /\
    run_out (retry c op idx) = Done (op (idx + (a - 1))%nat) /\
    (forall j, (j < a - 1)%nat -> transient_err (op (idx + j)%nat) = true) /\
    (a = N.to_nat (N.max 1 (max_attempts c)) \/ transient_err (op (idx + (a - 1))%nat) = false) /\
    run_sleeps (retry c op idx) = delay_seq c (initial_delay_ms c) (a - 1).
Proof. exact (@retry_spec). Qed.
Example c18_retry_spec_ex :
  retry ex_cfg ex_op 0 = mk_run (Done (ROk 42%nat)) 3 [100; 150]%N /\
  retry ex_cfg ex_down 5 = mk_run (Done (RErr ServiceUnavailable 8%nat)) 4 [100; 150; 150]%N.
Proof. split; reflexivity. Qed.

(* never more than max(1, budget) attempts, never fewer than one *)
Theorem c18_retry_attempts_bound :
  forall (X M : Type) (c : retry_cfg) (op : nat -> res X M) (idx : nat),
    (1 <= run_calls (retry c op idx) <= N.to_nat (N.max 1 (max_attempts c)))%nat.
Proof. exact retry_attempts_bound. Qed.
Example c18_retry_attempts_bound_ex :
  run_calls (retry {| max_attempts := 0; initial_delay_ms := 1; max_delay_ms := 1;
                      mult_ge2 := false |} ex_down 0) = 1%nat.
Proof. reflexivity. Qed.

(* the caller receives the outcome of the last attempt made *)
Theorem c18_retry_result_is_last_attempt :
  forall (X M : Type) (c : retry_cfg) (op : nat -> res X M) (idx : nat),
    run_out (retry c op idx) = Done (op (idx + (run_calls (retry c op idx) - 1))%nat).
Proof. exact retry_result_is_last_attempt. Qed.
Example c18_retry_result_is_last_attempt_ex :
  run_out (retry ex_cfg ex_down 0) = Done (ex_down 3).
Proof. reflexivity. Qed.

(* no attempt follows a success or a permanent error: every attempt but the last failed with a
   transient kind *)
Theorem c18_retry_never_after_final_outcome :
  forall (X M : Type) (c : retry_cfg) (op : nat -> res X M) (idx j : nat),
    (j < run_calls (retry c op idx) - 1)%nat ->
    exists k m, op (idx + j)%nat = RErr k m /\ transient k = true.
Proof. exact retry_only_after_transient. Qed.
Example c18_retry_never_after_final_outcome_ex :
  (1 < run_calls (retry ex_cfg ex_op 0) - 1)%nat /\
  (* a permanent error as first outcome: one attempt *)
  run_calls (retry ex_cfg ex_op 3) = 1%nat.
Proof. split; [vm_compute; lia|reflexivity]. Qed.

(* the loop gives up before the budget only on Ok or a permanent error *)
Theorem c18_retry_stops_early_only_when_final :
  forall (X M : Type) (c : retry_cfg) (op : nat -> res X M) (idx : nat),
    (run_calls (retry c op idx) < N.to_nat (N.max 1 (max_attempts c)))%nat ->
    transient_err (op (idx + (run_calls (retry c op idx) - 1))%nat) = false.
Proof. exact retry_stops_early_only_when_final. Qed.
Example c18_retry_stops_early_only_when_final_ex :
  (run_calls (retry ex_cfg ex_op 0) < N.to_nat (N.max 1 (max_attempts ex_cfg)))%nat.
Proof. vm_compute. lia. Qed.

(* the number of attempts is determined by the outcomes: it is the a >= 1 with only transient
   errors before it that is the budget or has a final outcome *)
Theorem c18_retry_attempts_unique :
  forall (X M : Type) (c : retry_cfg) (op : nat -> res X M) (idx a : nat),
    (1 <= a <= budget c)%nat ->
    (forall j, (j < a - 1)%nat -> transient_err (op (idx + j)%nat) = true) ->
    (a = budget c \/ transient_err (op (idx + (a - 1))%nat) = false) ->
    run_calls (retry c op idx) = a.
Proof. exact retry_attempts_unique. Qed.
Example c18_retry_attempts_unique_ex :
  (1 <= 3 <= budget ex_cfg)%nat /\
  (forall j, (j < 3 - 1)%nat -> transient_err (ex_op (0 + j)%nat) = true) /\
  transient_err (ex_op (0 + (3 - 1))%nat) = false.
Proof.
  split; [vm_compute; lia|]. split; [|reflexivity].
  intros [|[|j]] Hj; [reflexivity|reflexivity|lia].
Qed.

(* sleeps: one between consecutive attempts; the first is initial_delay_ms AS IS (the code does
   not cap it); every later one is at most max_delay_ms *)
Theorem c18_retry_sleeps_spec :
  forall (X M : Type) (c : retry_cfg) (op : nat -> res X M) (idx : nat),
    let r := retry c op idx in
    length (run_sleeps r) = (run_calls r - 1)%nat /\
    ((0 < run_calls r - 1)%nat -> nth 0 (run_sleeps r) 0%N = initial_delay_ms c) /\
    (forall j, (1 <= j < run_calls r - 1)%nat -> (nth j (run_sleeps r) 0%N <= max_delay_ms c)%N).
Proof. exact retry_sleeps_spec. Qed.
Example c18_retry_sleeps_spec_ex :
  (* initial delay 100 above the cap 7: slept uncapped once, then capped *)
  run_sleeps (retry {| max_attempts := 4; initial_delay_ms := 100; max_delay_ms := 7;
                       mult_ge2 := true |} ex_down 0) = [100; 7; 7]%N.
Proof. reflexivity. Qed.

(* closed form of the later sleeps: min(2^j * initial, cap) when backoff_multiplier >= 2.0,
   min(initial, cap) otherwise (the multiplier's value is otherwise ignored) *)
Theorem c18_retry_sleep_values :
  forall (X M : Type) (c : retry_cfg) (op : nat -> res X M) (idx j : nat),
    (max_delay_ms c <= u64_max)%N ->
    (S j < run_calls (retry c op idx) - 1)%nat ->
    nth (S j) (run_sleeps (retry c op idx)) 0%N =
    if mult_ge2 c then N.min (2 ^ N.of_nat (S j) * initial_delay_ms c) (max_delay_ms c)
    else N.min (initial_delay_ms c) (max_delay_ms c).
Proof. exact retry_sleep_values. Qed.
Example c18_retry_sleep_values_ex :
  (max_delay_ms ex_cfg <= u64_max)%N /\ (S 1 < run_calls (retry ex_cfg ex_down 0) - 1)%nat /\
  run_sleeps (retry {| max_attempts := 5; initial_delay_ms := 3; max_delay_ms := 20;
                       mult_ge2 := true |} ex_down 0) = [3; 6; 12; 20]%N /\
  run_sleeps (retry {| max_attempts := 4; initial_delay_ms := 3; max_delay_ms := 20;
                       mult_ge2 := false |} ex_down 0) = [3; 3; 3]%N.
Proof. repeat split; vm_compute; try reflexivity; try discriminate; lia. Qed.

(* ------------------------------------------------------------------ timeout *)

(* with_timeout: an operation that returned Ok after more than `timeout` is reported as a
   Timeout error; one that returned Ok in time is passed through; one that FAILED keeps its own
   error, however long it took *)
Theorem c18_timeout_spec :
  forall (X M : Type) (tmsg : M) (timeout elapsed : N),
    (forall v : X, (timeout < elapsed)%N ->
                   with_timeout tmsg timeout elapsed (Done (ROk v)) = Done (RErr Timeout tmsg)) /\
    (forall v : X, (elapsed <= timeout)%N ->
                   with_timeout tmsg timeout elapsed (Done (ROk v)) = Done (ROk v)) /\
    (forall k (m : M), with_timeout (X := X) tmsg timeout elapsed (Done (RErr k m)) = Done (RErr k m)).
Proof.
  exact (fun X M tmsg timeout elapsed =>
           conj (fun v => with_timeout_overrun X M tmsg timeout elapsed v)
                (conj (fun v => with_timeout_in_time X M tmsg timeout elapsed v)
                      (fun k m => with_timeout_err X M tmsg timeout elapsed k m))).
Qed.
Example c18_timeout_spec_ex :
  with_timeout 0%nat 30 31 (Done (ROk 5%nat)) = Done (RErr Timeout 0%nat) /\
  with_timeout 0%nat 30 30 (Done (ROk 5%nat)) = Done (ROk 5%nat) /\
  with_timeout (X := nat) 0%nat 30 99 (Done (RErr NotFound 7%nat)) = Done (RErr NotFound 7%nat).
Proof. repeat split; reflexivity. Qed.

(* ------------------------------------------------------------------ wrappers *)

(* run_with_retry, run_cloud_io_with_retry, OperationBuilder / CloudIOExecutor with a retry
   configuration and no timeout ARE retry_with_backoff *)
Theorem c18_wrappers_are_retry :
  forall (X M : Type) (tmsg : M) (c : retry_cfg) (op : nat -> res X M) (idx : nat) (el : N),
    run_with_retry c op idx = retry c op idx /\
    run_cloud_io_with_retry c op idx = retry c op idx /\
    builder_execute tmsg (Some c) None el op idx = retry c op idx /\
    executor_execute tmsg (Some c) None el op idx = retry c op idx.
Proof. exact wrappers_are_retry. Qed.
Example c18_wrappers_are_retry_ex :
  run_calls (builder_execute 0%nat (Some ex_cfg) None 0 ex_op 0) = 3%nat.
Proof. reflexivity. Qed.

(* with a timeout as well: the whole retry run (same attempts, same sleeps) and then the
   with_timeout relabelling of its result; the timeout never interrupts the loop *)
Theorem c18_timeout_retry_wrappers :
  forall (X M : Type) (tmsg : M) (c : retry_cfg) (t el : N) (op : nat -> res X M) (idx : nat),
    let r := retry c op idx in
    let w := mk_run (with_timeout tmsg t el (run_out r)) (run_calls r) (run_sleeps r) in
    run_with_timeout_and_retry tmsg c t el op idx = w /\
    run_cloud_io_with_retry_and_timeout tmsg c t el op idx = w /\
    builder_execute tmsg (Some c) (Some t) el op idx = w /\
    executor_execute tmsg (Some c) (Some t) el op idx = w.
Proof. exact timeout_retry_wrappers. Qed.
Example c18_timeout_retry_wrappers_ex :
  (* the third attempt succeeds, but 250 ms of sleeping exceed the 200 ms timeout *)
  executor_execute 99%nat (Some ex_cfg) (Some 200%N) 251 ex_op 0
  = mk_run (Done (RErr Timeout 99%nat)) 3 [100; 150]%N.
Proof. reflexivity. Qed.

(* without a retry configuration: exactly one call *)
Theorem c18_no_retry_wrappers :
  forall (X M : Type) (tmsg : M) (t el : N) (op : nat -> res X M) (idx : nat),
    builder_execute tmsg None None el op idx = mk_run (Done (op idx)) 1 [] /\
    builder_execute tmsg None (Some t) el op idx =
      mk_run (with_timeout tmsg t el (Done (op idx))) 1 [].
Proof. exact no_retry_wrappers. Qed.
Example c18_no_retry_wrappers_ex :
  builder_execute 0%nat None None 0 ex_op 0 = mk_run (Done (RErr Network 0%nat)) 1 [].
Proof. reflexivity. Qed.

(* the two builders are the same function *)
Theorem c18_executor_is_builder :
  forall (X M : Type) (tmsg : M) rc t el (op : nat -> res X M) (idx : nat),
    executor_execute tmsg rc t el op idx = builder_execute tmsg rc t el op idx.
Proof. exact executor_is_builder. Qed.
Example c18_executor_is_builder_ex :
  executor_execute 0%nat (Some ex_cfg) (Some 5%N) 3 ex_op 0 = mk_run (Done (ROk 42%nat)) 3 [100; 150]%N.
Proof. reflexivity. Qed.

(* every builder configuration: between 1 and max(1, budget) calls (1 without retry) *)
Theorem c18_wrapper_calls_bound :
  forall (X M : Type) (tmsg : M) rc t el (op : nat -> res X M) (idx : nat),
    let r := builder_execute tmsg rc t el op idx in
    (1 <= run_calls r)%nat /\
    (run_calls r <= match rc with Some c => N.to_nat (N.max 1 (max_attempts c)) | None => 1 end)%nat.
Proof. exact builder_calls_bound. Qed.
Example c18_wrapper_calls_bound_ex :
  run_calls (builder_execute 0%nat (Some ex_cfg) (Some 1%N) 2 ex_down 0) = 4%nat.
Proof. reflexivity. Qed.

(* ---- builder construction: the configuration `execute` sees is the fold of the setter calls ---- *)

(* with_retry and with_timeout each replace exactly their own field: setters of different fields
   commute (one step, and anywhere inside a whole construction sequence); calling the same setter
   again keeps the last value *)
Theorem c18_builder_setters_commute :
  (forall b c t, apply_setter (apply_setter b (SetRetry c)) (SetTimeout t) =
                 apply_setter (apply_setter b (SetTimeout t)) (SetRetry c)) /\
  (forall pre post c t, build (pre ++ SetRetry c :: SetTimeout t :: post) =
                        build (pre ++ SetTimeout t :: SetRetry c :: post)) /\
  (forall b c1 c2, apply_setter (apply_setter b (SetRetry c1)) (SetRetry c2) =
                   apply_setter b (SetRetry c2)) /\
  (forall b t1 t2, apply_setter (apply_setter b (SetTimeout t1)) (SetTimeout t2) =
                   apply_setter b (SetTimeout t2)) /\
  (forall ss, b_retry (build ss) = last_retry ss /\ b_timeout (build ss) = last_timeout ss).
Proof.
  exact (conj setters_commute (conj build_swap (conj setter_retry_last_wins
          (conj setter_timeout_last_wins build_fields)))).
Qed.
Example c18_builder_setters_commute_ex :
  build [SetTimeout 5; SetRetry ex_cfg] = mk_builder (Some ex_cfg) (Some 5%N) /\
  build [SetRetry ex_cfg; SetTimeout 5] = mk_builder (Some ex_cfg) (Some 5%N) /\
  build [SetTimeout 9; SetRetry ex_cfg; SetTimeout 5] = mk_builder (Some ex_cfg) (Some 5%N).
Proof. repeat split; reflexivity. Qed.

(* OperationBuilder::new()...execute and CloudIOExecutor::new()...execute after ANY sequence of
   setter calls: decided by the last value given to each setter *)
Theorem c18_builder_by_final_config :
  forall (X M : Type) (tmsg : M) (ss : list setter) (el : N) (op : nat -> res X M) (idx : nat),
    executor_run tmsg ss el op idx = builder_run tmsg ss el op idx /\
    builder_run tmsg ss el op idx =
    match last_retry ss, last_timeout ss with
    | Some c, Some t =>
        let r := retry c op idx in
        mk_run (with_timeout tmsg t el (run_out r)) (run_calls r) (run_sleeps r)
    | Some c, None => retry c op idx
    | None, Some t => mk_run (with_timeout tmsg t el (Done (op idx))) 1 []
    | None, None => mk_run (Done (op idx)) 1 []
    end.
Proof.
  exact (fun X M tmsg ss el op idx =>
           conj (executor_run_is_builder_run X M tmsg ss el op idx)
                (builder_by_final_config X M tmsg ss el op idx)).
Qed.
Example c18_builder_by_final_config_ex :
  (* timeout set BEFORE the retry configuration is still in force: the late success is a Timeout *)
  builder_run 99%nat [SetTimeout 200; SetRetry ex_cfg] 251 ex_op 0
  = mk_run (Done (RErr Timeout 99%nat)) 3 [100; 150]%N /\
  (* a later with_timeout replaces the earlier one *)
  builder_run 99%nat [SetTimeout 200; SetRetry ex_cfg; SetTimeout 300] 251 ex_op 0
  = mk_run (Done (ROk 42%nat)) 3 [100; 150]%N.
Proof. split; reflexivity. Qed.

(* whatever the construction sequence: between 1 and max(1, budget of the LAST with_retry) calls,
   exactly 1 if with_retry was never called *)
Theorem c18_builder_run_calls_bound :
  forall (X M : Type) (tmsg : M) (ss : list setter) (el : N) (op : nat -> res X M) (idx : nat),
    let r := builder_run tmsg ss el op idx in
    (1 <= run_calls r)%nat /\
    (run_calls r <= match last_retry ss with
                    | Some c => N.to_nat (N.max 1 (max_attempts c)) | None => 1 end)%nat.
Proof. exact builder_run_calls_bound. Qed.
Example c18_builder_run_calls_bound_ex :
  run_calls (builder_run 0%nat [SetRetry ex_cfg; SetTimeout 1;
                                SetRetry {| max_attempts := 2; initial_delay_ms := 0;
                                            max_delay_ms := 0; mult_ge2 := true |}] 2 ex_down 0)
  = 2%nat.
Proof. reflexivity. Qed.

(* ------------------------------------------------------------------ the clock, derived *)

(* The wrappers above take the clock reading as an input.  With the reading derived from the run
   itself (Cloud/Ops.v, Section Clock: tpm ticks per ms, `busy i` ticks inside call i, `extra`
   >= 0 for everything else) it is well defined, because the calls and sleeps of every builder
   and executor configuration are the same at every reading *)
Theorem c18_shape_is_clock_free :
  forall (X M : Type) (tmsg : M) (ss : list setter) (el el' : N) (op : nat -> res X M) (idx : nat),
    run_calls (builder_run tmsg ss el op idx) = run_calls (builder_run tmsg ss el' op idx) /\
    run_sleeps (builder_run tmsg ss el op idx) = run_sleeps (builder_run tmsg ss el' op idx) /\
    run_calls (executor_run tmsg ss el op idx) = run_calls (executor_run tmsg ss el' op idx) /\
    run_sleeps (executor_run tmsg ss el op idx) = run_sleeps (executor_run tmsg ss el' op idx).
Proof. exact builder_run_shape_clock_free. Qed.
Example c18_shape_is_clock_free_ex :
  run_sleeps (builder_run 0%nat [SetTimeout 5; SetRetry ex_cfg] 0 ex_op 0) = [100; 150]%N /\
  run_sleeps (builder_run 0%nat [SetTimeout 5; SetRetry ex_cfg] 999 ex_op 0) = [100; 150]%N.
Proof. split; reflexivity. Qed.

(* retry + timeout, all four entry points (run_with_timeout_and_retry,
   run_cloud_io_with_retry_and_timeout, OperationBuilder and CloudIOExecutor with both setters):
   the timeout brackets the WHOLE retry run.  When the back-off sleeps plus the time inside the
   attempts exceed the timeout, a success is reported as Timeout and an error stays what it was -
   whatever else the clock picked up - after exactly the attempts and sleeps of the plain retry *)
Theorem c18_backoff_waits_count_against_timeout :
  forall (X M : Type) (tmsg : M) (c : retry_cfg) (t tpm : N) (busy : nat -> N) (extra : N)
         (op : nat -> res X M) (idx : nat),
    let r := retry c op idx in
    (t < tpm * nsum (run_sleeps r) + busy_sum busy idx (run_calls r))%N ->
    let w := mk_run (late_outcome tmsg (run_out r)) (run_calls r) (run_sleeps r) in
    timed_retry tmsg c t tpm busy extra op idx = w /\
    timed_cloud_io_retry tmsg c t tpm busy extra op idx = w /\
    timed_builder_execute tmsg (Some c) (Some t) tpm busy extra op idx = w /\
    timed_executor_execute tmsg (Some c) (Some t) tpm busy extra op idx = w.
Proof. exact timed_retry_overrun. Qed.
Example c18_backoff_waits_count_against_timeout_ex :
  (* 2 attempts, 400 ms back-off, 100 ms timeout, instantaneous operation failing once *)
  (100 < 1 * nsum (run_sleeps (retry ex_cfg_wait ex_once 0))
         + busy_sum no_busy 0 (run_calls (retry ex_cfg_wait ex_once 0)))%N /\
  retry ex_cfg_wait ex_once 0 = mk_run (Done (ROk 7%nat)) 2 [400]%N /\
  timed_retry 99%nat ex_cfg_wait 100 1 no_busy 0 ex_once 0
  = mk_run (Done (RErr Timeout 99%nat)) 2 [400]%N.
Proof. repeat split; vm_compute; reflexivity. Qed.

(* in that situation none of the four ever reports a success *)
Theorem c18_overrun_is_never_ok :
  forall (X M : Type) (tmsg : M) (c : retry_cfg) (t tpm : N) (busy : nat -> N) (extra : N)
         (op : nat -> res X M) (idx : nat) (v : X),
    let r := retry c op idx in
    (t < tpm * nsum (run_sleeps r) + busy_sum busy idx (run_calls r))%N ->
    run_out (timed_retry tmsg c t tpm busy extra op idx) <> Done (ROk v) /\
    run_out (timed_cloud_io_retry tmsg c t tpm busy extra op idx) <> Done (ROk v) /\
    run_out (timed_builder_execute tmsg (Some c) (Some t) tpm busy extra op idx) <> Done (ROk v) /\
    run_out (timed_executor_execute tmsg (Some c) (Some t) tpm busy extra op idx) <> Done (ROk v).
Proof. exact timed_retry_overrun_never_ok. Qed.
Example c18_overrun_is_never_ok_ex :
  run_out (timed_executor_execute 99%nat (Some ex_cfg_wait) (Some 100%N) 1 no_busy 3 ex_once 0)
  = Done (RErr Timeout 99%nat).
Proof. reflexivity. Qed.

(* one back-off wait is enough: a first transient failure under a budget of at least 2 and a
   timeout below the initial delay - the operation itself may be instantaneous *)
Theorem c18_first_backoff_overruns :
  forall (X M : Type) (tmsg : M) (c : retry_cfg) (t tpm : N) (busy : nat -> N) (extra : N)
         (op : nat -> res X M) (idx : nat) (v : X),
    (2 <= budget c)%nat -> transient_err (op idx) = true ->
    (t < tpm * initial_delay_ms c)%N ->
    run_out (timed_retry tmsg c t tpm busy extra op idx) <> Done (ROk v) /\
    run_out (timed_cloud_io_retry tmsg c t tpm busy extra op idx) <> Done (ROk v) /\
    run_out (timed_builder_execute tmsg (Some c) (Some t) tpm busy extra op idx) <> Done (ROk v) /\
    run_out (timed_executor_execute tmsg (Some c) (Some t) tpm busy extra op idx) <> Done (ROk v).
Proof. exact first_backoff_overruns. Qed.
Example c18_first_backoff_overruns_ex :
  (2 <= budget ex_cfg_wait)%nat /\ transient_err (ex_once 0) = true /\
  (100 < 1 * initial_delay_ms ex_cfg_wait)%N.
Proof. repeat split; vm_compute; try reflexivity; lia. Qed.

(* a run that is over in time is the plain retry run, result included *)
Theorem c18_in_time_is_plain_retry :
  forall (X M : Type) (tmsg : M) (c : retry_cfg) (t tpm : N) (busy : nat -> N) (extra : N)
         (op : nat -> res X M) (idx : nat),
    let r := retry c op idx in
    (run_clock tpm busy idx r + extra <= t)%N ->
    timed_retry tmsg c t tpm busy extra op idx = r /\
    timed_cloud_io_retry tmsg c t tpm busy extra op idx = r /\
    timed_builder_execute tmsg (Some c) (Some t) tpm busy extra op idx = r /\
    timed_executor_execute tmsg (Some c) (Some t) tpm busy extra op idx = r.
Proof. exact timed_retry_in_time. Qed.
Example c18_in_time_is_plain_retry_ex :
  (run_clock 1 no_busy 0 (retry ex_cfg_wait ex_once 0) + 5 <= 405)%N /\
  timed_retry 99%nat ex_cfg_wait 405 1 no_busy 5 ex_once 0 = mk_run (Done (ROk 7%nat)) 2 [400]%N.
Proof. split; vm_compute; [discriminate|reflexivity]. Qed.

(* no retry configuration, a timeout: with_timeout around the single call; time inside the call
   beyond the timeout turns a success into Timeout *)
Theorem c18_timed_single_call :
  forall (X M : Type) (tmsg : M) (t tpm : N) (busy : nat -> N) (extra : N)
         (op : nat -> res X M) (idx : nat),
    timed_builder_execute tmsg None (Some t) tpm busy extra op idx
    = timed_with_timeout tmsg t busy extra op idx /\
    timed_executor_execute tmsg None (Some t) tpm busy extra op idx
    = timed_with_timeout tmsg t busy extra op idx /\
    ((t < busy idx)%N -> forall v,
        run_out (timed_with_timeout tmsg t busy extra op idx) <> Done (ROk v)).
Proof. exact timed_no_retry. Qed.
Example c18_timed_single_call_ex :
  timed_with_timeout 99%nat 5 (fun _ => 25%N) 0 ex_once 1 = mk_run (Done (RErr Timeout 99%nat)) 1 [] /\
  timed_with_timeout 99%nat 5 (fun _ => 25%N) 0 ex_once 0 = mk_run (Done (RErr Network 0%nat)) 1 [].
Proof. split; reflexivity. Qed.

(* the builders hand the retry configuration through as given: after ANY construction sequence the
   sleeps are the delay sequence of the last with_retry argument - its own initial delay, its own
   cap, its own multiplier - and there are none without with_retry *)
Theorem c18_builder_sleeps_by_last_retry :
  forall (X M : Type) (tmsg : M) (ss : list setter) (el : N) (op : nat -> res X M) (idx : nat),
    run_sleeps (builder_run tmsg ss el op idx) =
      match last_retry ss with
      | Some c => delay_seq c (initial_delay_ms c) (run_calls (builder_run tmsg ss el op idx) - 1)
      | None => []
      end /\
    run_sleeps (executor_run tmsg ss el op idx) =
      match last_retry ss with
      | Some c => delay_seq c (initial_delay_ms c) (run_calls (executor_run tmsg ss el op idx) - 1)
      | None => []
      end.
Proof. exact builder_sleeps_by_last_retry. Qed.
Example c18_builder_sleeps_by_last_retry_ex :
  run_sleeps (executor_run 0%nat [SetRetry ex_cfg; SetTimeout 9; SetRetry ex_cfg_low_cap] 0 ex_down 0)
  = [600; 50; 50]%N.
Proof. reflexivity. Qed.

(* initial_delay_ms at or above max_delay_ms: the first wait is the initial delay as given, every
   later wait is exactly the cap ("never exceed the configured cap once backed off") *)
Theorem c18_sleeps_cap_below_initial :
  forall (X M : Type) (c : retry_cfg) (op : nat -> res X M) (idx : nat),
    (max_delay_ms c <= initial_delay_ms c)%N -> (max_delay_ms c <= u64_max)%N ->
    run_sleeps (retry c op idx) =
    match (run_calls (retry c op idx) - 1)%nat with
    | O => []
    | S n => initial_delay_ms c :: repeat (max_delay_ms c) n
    end.
Proof. exact retry_sleeps_cap_below_initial. Qed.
Example c18_sleeps_cap_below_initial_ex :
  (max_delay_ms ex_cfg_low_cap <= initial_delay_ms ex_cfg_low_cap)%N /\
  run_sleeps (retry ex_cfg_low_cap ex_down 0) = [600; 50; 50]%N.
Proof. split; vm_compute; [discriminate|reflexivity]. Qed.

(* ------------------------------------------------------------------ batch *)

(* batch_in_chunks / run_batch_operation, for every item list, chunk size (0 included) and
   processor: the chunks are the consecutive blocks of max(size,1) items (their concatenation is
   the item list, none is empty, none is longer than max(size,1)); they are handed over in
   order; either all succeed and the result is the concatenation of what the processor returned,
   or chunk f is the first to fail, the chunks handed over are exactly 0..f - i.e. the first
   (f+1)*max(size,1) items, each once, nothing after - and the result is that chunk's error *)
Theorem c18_batch_spec :
  forall (A R M : Type) (items : list A) (size : nat) (process : nat -> list A -> res (list R) M),
    let n := Nat.max size 1 in
    let cs := chunks n items in
    concat cs = items /\
    Forall (fun ch => (1 <= length ch <= n)%nat) cs /\
    (forall j, nth j cs [] = firstn n (skipn (j * n) items)) /\
    ( ( (forall j, (j < length cs)%nat -> is_ok (process j (nth j cs [])) = true) /\
        batch_in_chunks items size process = (ROk (batch_outputs process cs 0), cs) )
      \/
      ( exists f k m,
          (f < length cs)%nat /\
          (forall j, (j < f)%nat -> is_ok (process j (nth j cs [])) = true) /\
          process f (nth f cs []) = RErr k m /\
          batch_in_chunks items size process = (RErr k m, firstn (S f) cs) /\
          concat (firstn (S f) cs) = firstn (S f * n) items ) ).
Proof. exact batch_spec. Qed.
Example c18_batch_spec_ex :
  batch_in_chunks [1; 2; 3; 4; 5; 6; 7]%nat 2 ex_process
  = (RErr InternalError 2%nat, [[1; 2]; [3; 4]; [5; 6]]%nat) /\
  batch_in_chunks [1; 2; 3]%nat 2 ex_process = (ROk [2; 4; 6]%nat, [[1; 2]; [3]]%nat) /\
  (* chunk size 0 behaves as 1 *)
  batch_in_chunks [1; 2]%nat 0 ex_process = (ROk [2; 4]%nat, [[1]; [2]]%nat).
Proof. repeat split; reflexivity. Qed.

(* number of chunks: ceil(|items| / max(size,1)) *)
Theorem c18_batch_chunk_count :
  forall (A : Type) (n : nat) (items : list A),
    (1 <= n)%nat ->
    (length items <= length (chunks n items) * n)%nat /\
    (items <> [] -> (length (chunks n items) - 1) * n < length items)%nat /\
    (items = [] -> chunks n items = []).
Proof. exact (fun A n items H => chunks_count A n H items). Qed.
Example c18_batch_chunk_count_ex : length (chunks 3 [1; 2; 3; 4; 5; 6; 7]%nat) = 3%nat.
Proof. reflexivity. Qed.

(* run_batch_operation ignores BatchConfig.parallel *)
Theorem c18_run_batch_operation_is_batch :
  forall (A R M : Type) (items : list A) size par (process : nat -> list A -> res (list R) M),
    run_batch_operation items size par process = batch_in_chunks items size process.
Proof. exact run_batch_operation_is_batch. Qed.
Example c18_run_batch_operation_is_batch_ex :
  run_batch_operation [1; 2; 3]%nat 2 true ex_process = (ROk [2; 4; 6]%nat, [[1; 2]; [3]]%nat).
Proof. reflexivity. Qed.

(* run_cloud_io_batch (per-item retry): the closure sees the items in order, each between 1 and
   max(1, budget) times in a row, up to and including the first item whose retry run fails and
   nothing after it; success returns one value per item; a failure is the outcome of the very
   last call made *)
Theorem c18_io_batch_spec :
  forall (A R M : Type) (c : retry_cfg) (op : nat -> A -> res R M) (items : list A) (idx : nat),
  exists counts : list nat,
    (length counts <= length items)%nat /\
    Forall (fun a => (1 <= a <= budget c)%nat) counts /\
    snd (fst (io_batch c op items idx)) =
      concat (map (fun p => repeat (fst p) (snd p)) (combine items counts)) /\
    match fst (fst (io_batch c op items idx)) with
    | Done (ROk vs) => length counts = length items /\ length vs = length items
    | Done (RErr k m) =>
        (1 <= length counts)%nat /\
        exists x, nth_error items (length counts - 1) = Some x /\
                  op (idx + (list_sum counts - 1))%nat x = RErr k m
    | Panic | Diverge => False
    end.
Proof. exact io_batch_spec. Qed.
Example c18_io_batch_spec_ex :
  io_batch ex_cfg ex_item_op [10; 20; 30; 40]%nat 0
  = (Done (RErr NotFound 3%nat), [10; 20; 20; 30]%nat, [100]%N) /\
  io_batch ex_cfg ex_item_op [10; 20]%nat 0 = (Done (ROk [10; 22]%nat), [10; 20; 20]%nat, [100]%N).
Proof. split; reflexivity. Qed.

(* run_cloud_io_batch sleeps: with `counts` the attempts spent on each started item (the trace is
   each started item `count` times in a row), the sleeps are item after item a FRESH delay
   sequence of count-1 terms - the back-off restarts at initial_delay_ms for every item and there
   is no wait between two items *)
Theorem c18_io_batch_sleeps :
  forall (A R M : Type) (c : retry_cfg) (op : nat -> A -> res R M) (items : list A) (idx : nat),
  exists counts : list nat,
    (length counts <= length items)%nat /\
    Forall (fun a => (1 <= a <= budget c)%nat) counts /\
    snd (fst (io_batch c op items idx)) =
      concat (map (fun p => repeat (fst p) (snd p)) (combine items counts)) /\
    snd (io_batch c op items idx) =
      concat (map (fun a => delay_seq c (initial_delay_ms c) (a - 1)) counts).
Proof. exact io_batch_sleeps. Qed.
Example c18_io_batch_sleeps_ex :
  io_batch ex_cfg ex_item_op [10; 20]%nat 0 = (Done (ROk [10; 22]%nat), [10; 20; 20]%nat, [100]%N) /\
  concat (map (fun a => delay_seq ex_cfg (initial_delay_ms ex_cfg) (a - 1)) [1; 2]%nat) = [100]%N.
Proof. split; reflexivity. Qed.

(* ------------------------------------------------------------------ paginate *)

(* paginate / run_paginated_operation / run_cloud_io_paginated.  Let n be the first page index
   that is at the page limit or is not a (non-empty, has_more = true) page.  Then exactly pages
   0..n-1 (and page n unless the limit stopped the loop) are fetched, in order, and the result is:
   the concatenation of pages 0..n-1 if the limit stopped the loop or page n is empty; page n's
   error if it failed; the concatenation of pages 0..n if page n is the final non-empty page.
   (Panic: the u32 page counter overflows after 2^32 pages in a build with overflow checks.) *)
Theorem c18_paginate_spec :
  forall (T M : Type) (mp : option N) (ps : N) (fetch : N -> N -> res (list T * bool) M)
         (fuel n : nat),
    (forall j, (j < n)%nat -> page_good fetch ps j = true /\ at_limit mp (N.of_nat j) = false) ->
    (at_limit mp (N.of_nat n) = true \/ page_good fetch ps n = false) ->
    (n < fuel)%nat -> (N.of_nat n <= u32_max)%N ->
    paginate fuel ps mp fetch =
    if at_limit mp (N.of_nat n) then (Done (ROk (pages_cat fetch ps 0 n)), page_calls ps 0 n)
    else match fetch (N.of_nat n) ps with
         | RErr k m => (Done (RErr k m), page_calls ps 0 (S n))
         | ROk (items, _) =>
             if is_nil items then (Done (ROk (pages_cat fetch ps 0 n)), page_calls ps 0 (S n))
             else if (N.of_nat n =? u32_max)%N then (Panic, page_calls ps 0 (S n))
             else (Done (ROk (pages_cat fetch ps 0 (S n))), page_calls ps 0 (S n))
         end.
Proof. exact paginate_spec. Qed.
Example c18_paginate_spec_ex :
  (* hypotheses at n = 2 with no limit *)
  (forall j, (j < 2)%nat -> page_good ex_fetch 10 j = true /\ at_limit None (N.of_nat j) = false) /\
  page_good ex_fetch 10 2 = false /\
  paginate 9 10 None ex_fetch = (Done (ROk [1; 2; 3; 4; 5]%N), [(0, 10); (1, 10); (2, 10)]%N) /\
  (* the limit stops it *)
  paginate 9 10 (Some 1%N) ex_fetch = (Done (ROk [1; 2]%N), [(0, 10)]%N).
Proof.
  split; [|repeat split; reflexivity].
  intros [|[|j]] Hj; [split; reflexivity|split; reflexivity|lia].
Qed.

(* max_pages = None means NO limit - for an explicit None and for PaginationConfig::default(),
   whose max_pages is None: any number of good pages followed by a final page are all fetched
   and all returned *)
Theorem c18_paginate_unlimited_fetches_all :
  forall (T M : Type) (c : pagination_cfg) (fetch : N -> N -> res (list T * bool) M)
         (fuel n : nat) (items : list T),
    max_pages c = None ->
    (forall j, (j < n)%nat -> page_good fetch (page_size c) j = true) ->
    fetch (N.of_nat n) (page_size c) = ROk (items, false) -> items <> [] ->
    (n < fuel)%nat -> (N.of_nat n < u32_max)%N ->
    paginate_cfg fuel c fetch =
    (Done (ROk (pages_cat fetch (page_size c) 0 (S n))), page_calls (page_size c) 0 (S n)).
Proof. exact paginate_unlimited_all_pages. Qed.
Example c18_paginate_unlimited_fetches_all_ex :
  page_size pagination_cfg_default = 100%N /\ max_pages pagination_cfg_default = None /\
  (* 1005 pages under the default configuration: 1005 fetches, 1005 items *)
  (let r := paginate_cfg 2000 pagination_cfg_default ex_long in
   length (snd r) = 1005%nat /\
   match fst r with Done (ROk l) => length l = 1005%nat /\ last l 0%N = 1004%N | _ => False end).
Proof. vm_compute. repeat split; reflexivity. Qed.

(* max_pages = Some 0: no page is fetched, the result is empty *)
Theorem c18_paginate_zero_limit :
  forall (T M : Type) (mp : option N) (ps : N) (fetch : N -> N -> res (list T * bool) M) (fuel : nat),
    mp = Some 0%N -> (1 <= fuel)%nat -> paginate fuel ps mp fetch = (Done (ROk []), []).
Proof. exact paginate_zero_limit. Qed.
Example c18_paginate_zero_limit_ex : paginate 3 10 (Some 0%N) ex_endless = (Done (ROk []), []).
Proof. reflexivity. Qed.

(* with a page limit: always returns, after at most `limit` fetches *)
Theorem c18_paginate_limit_terminates :
  forall (T M : Type) (mp : option N) (ps : N) (fetch : N -> N -> res (list T * bool) M)
         (fuel : nat) (m : N),
    mp = Some m -> (N.to_nat m < fuel)%nat -> (m <= u32_max)%N ->
    exists r, fst (paginate fuel ps mp fetch) = Done r /\
              (length (snd (paginate fuel ps mp fetch)) <= N.to_nat m)%nat.
Proof. exact paginate_limit_terminates. Qed.
Example c18_paginate_limit_terminates_ex :
  paginate 9 1 (Some 3%N) ex_endless = (Done (ROk [0; 1; 2]%N), [(0, 1); (1, 1); (2, 1)]%N).
Proof. reflexivity. Qed.

(* no limit and an endless supply of non-empty has_more pages: never returns *)
Theorem c18_paginate_endless :
  forall (T M : Type) (mp : option N) (ps : N) (fetch : N -> N -> res (list T * bool) M) (fuel : nat),
    mp = None -> (forall j, page_good fetch ps j = true) -> (N.of_nat fuel <= u32_max)%N ->
    fst (paginate fuel ps mp fetch) = Diverge.
Proof. exact paginate_endless. Qed.
Example c18_paginate_endless_ex :
  (forall j, page_good ex_endless 1 j = true) /\ fst (paginate 50 1 None ex_endless) = Diverge.
Proof. split; [intros j; reflexivity|reflexivity]. Qed.

(* the helper-level names are the same function *)
Theorem c18_paginate_wrappers :
  forall (T M : Type) fuel ps mp (fetch : N -> N -> res (list T * bool) M),
    run_paginated_operation fuel ps mp fetch = paginate fuel ps mp fetch /\
    run_cloud_io_paginated fuel ps mp fetch = paginate fuel ps mp fetch.
Proof. exact paginate_wrappers. Qed.
Example c18_paginate_wrappers_ex :
  run_cloud_io_paginated 9 10 (Some 2%N) ex_fetch = (Done (ROk [1; 2; 3; 4]%N), [(0, 10); (1, 10)]%N).
Proof. reflexivity. Qed.

(* ------------------------------------------------------------------ run_with_context *)

(* run_with_context: exactly the closure's own outcome on the context given - Ok hands back the
   value together with the context as the closure left it, Err the closure's error *)
Theorem c18_run_with_context_spec :
  forall (K V St : Type) (X M : Type) (c : op_context K V St)
         (op : op_context K V St -> option (res X M * op_context K V St)),
    (forall v c', op c = Some (ROk v, c') -> run_with_context c op = Done (ROk (v, c'))) /\
    (forall k m c', op c = Some (RErr k m, c') -> run_with_context c op = Done (RErr k m)) /\
    (op c = None -> run_with_context c op = Panic).
Proof. exact run_with_context_spec. Qed.
Example c18_run_with_context_spec_ex :
  run_with_context (M := nat) ex_ctx (scripted_ctx_op Nat.eqb ex_acts (ROk 5%nat))
  = Done (ROk (5%nat, mk_ctx 7%nat 1000%nat 2%N [(1, 11); (2, 20)]%nat)).
Proof. reflexivity. Qed.

(* a closure that increments the retry counter and adds metadata, then succeeds: the caller gets
   the same name and start time back, retry_count = initial + number of increments (as long as
   that fits a u32 - beyond it increment_retry panics) *)
Theorem c18_context_survives :
  forall (K V St : Type) (keq : K -> K -> bool)
         (X M : Type) (c : op_context K V St) (acts : list (ctx_action K V)) (v : X),
    (ctx_retry c + N.of_nat (count_inc K V acts) <= u32_max)%N ->
    exists c',
      run_with_context (M := M) c (scripted_ctx_op keq acts (ROk v)) = Done (ROk (v, c')) /\
      ctx_apply keq c acts = Some c' /\
      ctx_name c' = ctx_name c /\ ctx_start c' = ctx_start c /\
      ctx_retry c' = (ctx_retry c + N.of_nat (count_inc K V acts))%N.
Proof. exact run_with_context_scripted. Qed.
Example c18_context_survives_ex :
  (ctx_retry ex_ctx + N.of_nat (count_inc nat nat ex_acts) <= u32_max)%N /\
  count_inc nat nat ex_acts = 2%nat.
Proof. split; vm_compute; [discriminate|reflexivity]. Qed.

(* the same closure failing: its error, whatever it did to the context *)
Theorem c18_context_error :
  forall (K V St : Type) (keq : K -> K -> bool)
         (X M : Type) (c : op_context K V St) (acts : list (ctx_action K V)) k (m : M),
    (ctx_retry c + N.of_nat (count_inc K V acts) <= u32_max)%N ->
    run_with_context (X := X) c (scripted_ctx_op keq acts (RErr k m)) = Done (RErr k m).
Proof. exact run_with_context_scripted_err. Qed.
Example c18_context_error_ex :
  run_with_context (X := nat) ex_ctx (scripted_ctx_op Nat.eqb ex_acts (RErr NotFound 3%nat))
  = Done (RErr NotFound 3%nat).
Proof. reflexivity. Qed.

(* the closure's actions as a whole: name and start time untouched, the counter goes up by the
   increments, and the run panics exactly when that leaves the u32 range *)
Theorem c18_context_actions :
  forall (K V St : Type) (keq : K -> K -> bool)
         (acts : list (ctx_action K V)) (c : op_context K V St),
    (ctx_retry c <= u32_max)%N ->
    match ctx_apply keq c acts with
    | Some c' =>
        ctx_name c' = ctx_name c /\ ctx_start c' = ctx_start c /\
        ctx_retry c' = (ctx_retry c + N.of_nat (count_inc K V acts))%N /\
        (ctx_retry c' <= u32_max)%N
    | None => (u32_max < ctx_retry c + N.of_nat (count_inc K V acts))%N
    end.
Proof. exact ctx_apply_spec. Qed.
Example c18_context_actions_ex :
  ctx_apply Nat.eqb (mk_ctx 7%nat 0%nat (u32_max - 1) ([] : list (nat * nat)))
            [ActIncrement; ActIncrement] = None /\
  ctx_apply Nat.eqb (mk_ctx 7%nat 0%nat (u32_max - 1) ([] : list (nat * nat))) [ActIncrement]
  = Some (mk_ctx 7%nat 0%nat u32_max []).
Proof. split; reflexivity. Qed.

(* add_metadata is a map insert: the key now has the new value, every other key keeps what it
   had, no key is ever bound twice, name / start time / counter are untouched *)
Theorem c18_add_metadata_spec :
  forall (K V St : Type) (keq : K -> K -> bool),
    (forall a b, keq a b = true <-> a = b) ->
  forall (c : op_context K V St) (k : K) (v : V),
    let c' := ctx_add_metadata keq c k v in
    (ctx_name c' = ctx_name c /\ ctx_start c' = ctx_start c /\ ctx_retry c' = ctx_retry c /\
     meta_get keq k (ctx_meta c') = Some v /\
     (forall k', k' <> k -> meta_get keq k' (ctx_meta c') = meta_get keq k' (ctx_meta c))) /\
    (NoDup (map fst (ctx_meta c)) -> NoDup (map fst (ctx_meta c'))) /\
    (length (ctx_meta c') <= S (length (ctx_meta c)))%nat.
Proof.
  exact (fun K V St keq Hk c k v =>
           conj (ctx_add_metadata_spec K V St keq Hk c k v)
                (conj (meta_insert_nodup K V keq Hk k v (ctx_meta c))
                      (meta_insert_length K V keq k v (ctx_meta c)))).
Qed.
Example c18_add_metadata_spec_ex :
  (forall a b, Nat.eqb a b = true <-> a = b) /\
  ctx_meta (ctx_add_metadata Nat.eqb (ctx_add_metadata Nat.eqb (ctx_add_metadata Nat.eqb ex_ctx
              1 10) 2 20) 1 11)%nat = [(1, 11); (2, 20)]%nat.
Proof. split; [exact Nat.eqb_eq|reflexivity]. Qed.

(* ------------------------------------------------------------------ ConnectionPool *)

(* whatever sequence of acquire / release / size calls is made on a pool from new(max_size): it
   never holds more than max_size connections, max_size never changes, every size() reported is
   within the bound.  new() itself panics exactly when max_size * size_of::<T>() > isize::MAX *)
Theorem c18_pool_bounded :
  forall (T M : Type) (elem_size max_size : N) (ops : list (pool_op T M)),
    match pool_new (T := T) elem_size max_size with
    | None => (isize_max < elem_size * max_size)%N
    | Some p =>
        (elem_size * max_size <= isize_max)%N /\
        let '(obs, pf) := pool_run p ops in
        pool_max pf = max_size /\ (N.of_nat (pool_size pf) <= max_size)%N /\
        Forall (obs_bounded T M max_size) obs
    end.
Proof. exact pool_bounded_from_new. Qed.
Example c18_pool_bounded_ex :
  pool_new (T := nat) 8 2 = Some (mk_pool [] 2) /\
  pool_run (mk_pool [] 2) ex_pool_ops
  = ([OAcquired (ROk 100%nat) true; OReleased; OReleased; OReleased; OSize 2;
      OAcquired (ROk 101%nat) false; OAcquired (ROk 100%nat) false;
      OAcquired (RErr NotFound 9%nat) true], mk_pool [] 2) /\
  pool_new (T := nat) 8 (2 ^ 60) = None.
Proof. repeat split; reflexivity. Qed.

(* a stack: `create` is called exactly when the pool is empty (its result - error included - is
   handed back as is and the pool stays empty), otherwise the most recently pooled connection
   comes back; release-then-acquire with room returns the very connection and restores the pool;
   a full pool drops what is released *)
Theorem c18_pool_lifo :
  forall (T M : Type) (p : pool T) (x : T) (create : res T M),
    match pool_conns p with
    | [] => pool_acquire p create = (create, p, true)
    | y :: rest => pool_acquire p create = (ROk y, mk_pool rest (pool_max p), false)
    end /\
    ((N.of_nat (pool_size p) < pool_max p)%N ->
     pool_acquire (pool_release p x) create = (ROk x, p, false)) /\
    ((pool_max p <= N.of_nat (pool_size p))%N -> pool_release p x = p).
Proof.
  exact (fun T M p x create =>
           conj (pool_acquire_spec T M p create)
                (conj (pool_lifo T M p x create) (pool_release_full T p x))).
Qed.
Example c18_pool_lifo_ex :
  pool_acquire (pool_release (mk_pool [5]%nat 2) 6%nat) (RErr Network 0%nat)
  = (ROk 6%nat, mk_pool [5]%nat 2, false) /\
  pool_release (mk_pool [5; 4]%nat 2) 6%nat = mk_pool [5; 4]%nat 2.
Proof. split; reflexivity. Qed.
