(* C04: group_by_key is an exact partition of its input by key.
   ONLY property theorems (each closed by `exact`) and non-vacuity examples.
   `sh` is the order in which the real HashMap happens to be iterated (any permutation);
   `ps` is any list of partitions (in particular `s_split s n` for every n), `concat ps` the input. *)
From Coq Require Import List ZArith Bool Permutation.
From IB Require Import Engine.Val Engine.Ops Engine.AMap Engine.Nodes Engine.Exec Engine.Lang
     Engine.Denote Proofs.EngineKeyed.
Import ListNotations.

(* what the GroupByKey barrier returns for the partitions ps: local per partition, then merge *)
Definition gbk_out (sh : nat -> list val -> list val) (site : nat) (ps : list (list val)) : list val :=
  gbk_merge sh site (map gbk_local ps).

Definition is_row (v : val) : Prop := match v with VPair _ _ => True | _ => False end.
Definition perm_oracle (sh : nat -> list val -> list val) : Prop :=
  forall i l, Permutation (sh i l) l.

(* exactly one (key, values) pair per distinct key *)
Theorem c04_keys_unique : forall sh site ps, perm_oracle sh -> NoDup (map vfst (gbk_out sh site ps)).
Proof. exact gbk_keys_unique. Qed.

Theorem c04_keys_exact : forall sh site ps k, perm_oracle sh ->
    (In k (map vfst (gbk_out sh site ps)) <-> In k (map vfst (concat ps))).
Proof. exact gbk_keys_exact. Qed.

(* every output element is (k, values of k), the values exactly those of the input carrying k,
   each once, in input order - for every partitioning *)
Theorem c04_groups_exact : forall sh site ps g, perm_oracle sh ->
    In g (gbk_out sh site ps) ->
    g = VPair (vfst g) (VList (values_of (vfst g) (concat ps))).
Proof. exact gbk_groups_exact. Qed.

(* nothing lost, nothing duplicated, nothing moved to another key *)
Theorem c04_flatten_perm : forall sh site ps, perm_oracle sh -> Forall is_row (concat ps) ->
    Permutation (flat_map (gf GElems) (gbk_out sh site ps)) (concat ps).
Proof. exact gbk_flatten_perm. Qed.

(* the result does not depend on the partitioning, up to the order of keys *)
Theorem c04_partition_independent : forall sh sh' site site' ps qs,
    perm_oracle sh -> perm_oracle sh' -> concat ps = concat qs ->
    Permutation (gbk_out sh site ps) (gbk_out sh' site' qs).
Proof. exact gbk_partition_independent. Qed.

Theorem c04_empty : forall sh site, perm_oracle sh ->
    gbk_out sh site [] = [] /\ gbk_out sh site [[]] = [].
Proof. exact gbk_empty. Qed.

(* it equals the reference semantics (Denote.d_group_by_key) up to key order *)
Theorem c04_matches_denote : forall sh site ps, perm_oracle sh ->
    Permutation (gbk_out sh site ps) (d_group_by_key (concat ps)).
Proof. exact gbk_matches_denote. Qed.

(* through both engines: source -> group_by_key, any partition count *)
Theorem c04_engine_par : forall sh (s : source) parts,
    exec_par sh TKG [NB (BSource s); NB (BGroupByKey (s_tag s) TKG)] parts
    = Ok (gbk_out sh 0 (s_split s (clamp_parts parts (s_len s)))).
Proof. exact gbk_engine_par. Qed.
Theorem c04_engine_seq : forall sh (s : source),
    exec_seq sh TKG [NB (BSource s); NB (BGroupByKey (s_tag s) TKG)] = Ok (gbk_out sh 0 [s_all s]).
Proof. exact gbk_engine_seq. Qed.

Example c04_example :
  gbk_out id_sh 1 [[VPair (VInt 1) (VInt 10); VPair (VInt 2) (VInt 20)];
                   [VPair (VInt 1) (VInt 11)]; []; [VPair (VInt 2) (VInt 21); VPair (VInt 1) (VInt 12)]]
  = [VPair (VInt 1) (VList [VInt 10; VInt 11; VInt 12]); VPair (VInt 2) (VList [VInt 20; VInt 21])].
Proof. vm_compute. reflexivity. Qed.
