(* C01: sequential and parallel execution return the same result.
   ONLY property theorems (each closed by `exact`) and non-vacuity examples.
   Quantifiers: every plan in the classified fragment (Engine/Static.v: element-wise chains with
   arbitrary Coq functions, GroupByKey - also AFTER a step that iterated a hash map (class D) -,
   per-key combines classic and lifted, global combines with EVERY fan-out, joins whose sides are
   themselves classified chains, any coherent source incl. streaming ones), every input, every partition count `parts` (0, 1, > len included), every pair
   of HashMap iteration orders `sh` (parallel run) and `sh'` (sequential run). *)
From Coq Require Import List ZArith Bool Permutation.
From IB Require Import Engine.Val Engine.Ops Engine.AMap Engine.Nodes Engine.Exec Engine.Planner
     Engine.Lang Engine.Denote Engine.Static Engine.Classify Combiners.Lawful Proofs.EngineEquiv
     Proofs.EngineClassify Proofs.EngineDenote.
Import ListNotations.

(* both modes succeed and return the same rows: the identical sequence for class E (in particular
   for every element-wise pipeline), the same multiset for class P, the same multiset of grouped
   rows each with the same multiset of values for class D (rel / row_perm in Engine/Static.v) *)
Theorem c01_par_equiv_seq : forall sh sh' chain t c parts,
    perm_oracle sh -> perm_oracle sh' -> plan_cls chain t c ->
    exists rp rs, exec_par sh t chain parts = Ok rp /\ exec_seq sh' t chain = Ok rs /\ rel c rp rs.
Proof. exact par_equiv_seq. Qed.

(* element-wise pipelines: identical sequence, stated directly *)
Theorem c01_elementwise_identical : forall sh sh' s (opss : list (list dynop)) t parts,
    coherent s -> Forall (Forall ew) opss -> tags_ok (s_tag s) (concat opss) = Some t ->
    exec_par sh t (NB (BSource s) :: map (fun ops => NB (BStateless ops)) opss) parts
    = exec_seq sh' t (NB (BSource s) :: map (fun ops => NB (BStateless ops)) opss).
Proof. exact elementwise_identical. Qed.

(* the core fact behind both: what a node returns depends only on the concatenation of the
   partitions it is given (up to the order class), not on how the input was partitioned *)
Theorem c01_node_partition_independent : forall sh sh' i j t c b t' c' ps qs,
    perm_oracle sh -> perm_oracle sh' -> node_cls t c b t' c' ->
    check_tags t ps = true -> check_tags t qs = true ->
    rel c (concat (map snd ps)) (concat (map snd qs)) ->
    exists ps' qs',
      par_bnode sh i b ps = Ok ps' /\ par_bnode sh' j b qs = Ok qs' /\
      check_tags t' ps' = true /\ check_tags t' qs' = true /\
      rel c' (concat (map snd ps')) (concat (map snd qs')).
Proof. exact node_partition_independent. Qed.

(* what class D relates, in pattern-matching form: grouped rows with the same key and value lists
   that are permutations of each other; rows of any other shape only when equal *)
Theorem c01_row_perm_spec : forall x y,
    row_perm x y <->
    match x, y with
    | VPair k (VList l), VPair k' (VList l') => k = k' /\ Permutation l l'
    | _, _ => x = y
    end.
Proof. exact row_perm_spec. Qed.
(* the row-by-row flavour of the D -> D side condition on an operator body, and: an operator that
   maps related rows to the same multiset of outputs (ew_dp) is in particular D -> D *)
Theorem c01_ew_dd_rowwise : forall o g, ew_fn o g ->
    (forall x y, row_perm x y -> Forall2 row_perm (g x) (g y)) -> ew_dd o.
Proof. exact ew_dd_rowwise. Qed.
Theorem c01_ew_dp_dd : forall o, ew_dp o -> ew_dd o.
Proof. exact ew_dp_dd. Qed.
(* GroupByKey on rows known only as a multiset, stated directly: for any two partitionings of the
   same multiset of rows and any two map iteration orders the groups agree as a multiset and every
   group's values agree as a multiset *)
Theorem c01_gbk_from_multiset : forall sh sh' i j ps qs,
    perm_oracle sh -> perm_oracle sh' -> Permutation (concat ps) (concat qs) ->
    rel D (gbk_merge sh i (map gbk_local ps)) (gbk_merge sh' j (map gbk_local qs)).
Proof. exact gbk_from_perm. Qed.

(* the sequential engine is the parallel one on a single partition *)
Theorem c01_seq_is_one_partition : forall sh i term b p,
    (match b with BSource _ | BMaterialized _ _ => False | _ => True end) ->
    seq_bnode sh i term false b (Some p) =
    match par_bnode sh i b [p] with
    | Ok [p'] => Ok p' | Ok _ => Panic | Err e => Err e | Panic => Panic | Diverge => Diverge
    end.
Proof. exact seq_is_one_partition. Qed.

(* the sources the library ships are coherent, for every partition count *)
Theorem c01_vec_source_coherent : forall t data, coherent (vec_source t data).
Proof. exact vec_source_coherent. Qed.
Theorem c01_sharded_source_coherent : forall t shards n, coherent (sharded_source t shards n).
Proof. exact sharded_source_coherent. Qed.
(* ... and VecOpsImpl::split never produces more partitions than asked for, nor an empty list *)
Theorem c01_vec_split_shape : forall data n,
    vec_split data n <> [] /\ (length (vec_split data n) <= Nat.max n 1)%nat.
Proof. exact vec_split_shape. Qed.

(* ---- the step language: a syntactic classifier decides membership in the fragment, so the
   theorem applies to EVERY program the classifier accepts (all programs the correspondence
   generators mark as classified), not to hand-picked examples ---- *)
Theorem c01_classified_program_in_fragment : forall s steps t c,
    classify s steps = Some (t, c) ->
    plan_cls (cs_chain (compile s steps)) t c /\ t = term_tag s steps.
Proof. exact classified_program_in_fragment. Qed.

(* ... hence, for every classified program on which the planner's reorder pass is a no-op: the
   optimised plan run by Runner::run_collect succeeds in both modes, for every partition count,
   and returns the identical sequence (class E) / the same multiset (class P) / the same multiset
   of groups, each group's values as a multiset (class D) *)
Theorem c01_program_par_equiv_seq : forall s steps t c parts,
    classify s steps = Some (t, c) ->
    reorder_noop (fuse (cs_chain (compile s steps))) ->
    exists rp rs, run_par s steps parts = Ok rp /\ run_seq s steps = Ok rs /\ rel c rp rs.
Proof. exact program_par_equiv_seq. Qed.

(* ... and both results are the REFERENCE result: the independent list interpretation `denote` of
   the program as the user wrote it (Engine/Denote.v), up to the plan's order class. This ties the
   engines, the planner and the reference semantics together for every classified program. *)
Theorem c01_program_matches_denote : forall s steps t c parts,
    classify s steps = Some (t, c) ->
    reorder_noop (fuse (cs_chain (compile s steps))) ->
    exists rs rp, run_seq s steps = Ok rs /\ run_par s steps parts = Ok rp /\
                  rel c rs (denote s steps) /\ rel c rp (denote s steps).
Proof. exact program_matches_denote. Qed.

Example c01_example_classified :
  classify (SrcVec TU [VInt 3; VInt 1; VInt 2])
           [SKeyBy (FMod 2); SMapValues (FAdd 1); SGroupByKey; SCombineValuesLifted CSum; SUnkey;
            SCombineGlobally CCount false (Some 1%nat)] = Some (TU, E).
Proof. vm_compute. reflexivity. Qed.

(* ---- class D: a group_by_key AFTER a step that iterated a hash map. combine_values(Sum) yields
   its rows in map order (class P); they are re-keyed by sum mod 2 and grouped again: the order
   INSIDE each new group depends on the first map's iteration order, so the old fragment (classes
   E and P only) had no rule for the second barrier. Now: GroupByKey P -> D, lifted combine
   D -> P ---- *)
Definition c01_d_src : src :=
  SrcVec TKV [VPair (VInt 1) (VInt 10); VPair (VInt 2) (VInt 20); VPair (VInt 1) (VInt 11);
              VPair (VInt 3) (VInt 5); VPair (VInt 2) (VInt 2); VPair (VInt 4) (VInt 7)].
Definition c01_d_rekey : list step :=
  [SCombineValues CSum; SUnkey; SKeyBy (FComp FSnd (FMod 2)); SGroupByKey].

Example c01_example_gbk_after_hash_classified :
  classify c01_d_src (c01_d_rekey ++ [SCombineValuesLifted CCount]) = Some (TKV, P) /\
  classify c01_d_src (c01_d_rekey ++ [SFilter (PLt 5); SFlatMap GElems]) = Some (TKV, P) /\
  classify c01_d_src c01_d_rekey = Some (TKG, D).
Proof. vm_compute. repeat split; reflexivity. Qed.

(* both modes, computed (the planner lifts GroupByKey + lifted combine into one direct combine) *)
Example c01_example_gbk_after_hash_runs :
  run_seq c01_d_src (c01_d_rekey ++ [SCombineValuesLifted CCount])
  = Ok [VPair (VInt 1) (VInt 3); VPair (VInt 0) (VInt 1)] /\
  run_par c01_d_src (c01_d_rekey ++ [SCombineValuesLifted CCount]) 3
  = Ok [VPair (VInt 1) (VInt 3); VPair (VInt 0) (VInt 1)] /\
  map kind_of (plan c01_d_src (c01_d_rekey ++ [SCombineValuesLifted CCount]))
  = [KSource; KCombineValues false; KStateless 2; KCombineValues false].
Proof. vm_compute. repeat split; reflexivity. Qed.

(* the second GroupByKey stays in the plan when the groups are flattened instead *)
Example c01_example_gbk_flatten_runs :
  let steps := c01_d_rekey ++ [SFilter (PLt 5); SFlatMap GElems] in
  let out := [VPair (VInt 1) (VPair (VInt 1) (VInt 21)); VPair (VInt 1) (VPair (VInt 3) (VInt 5));
              VPair (VInt 1) (VPair (VInt 4) (VInt 7)); VPair (VInt 0) (VPair (VInt 2) (VInt 22))] in
  run_seq c01_d_src steps = Ok out /\ run_par c01_d_src steps 3 = Ok out /\
  map kind_of (plan c01_d_src steps)
  = [KSource; KCombineValues false; KStateless 2; KGroupByKey; KStateless 2].
Proof. vm_compute. repeat split; reflexivity. Qed.

(* class D is exactly what holds: with another map iteration order (here: reversed) the raw chain
   ending in the second GroupByKey returns the same groups with the values inside a group in
   another order - related by `rel D`, not by Permutation *)
Example c01_example_class_d_is_tight :
  exec_par (fun _ l => rev l) TKG (cs_chain (compile c01_d_src c01_d_rekey)) 2
  = Ok [VPair (VInt 0) (VList [VPair (VInt 2) (VInt 22)]);
        VPair (VInt 1) (VList [VPair (VInt 4) (VInt 7); VPair (VInt 3) (VInt 5);
                               VPair (VInt 1) (VInt 21)])] /\
  exec_seq id_sh TKG (cs_chain (compile c01_d_src c01_d_rekey))
  = Ok [VPair (VInt 1) (VList [VPair (VInt 1) (VInt 21); VPair (VInt 3) (VInt 5);
                               VPair (VInt 4) (VInt 7)]);
        VPair (VInt 0) (VList [VPair (VInt 2) (VInt 22)])].
Proof. vm_compute. split; reflexivity. Qed.

(* non-vacuity: a concrete plan with a barrier, a global combine and a join is in the fragment *)
Example c01_example_in_fragment : exists chain t c,
    plan_cls chain t c /\ chain = example_plan.
Proof. exact example_plan_classified. Qed.
