(* C01: sequential and parallel execution return the same result.
   ONLY property theorems (each closed by `exact`) and non-vacuity examples.
   Quantifiers: every plan in the classified fragment (Engine/Static.v: element-wise chains with
   arbitrary Coq functions, GroupByKey, per-key combines classic and lifted, global combines with
   EVERY fan-out, joins whose sides are themselves classified chains, any coherent source incl.
   streaming ones), every input, every partition count `parts` (0, 1, > len included), every pair
   of HashMap iteration orders `sh` (parallel run) and `sh'` (sequential run). *)
From Coq Require Import List ZArith Bool Permutation.
From IB Require Import Engine.Val Engine.Ops Engine.AMap Engine.Nodes Engine.Exec Engine.Planner
     Engine.Lang Engine.Denote Engine.Static Engine.Classify Combiners.Lawful Proofs.EngineEquiv
     Proofs.EngineClassify Proofs.EngineDenote.
Import ListNotations.

(* both modes succeed and return the same rows: the identical sequence for class E (in particular
   for every element-wise pipeline), the same multiset for class P *)
Theorem c01_par_equiv_seq : forall sh sh' chain t c parts,
    perm_oracle sh -> perm_oracle sh' -> plan_cls chain t c ->
    exists rp rs, exec_par sh t chain parts = Ok rp /\ exec_seq sh' t chain = Ok rs /\ rel c rp rs.
Proof. exact par_equiv_seq. Qed.

(* element-wise pipelines: identical sequence, stated directly *)
Theorem c01_elementwise_identical : forall sh sh' s (opss : list (list dynop)) t parts,
    coherent s -> Forall (Forall ew) opss -> tags_ok (s_tag s) (concat opss) = Some t ->
    exec_par sh t (NB (BSource s) :: map (fun ops => NB (BStateless ops)) opss) parts
    = exec_seq sh' t (NB (BSource s) :: map (fun ops => NB (BStateless ops)) opss).
Proof. exact elementwise_identical. Qed.

(* the core fact behind both: what a node returns depends only on the concatenation of the
   partitions it is given (up to the order class), not on how the input was partitioned *)
Theorem c01_node_partition_independent : forall sh sh' i j t c b t' c' ps qs,
    perm_oracle sh -> perm_oracle sh' -> node_cls t c b t' c' ->
    check_tags t ps = true -> check_tags t qs = true ->
    rel c (concat (map snd ps)) (concat (map snd qs)) ->
    exists ps' qs',
      par_bnode sh i b ps = Ok ps' /\ par_bnode sh' j b qs = Ok qs' /\
      check_tags t' ps' = true /\ check_tags t' qs' = true /\
      rel c' (concat (map snd ps')) (concat (map snd qs')).
Proof. exact node_partition_independent. Qed.

(* the sequential engine is the parallel one on a single partition *)
Theorem c01_seq_is_one_partition : forall sh i term b p,
    (match b with BSource _ | BMaterialized _ _ => False | _ => True end) ->
    seq_bnode sh i term false b (Some p) =
    match par_bnode sh i b [p] with
    | Ok [p'] => Ok p' | Ok _ => Panic | Err e => Err e | Panic => Panic | Diverge => Diverge
    end.
Proof. exact seq_is_one_partition. Qed.

(* the sources the library ships are coherent, for every partition count *)
Theorem c01_vec_source_coherent : forall t data, coherent (vec_source t data).
Proof. exact vec_source_coherent. Qed.
Theorem c01_sharded_source_coherent : forall t shards n, coherent (sharded_source t shards n).
Proof. exact sharded_source_coherent. Qed.
(* ... and VecOpsImpl::split never produces more partitions than asked for, nor an empty list *)
Theorem c01_vec_split_shape : forall data n,
    vec_split data n <> [] /\ (length (vec_split data n) <= Nat.max n 1)%nat.
Proof. exact vec_split_shape. Qed.

(* ---- the step language: a syntactic classifier decides membership in the fragment, so the
   theorem applies to EVERY program the classifier accepts (all programs the correspondence
   generators mark as classified), not to hand-picked examples ---- *)
Theorem c01_classified_program_in_fragment : forall s steps t c,
    classify s steps = Some (t, c) ->
    plan_cls (cs_chain (compile s steps)) t c /\ t = term_tag s steps.
Proof. exact classified_program_in_fragment. Qed.

(* ... hence, for every classified program on which the planner's reorder pass is a no-op: the
   optimised plan run by Runner::run_collect succeeds in both modes, for every partition count,
   and returns the identical sequence (class E) / the same multiset (class P) *)
Theorem c01_program_par_equiv_seq : forall s steps t c parts,
    classify s steps = Some (t, c) ->
    reorder_noop (fuse (cs_chain (compile s steps))) ->
    exists rp rs, run_par s steps parts = Ok rp /\ run_seq s steps = Ok rs /\ rel c rp rs.
Proof. exact program_par_equiv_seq. Qed.

(* ... and both results are the REFERENCE result: the independent list interpretation `denote` of
   the program as the user wrote it (Engine/Denote.v), up to the plan's order class. This ties the
   engines, the planner and the reference semantics together for every classified program. *)
Theorem c01_program_matches_denote : forall s steps t c parts,
    classify s steps = Some (t, c) ->
    reorder_noop (fuse (cs_chain (compile s steps))) ->
    exists rs rp, run_seq s steps = Ok rs /\ run_par s steps parts = Ok rp /\
                  rel c rs (denote s steps) /\ rel c rp (denote s steps).
Proof. exact program_matches_denote. Qed.

Example c01_example_classified :
  classify (SrcVec TU [VInt 3; VInt 1; VInt 2])
           [SKeyBy (FMod 2); SMapValues (FAdd 1); SGroupByKey; SCombineValuesLifted CSum; SUnkey;
            SCombineGlobally CCount false (Some 1%nat)] = Some (TU, E).
Proof. vm_compute. reflexivity. Qed.

(* non-vacuity: a concrete plan with a barrier, a global combine and a join is in the fragment *)
Example c01_example_in_fragment : exists chain t c,
    plan_cls chain t c /\ chain = example_plan.
Proof. exact example_plan_classified. Qed.
