(* C16: metrics never lose concurrent updates and never influence results.
   This file holds ONLY the property theorems (each closed by `exact`) and their non-vacuity
   examples.  Model: Metrics/Metrics.v (one lock acquisition = one atomic step; threads = lists
   of calls; schedule = sequence of granted thread ids; a grant to a finished thread is
   skipped), vocabulary: Metrics/Spec.v. *)
From Coq Require Import String List ZArith NArith Bool Lia Permutation.
From IB Require Import Metrics.Metrics Metrics.Spec Metrics.Export Metrics.Histogram Proofs.MetricsProofs
  Proofs.MetricsMore Proofs.MetricsExport Proofs.MetricsHistogram.
Import ListNotations.

(* ---------- no lost update ---------- *)

(* Any number of threads, any calls, ANY schedule that runs every thread to its end: if every
   call leaves counter n alone except through increment_counter (calls on other names, pre-fix
   increments of other names, register_all, start/end stamps are all allowed), the final value
   of n is its initial value plus the sum of all increments.  "Not poisoned" = no counter
   overflowed u64 on the way (a checked add that panics inside the lock). *)
Theorem c16_no_lost_update :
  forall (n : name) (threads : list (list call)) (sched : list nat) (s0 : mstate) (init : N),
    counter_of n s0 = Some init ->
    (forall cs c, In cs threads -> In c cs -> call_incr_only n c = true) ->
    complete sched (compile threads) s0 = true ->
    ms_poisoned (run sched (compile threads) s0) = false ->
    counter_of n (run sched (compile threads) s0) = Some (init + total_increments n threads)%N.
Proof. exact no_lost_update. Qed.

Ltac all_calls :=
  let cs := fresh "cs" in let c := fresh "c" in let Hcs := fresh "Hcs" in let Hc := fresh "Hc" in
  intros cs c Hcs Hc; cbn [In] in Hcs;
  repeat (destruct Hcs as [<-|Hcs]; [cbn [In] in Hc;
          repeat (destruct Hc as [<-|Hc]; [vm_compute; try split; reflexivity|]); destruct Hc|]);
  destruct Hcs.

Definition ex_threads : list (list call) :=
  [[Incr 0 5; Incr 1 2; Incr 0 1]; [Incr 0 7; SetC 1 9]; [Reg 2 (Other 4); Incr 0 3; IncrOld 1 1]].
Definition ex_s0 : mstate := MS [(0%Z, Counter 10)] None None false.
Definition ex_sched : list nat := [2; 0; 1; 1; 0; 2; 2; 0; 2]%nat.

Example c16_no_lost_update_ex :
  complete ex_sched (compile ex_threads) ex_s0 = true /\
  total_increments 0%Z ex_threads = 16%N /\
  counter_of 0%Z (run ex_sched (compile ex_threads) ex_s0) = Some 26%N.
Proof.
  assert (Hc : complete ex_sched (compile ex_threads) ex_s0 = true) by (vm_compute; reflexivity).
  split; [exact Hc|]. split; [vm_compute; reflexivity|].
  apply (c16_no_lost_update 0%Z ex_threads ex_sched ex_s0 10%N).
  - reflexivity.
  - unfold ex_threads. all_calls.
  - exact Hc.
  - vm_compute. reflexivity.
Qed.

(* the same from a hypothesis on the INPUT only: everything the counters hold plus everything the
   calls can add stays below 2^64 (then nothing overflows under any schedule) *)
Theorem c16_no_lost_update_bounded :
  forall (n : name) (threads : list (list call)) (sched : list nat) (s0 : mstate) (init : N),
    ms_poisoned s0 = false ->
    counter_of n s0 = Some init ->
    (forall cs c, In cs threads -> In c cs -> call_incr_only n c = true /\ current_call c = true) ->
    (budget s0 threads < U64_MOD)%N ->
    complete sched (compile threads) s0 = true ->
    counter_of n (run sched (compile threads) s0) = Some (init + total_increments n threads)%N.
Proof. exact no_lost_update_bounded. Qed.

Definition ex_threads2 : list (list call) :=
  [[Incr 0 5; Incr 1 2; Incr 0 1]; [Incr 0 7; SetC 1 9]; [Reg 2 (Counter 4); Incr 0 3]].

Example c16_no_lost_update_bounded_ex :
  forall sched, complete sched (compile ex_threads2) ex_s0 = true ->
    counter_of 0%Z (run sched (compile ex_threads2) ex_s0) = Some 26%N.
Proof.
  intros sched Hc.
  apply (c16_no_lost_update_bounded 0%Z ex_threads2 sched ex_s0 10%N); try reflexivity.
  - unfold ex_threads2. all_calls.
  - exact Hc.
Qed.

Theorem c16_no_poison :
  forall (threads : list (list call)) (sched : list nat) (s0 : mstate),
    ms_poisoned s0 = false ->
    (forall cs c, In cs threads -> In c cs -> current_call c = true) ->
    (budget s0 threads < U64_MOD)%N ->
    ms_poisoned (run sched (compile threads) s0) = false.
Proof. exact no_poison. Qed.

(* boundary: 2^64 - 1 is reached without a panic, one more poisons the collector *)
Example c16_no_poison_ex :
  let big := 4611686018427387903%N in
  counter_of 0%Z (run_calls [Incr 0 big; Incr 0 big; Incr 0 big; Incr 0 big; Incr 0 3] empty_state)
  = Some 18446744073709551615%N /\
  ms_poisoned (run_calls [Incr 0 big; Incr 0 big; Incr 0 big; Incr 0 big; Incr 0 4] empty_state) = true.
Proof. split; vm_compute; reflexivity. Qed.

(* a counter that does not exist yet: the first increment creates it *)
Theorem c16_no_lost_update_fresh :
  forall (n : name) (threads : list (list call)) (sched : list nat) (s0 : mstate),
    lookup n (ms_metrics s0) = None ->
    (forall cs c, In cs threads -> In c cs -> call_incr_only n c = true) ->
    complete sched (compile threads) s0 = true ->
    ms_poisoned (run sched (compile threads) s0) = false ->
    cval n (run sched (compile threads) s0) = total_increments n threads /\
    ((exists cs v, In cs threads /\ In (Incr n v) cs) ->
     counter_of n (run sched (compile threads) s0) = Some (total_increments n threads)).
Proof. exact no_lost_update_fresh. Qed.

Example c16_no_lost_update_fresh_ex :
  counter_of 0%Z (run [1; 0; 0; 1]%nat (compile [[Incr 0 1; Incr 0 2]; [Incr 0 4; Incr 0 8]]) empty_state)
  = Some 15%N.
Proof.
  refine (proj2 (c16_no_lost_update_fresh 0%Z [[Incr 0 1; Incr 0 2]; [Incr 0 4; Incr 0 8]]
                   [1; 0; 0; 1]%nat empty_state eq_refl _ eq_refl eq_refl) _).
  - all_calls.
  - exists [Incr 0%Z 1%N; Incr 0%Z 2%N], 1%N. split; left; reflexivity.
Qed.

(* set_counter interleaved: the final value is the value of the LAST set in schedule order plus
   the increments executed after it (no set: initial value, or nothing, plus all increments) *)
Theorem c16_sets_and_increments :
  forall (n : name) (threads : list (list call)) (sched : list nat) (s0 : mstate),
    not_other n s0 = true ->
    (forall cs c, In cs threads -> In c cs -> call_incr_or_set n c = true) ->
    ms_poisoned (run sched (compile threads) s0) = false ->
    let tr := trace sched (compile threads) s0 in
    counter_of n (run sched (compile threads) s0) =
    match last_set n tr with
    | Some (v, after) => Some (v + sum_incr n after)%N
    | None => match counter_of n s0 with
              | Some c => Some (c + sum_incr n tr)%N
              | None => if existsb (has_incr n) tr then Some (sum_incr n tr) else None
              end
    end.
Proof. exact sets_and_increments. Qed.

Example c16_sets_and_increments_ex :
  let threads := [[Incr 0 1; SetC 0 100; Incr 0 2]; [Incr 0 4; Incr 0 8]] in
  (* 4 | 1 | set 100 | 8 | 2 : the increment 4 and 1 are overwritten, 8 and 2 count *)
  last_set 0%Z (trace [1; 0; 0; 1; 0]%nat (compile threads) ex_s0) = Some (100%N, [SIncr 0 8; SIncr 0 2]) /\
  counter_of 0%Z (run [1; 0; 0; 1; 0]%nat (compile threads) ex_s0) = Some 110%N.
Proof.
  intros threads.
  assert (H : last_set 0%Z (trace [1; 0; 0; 1; 0]%nat (compile threads) ex_s0)
              = Some (100%N, [SIncr 0 8; SIncr 0 2])) by (vm_compute; reflexivity).
  split; [exact H|].
  pose proof (c16_sets_and_increments 0%Z threads [1; 0; 0; 1; 0]%nat ex_s0 eq_refl) as T.
  cbv zeta in T. rewrite H in T. apply T.
  - subst threads. all_calls.
  - vm_compute. reflexivity.
Qed.

(* ---------- the regression the check guards against ---------- *)
(* increment_counter BEFORE commit e2bce57 read the counter under one lock acquisition and wrote
   it back under a second one (IncrOld = [read; write]).  Two threads, one increment each,
   schedule r1 r2 w1 w2: both read `init`, the second write wins, v1 is lost. *)
Theorem c16_old_code_lost_update :
  forall (n : name) (s0 : mstate) (init v1 v2 : N),
    ms_poisoned s0 = false ->
    counter_of n s0 = Some init ->
    (init + v1 < U64_MOD)%N -> (init + v2 < U64_MOD)%N ->
    let threads := [[IncrOld n v1]; [IncrOld n v2]] in
    let sched := [0; 1; 0; 1]%nat in
    complete sched (compile threads) s0 = true /\
    counter_of n (run sched (compile threads) s0) = Some (init + v2)%N /\
    ((0 < v1)%N -> counter_of n (run sched (compile threads) s0)
                   <> Some (init + total_increments n [[Incr n v1]; [Incr n v2]])%N).
Proof. exact old_code_lost_update. Qed.

Example c16_old_code_lost_update_ex :
  counter_of 0%Z (run [0; 1; 0; 1]%nat (compile [[IncrOld 0 5]; [IncrOld 0 7]]) ex_s0) = Some 17%N /\
  counter_of 0%Z (run [0; 1; 0; 1]%nat (compile [[Incr 0 5]; [Incr 0 7]]) ex_s0) = Some 22%N.
Proof. split; vm_compute; reflexivity. Qed.

(* ---------- transparency ---------- *)
(* run_collect with a collector attached returns what it returns without one, whatever the plan,
   the engine, the clock and the collector's content -- provided the collector's Mutex is not
   poisoned (known finding C16-poisoned-collector below). *)
Theorem c16_metrics_transparent :
  forall (C R : Type) (plan : outcome C) (exec : C -> outcome R)
         (clk clk' : nat -> Z) (i j i' j' : nat) (m m' : mstate),
    ms_poisoned m = false ->
    fst (run_collect true plan exec clk i j m) = fst (run_collect false plan exec clk' i' j' m').
Proof. exact metrics_transparent. Qed.

Example c16_metrics_transparent_ex :
  fst (run_collect true (Ok 3%Z) (fun c => Ok (c + 1)%Z) Z.of_nat 0 1 ex_s0) = Ok 4%Z /\
  fst (run_collect false (Ok 3%Z) (fun c => Ok (c + 1)%Z) Z.of_nat 5 9 empty_state) = Ok 4%Z /\
  fst (run_collect true (Ok 3%Z) (fun _ => @Err Z 7) Z.of_nat 0 1 ex_s0) = Err 7.
Proof. repeat split. Qed.

(* KNOWN FINDING (class: the attached collector is poisoned).  A panic inside one of the
   collector's critical sections (u64 overflow of a counter in a build with overflow checks)
   poisons its Mutex; record_metrics_start then panics in `lock().unwrap()` and the pipeline,
   which returns Ok without the collector, panics with it. *)
Theorem c16_poisoned_collector_refuted :
  exists (m : mstate) (calls : list call),
    m = run_calls calls empty_state /\ ms_poisoned m = true /\
    fst (run_collect true (Ok tt) (fun _ => Ok 1%Z) Z.of_nat 0 1 m) = Panic /\
    fst (run_collect false (Ok tt) (fun _ => Ok 1%Z) Z.of_nat 0 1 m) = Ok 1%Z.
Proof.
  exists (run_calls (repeat (Incr 900 4611686018427387903) 5) empty_state),
         (repeat (Incr 900%Z 4611686018427387903%N) 5).
  repeat split; vm_compute; reflexivity.
Qed.

(* ---------- elapsed time ---------- *)
(* after a successful run with a monotone clock: start and end are the two clock readings of THIS
   run, elapsed() is Some of their (non-negative) difference, and the metrics are untouched *)
Theorem c16_elapsed_some_nonneg :
  forall (C R : Type) (plan : outcome C) (exec : C -> outcome R) (clk : nat -> Z)
         (i j : nat) (m : mstate) (r : R),
    monotone clk -> (i <= j)%nat ->
    ms_poisoned m = false ->
    fst (run_collect true plan exec clk i j m) = Ok r ->
    let m' := snd (run_collect true plan exec clk i j m) in
    elapsed m' = Some (clk j - clk i)%Z /\ (0 <= clk j - clk i)%Z /\
    ms_start m' = Some (clk i) /\ ms_end m' = Some (clk j) /\
    ms_metrics m' = ms_metrics m.
Proof. exact elapsed_some_nonneg. Qed.

Example c16_elapsed_some_nonneg_ex :
  let clk := fun k => (1000 + 250 * Z.of_nat k)%Z in
  monotone clk /\
  elapsed (snd (run_collect true (Ok tt) (fun _ => Ok 1%Z) clk 2 6 ex_s0)) = Some 1000%Z.
Proof.
  split; [|vm_compute; reflexivity].
  intros a b Hab. apply Z.add_le_mono_l. apply Z.mul_le_mono_nonneg_l; [discriminate|].
  apply Nat2Z.inj_le. exact Hab.
Qed.

(* failing runs: an error of build_plan returns before record_end (the previous end stamp, if
   any, stays); an error of the engine is returned after record_end *)
Theorem c16_failed_plan_keeps_old_end :
  forall (C R : Type) (exec : C -> outcome R) clk i j m e,
    ms_poisoned m = false ->
    let m' := snd (run_collect true (@Err C e) exec clk i j m) in
    ms_start m' = Some (clk i) /\ ms_end m' = ms_end m.
Proof. exact failed_plan_leaves_end. Qed.

Theorem c16_failed_engine_records_end :
  forall (C R : Type) (c : C) (exec : C -> outcome R) clk i j m e,
    ms_poisoned m = false -> exec c = Err e ->
    let m' := snd (run_collect true (Ok c) exec clk i j m) in
    ms_start m' = Some (clk i) /\ ms_end m' = Some (clk j).
Proof. exact failed_engine_records_end. Qed.

Example c16_failed_runs_ex :
  elapsed (snd (run_collect true (@Err unit 1) (fun _ => Ok 1%Z) Z.of_nat 0 1 empty_state)) = None /\
  elapsed (snd (run_collect true (Ok tt) (fun _ => @Err Z 1) Z.of_nat 0 1 empty_state)) = Some 1%Z.
Proof. split; vm_compute; reflexivity. Qed.

(* ---------- JSON export ---------- *)
(* every name any thread registered (register, register_all) or wrote a counter under is a key
   of to_json after a complete schedule *)
Theorem c16_json_has_all_registered :
  forall (threads : list (list call)) (sched : list nat) (s0 : mstate),
    complete sched (compile threads) s0 = true ->
    ms_poisoned (run sched (compile threads) s0) = false ->
    forall cs c n, In cs threads -> In c cs -> In n (call_names c) ->
                   In n (json_keys (run sched (compile threads) s0)).
Proof. exact json_has_all_registered. Qed.

Example c16_json_has_all_registered_ex :
  let threads := [[RegAll [(3%Z, Other 1); (4%Z, Counter 2); (3%Z, Counter 9)]; RecStart 5];
                  [Incr 7 1; RecEnd 8]] in
  json_keys (run [0; 1; 0; 0; 1; 0]%nat (compile threads) empty_state) = [3; 7; 4; -1]%Z /\
  In 3%Z (json_keys (run [0; 1; 0; 0; 1; 0]%nat (compile threads) empty_state)).
Proof.
  intros threads. split; [vm_compute; reflexivity|].
  apply (c16_json_has_all_registered threads [0; 1; 0; 0; 1; 0]%nat empty_state eq_refl eq_refl
           [RegAll [(3%Z, Other 1); (4%Z, Counter 2); (3%Z, Counter 9)]; RecStart 5]
           (RegAll [(3%Z, Other 1); (4%Z, Counter 2); (3%Z, Counter 9)]) 3%Z).
  - left. reflexivity.
  - left. reflexivity.
  - left. reflexivity.
Qed.

(* the three views of one run's duration agree: the execution_time_ms entry of to_json (hence of
   save_to_file, which writes to_json) is elapsed() in whole milliseconds of the nanosecond clock
   - for EVERY duration, in particular no wrap at one second - and is absent exactly when elapsed()
   is None (snapshot() never carries it: it lists the stored metrics only) *)
Theorem c16_json_time_is_elapsed_ms :
  forall s : mstate, json_time s = option_map (fun d => d / 1000000)%Z (elapsed s).
Proof. exact json_time_elapsed. Qed.

(* ... and after a successful run it is this run's (end - start) in ms, at least the time the
   run provably took *)
Theorem c16_json_time_after_run :
  forall (C R : Type) (plan : outcome C) (exec : C -> outcome R) (clk : nat -> Z)
         (i j : nat) (m : mstate) (r : R) (slept_ms : Z),
    monotone clk -> (i <= j)%nat ->
    ms_poisoned m = false ->
    fst (run_collect true plan exec clk i j m) = Ok r ->
    (slept_ms * 1000000 <= clk j - clk i)%Z ->
    let m' := snd (run_collect true plan exec clk i j m) in
    json_time m' = Some ((clk j - clk i) / 1000000)%Z /\
    (slept_ms <= (clk j - clk i) / 1000000)%Z.
Proof. exact json_time_after_run. Qed.

Example c16_json_time_ex :
  json_time (run_calls [Reg (-1) (Other 7); RecStart 5; RecEnd 1205000005] empty_state) = Some 1205%Z /\
  json_time (run_calls [Reg (-1) (Other 7); RecStart 5] empty_state) = None.
Proof. split; vm_compute; reflexivity. Qed.

(* ... exactly once: duplicate names do not produce duplicate keys *)
Theorem c16_json_one_entry_per_name :
  forall (threads : list (list call)) (sched : list nat),
    NoDup (json_keys (run sched (compile threads) empty_state)).
Proof. exact json_one_entry_per_name. Qed.

(* duplicate names: replacement -- register_all leaves the LAST metric of each name *)
Theorem c16_register_all_last_wins :
  forall (ms : list (name * metric)) (s : mstate) (n : name),
    ms_poisoned s = false ->
    lookup n (ms_metrics (run_calls [RegAll ms] s)) =
    match last_assoc n ms with Some m => Some m | None => lookup n (ms_metrics s) end /\
    ms_poisoned (run_calls [RegAll ms] s) = false.
Proof. exact register_all_last_wins. Qed.

Example c16_register_all_last_wins_ex :
  lookup 3%Z (ms_metrics (run_calls [RegAll [(3%Z, Other 1); (4%Z, Counter 2); (3%Z, Counter 9)]] empty_state))
  = Some (Counter 9).
Proof. vm_compute. reflexivity. Qed.

(* ---------- the pipeline's metrics slot ---------- *)
(* p_set_metrics REPLACES the attached collector (it is never ignored because one is attached):
   p_get_metrics / p_take_metrics hand out the collector of the last p_set_metrics; take empties *)
Theorem c16_slot_last_set_wins : forall k1 k2 p,
  p_get_metrics (p_set_metrics k2 (p_set_metrics k1 p)) = Some k2 /\
  p_take_metrics (p_set_metrics k2 (p_set_metrics k1 p)) = (Some k2, PS None (ps_colls p)) /\
  p_get_metrics (snd (p_take_metrics (p_set_metrics k2 p))) = None.
Proof. exact slot_last_set_wins. Qed.

(* a run (successful or not) leaves every collector that is not the attached one untouched *)
Theorem c16_run_touches_attached_only :
  forall (C R : Type) (plan : outcome C) (exec : C -> outcome R) clk i j p k,
    ps_slot p <> Some k ->
    coll k (snd (run_on plan exec clk i j p)) = coll k p.
Proof. exact run_touches_attached_only. Qed.

(* set_metrics(m1); ..; set_metrics(m2) without take; successful run: m2 has this run's stamps,
   m1 is untouched, p_take_metrics returns m2 *)
Theorem c16_reattach_then_run :
  forall (C R : Type) (plan : outcome C) (exec : C -> outcome R) (clk : nat -> Z)
         (i j : nat) (p : pstate) (k1 k2 : nat) (r : R),
    monotone clk -> (i <= j)%nat -> k1 <> k2 -> (k2 < length (ps_colls p))%nat ->
    ms_poisoned (coll k2 p) = false ->
    let p2 := p_set_metrics k2 (p_set_metrics k1 p) in
    fst (run_on plan exec clk i j p2) = Ok r ->
    let p' := snd (run_on plan exec clk i j p2) in
    elapsed (coll k2 p') = Some (clk j - clk i)%Z /\
    coll k1 p' = coll k1 p /\
    fst (p_take_metrics p') = Some k2.
Proof. exact reattach_then_run. Qed.


(* ================================================================================================
   The export down to the bytes (model: Metrics/Export.v): the serde_json::Value to_json builds
   (a BTreeMap), its pretty text, snapshot(), print(), and save_to_file on a file model in which
   a write that does not truncate leaves the tail of a longer old file behind.  E : env gives the
   spelling of the names and value()/description() of the non-counter metrics - arbitrary.
   ================================================================================================ *)

Definition ex_env : env :=
  Env (fun k => if (k =? -1)%Z then TIME_KEY else txt "c" ++ dec (Z.to_N k))
      (fun t => JArr [JStr (txt "tag"); JNat (Z.to_N t)])
      (fun t => if Z.even t then Some (txt "d") else None).
(* a collector whose counter c0 is v, with metrics c10, c2 (tagged, c2 described) next to it *)
Definition ex_coll (v : N) : mstate :=
  run_calls [SetC 0 v; Reg 10 (Other 3); Reg 2 (Other 4)] empty_state.

(* ---------- save_to_file ---------- *)
(* whatever the path held before - nothing, a shorter file, a LONGER earlier export, somebody
   else's file - after a successful save_to_file it holds exactly the pretty-printed to_json of
   the collector, and no other path has changed *)
Theorem c16_save_writes_export :
  forall (E : env) (p : path) (s : mstate) (f : fs),
    ms_poisoned s = false -> creatable p = true ->
    fst (save_to_file E p s f) = Ok tt /\
    fs_read p (snd (save_to_file E p s f)) = Some (export_text E s) /\
    (forall q, q <> p -> fs_read q (snd (save_to_file E p s f)) = fs_read q f).
Proof. exact save_writes_export. Qed.

Example c16_save_writes_export_ex :
  let f := [(0%Z, export_text ex_env (ex_coll 1000000)); (1%Z, txt "somebody else's")] in
  (length (export_text ex_env (ex_coll 7)) < length (export_text ex_env (ex_coll 1000000)))%nat /\
  fs_read 0%Z (snd (save_to_file ex_env 0%Z (ex_coll 7) f)) = Some (export_text ex_env (ex_coll 7)) /\
  fs_read 1%Z (snd (save_to_file ex_env 0%Z (ex_coll 7) f)) = Some (txt "somebody else's").
Proof.
  intro f. split; [vm_compute; lia|].
  destruct (c16_save_writes_export ex_env 0%Z (ex_coll 7) f eq_refl eq_refl) as (_ & H1 & H2).
  split; [exact H1|]. rewrite H2 by discriminate. reflexivity.
Qed.

(* a save that fails (poisoned collector: panic in to_json; a path that cannot be created: Err)
   leaves every file as it was *)
Theorem c16_failed_save_leaves_files :
  forall (E : env) (p : path) (s : mstate) (f : fs),
    (ms_poisoned s = true -> save_to_file E p s f = (Panic, f)) /\
    (ms_poisoned s = false -> creatable p = false -> save_to_file E p s f = (Err 0%Z, f)).
Proof. exact failed_save_leaves_files. Qed.

Example c16_failed_save_leaves_files_ex :
  let f := [(0%Z, txt "old")] in
  save_to_file ex_env (-1)%Z (ex_coll 7) f = (Err 0%Z, f) /\
  save_to_file ex_env 0%Z (run_calls (repeat (Incr 900 4611686018427387903) 5) empty_state) f = (Panic, f).
Proof.
  intro f. split.
  - apply (c16_failed_save_leaves_files ex_env (-1)%Z (ex_coll 7) f); reflexivity.
  - apply (c16_failed_save_leaves_files ex_env 0%Z); vm_compute; reflexivity.
Qed.

(* the file model: writing `data` at offset 0 of a file holding `old` gives exactly `data` iff
   `old` was not longer; in general the result is as long as the longer of the two and starts
   with `data` *)
Theorem c16_write_keeps_longer_tail :
  forall data old : text,
    (write_at0 data old = data <-> (length old <= length data)%nat) /\
    length (write_at0 data old) = Nat.max (length data) (length old) /\
    firstn (length data) (write_at0 data old) = data.
Proof. exact write_at0_exact. Qed.

Example c16_write_keeps_longer_tail_ex :
  write_at0 (txt "{7}") (txt "{1000}") = txt "{7}00}" /\ write_at0 (txt "{1000}") (txt "{7}") = txt "{1000}".
Proof. split; vm_compute; reflexivity. Qed.

(* ---------- the regression the check guards against ---------- *)
(* save_to_file through OpenOptions::new().write(true).create(true) - no truncate - instead of
   File::create: over an existing file the old tail stays behind the new document; the file is
   the export exactly when the previous content was not longer.  (Shrinking exports: a counter
   with fewer digits, a faster second run, a smaller collector saving to the same path.) *)
Theorem c16_save_without_truncate_keeps_tail :
  forall (E : env) (p : path) (s : mstate) (f : fs) (old : text),
    ms_poisoned s = false -> creatable p = true -> fs_read p f = Some old ->
    fs_read p (snd (save_to_file_keep E p s f)) =
      Some (export_text E s ++ skipn (length (export_text E s)) old) /\
    (fs_read p (snd (save_to_file_keep E p s f)) = Some (export_text E s) <->
     (length old <= length (export_text E s))%nat).
Proof. exact save_keep_stale_tail. Qed.

Example c16_save_without_truncate_ex :
  let f := snd (save_to_file_keep ex_env 0%Z (ex_coll 1000000) []) in
  fs_read 0%Z f = Some (export_text ex_env (ex_coll 1000000)) /\
  fs_read 0%Z (snd (save_to_file_keep ex_env 0%Z (ex_coll 7) f)) =
    Some (export_text ex_env (ex_coll 7) ++ txt "
  }
}") /\
  fs_read 0%Z (snd (save_to_file_keep ex_env 0%Z (ex_coll 7) f)) <> Some (export_text ex_env (ex_coll 7)) /\
  fs_read 0%Z (snd (save_to_file ex_env 0%Z (ex_coll 7) f)) = Some (export_text ex_env (ex_coll 7)).
Proof.
  intro f.
  assert (Hr : fs_read 0%Z f = Some (export_text ex_env (ex_coll 1000000))) by (vm_compute; reflexivity).
  split; [exact Hr|].
  destruct (c16_save_without_truncate_keeps_tail ex_env 0%Z (ex_coll 7) f _ eq_refl eq_refl Hr) as [H1 H2].
  split; [rewrite H1; vm_compute; reflexivity|]. split.
  - intro H. apply H2 in H. vm_compute in H. lia.
  - apply c16_save_writes_export; reflexivity.
Qed.

(* ---------- sequences ---------- *)
(* any script before (other collectors, longer exports to the same path, foreign files), a save
   to p, any script afterwards that does not touch p: the file holds the export of the collector
   that saved last, in the state it had at that moment *)
Theorem c16_last_save_wins :
  forall (E : env) (before : list xstep) (p : path) (after : list xstep) (w : world),
    ms_poisoned (cur (xrun E before w)) = false -> creatable p = true ->
    forallb (fun x => negb (touches p x)) after = true ->
    fs_read p (w_fs (xrun E (before ++ XSave p :: after) w)) =
    Some (export_text E (cur (xrun E before w))).
Proof. exact last_save_wins. Qed.

Example c16_last_save_wins_ex :
  let before := [XCall (SetC 0 1000000); XCall (RecStart 5); XCall (RecEnd 12000005); XSave 0;
                 XForeign 0 (txt "something much longer than the export of the second collector .............");
                 XUse 1; XCall (SetC 0 7)] in
  let after := [XCall (Incr 0 1); XSave 1; XUse 0; XSave (-1); XRemove 1] in
  fs_read 0%Z (w_fs (xrun ex_env (before ++ XSave 0 :: after) (fresh_world 2))) =
  Some (txt "{
  ""c0"": {
    ""value"": 7
  }
}").
Proof.
  intros before after.
  rewrite (c16_last_save_wins ex_env before 0%Z after (fresh_world 2)) by reflexivity.
  vm_compute. reflexivity.
Qed.

(* ---------- the JSON document ---------- *)
(* the keys of the exported object are strictly increasing in byte order: every name once, in
   the order of a BTreeMap - the text is determined by the collector's content *)
Theorem c16_export_keys_sorted :
  forall (E : env) (s : mstate),
    keys_sorted (map fst (export_entries E s)) = true /\
    keys_sorted (map fst (snapshot_entries E s)) = true.
Proof. intros E s. split; [exact (export_keys_sorted E s)|exact (snapshot_keys_sorted E s)]. Qed.

Example c16_export_keys_sorted_ex :
  map fst (export_entries ex_env (run_calls [RecStart 1; RecEnd 2] (ex_coll 5))) =
  [txt "c0"; txt "c10"; txt "c2"; txt "execution_time_ms"].
Proof. vm_compute. reflexivity. Qed.

(* every stored metric is in the export under its own name, its value() in the "value" field -
   the very value snapshot() reports - provided distinct stored names are spelled differently;
   only a metric stored under the reserved name gives way to the execution time *)
Theorem c16_export_has_every_metric :
  forall (E : env) (s : mstate) (n : name) (m : metric),
    NoDup (map (e_name E) (map fst (ms_metrics s))) ->
    lookup n (ms_metrics s) = Some m ->
    (elapsed s = None \/ e_name E n <> TIME_KEY) ->
    bt_lookup (e_name E n) (export_entries E s) = Some (metric_obj E m) /\
    obj_value (metric_obj E m) = Some (metric_value E m) /\
    bt_lookup (e_name E n) (snapshot_entries E s) = Some (metric_value E m).
Proof. exact export_has_every_metric. Qed.

Example c16_export_has_every_metric_ex :
  let s := run_calls [RecStart 1; RecEnd 2] (ex_coll 5) in
  bt_lookup (txt "c2") (export_entries ex_env s) =
    Some (JObj [(KEY_DESC, JStr (txt "d")); (KEY_VALUE, JArr [JStr (txt "tag"); JNat 4])]) /\
  bt_lookup (txt "c2") (snapshot_entries ex_env s) = Some (JArr [JStr (txt "tag"); JNat 4]).
Proof.
  intro s.
  assert (Hnd : NoDup (map (e_name ex_env) (map fst (ms_metrics s)))).
  { vm_compute. repeat constructor; cbn [In]; intuition discriminate. }
  destruct (c16_export_has_every_metric ex_env s 2%Z (Other 4) Hnd eq_refl) as (H1 & _ & H3).
  - right. vm_compute. discriminate.
  - split; [exact H1|exact H3].
Qed.

(* the execution_time_ms entry: the run's duration in whole milliseconds whenever elapsed() is
   Some - replacing a user metric of that name - and untouched otherwise *)
Theorem c16_export_time_entry :
  forall (E : env) (s : mstate),
    bt_lookup TIME_KEY (export_entries E s) =
    match elapsed s with
    | Some d => Some (time_obj (d / 1000000))
    | None => bt_lookup TIME_KEY (export_base E (ms_metrics s))
    end.
Proof. exact export_time_entry. Qed.

Example c16_export_time_entry_ex :
  let s := run_calls [Reg (-1) (Other 7); RecStart 5; RecEnd 1205000005] empty_state in
  bt_lookup TIME_KEY (export_entries ex_env s) =
    Some (JObj [(KEY_DESC, JStr TIME_DESC); (KEY_VALUE, JNat 1205)]) /\
  bt_lookup TIME_KEY (snapshot_entries ex_env s) = Some (JArr [JStr (txt "tag"); JNat 7]).
Proof. split; vm_compute; reflexivity. Qed.

(* the twins: snapshot(), print() and to_json() list the same names (to_json adds the execution
   time when both stamps are there) *)
Theorem c16_views_same_names :
  forall (E : env) (s : mstate),
    map fst (snapshot_entries E s) = map fst (print_entries E s) /\
    map fst (snapshot_entries E s) = map fst (export_base E (ms_metrics s)) /\
    (elapsed s = None -> map fst (export_entries E s) = map fst (snapshot_entries E s)) /\
    (forall d, elapsed s = Some d ->
       map fst (export_entries E s) = map fst (bt_insert TIME_KEY JNull (snapshot_entries E s))).
Proof. exact views_same_names. Qed.

Example c16_views_same_names_ex :
  let s := run_calls [RecStart 1; RecEnd 2000001] (ex_coll 5) in
  map fst (print_entries ex_env s) = [txt "c0"; txt "c10"; txt "c2"] /\
  print_text ex_env s = txt "
========== Pipeline Metrics ==========
Execution Time: 0.002s (2 ms)
--------------------------------------
c0: 5
c10: [""tag"",3]
c2: [""tag"",4] (d)
======================================

".
Proof. split; vm_compute; reflexivity. Qed.

(* refinement: the names of the byte-level export are exactly the spellings of the keys of the
   abstract to_json the earlier theorems speak about *)
Theorem c16_export_names_are_json_keys :
  forall (E : env) (s : mstate) (k : text),
    e_name E exec_time_name = TIME_KEY ->
    (In k (map fst (export_entries E s)) <-> In k (map (e_name E) (json_keys s))).
Proof. exact export_names_are_json_keys. Qed.

Example c16_export_names_are_json_keys_ex :
  let s := run_calls [RecStart 1; RecEnd 2] (ex_coll 5) in
  json_keys s = [0; 10; 2; -1]%Z /\ In (txt "c10") (map fst (export_entries ex_env s)).
Proof.
  intro s. split; [vm_compute; reflexivity|].
  apply (c16_export_names_are_json_keys ex_env s (txt "c10") eq_refl).
  vm_compute. right. left. reflexivity.
Qed.

(* no name twice in the exported object, for every environment and state; and when distinct
   stored names are spelled differently the three views list exactly the stored names, each once
   (print: one line per stored metric) *)
Theorem c16_export_one_entry_per_name :
  forall (E : env) (s : mstate),
    NoDup (map fst (export_entries E s)) /\
    (NoDup (map (e_name E) (map fst (ms_metrics s))) ->
     Permutation (map fst (snapshot_entries E s)) (map (e_name E) (map fst (ms_metrics s))) /\
     length (print_entries E s) = length (ms_metrics s)).
Proof. exact export_one_entry_per_name. Qed.

Example c16_export_one_entry_per_name_ex :
  let s := ex_coll 5 in
  map fst (ms_metrics s) = [0; 10; 2]%Z /\
  map fst (snapshot_entries ex_env s) = [txt "c0"; txt "c10"; txt "c2"] /\
  length (print_entries ex_env s) = 3%nat.
Proof.
  intro s. split; [reflexivity|]. split; [vm_compute; reflexivity|].
  destruct (c16_export_one_entry_per_name ex_env s) as [_ H].
  destruct H as [_ H]; [|rewrite H; reflexivity].
  vm_compute. repeat constructor; cbn [In]; intuition discriminate.
Qed.

(* string escaping (names, descriptions, string values): what is written between the quotes reads
   back as the original bytes - quotes, backslashes, control characters, UTF-8 included *)
Theorem c16_quote_roundtrip :
  forall t : text,
    Forall is_byte t ->
    unescape (flat_map escape_byte t) = t /\
    quote t = (34 :: flat_map escape_byte t ++ [34])%Z.
Proof. exact quote_roundtrip. Qed.

(* the bytes: a, double quote, backslash, line feed, 0x01, 0x1f, DEL, e-acute in UTF-8 *)
Example c16_quote_roundtrip_ex :
  let t := [97; 34; 92; 10; 1; 31; 127; 195; 169]%Z in
  flat_map escape_byte t =
    [97; 92; 34; 92; 92; 92; 110; 92; 117; 48; 48; 48; 49; 92; 117; 48; 48; 49; 102; 127; 195; 169]%Z /\
  unescape (flat_map escape_byte t) = t.
Proof.
  intro t. split; [vm_compute; reflexivity|].
  apply c16_quote_roundtrip. repeat constructor; unfold is_byte; lia.
Qed.

(* ================================================================================================
   HistogramMetric (model: Metrics/Histogram.v; samples as integers = multiples of an exact unit,
   NaN outside the model)
   ================================================================================================ *)

(* stats() never indexes out of range, whatever the number of samples: count/2, count*95/100 and
   count*99/100 are all below count *)
Theorem c16_hist_stats_never_panics :
  forall values : samples, exists st, stats values = Some st.
Proof. exact hist_stats_total. Qed.

Example c16_hist_stats_never_panics_ex :
  stats [] = Some hist_default /\
  stats [7] = Some (HS 1 7 7 7 7 7 7) /\
  stats (map (fun i => 6 * Z.of_nat i)%Z (seq 0 100)) = Some (HS 100 29700 0 594 300 570 594).
Proof. repeat split. Qed.

(* what the statistics of a non-empty histogram are: the number of samples, their sum, and five
   of the samples themselves - the smallest, the largest (bounds of every sample) and three in
   between, in order *)
Theorem c16_hist_stats_spec :
  forall (values : samples) (st : hstats),
    values <> [] -> stats values = Some st ->
    hs_count st = length values /\ hs_sum st = Histogram.zsum values /\
    In (hs_min st) values /\ In (hs_max st) values /\
    In (hs_p50 st) values /\ In (hs_p95 st) values /\ In (hs_p99 st) values /\
    (forall x, In x values -> (hs_min st <= x <= hs_max st)%Z) /\
    (hs_min st <= hs_p50 st)%Z /\ (hs_p50 st <= hs_p95 st)%Z /\
    (hs_p95 st <= hs_p99 st)%Z /\ (hs_p99 st <= hs_max st)%Z.
Proof. exact hist_stats_spec. Qed.

Example c16_hist_stats_spec_ex :
  stats [12; -4; 0; 30; 6; 6]%Z = Some (HS 6 50 (-4) 30 6 30 30).
Proof. reflexivity. Qed.

(* the order in which the samples were recorded does not matter *)
Theorem c16_hist_stats_order_independent :
  forall a b : samples, Permutation a b -> stats a = stats b.
Proof. exact hist_stats_perm. Qed.

Example c16_hist_stats_order_independent_ex :
  stats [12; -4; 0; 30; 6; 6]%Z = stats (rev [12; -4; 0; 30; 6; 6]%Z).
Proof. apply c16_hist_stats_order_independent. apply Permutation_rev. Qed.

(* the two public ways to fill a histogram agree: new() + record() one by one = with_values() *)
Theorem c16_hist_record_is_with_values :
  forall vs : list Z,
    fold_left (fun h v => hist_record v h) vs hist_new = hist_with_values vs.
Proof. exact hist_record_is_with_values. Qed.

Example c16_hist_record_is_with_values_ex :
  stats (fold_left (fun h v => hist_record v h) [3; 1; 2]%Z hist_new) = stats (hist_with_values [3; 1; 2]%Z).
Proof. rewrite c16_hist_record_is_with_values. reflexivity. Qed.
