(* C16 (placeholder while the proofs are being written) *)
From IB Require Import Metrics.Metrics.
