(* C15: approximate aggregations stay within their stated bounds.
   ONLY the property theorems (each closed by `exact`) and their non-vacuity examples.

   t-digest (src/combiners/quantiles.rs): the theorems are about the EXACT instance of the model
   (Combiners/TDigest.v: rationals + {+inf, -inf, NaN}); `prog` = every way of producing a digest
   through new / add / add_weighted / merge / compress, i.e. any input order, duplication,
   partitioning and merge tree; `inputs p` = the finite (value, weight) pairs fed in;
   `wf_prog p` = explicit weights are >= 1 (TDigest::add uses 1). The float instance of the same
   model text is tied to the Rust code bit for bit by the correspondence check; IEEE rounding is
   outside these theorems.
   KMV (src/combiners/distinct.rs): ranks are any type with a Boolean strict total order;
   `aexpr` (Combiners/Lawful.v) = every accumulator expression create / add_input / merge /
   build_from_group. *)
From Coq Require Import List ZArith QArith Bool Lia Sorted.
From IB Require Import Combiners.Lawful Combiners.TDigest Combiners.KMV.
From IB Require Import Proofs.TDigestBase Proofs.TDigestInv Proofs.TDigestQuantile
                       Proofs.TDigestWitness Proofs.KMVProofs.
Import ListNotations.
Close Scope Q_scope.

(* ================================================================ t-digest *)

(* Quantile estimates lie between the smallest and the largest finite input (which are exactly
   the digest's min and max), for every q (also NaN, infinite, outside [0,1]). *)
Theorem c15_quantile_in_range :
  forall (p : prog X) (q : X), wf_prog p -> inputs p <> [] ->
    exists lo hi x,
      d_min (run xarith p) = Fin lo /\ d_max (run xarith p) = Fin hi /\
      is_lo lo (inputs p) /\ is_hi hi (inputs p) /\
      td_quantile xarith (run xarith p) q = Fin x /\ (lo <= x <= hi)%Q.
Proof. exact prog_quantile_in_range. Qed.

Definition ex_prog : prog X :=
  PMerge (PAdd (PAdd (PAdd (PNew (Fin 100)) (Fin 5)) PInf) (Fin (-3)))
         (PCompress (PAdd (PAdd (PNew (Fin 20)) (Fin 2)) NaN)).

Example c15_quantile_in_range_ex :
  wf_prog ex_prog /\ inputs ex_prog <> [] /\
  xeqb (td_quantile xarith (run xarith ex_prog) (Fin (1 # 2))) (Fin 1) = true /\
  xeqb (d_min (run xarith ex_prog)) (Fin (-3)) = true /\
  xeqb (d_max (run xarith ex_prog)) (Fin 5) = true.
Proof.
  split; [vm_compute; tauto|]. split; [vm_compute; discriminate|].
  repeat split; vm_compute; reflexivity.
Qed.

(* q <= 0 (q is clamped to [0,1]): exactly the minimum *)
Theorem c15_quantile_0 :
  forall (p : prog X) (q : X), wf_prog p -> inputs p <> [] -> xleb q (Fin 0) = true ->
    exists lo, is_lo lo (inputs p) /\ td_quantile xarith (run xarith p) q = Fin lo.
Proof. exact prog_quantile_0. Qed.

Example c15_quantile_0_ex :
  xleb NInf (Fin 0) = true /\
  xeqb (td_quantile xarith (run xarith ex_prog) NInf) (Fin (-3)) = true /\
  xeqb (td_quantile xarith (run xarith ex_prog) (Fin 0)) (Fin (-3)) = true.
Proof. repeat split; vm_compute; reflexivity. Qed.

(* q >= 1: the maximum (as a rational number) *)
Theorem c15_quantile_1 :
  forall (p : prog X) (q : X), wf_prog p -> inputs p <> [] -> xleb (Fin 1) q = true ->
    exists hi x, is_hi hi (inputs p) /\
      td_quantile xarith (run xarith p) q = Fin x /\ (x == hi)%Q.
Proof. exact prog_quantile_1. Qed.

Example c15_quantile_1_ex :
  xleb (Fin 1) (Fin (3 # 2)) = true /\
  xeqb (td_quantile xarith (run xarith ex_prog) (Fin (3 # 2))) (Fin 5) = true /\
  xeqb (td_quantile xarith (run xarith ex_prog) (Fin 1)) (Fin 5) = true.
Proof. repeat split; vm_compute; reflexivity. Qed.

(* NaN exactly when no finite value went in *)
Theorem c15_quantile_nan_iff_empty :
  forall (p : prog X) (q : X), wf_prog p ->
    (td_quantile xarith (run xarith p) q = NaN <-> inputs p = []).
Proof. exact prog_quantile_nan_iff. Qed.

Example c15_quantile_nan_iff_empty_ex :
  td_quantile xarith (run xarith (PAdd (PAdd (PNew (Fin 100)) NaN) PInf)) (Fin (1 # 2)) = NaN /\
  inputs (PAdd (PAdd (PNew (Fin 100)) NaN) PInf) = [].
Proof. split; reflexivity. Qed.

(* what the combiner returns (ApproxQuantiles::finish = compress once more, then query), for a
   digest produced by any partitioning / merge tree *)
Theorem c15_finish_in_range :
  forall (p : prog X) (qs : list X) (x : X), wf_prog p -> inputs p <> [] ->
    In x (aq_finish xarith qs (run xarith p)) ->
    exists lo hi v, is_lo lo (inputs p) /\ is_hi hi (inputs p) /\ x = Fin v /\ (lo <= v <= hi)%Q.
Proof. exact prog_finish_in_range. Qed.

Example c15_finish_in_range_ex :
  match aq_finish xarith [Fin (1 # 4); Fin (3 # 4)] (run xarith ex_prog) with
  | [a; b] => xeqb a (Fin (3 # 4)) && xeqb b (Fin (11 # 4))
  | _ => false
  end = true.
Proof. vm_compute. reflexivity. Qed.

Theorem c15_finish_nan_iff_empty :
  forall (p : prog X) (qs : list X) (x : X), wf_prog p ->
    In x (aq_finish xarith qs (run xarith p)) -> (x = NaN <-> inputs p = []).
Proof. exact prog_finish_nan_iff. Qed.

Example c15_finish_nan_iff_empty_ex :
  aq_finish xarith [Fin 0; Fin 1] (run xarith (PMerge (PNew (Fin 10)) (PAdd (PNew (Fin 10)) NInf)))
  = [NaN; NaN].
Proof. reflexivity. Qed.

(* lists of quantiles are answered position by position, in the order of the request (any
   arithmetic instance): result i is the estimate for the i-th requested q *)
Theorem c15_quantiles_pointwise :
  forall (T : Type) (A : arith T) (d : digest T) (qs : list T),
    td_quantiles A d qs = map (td_quantile A d) qs /\
    length (td_quantiles A d qs) = length qs /\
    length (aq_finish A qs d) = length qs /\
    forall i, nth_error (aq_finish A qs d) i
              = option_map (fun q => if td_is_empty A d then a_nan A
                                     else td_quantile A (td_compress A d) q)
                           (nth_error qs i).
Proof. exact quantiles_pointwise. Qed.

Example c15_quantiles_pointwise_ex :
  match aq_finish xarith [Fin 1; Fin (1 # 2); Fin 0; NaN; Fin 1] (run xarith ex_prog) with
  | [a; b; c; d; e] => xeqb a (Fin 5) && xeqb b (Fin 1) && xeqb c (Fin (-3)) && xeqb d (Fin 5)
                       && xeqb e (Fin 5)
  | _ => false
  end = true.
Proof. vm_compute. reflexivity. Qed.

(* non-finite inputs leave the digest unchanged -- in EVERY arithmetic instance (also the float one) *)
Theorem c15_nonfinite_ignored :
  forall (T : Type) (A : arith T) (d : digest T) (v w : T),
    a_is_finite A v = false -> td_add_weighted A d v w = d.
Proof. exact nonfinite_ignored. Qed.

Example c15_nonfinite_ignored_ex :
  xfinite NaN = false /\ xfinite PInf = false /\ xfinite NInf = false /\
  run xarith (PAdd (PAdd (PAdd (PNew (Fin 100)) (Fin 7)) NaN) NInf)
  = run xarith (PAdd (PNew (Fin 100)) (Fin 7)).
Proof. repeat split. Qed.

(* compress: centroids sorted by mean, total weight preserved (= sum of the input weights),
   every mean inside [min, max], every weight >= 1 *)
Theorem c15_compress_invariants :
  forall (p : prog X), wf_prog p -> inputs p <> [] ->
    exists lo hi, is_lo lo (inputs p) /\ is_hi hi (inputs p) /\
      let cs := d_cents (td_compress xarith (run xarith p)) in
      StronglySorted mle cs /\ (sumw cs == wsum (inputs p))%Q /\ Forall (fin_c lo hi) cs.
Proof. exact prog_compress_invariants. Qed.

Example c15_compress_invariants_ex :
  map (fun c => (Qred (mean_q c), Qred (weight_q c)))
      (d_cents (td_compress xarith (run xarith w_prog)))
  = [(1, 1); (7 # 2, 4); (15 # 2, 4); (10, 1)]%Q.
Proof. vm_compute. reflexivity. Qed.

(* the digest's count is the sum of the weights of the finite inputs (= their number for add) *)
Theorem c15_count_exact :
  forall (p : prog X), wf_prog p ->
    exists W, td_count (run xarith p) = Fin W /\ (W == wsum (inputs p))%Q.
Proof. exact prog_count_exact. Qed.

Example c15_count_exact_ex :
  xeqb (td_count (run xarith ex_prog)) (Fin 3) = true /\ (wsum (inputs ex_prog) == 3)%Q.
Proof. split; vm_compute; reflexivity. Qed.

(* OPEN KNOWN FINDING C15-quantile-not-monotone: the estimate is NOT monotone in q.
   Witness: values 1..10, compression 100: quantile(0.10) = 2 but quantile(0.11) = 1.2. *)
Theorem c15_quantile_monotone_refuted :
  exists (p : prog X) (q1 q2 : Q),
    wf_prog p /\ (q1 < q2)%Q /\
    xltb (td_quantile xarith (run xarith p) (Fin q2))
         (td_quantile xarith (run xarith p) (Fin q1)) = true.
Proof. exact monotone_refuted. Qed.

Example c15_quantile_monotone_refuted_ex :
  xeqb (td_quantile xarith (run xarith w_prog) (Fin (1 # 10))) (Fin 2) = true /\
  xeqb (td_quantile xarith (run xarith w_prog) (Fin (11 # 100))) (Fin (6 # 5)) = true.
Proof. exact w_direct. Qed.

(* outside the finding's class (fewer than 2 centroids) the estimate does not depend on q, in
   every arithmetic instance *)
Theorem c15_quantile_monotone_outside_class :
  forall (T : Type) (A : arith T) (d : digest T) (q1 q2 : T),
    (length (d_cents d) <= 1)%nat -> td_quantile A d q1 = td_quantile A d q2.
Proof. exact quantile_const_single. Qed.

Example c15_quantile_monotone_outside_class_ex :
  (length (d_cents (run xarith (PAdd (PNew (Fin 100)) (Fin 42)))) <= 1)%nat /\
  td_quantile xarith (run xarith (PAdd (PNew (Fin 100)) (Fin 42))) (Fin (1 # 3)) = Fin 42.
Proof. split; [vm_compute; lia | vm_compute; reflexivity]. Qed.

(* ================================================================ KMV *)
Section KMVStatements.
  Variable R : Type.
  Variables ltb eqb : R -> R -> bool.
  Hypothesis ltb_irrefl : forall a, ltb a a = false.
  Hypothesis ltb_trans : forall a b c, ltb a b = true -> ltb b c = true -> ltb a c = true.
  Hypothesis ltb_total : forall a b, ltb a b = false -> ltb b a = false -> a = b.
  Hypothesis eqb_eq : forall a b, eqb a b = true <-> a = b.

  (* an accumulator obtained in ANY way holds exactly the k' = max k 4 smallest distinct ranks
     of everything that went in *)
  Theorem c15_kmv_represents :
    forall (k : nat) (e : aexpr R),
      k_items (aeval (kmv_combiner ltb eqb k) e)
      = ksmallest ltb eqb (Nat.max k 4) (avalues e).
  Proof. exact (kmv_items ltb eqb ltb_irrefl ltb_trans ltb_total eqb_eq). Qed.

  (* `usort` lists every distinct rank once: its length is the number of distinct ranks *)
  Theorem c15_kmv_distinct :
    forall l : list R, NoDup (usort ltb eqb l) /\ forall x, In x (usort ltb eqb l) <-> In x l.
  Proof. exact (usort_distinct ltb eqb ltb_irrefl ltb_trans ltb_total eqb_eq). Qed.

  (* fewer distinct ranks than the sketch size: the count is exact *)
  Theorem c15_kmv_exact_below_k :
    forall (k : nat) (e : aexpr R),
      length (usort ltb eqb (avalues e)) < Nat.max k 4 ->
      kmv_finish (aeval (kmv_combiner ltb eqb k) e)
      = KCount (length (usort ltb eqb (avalues e))).
  Proof. exact (kmv_exact_below_k ltb eqb ltb_irrefl ltb_trans ltb_total eqb_eq). Qed.

  (* the result depends on the SET of ranks only: not on duplicates, order, partitioning, merge
     order, or the use of build_from_group *)
  Theorem c15_kmv_partition_independent :
    forall (k : nat) (e1 e2 : aexpr R),
      (forall x, In x (avalues e1) <-> In x (avalues e2)) ->
      kmv_finish (aeval (kmv_combiner ltb eqb k) e1)
      = kmv_finish (aeval (kmv_combiner ltb eqb k) e2).
  Proof. exact (kmv_partition_independent ltb eqb ltb_irrefl ltb_trans ltb_total eqb_eq). Qed.

  (* and in general finish = (k'-1)/(k'-th smallest distinct rank) or the exact count *)
  Theorem c15_kmv_finish_spec :
    forall (k : nat) (e : aexpr R),
      kmv_finish (aeval (kmv_combiner ltb eqb k) e)
      = kmv_spec ltb eqb (Nat.max k 4) (avalues e).
  Proof. exact (kmv_finish_spec ltb eqb ltb_irrefl ltb_trans ltb_total eqb_eq). Qed.

  (* KMV is a lawful (mergeable) combiner in the sense of Combiners/Lawful.v *)
  Theorem c15_kmv_lawful :
    forall k : nat,
      lawful (kmv_combiner ltb eqb k) (krep ltb eqb (Nat.max k 4))
             (fun m o => o = kmv_spec ltb eqb (Nat.max k 4) m).
  Proof. exact (kmv_lawful ltb eqb ltb_irrefl ltb_trans ltb_total eqb_eq). Qed.
End KMVStatements.

(* non-vacuity: integers as ranks *)
Lemma zltb_irrefl : forall a : Z, Z.ltb a a = false.
Proof. intro a. apply Z.ltb_irrefl. Qed.
Lemma zltb_trans : forall a b c : Z, Z.ltb a b = true -> Z.ltb b c = true -> Z.ltb a c = true.
Proof. intros a b c H1 H2. apply Z.ltb_lt in H1, H2. apply Z.ltb_lt. lia. Qed.
Lemma zltb_total : forall a b : Z, Z.ltb a b = false -> Z.ltb b a = false -> a = b.
Proof. intros a b H1 H2. apply Z.ltb_ge in H1, H2. lia. Qed.

Definition ex_e1 : aexpr Z :=
  (AMerge (AAdd (AAdd (AAdd ACreate 9) 2) 9) (AMerge (ABuild [7; 2; 5; 1; 7]) (AAdd ACreate 3)))%Z.
Definition ex_e2 : aexpr Z := ABuild [1; 2; 3; 5; 7; 9]%Z.

Example c15_kmv_represents_ex :
  k_items (aeval (kmv_combiner Z.ltb Z.eqb 4) ex_e1) = [1; 2; 3; 5]%Z /\
  ksmallest Z.ltb Z.eqb 4 (avalues ex_e1) = [1; 2; 3; 5]%Z.
Proof. split; reflexivity. Qed.

Example c15_kmv_distinct_ex : usort Z.ltb Z.eqb [9; 2; 9; 7; 2]%Z = [2; 7; 9]%Z.
Proof. reflexivity. Qed.

Example c15_kmv_exact_below_k_ex :
  length (usort Z.ltb Z.eqb (avalues ex_e1)) < Nat.max 7 4 /\
  kmv_finish (aeval (kmv_combiner Z.ltb Z.eqb 7) ex_e1) = KCount 6.
Proof. split; [cbn; lia | reflexivity]. Qed.

Example c15_kmv_partition_independent_ex :
  (forall x, In x (avalues ex_e1) <-> In x (avalues ex_e2)) /\
  kmv_finish (aeval (kmv_combiner Z.ltb Z.eqb 4) ex_e1) = KEstimate 4 5%Z /\
  kmv_finish (aeval (kmv_combiner Z.ltb Z.eqb 4) ex_e2) = KEstimate 4 5%Z.
Proof.
  split; [|split; reflexivity].
  intro x. cbn. intuition lia.
Qed.

Example c15_kmv_finish_spec_ex :
  kmv_spec Z.ltb Z.eqb 4 (avalues ex_e1) = KEstimate 4 5%Z /\
  kmv_spec Z.ltb Z.eqb 8 (avalues ex_e1) = KCount 6.
Proof. split; reflexivity. Qed.

Example c15_kmv_lawful_ex :
  lawful (kmv_combiner Z.ltb Z.eqb 2) (krep Z.ltb Z.eqb 4)
         (fun m o => o = kmv_spec Z.ltb Z.eqb 4 m).
Proof. exact (c15_kmv_lawful Z Z.ltb Z.eqb zltb_irrefl zltb_trans zltb_total Z.eqb_eq 2). Qed.
