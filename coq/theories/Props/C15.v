(* C15: approximate aggregations stay within their stated bounds.
   ONLY the property theorems (each closed by `exact`) and their non-vacuity examples.

   t-digest (src/combiners/quantiles.rs): the theorems are about the EXACT instance of the model
   (Combiners/TDigest.v: rationals + {+inf, -inf, NaN}); `prog` = every way of producing a digest
   through new / add / add_weighted / merge / compress, i.e. any input order, duplication,
   partitioning and merge tree; `inputs p` = the finite (value, weight) pairs fed in;
   `wf_prog p` = explicit weights are >= 1 (TDigest::add uses 1). The float instance of the same
   model text is tied to the Rust code bit for bit by the correspondence check; IEEE rounding is
   outside these theorems.
   KMV (src/combiners/distinct.rs): ranks are any type with a Boolean strict total order;
   `aexpr` (Combiners/Lawful.v) = every accumulator expression create / add_input / merge /
   build_from_group. *)
From Coq Require Import List ZArith QArith Bool Lia Sorted.
From IB Require Import Combiners.Lawful Combiners.TDigest Combiners.KMV Combiners.SketchPipe
                       Combiners.DistinctHelpers.
From IB Require Import Proofs.TDigestBase Proofs.TDigestInv Proofs.TDigestQuantile
                       Proofs.TDigestWitness Proofs.KMVProofs Proofs.SketchPipeProofs
                       Proofs.SketchInstances Proofs.TDigestCdf Proofs.DistinctHelpersProofs.
Import ListNotations.
Close Scope Q_scope.

(* ================================================================ t-digest *)

(* Quantile estimates lie between the smallest and the largest finite input (which are exactly
   the digest's min and max), for every q (also NaN, infinite, outside [0,1]). *)
Theorem c15_quantile_in_range :
  forall (p : prog X) (q : X), wf_prog p -> inputs p <> [] ->
    exists lo hi x,
      d_min (run xarith p) = Fin lo /\ d_max (run xarith p) = Fin hi /\
      is_lo lo (inputs p) /\ is_hi hi (inputs p) /\
      td_quantile xarith (run xarith p) q = Fin x /\ (lo <= x <= hi)%Q.
Proof. exact prog_quantile_in_range. Qed.

Definition ex_prog : prog X :=
  PMerge (PAdd (PAdd (PAdd (PNew (Fin 100)) (Fin 5)) PInf) (Fin (-3)))
         (PCompress (PAdd (PAdd (PNew (Fin 20)) (Fin 2)) NaN)).

Example c15_quantile_in_range_ex :
  wf_prog ex_prog /\ inputs ex_prog <> [] /\
  xeqb (td_quantile xarith (run xarith ex_prog) (Fin (1 # 2))) (Fin 1) = true /\
  xeqb (d_min (run xarith ex_prog)) (Fin (-3)) = true /\
  xeqb (d_max (run xarith ex_prog)) (Fin 5) = true.
Proof.
  split; [vm_compute; tauto|]. split; [vm_compute; discriminate|].
  repeat split; vm_compute; reflexivity.
Qed.

(* q <= 0 (q is clamped to [0,1]): exactly the minimum *)
Theorem c15_quantile_0 :
  forall (p : prog X) (q : X), wf_prog p -> inputs p <> [] -> xleb q (Fin 0) = true ->
    exists lo, is_lo lo (inputs p) /\ td_quantile xarith (run xarith p) q = Fin lo.
Proof. exact prog_quantile_0. Qed.

Example c15_quantile_0_ex :
  xleb NInf (Fin 0) = true /\
  xeqb (td_quantile xarith (run xarith ex_prog) NInf) (Fin (-3)) = true /\
  xeqb (td_quantile xarith (run xarith ex_prog) (Fin 0)) (Fin (-3)) = true.
Proof. repeat split; vm_compute; reflexivity. Qed.

(* q >= 1: the maximum (as a rational number) *)
Theorem c15_quantile_1 :
  forall (p : prog X) (q : X), wf_prog p -> inputs p <> [] -> xleb (Fin 1) q = true ->
    exists hi x, is_hi hi (inputs p) /\
      td_quantile xarith (run xarith p) q = Fin x /\ (x == hi)%Q.
Proof. exact prog_quantile_1. Qed.

Example c15_quantile_1_ex :
  xleb (Fin 1) (Fin (3 # 2)) = true /\
  xeqb (td_quantile xarith (run xarith ex_prog) (Fin (3 # 2))) (Fin 5) = true /\
  xeqb (td_quantile xarith (run xarith ex_prog) (Fin 1)) (Fin 5) = true.
Proof. repeat split; vm_compute; reflexivity. Qed.

(* NaN exactly when no finite value went in *)
Theorem c15_quantile_nan_iff_empty :
  forall (p : prog X) (q : X), wf_prog p ->
    (td_quantile xarith (run xarith p) q = NaN <-> inputs p = []).
Proof. exact prog_quantile_nan_iff. Qed.

Example c15_quantile_nan_iff_empty_ex :
  td_quantile xarith (run xarith (PAdd (PAdd (PNew (Fin 100)) NaN) PInf)) (Fin (1 # 2)) = NaN /\
  inputs (PAdd (PAdd (PNew (Fin 100)) NaN) PInf) = [].
Proof. split; reflexivity. Qed.

(* what the combiner returns (ApproxQuantiles::finish = compress once more, then query), for a
   digest produced by any partitioning / merge tree *)
Theorem c15_finish_in_range :
  forall (p : prog X) (qs : list X) (x : X), wf_prog p -> inputs p <> [] ->
    In x (aq_finish xarith qs (run xarith p)) ->
    exists lo hi v, is_lo lo (inputs p) /\ is_hi hi (inputs p) /\ x = Fin v /\ (lo <= v <= hi)%Q.
Proof. exact prog_finish_in_range. Qed.

Example c15_finish_in_range_ex :
  match aq_finish xarith [Fin (1 # 4); Fin (3 # 4)] (run xarith ex_prog) with
  | [a; b] => xeqb a (Fin (3 # 4)) && xeqb b (Fin (11 # 4))
  | _ => false
  end = true.
Proof. vm_compute. reflexivity. Qed.

Theorem c15_finish_nan_iff_empty :
  forall (p : prog X) (qs : list X) (x : X), wf_prog p ->
    In x (aq_finish xarith qs (run xarith p)) -> (x = NaN <-> inputs p = []).
Proof. exact prog_finish_nan_iff. Qed.

Example c15_finish_nan_iff_empty_ex :
  aq_finish xarith [Fin 0; Fin 1] (run xarith (PMerge (PNew (Fin 10)) (PAdd (PNew (Fin 10)) NInf)))
  = [NaN; NaN].
Proof. reflexivity. Qed.

(* lists of quantiles are answered position by position, in the order of the request (any
   arithmetic instance): result i is the estimate for the i-th requested q *)
Theorem c15_quantiles_pointwise :
  forall (T : Type) (A : arith T) (d : digest T) (qs : list T),
    td_quantiles A d qs = map (td_quantile A d) qs /\
    length (td_quantiles A d qs) = length qs /\
    length (aq_finish A qs d) = length qs /\
    forall i, nth_error (aq_finish A qs d) i
              = option_map (fun q => if td_is_empty A d then a_nan A
                                     else td_quantile A (td_compress A d) q)
                           (nth_error qs i).
Proof. exact quantiles_pointwise. Qed.

Example c15_quantiles_pointwise_ex :
  match aq_finish xarith [Fin 1; Fin (1 # 2); Fin 0; NaN; Fin 1] (run xarith ex_prog) with
  | [a; b; c; d; e] => xeqb a (Fin 5) && xeqb b (Fin 1) && xeqb c (Fin (-3)) && xeqb d (Fin 5)
                       && xeqb e (Fin 5)
  | _ => false
  end = true.
Proof. vm_compute. reflexivity. Qed.

(* non-finite inputs leave the digest unchanged -- in EVERY arithmetic instance (also the float one) *)
Theorem c15_nonfinite_ignored :
  forall (T : Type) (A : arith T) (d : digest T) (v w : T),
    a_is_finite A v = false -> td_add_weighted A d v w = d.
Proof. exact nonfinite_ignored. Qed.

Example c15_nonfinite_ignored_ex :
  xfinite NaN = false /\ xfinite PInf = false /\ xfinite NInf = false /\
  run xarith (PAdd (PAdd (PAdd (PNew (Fin 100)) (Fin 7)) NaN) NInf)
  = run xarith (PAdd (PNew (Fin 100)) (Fin 7)).
Proof. repeat split. Qed.

(* compress: centroids sorted by mean, total weight preserved (= sum of the input weights),
   every mean inside [min, max], every weight >= 1 *)
Theorem c15_compress_invariants :
  forall (p : prog X), wf_prog p -> inputs p <> [] ->
    exists lo hi, is_lo lo (inputs p) /\ is_hi hi (inputs p) /\
      let cs := d_cents (td_compress xarith (run xarith p)) in
      StronglySorted mle cs /\ (sumw cs == wsum (inputs p))%Q /\ Forall (fin_c lo hi) cs.
Proof. exact prog_compress_invariants. Qed.

Example c15_compress_invariants_ex :
  map (fun c => (Qred (mean_q c), Qred (weight_q c)))
      (d_cents (td_compress xarith (run xarith w_prog)))
  = [(1, 1); (7 # 2, 4); (15 # 2, 4); (10, 1)]%Q.
Proof. vm_compute. reflexivity. Qed.

(* the digest's count is the sum of the weights of the finite inputs (= their number for add) *)
Theorem c15_count_exact :
  forall (p : prog X), wf_prog p ->
    exists W, td_count (run xarith p) = Fin W /\ (W == wsum (inputs p))%Q.
Proof. exact prog_count_exact. Qed.

Example c15_count_exact_ex :
  xeqb (td_count (run xarith ex_prog)) (Fin 3) = true /\ (wsum (inputs ex_prog) == 3)%Q.
Proof. split; vm_compute; reflexivity. Qed.

(* OPEN KNOWN FINDING C15-quantile-not-monotone: the estimate is NOT monotone in q.
   Witness: values 1..10, compression 100: quantile(0.10) = 2 but quantile(0.11) = 1.2. *)
Theorem c15_quantile_monotone_refuted :
  exists (p : prog X) (q1 q2 : Q),
    wf_prog p /\ (q1 < q2)%Q /\
    xltb (td_quantile xarith (run xarith p) (Fin q2))
         (td_quantile xarith (run xarith p) (Fin q1)) = true.
Proof. exact monotone_refuted. Qed.

Example c15_quantile_monotone_refuted_ex :
  xeqb (td_quantile xarith (run xarith w_prog) (Fin (1 # 10))) (Fin 2) = true /\
  xeqb (td_quantile xarith (run xarith w_prog) (Fin (11 # 100))) (Fin (6 # 5)) = true.
Proof. exact w_direct. Qed.

(* outside the finding's class (fewer than 2 centroids) the estimate does not depend on q, in
   every arithmetic instance *)
Theorem c15_quantile_monotone_outside_class :
  forall (T : Type) (A : arith T) (d : digest T) (q1 q2 : T),
    (length (d_cents d) <= 1)%nat -> td_quantile A d q1 = td_quantile A d q2.
Proof. exact quantile_const_single. Qed.

Example c15_quantile_monotone_outside_class_ex :
  (length (d_cents (run xarith (PAdd (PNew (Fin 100)) (Fin 42)))) <= 1)%nat /\
  td_quantile xarith (run xarith (PAdd (PNew (Fin 100)) (Fin 42))) (Fin (1 # 3)) = Fin 42.
Proof. split; [vm_compute; lia | vm_compute; reflexivity]. Qed.

(* ================================================================ KMV *)
Section KMVStatements.
  Variable R : Type.
  Variables ltb eqb : R -> R -> bool.
  Hypothesis ltb_irrefl : forall a, ltb a a = false.
  Hypothesis ltb_trans : forall a b c, ltb a b = true -> ltb b c = true -> ltb a c = true.
  Hypothesis ltb_total : forall a b, ltb a b = false -> ltb b a = false -> a = b.
  Hypothesis eqb_eq : forall a b, eqb a b = true <-> a = b.

  (* an accumulator obtained in ANY way holds exactly the k' = max k 4 smallest distinct ranks
     of everything that went in *)
  Theorem c15_kmv_represents :
    forall (k : nat) (e : aexpr R),
      k_items (aeval (kmv_combiner ltb eqb k) e)
      = ksmallest ltb eqb (Nat.max k 4) (avalues e).
  Proof. exact (kmv_items ltb eqb ltb_irrefl ltb_trans ltb_total eqb_eq). Qed.

  (* `usort` lists every distinct rank once: its length is the number of distinct ranks *)
  Theorem c15_kmv_distinct :
    forall l : list R, NoDup (usort ltb eqb l) /\ forall x, In x (usort ltb eqb l) <-> In x l.
  Proof. exact (usort_distinct ltb eqb ltb_irrefl ltb_trans ltb_total eqb_eq). Qed.

  (* fewer distinct ranks than the sketch size: the count is exact *)
  Theorem c15_kmv_exact_below_k :
    forall (k : nat) (e : aexpr R),
      length (usort ltb eqb (avalues e)) < Nat.max k 4 ->
      kmv_finish (aeval (kmv_combiner ltb eqb k) e)
      = KCount (length (usort ltb eqb (avalues e))).
  Proof. exact (kmv_exact_below_k ltb eqb ltb_irrefl ltb_trans ltb_total eqb_eq). Qed.

  (* the result depends on the SET of ranks only: not on duplicates, order, partitioning, merge
     order, or the use of build_from_group *)
  Theorem c15_kmv_partition_independent :
    forall (k : nat) (e1 e2 : aexpr R),
      (forall x, In x (avalues e1) <-> In x (avalues e2)) ->
      kmv_finish (aeval (kmv_combiner ltb eqb k) e1)
      = kmv_finish (aeval (kmv_combiner ltb eqb k) e2).
  Proof. exact (kmv_partition_independent ltb eqb ltb_irrefl ltb_trans ltb_total eqb_eq). Qed.

  (* and in general finish = (k'-1)/(k'-th smallest distinct rank) or the exact count *)
  Theorem c15_kmv_finish_spec :
    forall (k : nat) (e : aexpr R),
      kmv_finish (aeval (kmv_combiner ltb eqb k) e)
      = kmv_spec ltb eqb (Nat.max k 4) (avalues e).
  Proof. exact (kmv_finish_spec ltb eqb ltb_irrefl ltb_trans ltb_total eqb_eq). Qed.

  (* KMV is a lawful (mergeable) combiner in the sense of Combiners/Lawful.v *)
  Theorem c15_kmv_lawful :
    forall k : nat,
      lawful (kmv_combiner ltb eqb k) (krep ltb eqb (Nat.max k 4))
             (fun m o => o = kmv_spec ltb eqb (Nat.max k 4) m).
  Proof. exact (kmv_lawful ltb eqb ltb_irrefl ltb_trans ltb_total eqb_eq). Qed.

  (* the same specification computed by merge sort + removal of adjacent duplicates (what the
     correspondence check evaluates for sketch sizes in the thousands) *)
  Theorem c15_kmv_usort_fast :
    forall l : list R, usort_fast ltb eqb l = usort ltb eqb l.
  Proof. exact (usort_fast_eq ltb eqb ltb_irrefl ltb_trans ltb_total eqb_eq). Qed.

  Theorem c15_kmv_fast_spec :
    forall (k : nat) (e : aexpr R),
      kmv_finish (aeval (kmv_combiner ltb eqb k) e)
      = kmv_fast ltb eqb (Nat.max k 4) (avalues e).
  Proof. exact (kmv_finish_fast ltb eqb ltb_irrefl ltb_trans ltb_total eqb_eq). Qed.

  (* every sketch size above the number of distinct ranks gives the same, exact, answer: nothing
     may depend on how large an oversized k is *)
  Theorem c15_kmv_oversized_k :
    forall (k1 k2 : nat) (e : aexpr R),
      length (usort ltb eqb (avalues e)) < Nat.max k1 4 ->
      length (usort ltb eqb (avalues e)) < Nat.max k2 4 ->
      kmv_finish (aeval (kmv_combiner ltb eqb k1) e)
      = kmv_finish (aeval (kmv_combiner ltb eqb k2) e).
  Proof. exact (kmv_oversized_k ltb eqb ltb_irrefl ltb_trans ltb_total eqb_eq). Qed.

  (* ---- the helpers of src/helpers/distinct.rs and the combine_* entry points, over ANY number
     of partitions, any fan-out, lifted or not (model: Combiners/SketchPipe.v) ---- *)
  Variable K : Type.
  Variable keqb : K -> K -> bool.
  Hypothesis keqb_eq : forall a b, keqb a b = true <-> a = b.

  (* combine_globally / combine_globally_lifted with KMVApproxDistinctCount::new(k) *)
  Theorem c15_kmv_combine_globally_spec :
    forall (k : nat) (lifted : bool) (fan parts : nat) (ranks : list R),
      combine_globally (kmv_combiner ltb eqb k) lifted fan parts ranks
      = kmv_spec ltb eqb (Nat.max k 4) ranks.
  Proof. exact (kmv_global_spec ltb eqb ltb_irrefl ltb_trans ltb_total eqb_eq). Qed.

  (* PCollection::approx_distinct_count(k) *)
  Theorem c15_approx_distinct_count_spec :
    forall (k parts : nat) (ranks : list R),
      approx_distinct_count ltb eqb k parts ranks = kmv_spec ltb eqb (Nat.max k 4) ranks.
  Proof. exact (adc_spec ltb eqb ltb_irrefl ltb_trans ltb_total eqb_eq). Qed.

  (* PCollection::approx_distinct_count_per_key(k): one output per key that occurs, and it is
     the specification of exactly that key's ranks *)
  Theorem c15_approx_distinct_count_per_key_spec :
    forall (k : nat) (key : K) (parts : nat) (rows : list (K * R)),
      match approx_distinct_count_per_key ltb eqb keqb k key parts rows with
      | Some o => In key (map fst rows) /\
                  o = kmv_spec ltb eqb (Nat.max k 4) (mine keqb key rows)
      | None => ~ In key (map fst rows)
      end.
  Proof. exact (adck_spec ltb eqb keqb ltb_irrefl ltb_trans ltb_total eqb_eq keqb_eq). Qed.

  (* ... hence exact while the key has fewer distinct ranks than the sketch size, for EVERY
     sketch size (no hidden cap on the per-key state) *)
  Theorem c15_per_key_exact_below_k :
    forall (k : nat) (key : K) (parts : nat) (rows : list (K * R)),
      In key (map fst rows) ->
      length (usort ltb eqb (mine keqb key rows)) < Nat.max k 4 ->
      approx_distinct_count_per_key ltb eqb keqb k key parts rows
      = Some (KCount (length (usort ltb eqb (mine keqb key rows)))).
  Proof. exact (adck_exact_below_k ltb eqb keqb ltb_irrefl ltb_trans ltb_total eqb_eq keqb_eq). Qed.

  (* the twins agree: per key, the per-key helper returns what the global helper returns on that
     key's values, whatever the two partitionings *)
  Theorem c15_distinct_count_twins_agree :
    forall (k : nat) (key : K) (parts parts' : nat) (rows : list (K * R)),
      In key (map fst rows) ->
      approx_distinct_count_per_key ltb eqb keqb k key parts rows
      = Some (approx_distinct_count ltb eqb k parts' (mine keqb key rows)).
  Proof. exact (adc_twins_agree ltb eqb keqb ltb_irrefl ltb_trans ltb_total eqb_eq keqb_eq). Qed.

  (* combine_values_lifted over hand-grouped (key, Vec<value>) records: ALL records of a key
     count, also several inside one partition *)
  Theorem c15_kmv_lifted_groups_spec :
    forall (k : nat) (key : K) (parts : nat) (recs : list (K * list R)),
      match combine_values_lifted (kmv_combiner ltb eqb k) keqb key parts recs with
      | Some o => In key (map fst recs) /\
                  o = kmv_spec ltb eqb (Nat.max k 4) (concat (mine_groups keqb key recs))
      | None => ~ In key (map fst recs)
      end.
  Proof. exact (kmv_lifted_groups_spec ltb eqb keqb ltb_irrefl ltb_trans ltb_total eqb_eq keqb_eq). Qed.
End KMVStatements.

(* non-vacuity: integers as ranks *)
Lemma zltb_irrefl : forall a : Z, Z.ltb a a = false.
Proof. intro a. apply Z.ltb_irrefl. Qed.
Lemma zltb_trans : forall a b c : Z, Z.ltb a b = true -> Z.ltb b c = true -> Z.ltb a c = true.
Proof. intros a b c H1 H2. apply Z.ltb_lt in H1, H2. apply Z.ltb_lt. lia. Qed.
Lemma zltb_total : forall a b : Z, Z.ltb a b = false -> Z.ltb b a = false -> a = b.
Proof. intros a b H1 H2. apply Z.ltb_ge in H1, H2. lia. Qed.

Definition ex_e1 : aexpr Z :=
  (AMerge (AAdd (AAdd (AAdd ACreate 9) 2) 9) (AMerge (ABuild [7; 2; 5; 1; 7]) (AAdd ACreate 3)))%Z.
Definition ex_e2 : aexpr Z := ABuild [1; 2; 3; 5; 7; 9]%Z.

Example c15_kmv_represents_ex :
  k_items (aeval (kmv_combiner Z.ltb Z.eqb 4) ex_e1) = [1; 2; 3; 5]%Z /\
  ksmallest Z.ltb Z.eqb 4 (avalues ex_e1) = [1; 2; 3; 5]%Z.
Proof. split; reflexivity. Qed.

Example c15_kmv_distinct_ex : usort Z.ltb Z.eqb [9; 2; 9; 7; 2]%Z = [2; 7; 9]%Z.
Proof. reflexivity. Qed.

Example c15_kmv_exact_below_k_ex :
  length (usort Z.ltb Z.eqb (avalues ex_e1)) < Nat.max 7 4 /\
  kmv_finish (aeval (kmv_combiner Z.ltb Z.eqb 7) ex_e1) = KCount 6.
Proof. split; [cbn; lia | reflexivity]. Qed.

Example c15_kmv_partition_independent_ex :
  (forall x, In x (avalues ex_e1) <-> In x (avalues ex_e2)) /\
  kmv_finish (aeval (kmv_combiner Z.ltb Z.eqb 4) ex_e1) = KEstimate 4 5%Z /\
  kmv_finish (aeval (kmv_combiner Z.ltb Z.eqb 4) ex_e2) = KEstimate 4 5%Z.
Proof.
  split; [|split; reflexivity].
  intro x. cbn. intuition lia.
Qed.

Example c15_kmv_finish_spec_ex :
  kmv_spec Z.ltb Z.eqb 4 (avalues ex_e1) = KEstimate 4 5%Z /\
  kmv_spec Z.ltb Z.eqb 8 (avalues ex_e1) = KCount 6.
Proof. split; reflexivity. Qed.

Example c15_kmv_lawful_ex :
  lawful (kmv_combiner Z.ltb Z.eqb 2) (krep Z.ltb Z.eqb 4)
         (fun m o => o = kmv_spec Z.ltb Z.eqb 4 m).
Proof. exact (c15_kmv_lawful Z Z.ltb Z.eqb zltb_irrefl zltb_trans zltb_total Z.eqb_eq 2). Qed.

Example c15_kmv_usort_fast_ex :
  usort_fast Z.ltb Z.eqb [9; 2; 9; 7; 2; 11; 7]%Z = [2; 7; 9; 11]%Z.
Proof. reflexivity. Qed.

Example c15_kmv_fast_spec_ex :
  kmv_fast Z.ltb Z.eqb 4 (avalues ex_e1) = KEstimate 4 5%Z /\
  kmv_fast Z.ltb Z.eqb 8 (avalues ex_e1) = KCount 6.
Proof. split; reflexivity. Qed.

Example c15_kmv_oversized_k_ex :
  length (usort Z.ltb Z.eqb (avalues ex_e1)) < Nat.max 7 4 /\
  length (usort Z.ltb Z.eqb (avalues ex_e1)) < Nat.max 100 4 /\
  kmv_finish (aeval (kmv_combiner Z.ltb Z.eqb 7) ex_e1)
  = kmv_finish (aeval (kmv_combiner Z.ltb Z.eqb 100) ex_e1).
Proof. split; [cbn; lia|]. split; [cbn; lia | reflexivity]. Qed.

(* (key, rank) rows: key 1 has the ranks 5, 5, 9, 3; key 2 has 7, 1; key 3 has 4 *)
Definition ex_rows : list (Z * Z) := [(1, 5); (2, 7); (1, 5); (1, 9); (2, 1); (1, 3); (3, 4)]%Z.
(* hand-grouped records: key 1 occurs in three records *)
Definition ex_recs : list (Z * list Z) := [(1, [5; 9]); (2, [7]); (1, [3; 5]); (1, [11; 2])]%Z.

Example c15_kmv_combine_globally_spec_ex :
  combine_globally (kmv_combiner Z.ltb Z.eqb 4) true 2 3 (map snd ex_rows) = KEstimate 4 5%Z /\
  kmv_spec Z.ltb Z.eqb 4 (map snd ex_rows) = KEstimate 4 5%Z.
Proof. split; reflexivity. Qed.

Example c15_approx_distinct_count_spec_ex :
  approx_distinct_count Z.ltb Z.eqb 4 3 (map snd ex_rows) = KEstimate 4 5%Z /\
  approx_distinct_count Z.ltb Z.eqb 9 3 (map snd ex_rows) = KCount 6.
Proof. split; reflexivity. Qed.

Example c15_approx_distinct_count_per_key_spec_ex :
  approx_distinct_count_per_key Z.ltb Z.eqb Z.eqb 4 1%Z 2 ex_rows = Some (KCount 3) /\
  approx_distinct_count_per_key Z.ltb Z.eqb Z.eqb 4 5%Z 2 ex_rows = None.
Proof. split; reflexivity. Qed.

Example c15_per_key_exact_below_k_ex :
  In 1%Z (map fst ex_rows) /\
  length (usort Z.ltb Z.eqb (mine Z.eqb 1%Z ex_rows)) < Nat.max 4 4 /\
  approx_distinct_count_per_key Z.ltb Z.eqb Z.eqb 4 1%Z 3 ex_rows = Some (KCount 3).
Proof. split; [left; reflexivity|]. split; [cbn; lia | reflexivity]. Qed.

Example c15_distinct_count_twins_agree_ex :
  approx_distinct_count_per_key Z.ltb Z.eqb Z.eqb 4 1%Z 3 ex_rows
  = Some (approx_distinct_count Z.ltb Z.eqb 4 2 (mine Z.eqb 1%Z ex_rows)).
Proof. reflexivity. Qed.

Example c15_kmv_lifted_groups_spec_ex :
  combine_values_lifted (kmv_combiner Z.ltb Z.eqb 4) Z.eqb 1%Z 1 ex_recs = Some (KEstimate 4 9%Z) /\
  kmv_spec Z.ltb Z.eqb 4 (concat (mine_groups Z.eqb 1%Z ex_recs)) = KEstimate 4 9%Z.
Proof. split; reflexivity. Qed.

(* ================================================================ pipelines, generic *)

(* VecOpsImpl::split / the partition count of exec_par lose and duplicate nothing *)
Theorem c15_partitioning_complete :
  forall (A : Type) (l : list A) (parts : nat), concat (source_parts l parts) = l.
Proof. exact source_parts_concat. Qed.

Example c15_partitioning_complete_ex :
  source_parts ex_rows 3
  = [[(1, 5); (2, 7); (1, 5)]; [(1, 9); (2, 1); (1, 3)]; [(3, 4)]]%Z.
Proof. reflexivity. Qed.

(* For EVERY lawful combiner (Combiners/Lawful.v) the three entry points give the mathematical
   output: of all rows (global), of exactly the key's values (per key), of the values of all the
   key's records (lifted, hand-grouped) -- any partition count, any fan-out, lifted or not. *)
Theorem c15_combine_globally_lawful :
  forall (V A B : Type) (c : combiner V A B) (R : A -> list V -> Prop)
         (spec : list V -> B -> Prop),
    lawful c R spec ->
    forall (lifted : bool) (fan parts : nat) (rows : list V),
      spec rows (combine_globally c lifted fan parts rows).
Proof. exact (@combine_globally_spec). Qed.

Theorem c15_combine_values_lawful :
  forall (V A B : Type) (c : combiner V A B) (R : A -> list V -> Prop)
         (spec : list V -> B -> Prop),
    lawful c R spec ->
    forall (K : Type) (keqb : K -> K -> bool),
      (forall a b, keqb a b = true <-> a = b) ->
      forall (key : K) (parts : nat) (rows : list (K * V)),
        match combine_values c keqb key parts rows with
        | Some o => In key (map fst rows) /\ spec (mine keqb key rows) o
        | None => ~ In key (map fst rows)
        end.
Proof. exact (@combine_values_spec). Qed.

Theorem c15_combine_values_lifted_lawful :
  forall (V A B : Type) (c : combiner V A B) (R : A -> list V -> Prop)
         (spec : list V -> B -> Prop),
    lawful c R spec ->
    forall (K : Type) (keqb : K -> K -> bool),
      (forall a b, keqb a b = true <-> a = b) ->
      forall (key : K) (parts : nat) (recs : list (K * list V)),
        match combine_values_lifted c keqb key parts recs with
        | Some o => In key (map fst recs) /\ spec (concat (mine_groups keqb key recs)) o
        | None => ~ In key (map fst recs)
        end.
Proof. exact (@combine_values_lifted_spec). Qed.

Definition ex_kmv_lawful :=
  c15_kmv_lawful Z Z.ltb Z.eqb zltb_irrefl zltb_trans zltb_total Z.eqb_eq 4.

Example c15_combine_globally_lawful_ex :
  combine_globally (kmv_combiner Z.ltb Z.eqb 4) false 0 2 (map snd ex_rows)
  = kmv_spec Z.ltb Z.eqb 4 (map snd ex_rows).
Proof. exact (c15_combine_globally_lawful _ _ _ _ _ _ ex_kmv_lawful false 0 2 (map snd ex_rows)). Qed.

Example c15_combine_values_lawful_ex :
  combine_values (kmv_combiner Z.ltb Z.eqb 4) Z.eqb 2%Z 2 ex_rows = Some (KCount 2).
Proof. reflexivity. Qed.

Example c15_combine_values_lifted_lawful_ex :
  combine_values_lifted (kmv_combiner Z.ltb Z.eqb 4) Z.eqb 1%Z 2 ex_recs = Some (KEstimate 4 9%Z).
Proof. reflexivity. Qed.

(* ================================================================ t-digest through pipelines *)

(* ApproxQuantiles::new(qs, c) and ApproxMedian::new(c) are lawful: the accumulator satisfies the
   digest invariant for the finite inputs; every estimate is NaN (no finite input) or a rational
   between the smallest and the largest finite input, and exactly these for q <= 0 / q >= 1 *)
Theorem c15_quantiles_lawful :
  forall (qs : list X) (c : X), lawful (aq_combiner xarith qs c) td_R (aq_spec qs).
Proof. exact aq_lawful. Qed.

Theorem c15_median_lawful :
  forall c : X, lawful (am_combiner xarith c) td_R am_spec.
Proof. exact am_lawful. Qed.

Definition ex_xrows : list X := [Fin 3; NaN; Fin 1; PInf; Fin 2; Fin 10; Fin 4].
Definition ex_qs : list X := [Fin 0; Fin (1 # 2); Fin 1].
Definition xlist_eqb (a b : list X) : bool :=
  (length a =? length b)%nat && forallb (fun p => xeqb (fst p) (snd p)) (combine a b).

Example c15_quantiles_lawful_ex :
  xlist_eqb (c_finish (aq_combiner xarith ex_qs (Fin 100))
               (c_merge (aq_combiner xarith ex_qs (Fin 100))
                  (c_build (aq_combiner xarith ex_qs (Fin 100)) [Fin 3; NaN; Fin 1])
                  (fold_acc (aq_combiner xarith ex_qs (Fin 100)) [PInf; Fin 2; Fin 10; Fin 4])))
            [Fin 1; Fin (11 # 2); Fin 10] = true.
Proof. vm_compute. reflexivity. Qed.

Example c15_median_lawful_ex :
  xeqb (c_finish (am_combiner xarith (Fin 100)) (fold_acc (am_combiner xarith (Fin 100)) ex_xrows))
       (Fin (11 # 2)) = true.
Proof. vm_compute. reflexivity. Qed.

(* from_vec(rows).combine_globally(_lifted)(ApproxQuantiles::new(qs, c), fanout): one estimate per
   requested q, in the order of the request (aq_spec = Forall2 est_for), each NaN iff there is no
   finite row and otherwise inside the range of the finite rows, EXACTLY the smallest finite row
   for q <= 0 and the largest for q >= 1 -- any partition count, any fan-out *)
Theorem c15_pipeline_quantiles_in_range :
  forall (qs : list X) (c : X) (lifted : bool) (fan parts : nat) (rows : list X),
    aq_spec qs rows (combine_globally (aq_combiner xarith qs c) lifted fan parts rows).
Proof. exact quantiles_global_in_range. Qed.

Example c15_pipeline_quantiles_in_range_ex :
  xlist_eqb (combine_globally (aq_combiner xarith ex_qs (Fin 100)) true 2 3 ex_xrows)
            [Fin 1; Fin (11 # 2); Fin 10] = true /\
  fin_inputs ex_xrows = [(3, 1); (1, 1); (2, 1); (10, 1); (4, 1)]%Q.
Proof. split; [vm_compute; reflexivity | reflexivity]. Qed.

Theorem c15_pipeline_median_in_range :
  forall (c : X) (lifted : bool) (fan parts : nat) (rows : list X),
    am_spec rows (combine_globally (am_combiner xarith c) lifted fan parts rows).
Proof. exact median_global_in_range. Qed.

Example c15_pipeline_median_in_range_ex :
  xeqb (combine_globally (am_combiner xarith (Fin 100)) false 0 2 ex_xrows) (Fin (11 # 2)) = true.
Proof. vm_compute. reflexivity. Qed.

(* ... per key (combine_values; group_by_key().combine_values_lifted is planned as this) ... *)
Theorem c15_pipeline_quantiles_per_key_in_range :
  forall (K : Type) (keqb : K -> K -> bool), (forall a b, keqb a b = true <-> a = b) ->
  forall (qs : list X) (c : X) (key : K) (parts : nat) (rows : list (K * X)),
    match combine_values (aq_combiner xarith qs c) keqb key parts rows with
    | Some o => In key (map fst rows) /\ aq_spec qs (mine keqb key rows) o
    | None => ~ In key (map fst rows)
    end.
Proof. exact (@quantiles_per_key_in_range). Qed.

Theorem c15_pipeline_median_per_key_in_range :
  forall (K : Type) (keqb : K -> K -> bool), (forall a b, keqb a b = true <-> a = b) ->
  forall (c : X) (key : K) (parts : nat) (rows : list (K * X)),
    match combine_values (am_combiner xarith c) keqb key parts rows with
    | Some o => In key (map fst rows) /\ am_spec (mine keqb key rows) o
    | None => ~ In key (map fst rows)
    end.
Proof. exact (@median_per_key_in_range). Qed.

Definition ex_xkeyed : list (Z * X) :=
  [(1, Fin 3); (2, NaN); (1, Fin 1); (1, PInf); (2, Fin 2); (1, Fin 10); (2, NInf)]%Z.

Example c15_pipeline_quantiles_per_key_in_range_ex :
  match combine_values (aq_combiner xarith ex_qs (Fin 100)) Z.eqb 1%Z 2 ex_xkeyed with
  | Some o => xlist_eqb o [Fin 1; Fin (11 # 2); Fin 10]
  | None => false
  end = true.
Proof. vm_compute. reflexivity. Qed.

Example c15_pipeline_median_per_key_in_range_ex :
  match combine_values (am_combiner xarith (Fin 100)) Z.eqb 2%Z 2 ex_xkeyed with
  | Some o => xeqb o (Fin 2)
  | None => false
  end = true.
Proof. vm_compute. reflexivity. Qed.

(* ... and over hand-grouped (key, Vec<value>) records: the values of ALL the key's records *)
Theorem c15_pipeline_quantiles_lifted_groups_in_range :
  forall (K : Type) (keqb : K -> K -> bool), (forall a b, keqb a b = true <-> a = b) ->
  forall (qs : list X) (c : X) (key : K) (parts : nat) (recs : list (K * list X)),
    match combine_values_lifted (aq_combiner xarith qs c) keqb key parts recs with
    | Some o => In key (map fst recs) /\ aq_spec qs (concat (mine_groups keqb key recs)) o
    | None => ~ In key (map fst recs)
    end.
Proof. exact (@quantiles_lifted_groups_in_range). Qed.

Definition ex_xrecs : list (Z * list X) :=
  [(1, [Fin 3; Fin 8]); (2, [NaN]); (1, [Fin 1; PInf]); (1, [Fin 10])]%Z.

Example c15_pipeline_quantiles_lifted_groups_in_range_ex :
  match combine_values_lifted (aq_combiner xarith ex_qs (Fin 100)) Z.eqb 1%Z 1 ex_xrecs with
  | Some o => xlist_eqb o [Fin 1; Fin (11 # 2); Fin 10]   (* q = 0 / 1: min / max over ALL records *)
  | None => false
  end = true /\
  match combine_values_lifted (aq_combiner xarith ex_qs (Fin 100)) Z.eqb 2%Z 1 ex_xrecs with
  | Some [NaN; NaN; NaN] => true                          (* a key without a finite value *)
  | _ => false
  end = true.
Proof. split; vm_compute; reflexivity. Qed.

(* ApproxQuantiles::five_number_summary(c): [min, q1, median, q3, max] with the exact minimum
   first, the maximum last and the quartiles in between *)
Theorem c15_five_number_summary :
  forall (p : prog X), wf_prog p -> inputs p <> [] ->
    exists lo hi q1 q2 q3 hi',
      aq_finish xarith (qs_five_number xarith) (run xarith p)
      = [Fin lo; Fin q1; Fin q2; Fin q3; Fin hi'] /\
      is_lo lo (inputs p) /\ is_hi hi (inputs p) /\ (hi' == hi)%Q /\
      (lo <= q1 <= hi)%Q /\ (lo <= q2 <= hi)%Q /\ (lo <= q3 <= hi)%Q.
Proof. exact five_number_summary_spec. Qed.

Definition ex_five : prog X :=
  PAdd (PAdd (PAdd (PAdd (PAdd (PNew (Fin 100)) (Fin 4)) (Fin 1)) (Fin 3)) (Fin 2)) (Fin 5).

Example c15_five_number_summary_ex :
  wf_prog ex_five /\ inputs ex_five <> [] /\
  xlist_eqb (aq_finish xarith (qs_five_number xarith) (run xarith ex_five))
            [Fin 1; Fin (4 # 3); Fin 3; Fin (14 # 3); Fin 5] = true.
Proof.
  split; [vm_compute; tauto|]. split; [vm_compute; discriminate | vm_compute; reflexivity].
Qed.

(* ================================================================ cdf, merge, median twins *)

(* TDigest::cdf: 0 for the empty digest and below the minimum, 1 from the maximum on -- in every
   arithmetic instance *)
Theorem c15_cdf_ends :
  forall (T : Type) (A : arith T) (d : digest T) (x : T),
    (d_cents d = [] -> td_cdf A d x = a_zero A) /\
    (a_ltb A x (d_min d) = true -> td_cdf A d x = a_zero A) /\
    (d_cents d <> [] -> a_ltb A x (d_min d) = false -> a_leb A (d_max d) x = true ->
     td_cdf A d x = a_one A).
Proof. exact cdf_ends. Qed.

Example c15_cdf_ends_ex :
  td_cdf xarith (run xarith ex_five) (Fin (1 # 2)) = Fin 0 /\
  td_cdf xarith (run xarith ex_five) (Fin 5) = Fin 1 /\
  td_cdf xarith (run xarith (PNew (Fin 100))) (Fin 3) = Fin 0.
Proof. repeat split. Qed.

(* ... and always a rational in [0, 1], for every probe (also NaN / infinite) and every digest
   produced by new / add / add_weighted(weight >= 1) / merge / compress *)
Theorem c15_cdf_unit_interval :
  forall (p : prog X) (x : X), wf_prog p ->
    exists r, td_cdf xarith (run xarith p) x = Fin r /\ (0 <= r <= 1)%Q.
Proof. exact prog_cdf_unit_interval. Qed.

Example c15_cdf_unit_interval_ex :
  xeqb (td_cdf xarith (run xarith (PCompress ex_five)) (Fin (5 # 2))) (Fin (13 # 20)) = true /\
  xeqb (td_cdf xarith (run xarith ex_five) NaN) (Fin 1) = true.
Proof. split; vm_compute; reflexivity. Qed.

(* merging an empty digest is the identity (any arithmetic) *)
Theorem c15_merge_empty :
  forall (T : Type) (A : arith T) (d o : digest T),
    td_is_empty A o = true -> td_merge A d o = d.
Proof. exact merge_empty. Qed.

Example c15_merge_empty_ex :
  td_is_empty xarith (run xarith (PAdd (PNew (Fin 7)) NaN)) = true /\
  td_merge xarith (run xarith ex_five) (run xarith (PAdd (PNew (Fin 7)) NaN)) = run xarith ex_five.
Proof. split; reflexivity. Qed.

(* ApproxQuantiles::median(c) and ApproxMedian::new(c) give the same number (any arithmetic) *)
Theorem c15_median_twins :
  forall (T : Type) (A : arith T) (d : digest T),
    aq_finish A (qs_median A) d = [am_finish A d].
Proof. exact median_twins. Qed.

Example c15_median_twins_ex :
  xlist_eqb (aq_finish xarith (qs_median xarith) (run xarith ex_five)) [Fin 3] = true /\
  xeqb (am_finish xarith (run xarith ex_five)) (Fin 3) = true.
Proof. split; vm_compute; reflexivity. Qed.

(* ================================================================ exact-distinct helpers and
   "exact below the sketch size" in terms of VALUES (not ranks) *)

(* PCollection::distinct(): every distinct value exactly once, any partition count *)
Theorem c15_distinct_rows_spec :
  forall (T : Type) (veqb : T -> T -> bool), (forall x y, reflect (x = y) (veqb x y)) ->
  forall (parts : nat) (rows : list T),
    NoDup (distinct_rows veqb parts rows) /\
    forall x, In x (distinct_rows veqb parts rows) <-> In x rows.
Proof. exact (@distinct_rows_spec). Qed.

Example c15_distinct_rows_spec_ex :
  distinct_rows Z.eqb 3 [5; 7; 5; 9; 1; 3; 9; 4]%Z = [5; 7; 9; 1; 3; 4]%Z.
Proof. reflexivity. Qed.

(* PCollection::distinct_per_key(): for each key, every distinct value of that key once *)
Theorem c15_distinct_per_key_rows_spec :
  forall (T K : Type) (veqb : T -> T -> bool), (forall x y, reflect (x = y) (veqb x y)) ->
  forall (keqb : K -> K -> bool), (forall a b, keqb a b = true <-> a = b) ->
  forall (key : K) (parts : nat) (rows : list (K * T)),
    NoDup (distinct_per_key_rows veqb keqb key parts rows) /\
    forall x, In x (distinct_per_key_rows veqb keqb key parts rows) <-> In x (mine keqb key rows).
Proof. exact (@distinct_per_key_rows_spec). Qed.

Example c15_distinct_per_key_rows_spec_ex :
  distinct_per_key_rows Z.eqb Z.eqb 1%Z 2 ex_rows = [5; 9; 3]%Z /\
  distinct_per_key_rows Z.eqb Z.eqb 8%Z 2 ex_rows = [].
Proof. split; reflexivity. Qed.

(* THE PROPERTY'S SENTENCE "exact while the number of distinct values is below the sketch size":
   if no two distinct values of the input share a rank (no 64-bit hash collision), then
   approx_distinct_count(k) over the values' ranks is exactly the number of rows of distinct(),
   as long as that number is below max(k, 4) -- any two partitionings *)
Theorem c15_approx_count_is_distinct_count :
  forall (T R : Type) (veqb : T -> T -> bool), (forall x y, reflect (x = y) (veqb x y)) ->
  forall (ltb eqb : R -> R -> bool),
    (forall a, ltb a a = false) ->
    (forall a b c, ltb a b = true -> ltb b c = true -> ltb a c = true) ->
    (forall a b, ltb a b = false -> ltb b a = false -> a = b) ->
    (forall a b, eqb a b = true <-> a = b) ->
  forall (rank : T -> R) (k parts parts' : nat) (rows : list T),
    (forall x y, In x rows -> In y rows -> rank x = rank y -> x = y) ->
    length (distinct_rows veqb parts' rows) < Nat.max k 4 ->
    approx_distinct_count ltb eqb k parts (map rank rows)
    = KCount (length (distinct_rows veqb parts' rows)).
Proof. exact (@adc_counts_distinct_rows). Qed.

(* ... and the same for the per-key twin against distinct_per_key() *)
Theorem c15_approx_count_per_key_is_distinct_count :
  forall (T K R : Type) (veqb : T -> T -> bool), (forall x y, reflect (x = y) (veqb x y)) ->
  forall (keqb : K -> K -> bool), (forall a b, keqb a b = true <-> a = b) ->
  forall (ltb eqb : R -> R -> bool),
    (forall a, ltb a a = false) ->
    (forall a b c, ltb a b = true -> ltb b c = true -> ltb a c = true) ->
    (forall a b, ltb a b = false -> ltb b a = false -> a = b) ->
    (forall a b, eqb a b = true <-> a = b) ->
  forall (rank : T -> R) (k : nat) (key : K) (parts parts' : nat) (rows : list (K * T)),
    In key (map fst rows) ->
    (forall x y, In x (mine keqb key rows) -> In y (mine keqb key rows) -> rank x = rank y -> x = y) ->
    length (distinct_per_key_rows veqb keqb key parts' rows) < Nat.max k 4 ->
    approx_distinct_count_per_key ltb eqb keqb k key parts
      (map (fun kv => (fst kv, rank (snd kv))) rows)
    = Some (KCount (length (distinct_per_key_rows veqb keqb key parts' rows))).
Proof. exact (@adck_counts_distinct_rows). Qed.

(* ranks for the examples: an injective function of the value *)
Definition ex_rank (x : Z) : Z := (1000 - 7 * x)%Z.

Example c15_approx_count_is_distinct_count_ex :
  (forall x y, ex_rank x = ex_rank y -> x = y) /\
  length (distinct_rows Z.eqb 2 [5; 7; 5; 9; 1; 3; 9; 4]%Z) < Nat.max 8 4 /\
  approx_distinct_count Z.ltb Z.eqb 8 3 (map ex_rank [5; 7; 5; 9; 1; 3; 9; 4]%Z) = KCount 6.
Proof.
  split; [unfold ex_rank; intros x y H; lia|]. split; [cbn; lia | reflexivity].
Qed.

Example c15_approx_count_per_key_is_distinct_count_ex :
  In 1%Z (map fst ex_rows) /\
  length (distinct_per_key_rows Z.eqb Z.eqb 1%Z 2 ex_rows) < Nat.max 4 4 /\
  approx_distinct_count_per_key Z.ltb Z.eqb Z.eqb 4 1%Z 3
    (map (fun kv => (fst kv, ex_rank (snd kv))) ex_rows) = Some (KCount 3).
Proof. split; [left; reflexivity|]. split; [cbn; lia | reflexivity]. Qed.
