(* C15 (stub while the correspondence is brought up; replaced by the theorems) *)
From Coq Require Import List.
