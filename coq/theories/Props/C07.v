(* C07: joins return exactly the relational join of their two inputs.
   ONLY property theorems (each closed by `exact`) and non-vacuity examples. *)
From Coq Require Import List ZArith Bool Permutation.
From IB Require Import Engine.Val Engine.Ops Engine.AMap Engine.Nodes Engine.Exec Engine.Lang
     Engine.Denote Proofs.EngineJoin.
Import ListNotations.

Definition is_row (v : val) : Prop := match v with VPair _ _ => True | _ => False end.
Definition perm_oracle (sh : nat -> list val -> list val) : Prop :=
  forall i l, Permutation (sh i l) l.

(* the typed exec closure of each join kind returns the textbook join (Denote.d_join) as a
   multiset, for all inputs: duplicate keys on both sides (m x n rows), empty sides, disjoint keys *)
Theorem c07_join_exec_sound : forall sh kind site l r,
    perm_oracle sh -> Forall is_row l -> Forall is_row r ->
    Permutation (join_exec sh kind site l r) (d_join kind l r).
Proof. exact join_exec_sound. Qed.

(* the join does not care how its sides were partitioned: the CoGroup arm of both engines joins
   the concatenation of each side's partitions *)
Theorem c07_cogroup_arm : forall sh i kind tl tr tout lparts rparts,
    perm_oracle sh ->
    check_tags tl lparts = true -> check_tags tr rparts = true ->
    Forall is_row (concat (map snd lparts)) -> Forall is_row (concat (map snd rparts)) ->
    exists rows,
      run_cogroup sh i kind tl tr tout lparts rparts = Ok (tout, rows) /\
      Permutation rows (d_join kind (concat (map snd lparts)) (concat (map snd rparts))).
Proof. exact cogroup_arm_sound. Qed.

(* d_join respects permutation of either side: whatever order upstream barriers deliver *)
Theorem c07_join_respects_perm : forall kind l l' r r',
    Permutation l l' -> Permutation r r' -> Permutation (d_join kind l r) (d_join kind l' r').
Proof. exact d_join_perm. Qed.

(* a join fed by another join is rejected in both engines, never answered with a result *)
Theorem c07_nested_rejected_seq : forall sh site pre post p,
    run_subplan_seq sh site (pre ++ SNestedCoGroup :: post) <> Ok p.
Proof. exact nested_rejected_seq. Qed.
Theorem c07_nested_rejected_par : forall sh site pre post partitions ps,
    run_subplan_par sh site (pre ++ SNestedCoGroup :: post) partitions <> Ok ps.
Proof. exact nested_rejected_par. Qed.

Example c07_example :
  join_exec id_sh JFull 0
    [VPair (VInt 1) (VInt 10); VPair (VInt 1) (VInt 11); VPair (VInt 2) (VInt 20)]
    [VPair (VInt 1) (VInt 7); VPair (VInt 3) (VInt 9); VPair (VInt 1) (VInt 8)]
  = [VPair (VInt 1) (VPair (VSome (VInt 10)) (VSome (VInt 7)));
     VPair (VInt 1) (VPair (VSome (VInt 10)) (VSome (VInt 8)));
     VPair (VInt 1) (VPair (VSome (VInt 11)) (VSome (VInt 7)));
     VPair (VInt 1) (VPair (VSome (VInt 11)) (VSome (VInt 8)));
     VPair (VInt 2) (VPair (VSome (VInt 20)) VNone);
     VPair (VInt 3) (VPair VNone (VSome (VInt 9)))].
Proof. vm_compute. reflexivity. Qed.
