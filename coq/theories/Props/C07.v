(* C07: joins return exactly the relational join of their two inputs.
   ONLY property theorems (each closed by `exact`) and non-vacuity examples. *)
From Coq Require Import List ZArith Bool Arith Permutation.
From IB Require Import Engine.Val Engine.Ops Engine.AMap Engine.Nodes Engine.Exec Engine.Planner
     Engine.Lang Engine.Denote Engine.Static Engine.Classify Proofs.EngineJoin Proofs.EngineJoinSpec.
Import ListNotations.

Definition is_row (v : val) : Prop := match v with VPair _ _ => True | _ => False end.
Definition perm_oracle (sh : nat -> list val -> list val) : Prop :=
  forall i l, Permutation (sh i l) l.

(* the typed exec closure of each join kind returns the textbook join (Denote.d_join) as a
   multiset, for all inputs: duplicate keys on both sides (m x n rows), empty sides, disjoint keys *)
Theorem c07_join_exec_sound : forall sh kind site l r,
    perm_oracle sh -> Forall is_row l -> Forall is_row r ->
    Permutation (join_exec sh kind site l r) (d_join kind l r).
Proof. exact join_exec_sound. Qed.

(* the join does not care how its sides were partitioned: the CoGroup arm of both engines joins
   the concatenation of each side's partitions *)
Theorem c07_cogroup_arm : forall sh i kind tl tr tout lparts rparts,
    perm_oracle sh ->
    check_tags tl lparts = true -> check_tags tr rparts = true ->
    Forall is_row (concat (map snd lparts)) -> Forall is_row (concat (map snd rparts)) ->
    exists rows,
      run_cogroup sh i kind tl tr tout lparts rparts = Ok (tout, rows) /\
      Permutation rows (d_join kind (concat (map snd lparts)) (concat (map snd rparts))).
Proof. exact cogroup_arm_sound. Qed.

(* d_join respects permutation of either side: whatever order upstream barriers deliver *)
Theorem c07_join_respects_perm : forall kind l l' r r',
    Permutation l l' -> Permutation r r' -> Permutation (d_join kind l r) (d_join kind l' r').
Proof. exact d_join_perm. Qed.

(* a join fed by another join is rejected in both engines, never answered with a result *)
Theorem c07_nested_rejected_seq : forall sh site pre post p,
    run_subplan_seq sh site (pre ++ SNestedCoGroup :: post) <> Ok p.
Proof. exact nested_rejected_seq. Qed.
Theorem c07_nested_rejected_par : forall sh site pre post partitions ps,
    run_subplan_par sh site (pre ++ SNestedCoGroup :: post) partitions <> Ok ps.
Proof. exact nested_rejected_par. Qed.

Example c07_example :
  join_exec id_sh JFull 0
    [VPair (VInt 1) (VInt 10); VPair (VInt 1) (VInt 11); VPair (VInt 2) (VInt 20)]
    [VPair (VInt 1) (VInt 7); VPair (VInt 3) (VInt 9); VPair (VInt 1) (VInt 8)]
  = [VPair (VInt 1) (VPair (VSome (VInt 10)) (VSome (VInt 7)));
     VPair (VInt 1) (VPair (VSome (VInt 10)) (VSome (VInt 8)));
     VPair (VInt 1) (VPair (VSome (VInt 11)) (VSome (VInt 7)));
     VPair (VInt 1) (VPair (VSome (VInt 11)) (VSome (VInt 8)));
     VPair (VInt 2) (VPair (VSome (VInt 20)) VNone);
     VPair (VInt 3) (VPair VNone (VSome (VInt 9)))].
Proof. vm_compute. reflexivity. Qed.

(* ================= d_join IS the relational join, declaratively =================
   `Denote.d_join` is an executable definition (flat_map / filter). The theorems below pin it down
   without reference to how it is computed, for ALL lists of rows l and r (rows are `VPair k v`):
   how often every possible result row occurs (`count_occ` with the decidable equality
   `val_eq_dec` on values, EngineJoinSpec.v), that no other row occurs, and the total length.
   Together with c07_join_exec_sound / c07_cogroup_arm (the engines return a permutation of
   d_join, and Permutation preserves count_occ) this is the multiset the property describes. *)
Local Close Scope Z_scope.
Local Open Scope nat_scope.

(* ---- 1. matched rows: one row for every PAIR of a left and a right row with equal keys ---- *)
Theorem c07_inner_multiplicity : forall l r k v w, Forall is_row l -> Forall is_row r ->
    count_occ val_eq_dec (d_join JInner l r) (VPair k (VPair v w))
    = count_occ val_eq_dec l (VPair k v) * count_occ val_eq_dec r (VPair k w).
Proof. exact d_join_inner_count. Qed.
Theorem c07_left_matched_multiplicity : forall l r k v w, Forall is_row l -> Forall is_row r ->
    count_occ val_eq_dec (d_join JLeft l r) (VPair k (VPair v (VSome w)))
    = count_occ val_eq_dec l (VPair k v) * count_occ val_eq_dec r (VPair k w).
Proof. exact d_join_left_matched_count. Qed.
Theorem c07_right_matched_multiplicity : forall l r k v w, Forall is_row l -> Forall is_row r ->
    count_occ val_eq_dec (d_join JRight l r) (VPair k (VPair (VSome v) w))
    = count_occ val_eq_dec l (VPair k v) * count_occ val_eq_dec r (VPair k w).
Proof. exact d_join_right_matched_count. Qed.
Theorem c07_full_matched_multiplicity : forall l r k v w, Forall is_row l -> Forall is_row r ->
    count_occ val_eq_dec (d_join JFull l r) (VPair k (VPair (VSome v) (VSome w)))
    = count_occ val_eq_dec l (VPair k v) * count_occ val_eq_dec r (VPair k w).
Proof. exact d_join_full_matched_count. Qed.

Definition c07_L : list val :=
  [VPair (VInt 1) (VInt 10); VPair (VInt 1) (VInt 11); VPair (VInt 2) (VInt 20);
   VPair (VInt 1) (VInt 10); VPair (VInt 2) (VInt 20)].
Definition c07_R : list val :=
  [VPair (VInt 1) (VInt 7); VPair (VInt 3) (VInt 9); VPair (VInt 1) (VInt 8);
   VPair (VInt 1) (VInt 7); VPair (VInt 1) (VInt 7); VPair (VInt 3) (VInt 9)].
(* (1,10) twice on the left, (1,7) three times on the right: six copies of (1,(10,7)), in every
   join kind; (1,(11,8)) once *)
Example c07_example_matched_multiplicity :
  count_occ val_eq_dec (d_join JInner c07_L c07_R) (VPair (VInt 1) (VPair (VInt 10) (VInt 7))) = 6 /\
  count_occ val_eq_dec (d_join JLeft c07_L c07_R)
            (VPair (VInt 1) (VPair (VInt 10) (VSome (VInt 7)))) = 6 /\
  count_occ val_eq_dec (d_join JRight c07_L c07_R)
            (VPair (VInt 1) (VPair (VSome (VInt 10)) (VInt 7))) = 6 /\
  count_occ val_eq_dec (d_join JFull c07_L c07_R)
            (VPair (VInt 1) (VPair (VSome (VInt 10)) (VSome (VInt 7)))) = 6 /\
  count_occ val_eq_dec (d_join JFull c07_L c07_R)
            (VPair (VInt 1) (VPair (VSome (VInt 11)) (VSome (VInt 8)))) = 1 /\
  count_occ val_eq_dec c07_L (VPair (VInt 1) (VInt 10)) = 2 /\
  count_occ val_eq_dec c07_R (VPair (VInt 1) (VInt 7)) = 3.
Proof. vm_compute. repeat split; reflexivity. Qed.

(* ---- 2. unmatched rows: every unmatched row of the preserved side(s) exactly once (i.e. as often
   as it occurs in its input), other side absent; none for a key that has a partner ---- *)
Theorem c07_left_unmatched_multiplicity : forall l r k v, Forall is_row l -> Forall is_row r ->
    ((forall w, ~ In (VPair k w) r) ->
     count_occ val_eq_dec (d_join JLeft l r) (VPair k (VPair v VNone))
     = count_occ val_eq_dec l (VPair k v)) /\
    ((exists w, In (VPair k w) r) ->
     count_occ val_eq_dec (d_join JLeft l r) (VPair k (VPair v VNone)) = 0).
Proof. exact d_join_left_unmatched. Qed.
Theorem c07_right_unmatched_multiplicity : forall l r k w, Forall is_row l -> Forall is_row r ->
    ((forall v, ~ In (VPair k v) l) ->
     count_occ val_eq_dec (d_join JRight l r) (VPair k (VPair VNone w))
     = count_occ val_eq_dec r (VPair k w)) /\
    ((exists v, In (VPair k v) l) ->
     count_occ val_eq_dec (d_join JRight l r) (VPair k (VPair VNone w)) = 0).
Proof. exact d_join_right_unmatched. Qed.
Theorem c07_full_unmatched_multiplicity : forall l r k, Forall is_row l -> Forall is_row r ->
    (forall v,
        ((forall w, ~ In (VPair k w) r) ->
         count_occ val_eq_dec (d_join JFull l r) (VPair k (VPair (VSome v) VNone))
         = count_occ val_eq_dec l (VPair k v)) /\
        ((exists w, In (VPair k w) r) ->
         count_occ val_eq_dec (d_join JFull l r) (VPair k (VPair (VSome v) VNone)) = 0)) /\
    (forall w,
        ((forall v, ~ In (VPair k v) l) ->
         count_occ val_eq_dec (d_join JFull l r) (VPair k (VPair VNone (VSome w)))
         = count_occ val_eq_dec r (VPair k w)) /\
        ((exists v, In (VPair k v) l) ->
         count_occ val_eq_dec (d_join JFull l r) (VPair k (VPair VNone (VSome w))) = 0)).
Proof. exact d_join_full_unmatched. Qed.

(* key 2 only on the left ((2,20) twice), key 3 only on the right ((3,9) twice), key 1 on both *)
Example c07_example_unmatched_multiplicity :
  count_occ val_eq_dec (d_join JLeft c07_L c07_R) (VPair (VInt 2) (VPair (VInt 20) VNone)) = 2 /\
  count_occ val_eq_dec (d_join JLeft c07_L c07_R) (VPair (VInt 1) (VPair (VInt 10) VNone)) = 0 /\
  count_occ val_eq_dec (d_join JRight c07_L c07_R) (VPair (VInt 3) (VPair VNone (VInt 9))) = 2 /\
  count_occ val_eq_dec (d_join JRight c07_L c07_R) (VPair (VInt 1) (VPair VNone (VInt 7))) = 0 /\
  count_occ val_eq_dec (d_join JFull c07_L c07_R)
            (VPair (VInt 2) (VPair (VSome (VInt 20)) VNone)) = 2 /\
  count_occ val_eq_dec (d_join JFull c07_L c07_R)
            (VPair (VInt 3) (VPair VNone (VSome (VInt 9)))) = 2 /\
  count_occ val_eq_dec (d_join JFull c07_L c07_R)
            (VPair (VInt 1) (VPair (VSome (VInt 11)) VNone)) = 0 /\
  count_occ val_eq_dec (d_join JInner c07_L c07_R) (VPair (VInt 2) (VPair (VInt 20) VNone)) = 0.
Proof. vm_compute. repeat split; reflexivity. Qed.

(* ---- 3a. nothing else: a row is in the result IF AND ONLY IF it is a matched pair of a left and
   a right row with equal keys, or an unmatched row of a preserved side (no invented rows, no
   missing rows) ---- *)
Theorem c07_join_rows_exactly : forall kind l r x, Forall is_row l -> Forall is_row r ->
    (In x (d_join kind l r) <->
     match kind with
     | JInner =>
         exists k v w, In (VPair k v) l /\ In (VPair k w) r /\ x = VPair k (VPair v w)
     | JLeft =>
         (exists k v w, In (VPair k v) l /\ In (VPair k w) r /\ x = VPair k (VPair v (VSome w)))
         \/ (exists k v, In (VPair k v) l /\ (forall w, ~ In (VPair k w) r) /\
                         x = VPair k (VPair v VNone))
     | JRight =>
         (exists k v w, In (VPair k v) l /\ In (VPair k w) r /\ x = VPair k (VPair (VSome v) w))
         \/ (exists k w, In (VPair k w) r /\ (forall v, ~ In (VPair k v) l) /\
                         x = VPair k (VPair VNone w))
     | JFull =>
         (exists k v w, In (VPair k v) l /\ In (VPair k w) r /\
                        x = VPair k (VPair (VSome v) (VSome w)))
         \/ (exists k v, In (VPair k v) l /\ (forall w, ~ In (VPair k w) r) /\
                         x = VPair k (VPair (VSome v) VNone))
         \/ (exists k w, In (VPair k w) r /\ (forall v, ~ In (VPair k v) l) /\
                         x = VPair k (VPair VNone (VSome w)))
     end).
Proof. exact d_join_in_iff. Qed.

Example c07_example_no_invented_rows :
  ~ In (VPair (VInt 2) (VPair (VSome (VInt 20)) (VSome (VInt 9)))) (d_join JFull c07_L c07_R) /\
  ~ In (VPair (VInt 3) (VPair VNone (VInt 9))) (d_join JLeft c07_L c07_R) /\
  In (VPair (VInt 3) (VPair VNone (VInt 9))) (d_join JRight c07_L c07_R).
Proof.
  split; [|split].
  - apply (count_occ_not_In val_eq_dec). vm_compute. reflexivity.
  - apply (count_occ_not_In val_eq_dec). vm_compute. reflexivity.
  - apply (count_occ_In val_eq_dec). vm_compute. apply le_S, le_n.
Qed.

(* ---- 3b. the total number of rows: the sum over the left rows of the number of right rows with
   that key, plus the number of unmatched rows of the preserved side(s) ---- *)
Definition n_with_key (k : val) (rows : list val) : nat := count_occ val_eq_dec (map vfst rows) k.
Definition n_matched_pairs (l r : list val) : nat :=
  list_sum (map (fun lr => n_with_key (vfst lr) r) l).
Definition n_unmatched (l r : list val) : nat :=
  length (filter (fun lr => Nat.eqb (n_with_key (vfst lr) r) 0) l).

Theorem c07_join_length : forall kind l r,
    length (d_join kind l r) =
    match kind with
    | JInner => n_matched_pairs l r
    | JLeft => n_matched_pairs l r + n_unmatched l r
    | JRight => n_matched_pairs l r + n_unmatched r l
    | JFull => n_matched_pairs l r + n_unmatched l r + n_unmatched r l
    end.
Proof. exact d_join_length. Qed.
(* n_with_key counts the rows (k, _): it is 0 exactly when no row carries the key *)
Theorem c07_n_with_key_zero : forall k r, Forall is_row r ->
    (n_with_key k r = 0 <-> (forall w, ~ In (VPair k w) r)).
Proof. exact key_count_zero_iff. Qed.

Example c07_example_length :
  length (d_join JInner c07_L c07_R) = 12 /\ length (d_join JLeft c07_L c07_R) = 14 /\
  length (d_join JRight c07_L c07_R) = 14 /\ length (d_join JFull c07_L c07_R) = 16 /\
  n_matched_pairs c07_L c07_R = 12 /\ n_unmatched c07_L c07_R = 2 /\ n_unmatched c07_R c07_L = 2.
Proof. vm_compute. repeat split; reflexivity. Qed.

(* ---- 4. whole programs: for every classified step-language program whose LAST step is a join,
   both engines succeed, for every partition count, and return - as a multiset - the relational
   join (above) of the reference results of the two sides: `denote s pre` for the left prefix and
   `denote (SrcVec TKV rdata) rsteps` for the right side (a from_vec of (Val, Val) rows followed by
   rsteps). Upstream transforms (grouping, combining included) are whatever `pre` / `rsteps`
   contain. ---- *)
Theorem c07_denote_join_last : forall s pre kind rsteps rdata,
    denote s (pre ++ [SJoin kind rsteps rdata])
    = d_join kind (denote s pre) (denote (SrcVec TKV rdata) rsteps).
Proof. exact denote_join_last. Qed.

Theorem c07_program_join_last : forall s pre kind rsteps rdata t c parts,
    classify s (pre ++ [SJoin kind rsteps rdata]) = Some (t, c) ->
    reorder_noop (fuse (cs_chain (compile s (pre ++ [SJoin kind rsteps rdata])))) ->
    exists rs rp,
      run_seq s (pre ++ [SJoin kind rsteps rdata]) = Ok rs /\
      run_par s (pre ++ [SJoin kind rsteps rdata]) parts = Ok rp /\
      Permutation rs (d_join kind (denote s pre) (denote (SrcVec TKV rdata) rsteps)) /\
      Permutation rp (d_join kind (denote s pre) (denote (SrcVec TKV rdata) rsteps)).
Proof. exact program_join_last. Qed.
(* the order class of such a program is P (a multiset of (Val, Val) rows) *)
Theorem c07_join_last_class : forall s pre kind rsteps rdata t c,
    classify s (pre ++ [SJoin kind rsteps rdata]) = Some (t, c) -> t = TKV /\ c = P.
Proof. exact classify_join_last. Qed.

(* a grouped-and-combined left side joined (full outer) with a mapped-and-combined right side *)
Definition c07_prog_src : src :=
  SrcVec TU [VInt 3; VInt 1; VInt 2; VInt 7; VInt 4; VInt 9].
Definition c07_prog_pre : list step := [SKeyBy (FMod 3); SGroupByKey; SCombineValuesLifted CSum].
Definition c07_prog_rsteps : list step := [SMapValues (FAdd 1); SCombineValues CMax].
Definition c07_prog_rdata : list val :=
  [VPair (VInt 1) (VInt 5); VPair (VInt 5) (VInt 6); VPair (VInt 1) (VInt 8)].
Example c07_example_program_join_last :
  let steps := c07_prog_pre ++ [SJoin JFull c07_prog_rsteps c07_prog_rdata] in
  classify c07_prog_src steps = Some (TKV, P) /\
  denote c07_prog_src c07_prog_pre
  = [VPair (VInt 0) (VInt 12); VPair (VInt 1) (VInt 12); VPair (VInt 2) (VInt 2)] /\
  denote (SrcVec TKV c07_prog_rdata) c07_prog_rsteps
  = [VPair (VInt 1) (VInt 9); VPair (VInt 5) (VInt 7)] /\
  run_seq c07_prog_src steps
  = Ok [VPair (VInt 0) (VPair (VSome (VInt 12)) VNone);
        VPair (VInt 1) (VPair (VSome (VInt 12)) (VSome (VInt 9)));
        VPair (VInt 2) (VPair (VSome (VInt 2)) VNone);
        VPair (VInt 5) (VPair VNone (VSome (VInt 7)))] /\
  run_par c07_prog_src steps 3 = run_seq c07_prog_src steps.
Proof. vm_compute. repeat split; reflexivity. Qed.
