(* C17: validation passes exactly the valid records and accounts for every invalid one.
   ONLY the property theorems (each closed by `exact`) and their non-vacuity examples.

   Vocabulary (Validation/Model.v):
     validate : R -> vresult E        the user's `Validate::validate` (VOk | VErr errors)
     run_parts validate m hc ps       the validation operator applied to every partition of ps
                                      (sequential engine: ps = [input]; parallel: any chunking),
                                      Ok (per-partition (valid rows, appends)) or Panic
     output_of rs                     what collect_* returns (concatenation in partition order)
     interleaving (logs_of rs) coll   coll is a possible final content of the shared
                                      ErrorCollector: any shuffle of the per-partition append
                                      sequences that keeps each partition's own order
   All statements hold for every record type, every `validate`, every partitioning `ps` of the
   input and every interleaving. *)
From Coq Require Import List ZArith Bool Permutation Lia.
From IB Require Import Engine.Val Engine.Ops Engine.Nodes Engine.Planner
                       Validation.Model Validation.Pipe Validation.Tree
                       Proofs.ValidationProofs Proofs.ValidationTree.
Import ListNotations.
Local Open Scope nat_scope.

(* ---------- output = filter valid, exact order, any partitioning ---------- *)
Theorem c17_output_is_filter_valid :
  forall (R E : Type) (validate : R -> vresult E) (m : mode) (has_collector : bool)
         (input : list R) (ps : list (list R)),
    concat ps = input -> m <> FailFast ->
    exists rs, run_parts validate m has_collector ps = Ok rs /\
               output_of rs = filter (is_valid validate) input.
Proof. exact output_is_filter_valid_input. Qed.

(* keyed operator (the validate_values family): rows are kept whole, validity is that of the value *)
Theorem c17_output_is_filter_valid_keyed :
  forall (K V E : Type) (validate : V -> vresult E) (m : mode) (has_collector : bool)
         (input : list (K * V)) (ps : list (list (K * V))),
    concat ps = input -> m <> FailFast ->
    exists rs, run_parts_values validate m has_collector ps = Ok rs /\
               output_of rs = filter (fun kv => is_valid validate (snd kv)) input.
Proof. exact output_is_filter_valid_keyed. Qed.

Example c17_output_is_filter_valid_ex :
  exists rs, run_parts validate_z LogAndContinue true [[4; 5]; [8; 2; 12]; []]%Z = Ok rs /\
             output_of rs = [4; 8; 12]%Z /\
             filter (is_valid validate_z) [4; 5; 8; 2; 12]%Z = [4; 8; 12]%Z.
Proof. eexists. split; [vm_compute; reflexivity|]. split; vm_compute; reflexivity. Qed.

Example c17_output_is_filter_valid_keyed_ex :
  exists rs, run_parts_values validate_z SkipInvalid false
                              [[(1, 4); (2, 5)]; [(1, 6); (3, 8)]]%Z = Ok rs /\
             output_of rs = [(1, 4); (3, 8)]%Z.
Proof. eexists. split; vm_compute; reflexivity. Qed.

(* ---------- log mode: the collector, for ANY interleaving ----------
   (1) the collector is, as a multiset, exactly the entries (partition-local position, errors) of
       the invalid records of every partition;
   (2) hence its errors payloads are, as a multiset, exactly [errors r | r in input, r invalid]:
       one entry per invalid record, carrying that record's errors;
   (3) error_count = number of invalid records;  (4) |output| + error_count = |input|. *)
Theorem c17_log_accounting :
  forall (R E : Type) (validate : R -> vresult E) (input : list R) (ps : list (list R))
         (rs : list (list R * list (entry E))) (coll : list (entry E)),
    concat ps = input ->
    run_parts validate LogAndContinue true ps = Ok rs ->
    interleaving (logs_of rs) coll ->
    Permutation coll (flat_map (local_entries validate) ps) /\
    Permutation (map (@e_errors E) coll) (invalid_errors validate input) /\
    length coll = count_invalid validate input /\
    length (output_of rs) + length coll = length input.
Proof. exact log_accounting_input. Qed.

Theorem c17_log_accounting_keyed :
  forall (K V E : Type) (validate : V -> vresult E) (input : list (K * V))
         (ps : list (list (K * V))) (rs : list (list (K * V) * list (entry E)))
         (coll : list (entry E)),
    concat ps = input ->
    run_parts_values validate LogAndContinue true ps = Ok rs ->
    interleaving (logs_of rs) coll ->
    Permutation (map (@e_errors E) coll)
                (invalid_errors validate (map snd input)) /\
    length coll = count_invalid validate (map snd input) /\
    length (output_of rs) + length coll = length input.
Proof. exact log_accounting_keyed. Qed.

(* What the record identifier of an entry is. `record_{idx}` / `pair_{idx}` is the position of
   the record in the PARTITION the operator instance saw, not in the input. Guaranteed:
   every entry (idx, errors) is explained by a record at position idx of some partition whose
   validation returned exactly these errors, and every invalid record of every partition has its
   entry. Identifiers may therefore repeat across partitions (see the example); they are global
   positions only when there is a single partition (sequential engine), where the collector is
   moreover in input order. *)
Theorem c17_log_record_ids :
  forall (R E : Type) (validate : R -> vresult E) (ps : list (list R))
         (rs : list (list R * list (entry E))) (coll : list (entry E)),
    run_parts validate LogAndContinue true ps = Ok rs ->
    interleaving (logs_of rs) coll ->
    (forall e, In e coll ->
               exists p r, In p ps /\ nth_error p (e_idx e) = Some r /\
                           validate r = VErr (e_errors e)) /\
    (forall p i r es, In p ps -> nth_error p i = Some r -> validate r = VErr es ->
                      In (mk_entry i es) coll).
Proof. exact (@log_record_ids). Qed.

Theorem c17_log_sequential_exact :
  forall (R E : Type) (validate : R -> vresult E) (input : list R)
         (rs : list (list R * list (entry E))) (coll : list (entry E)),
    run_parts validate LogAndContinue true [input] = Ok rs ->
    interleaving (logs_of rs) coll ->
    coll = local_entries validate input /\ output_of rs = filter (is_valid validate) input.
Proof. exact (@log_sequential_exact). Qed.

(* two partitions, the second one's appends overtaking the first one's: still one entry per
   invalid record; both invalid records are `record_1` of their partition *)
Example c17_log_accounting_ex :
  let ps := [[4; 5]; [8; 2; 12]]%Z in
  let coll := [mk_entry 1 [8; 9]; mk_entry 1 [20]]%Z in
  exists rs, run_parts validate_z LogAndContinue true ps = Ok rs /\
             interleaving (logs_of rs) coll /\
             logs_of rs = [[mk_entry 1 [20]]; [mk_entry 1 [8; 9]]]%Z /\
             invalid_errors validate_z (concat ps) = [[20]; [8; 9]]%Z /\
             count_invalid validate_z (concat ps) = 2 /\
             length (output_of rs) + length coll = length (concat ps).
Proof.
  eexists. split; [vm_compute; reflexivity|]. split.
  - cbn [logs_of map snd].
    apply (il_step [[mk_entry 1 [20%Z]]] (mk_entry 1 [8; 9]%Z) [] []). cbn [app].
    apply (il_step [] (mk_entry 1 [20%Z]) [] [[]]). cbn [app].
    apply il_done. repeat constructor.
  - repeat split; vm_compute; reflexivity.
Qed.

Example c17_log_sequential_exact_ex :
  exists rs, run_parts validate_z LogAndContinue true [[4; 5; 8; 2; 12]%Z] = Ok rs /\
             logs_of rs = [[mk_entry 1 [20]; mk_entry 3 [8; 9]]]%Z /\
             local_entries validate_z [4; 5; 8; 2; 12]%Z = [mk_entry 1 [20]; mk_entry 3 [8; 9]]%Z.
Proof. eexists. repeat split; vm_compute; reflexivity. Qed.

(* there always is an interleaving (e.g. partition after partition), so the statements above are
   not vacuous for any run *)
Theorem c17_interleaving_exists :
  forall (A : Type) (ls : list (list A)), interleaving ls (concat ls).
Proof. exact interleaving_concat. Qed.

(* ---------- skip mode, fail-fast mode and log mode without a collector write nothing ---------- *)
Theorem c17_skip_collects_nothing :
  forall (R E : Type) (validate : R -> vresult E) (m : mode) (has_collector : bool)
         (ps : list (list R)) (rs : list (list R * list (entry E))) (coll : list (entry E)),
    (m = LogAndContinue -> has_collector = false) ->
    run_parts validate m has_collector ps = Ok rs ->
    interleaving (logs_of rs) coll -> coll = [].
Proof. exact (@nothing_collected). Qed.

Example c17_skip_collects_nothing_ex :
  exists rs, run_parts validate_z SkipInvalid true [[1; 4]; [2]]%Z = Ok rs /\
             output_of rs = [4]%Z /\ logs_of rs = [[]; []].
Proof. eexists. repeat split; vm_compute; reflexivity. Qed.

(* ---------- one collector shared by several runs ----------
   `run_effect validate m hc ps before after`: a run on a collector that already holds `before`
   leaves `after`. A log-mode run with the collector attached appends exactly one entry per invalid
   record of THAT run (whatever earlier runs did, including earlier fail-fast runs that panicked);
   every other run -- skip mode, no collector attached, fail-fast whether it completes or panics --
   leaves the content exactly as it was. *)
Theorem c17_collector_across_runs :
  forall (R E : Type) (validate : R -> vresult E) (m : mode) (has_collector : bool)
         (ps : list (list R)) (before after : list (entry E)),
    run_effect validate m has_collector ps before after ->
    (m = LogAndContinue -> has_collector = true ->
     exists app, after = before ++ app /\
                 Permutation app (flat_map (local_entries validate) ps) /\
                 Permutation (map (@e_errors E) app) (invalid_errors validate (concat ps)) /\
                 length after = length before + count_invalid validate (concat ps)) /\
    ((m = LogAndContinue -> has_collector = false) -> after = before).
Proof. exact collector_across_runs. Qed.

(* a fail-fast run that panics on a collector holding one entry, then a log run on it *)
Example c17_collector_across_runs_ex :
  let before := [mk_entry 0 [4]]%Z in
  run_effect validate_z FailFast true [[4; 5]]%Z before before /\
  run_effect validate_z LogAndContinue true [[4; 5]; [2]]%Z before
             (before ++ [mk_entry 0 [8; 9]; mk_entry 1 [20]])%Z.
Proof.
  split.
  - apply re_panicked. vm_compute. reflexivity.
  - eapply re_completed; [vm_compute; reflexivity|].
    cbn [logs_of map snd].
    apply (il_step [[mk_entry 1 [20%Z]]] (mk_entry 0 [8; 9]%Z) [] []). cbn [app].
    apply (il_step [] (mk_entry 1 [20%Z]) [] [[]]). cbn [app].
    apply il_done. repeat constructor.
Qed.

(* ---------- fail-fast: the run panics iff some record is invalid; else output = input ---------- *)
Theorem c17_fail_fast_iff :
  forall (R E : Type) (validate : R -> vresult E) (has_collector : bool) (ps : list (list R)),
    (run_parts validate FailFast has_collector ps = Panic <->
     exists r, In r (concat ps) /\ is_valid validate r = false) /\
    ((forall r, In r (concat ps) -> is_valid validate r = true) ->
     exists rs, run_parts validate FailFast has_collector ps = Ok rs /\
                output_of rs = concat ps /\
                forall coll, interleaving (logs_of rs) coll -> coll = []) /\
    (run_parts validate FailFast has_collector ps = Panic \/
     exists rs, run_parts validate FailFast has_collector ps = Ok rs).
Proof. exact (@fail_fast_iff). Qed.

Example c17_fail_fast_iff_ex :
  run_parts validate_z FailFast false [[4; 8]; [12; 3]]%Z = Panic /\
  (exists rs, run_parts validate_z FailFast false [[4; 8]; [12; 16]]%Z = Ok rs /\
              output_of rs = [4; 8; 12; 16]%Z).
Proof. split; [vm_compute; reflexivity|]. eexists. split; vm_compute; reflexivity. Qed.

(* ---------- the planner never moves a validation operator ----------
   flags as in src/helpers/validation.rs: ValidateOp (kp, vo, rs, cost) = (f, f, f, 10),
   ValidateValuesOp = (t, t, f, 10). The reorder pass sorts a fused block only if ALL its
   operators are value-only, key-preserving and reorder-safe; so any block that contains an
   operator that is not reorder-safe -- in particular a validation operator -- is left exactly as
   written, and so is every chain made of such blocks. *)
Theorem c17_validate_not_reordered :
  (forall (E : Type) (t : tag) (v : val -> vresult E) (m : mode) (hc : bool) (uid : nat),
      (op_kp (op_validate t v m hc uid), op_vo (op_validate t v m hc uid),
       op_rs (op_validate t v m hc uid), op_cost (op_validate t v m hc uid))
      = (false, false, false, 10) /\
      (op_kp (op_validate_values t v m hc uid), op_vo (op_validate_values t v m hc uid),
       op_rs (op_validate_values t v m hc uid), op_cost (op_validate_values t v m hc uid))
      = (true, true, false, 10)) /\
  (forall ops, (exists o, In o ops /\ op_rs o = false) -> reorder_ops ops = ops) /\
  (forall pre o post, is_validation_op o -> reorder_ops (pre ++ o :: post) = pre ++ o :: post) /\
  (forall c,
      Forall (fun n => match n with
                       | NB (BStateless ops) => exists o, In o ops /\ op_rs o = false
                       | _ => True
                       end) c ->
      reorder c = c).
Proof. exact not_reordered_all. Qed.

(* a block the planner WOULD sort (cost-3 map_values before cost-1 filter_values) stays as written
   once a validate_values sits in it *)
Example c17_validate_not_reordered_ex :
  let mv := op_map_values T_KV T_KV (f_add 1) 0 in
  let vv := op_validate_values T_KV validate_val LogAndContinue true 1 in
  let fv := op_filter_values T_KV (p_modne 2 0) 2 in
  map op_uid (reorder_ops [mv; fv]) = [2; 0] /\
  map op_uid (reorder_ops [mv; vv; fv]) = [0; 1; 2] /\
  is_validation_op vv.
Proof.
  split; [vm_compute; reflexivity|]. split; [vm_compute; reflexivity|].
  exists Z, T_KV, validate_val, LogAndContinue, true, 1. right. reflexivity.
Qed.

(* ---------- combine_validations ----------
   Ok iff every part is Ok; otherwise Err of all errors of all parts, in order (possibly the empty
   list, when the failed parts carry no error). *)
Theorem c17_combine_validations :
  forall (E : Type) (rs : list (vresult E)),
    (combine_validations rs = VOk <-> Forall (fun r => r = VOk) rs) /\
    (~ Forall (fun r => r = VOk) rs ->
     combine_validations rs = VErr (flat_map result_errors rs)).
Proof. exact combine_all. Qed.

Example c17_combine_validations_ex :
  combine_validations [VOk; VErr [1; 2]; VOk; VErr [3]]%Z = VErr [1; 2; 3]%Z /\
  combine_validations [VOk; VOk] = @VOk Z /\
  combine_validations [VOk; VErr []] = @VErr Z [] /\
  ~ Forall (fun r => r = VOk) [VOk; @VErr Z []].
Proof.
  split; [reflexivity|]. split; [reflexivity|]. split; [reflexivity|].
  intros H. inversion H as [|? ? _ H2]. inversion H2 as [|? ? H3 _]. discriminate H3.
Qed.

(* regression documented (finding repaired in /repo commit 2f7c47a): the OLD definition
   (`if all_errors.is_empty() { Ok } else { Err }`) reported a failed part without errors as
   success; the current one returns Err [] on the same input *)
Theorem c17_combine_validations_old_refuted :
  exists (rs : list (vresult Z)),
    ~ Forall (fun r => r = VOk) rs /\ combine_validations_old rs = VOk /\
    combine_validations rs = VErr [].
Proof. exact combine_old_refuted. Qed.


(* ====================================================================================
   Branching pipelines and every validation builder among the other element-wise builders
   (Validation/Tree.v).  Vocabulary:
     tg_apply_transform g parent s   PCollection::apply_transform (all five validation builders):
                                     a fresh Stateless node + an edge parent -> node, returns the
                                     new handle and the new graph
     tg_chain g h                    planner.rs backwalk_linear from the handle h
     tbuild script                   from_vec, then one builder call per (parent handle, step)
     lineages script                 per handle: its steps between the source and it, as written
     tcollect g h ps                 collect on handle h, source partitioned as ps: the planned
                                     block on every partition (result, appends per partition)
     den_steps ss rows               list semantics of the steps ss in written order: output or
                                     None (a fail-fast step met an invalid record), and the
                                     (collector, family, errors) payloads appended
   ==================================================================================== *)

(* ---------- handles are immutable ----------
   Attaching a step to a collection gives a NEW handle whose chain is the parent's chain plus the
   new node; the chain of every handle that existed before (the parent, its other children,
   anything else) is exactly what it was.  So one collection can feed several validation steps. *)
Theorem c17_handles_immutable :
  forall (g : tgraph) (p : nat) (s : tstep) (id : nat) (g' : tgraph),
    tg_fresh g -> p < tg_next g -> tg_apply_transform g p s = (id, g') ->
    id = tg_next g /\ tg_next g' = S (tg_next g) /\ tg_fresh g' /\
    tg_chain g' id = match tg_chain g p with
                     | Some c => Some (c ++ [TNOp s])
                     | None => None
                     end /\
    (forall h, h < tg_next g -> tg_chain g' h = tg_chain g h).
Proof. exact apply_transform_chains. Qed.

(* source -> map(+1); a log-mode validation attached to the map step *)
Example c17_handles_immutable_ex :
  let g := fst (tbuild [(0, TMap 1)]) in
  let s := TValidate (BWithMode LogAndContinue (Some 0)) in
  tg_fresh g /\ 1 < tg_next g /\
  tg_chain g 1 = Some [TNSource; TNOp (TMap 1)] /\
  tg_chain (snd (tg_apply_transform g 1 s)) 2 = Some [TNSource; TNOp (TMap 1); TNOp s] /\
  tg_chain (snd (tg_apply_transform g 1 s)) 1 = Some [TNSource; TNOp (TMap 1)].
Proof.
  cbv zeta. split.
  - split; cbn.
    + intros k n H. repeat (destruct H as [H|H]; [injection H as H _; subst k; lia|]). contradiction.
    + intros a b H. repeat (destruct H as [H|H]; [injection H as Ha Hb; subst a b; lia|]).
      contradiction.
  - split; [cbn; lia|]. repeat split; vm_compute; reflexivity.
Qed.

(* ---------- collect runs the handle's own lineage ----------
   For every build script (every call names an existing handle) and ANY continuation `more` of it:
   collecting handle h runs exactly the steps of h's lineage, as computed from the script up to
   the call that created h. *)
Theorem c17_tree_collect_is_lineage :
  forall (script more : list (nat * tstep)) (h : nat) (ps : list (list val)),
    script_wf 1 (script ++ more) = true -> h <= length script ->
    tcollect (fst (tbuild (script ++ more))) (nth h (snd (tbuild (script ++ more))) 0) ps =
    Some (trun_parts (nth h (lineages script) []) ps).
Proof. exact tree_collect. Qed.

(* parent = source.map(+1) (handle 1); children: log to collector 0 (handle 2), fail-fast
   (handle 3), log to collector 1 (handle 4).  Handle 2 computes the same before and after the
   siblings are attached; the fail-fast sibling panics, the others do not. *)
Example c17_tree_collect_is_lineage_ex :
  let script := [(0, TMap 1); (1, TValidate (BWithMode LogAndContinue (Some 0)))] in
  let more := [(1, TValidate BFailFast); (1, TValidate (BWithMode LogAndContinue (Some 1)))] in
  let ps := [[VInt 3; VInt 4]; [VInt 7]]%Z in
  script_wf 1 (script ++ more) = true /\
  nth 2 (lineages script) [] = [TMap 1; TValidate (BWithMode LogAndContinue (Some 0))] /\
  tcollect (fst (tbuild script)) 2 ps = tcollect (fst (tbuild (script ++ more))) 2 ps /\
  option_map tresult (tcollect (fst (tbuild (script ++ more))) 2 ps) = Some (Ok [VInt 4; VInt 8]%Z) /\
  option_map tresult (tcollect (fst (tbuild (script ++ more))) 3 ps) = Some Panic /\
  option_map tresult (tcollect (fst (tbuild (script ++ more))) 1 ps)
  = Some (Ok [VInt 4; VInt 5; VInt 8]%Z).
Proof. repeat split; vm_compute; reflexivity. Qed.

(* ---------- every validation builder pins its block ----------
   A lineage that contains a validation builder (general entry point or wrapper, keyed or not)
   anywhere is planned exactly as written. *)
Theorem c17_validation_pins_lineage :
  forall ss : list tstep, existsb is_tvalidation ss = true -> plan_tsteps ss = ss.
Proof. exact plan_tsteps_pinned. Qed.

(* map_values then filter_values alone is sorted by the planner (filter first); with the keyed
   skip wrapper behind them the written order stays *)
Example c17_validation_pins_lineage_ex :
  plan_tsteps [TMapValues 1; TFilterValues 2 0] = [TFilterValues 2 0; TMapValues 1] /\
  plan_tsteps [TMapValues 1; TFilterValues 2 0; TValidateValues BSkipInvalid]
  = [TMapValues 1; TFilterValues 2 0; TValidateValues BSkipInvalid] /\
  existsb is_tvalidation [TMapValues 1; TFilterValues 2 0; TValidateValues BSkipInvalid] = true.
Proof. repeat split; vm_compute; reflexivity. Qed.

(* ---------- list semantics in written order, for every partitioning ----------
   A lineage with a validation builder anywhere in it -- after, between or before map, filter,
   key_by, map_values, filter_values, map_values_batches -- run on ANY partitioning of the input:
   if the list semantics completes, the run completes with exactly that output and every
   interleaving of the per-partition appends carries, as a multiset, exactly the payloads of the
   list semantics (one per invalid record reaching a log-mode step with a collector, in the
   right collector); if a fail-fast step meets an invalid record the run panics. *)
Theorem c17_tree_list_semantics :
  forall (ss : list tstep) (input : list val) (ps : list (list val)),
    existsb is_tvalidation ss = true -> concat ps = input ->
    match den_steps ss input with
    | (Some out, pl) =>
        tresult (trun_parts ss ps) = Ok out /\
        forall coll, interleaving (tlogs (trun_parts ss ps)) coll ->
                     Permutation (map tentry_payload coll) pl
    | (None, _) => tresult (trun_parts ss ps) = Panic
    end.
Proof. exact tree_list_semantics. Qed.

(* the keyed skip wrapper AFTER a value transform judges the transformed values: (1,3) and (2,7)
   become valid under +1, (1,4) becomes invalid *)
Example c17_tree_list_semantics_ex :
  let ss := [TMapValues 1; TValidateValues BSkipInvalid;
             TValidateValues (BWithMode LogAndContinue (Some 2))] in
  let kv k v := VPair (VInt k) (VInt v) in
  existsb is_tvalidation ss = true /\
  den_steps ss [kv 1 3; kv 1 4; kv 2 7]%Z = (Some [kv 1 4; kv 2 8]%Z, []) /\
  tresult (trun_parts ss [[kv 1 3]; [kv 1 4; kv 2 7]]%Z) = Ok [kv 1 4; kv 2 8]%Z /\
  den_steps [TValidateValues (BWithMode LogAndContinue (Some 2)); TMapValues 1]
            [kv 1 3; kv 1 4]%Z = (Some [kv 1 5]%Z, [(2, true, [12; 13; 14]%Z)]) /\
  fst (den_steps [TMap 1; TValidate BFailFast] [VInt 3; VInt 4]%Z) = None.
Proof. repeat split; vm_compute; reflexivity. Qed.

(* ---------- sequential engine: exact, also when the run fails ----------
   With one partition the run's result and its appends (per collector, in order) are exactly
   those of the list semantics; in particular when a fail-fast step fails, the log-mode steps in
   front of it have already written one entry per invalid record they saw, and nothing else is
   written. *)
Theorem c17_tree_sequential_exact :
  forall (ss : list tstep) (input : list val),
    existsb is_tvalidation ss = true ->
    tresult (trun_parts ss [input]) =
      match fst (den_steps ss input) with Some out => Ok out | None => Panic end /\
    map (map tentry_payload) (tlogs (trun_parts ss [input])) = [snd (den_steps ss input)].
Proof. exact tree_sequential_exact. Qed.

(* log to collector 1, then +1, then fail-fast: 5 and 7 are logged and dropped, 4 becomes 5 and
   fails the run -- both entries are in the collector although the run panicked *)
Example c17_tree_sequential_exact_ex :
  let ss := [TValidate (BWithMode LogAndContinue (Some 1)); TMap 1; TValidate BFailFast] in
  existsb is_tvalidation ss = true /\
  den_steps ss [VInt 4; VInt 5; VInt 7]%Z = (None, [(1, false, [20]%Z); (1, false, [28; 29; 30]%Z)]) /\
  tresult (trun_parts ss [[VInt 4; VInt 5; VInt 7]%Z]) = Panic.
Proof. repeat split; vm_compute; reflexivity. Qed.

(* ---------- a failing run: what the collectors may hold afterwards ----------
   Let every partition run to its own end, completed or panicked at a fail-fast step (the parallel
   engine gives no more than that: some partitions may not even have started).  Everything
   appended is, as a multiset, part of what the list semantics appends when the fail-fast steps
   are replaced by skip steps (relax_step): no entry for a record that no log-mode step could
   have seen, no duplicates.  `run_pay ss p` = the payloads partition p appends. *)
Theorem c17_tree_panic_bound :
  forall (ss : list tstep) (ps : list (list val)),
    exists rest,
      Permutation (snd (den_steps (map relax_step ss) (concat ps)))
                  (concat (map (run_pay ss) ps) ++ rest).
Proof. exact tree_panic_bound. Qed.

(* log (collector 0), then -8, then fail-fast: the first partition fails (4 - 8 < 0) after logging
   5, the second completes after logging 6; the bound holds with nothing to spare *)
Example c17_tree_panic_bound_ex :
  let ss := [TValidate (BWithMode LogAndContinue (Some 0)); TMap (-8); TValidate BFailFast] in
  let ps := [[VInt 4; VInt 5]; [VInt 6; VInt 8]]%Z in
  map (run_fst ss) ps = [Panic; Ok [VInt 0]] /\
  concat (map (run_pay ss) ps) = [(0, false, [20]%Z); (0, false, [24; 25]%Z)] /\
  snd (den_steps (map relax_step ss) (concat ps)) = [(0, false, [20]%Z); (0, false, [24; 25]%Z)].
Proof. repeat split; vm_compute; reflexivity. Qed.

(* ---------- branching + written order together ----------
   In any pipeline tree, whatever else is attached before or after, a handle whose lineage
   contains a validation builder computes the list semantics of its own lineage. *)
Theorem c17_branch_validation :
  forall (script more : list (nat * tstep)) (h : nat) (input : list val) (ps : list (list val)),
    script_wf 1 (script ++ more) = true -> h <= length script ->
    existsb is_tvalidation (nth h (lineages script) []) = true -> concat ps = input ->
    exists rs,
      tcollect (fst (tbuild (script ++ more))) (nth h (snd (tbuild (script ++ more))) 0) ps
      = Some rs /\
      match den_steps (nth h (lineages script) []) input with
      | (Some out, pl) =>
          tresult rs = Ok out /\
          forall coll, interleaving (tlogs rs) coll -> Permutation (map tentry_payload coll) pl
      | (None, _) => tresult rs = Panic
      end.
Proof. exact tree_branch_semantics. Qed.

Example c17_branch_validation_ex :
  let script := [(0, TMap 1); (1, TValidate (BWithMode LogAndContinue (Some 0)))] in
  let more := [(1, TValidate BFailFast); (2, TKeyBy 3)] in
  script_wf 1 (script ++ more) = true /\
  existsb is_tvalidation (nth 2 (lineages script) []) = true /\
  den_steps (nth 2 (lineages script) []) [VInt 3; VInt 4; VInt 7]%Z
  = (Some [VInt 4; VInt 8]%Z, [(0, false, [20]%Z)]) /\
  nth 2 (snd (tbuild (script ++ more))) 0 = 2.
Proof. repeat split; vm_compute; reflexivity. Qed.

(* ---------- the convenience wrappers ----------
   validate_skip_invalid / validate_fail_fast / validate_values_skip_invalid build the operator
   their general twin builds with (mode, None): same planner-visible operator (flags, body), same
   plan, same run on every partitioning, same list semantics. *)
Theorem c17_wrappers_are_twins :
  forall (ss : list tstep) (ps : list (list val)),
    (forall uid, compile_tfrom uid (map twin_step ss) = compile_tfrom uid ss) /\
    trun_parts (map twin_step ss) ps = trun_parts ss ps /\
    (forall rows, den_steps (map twin_step ss) rows = den_steps ss rows).
Proof. exact wrappers_are_twins. Qed.

Example c17_wrappers_are_twins_ex :
  map twin_step [TMapValues 1; TValidateValues BSkipInvalid; TValidate BFailFast]
  = [TMapValues 1; TValidateValues (BWithMode SkipInvalid None);
     TValidate (BWithMode FailFast None)] /\
  op_rs (compile_tstep 0 (TValidateValues BSkipInvalid)) = false /\
  op_vo (compile_tstep 0 (TValidateValues BSkipInvalid)) = true.
Proof. repeat split; vm_compute; reflexivity. Qed.
