(* C17 (theorems to follow) *)
From Coq Require Import List.
