(* C19: cloud object JSONL round-trips; glob expansion follows the documented syntax.
   This file holds ONLY the property theorems (each closed by `exact`) and their non-vacuity
   examples. Strings are lists of Unicode code points (N). *)
From Coq Require Import List NArith Bool String Ascii Sorted Permutation.
From IB Require Import IO.Regex IO.CloudGlob Proofs.CloudGlobProofs Proofs.CloudGlobRoundtrip.
Import ListNotations.
Open Scope N_scope.

Definition str (s : string) : list N := map N_of_ascii (list_ascii_of_string s).

(* ---------- the regex produced for a pattern decides the documented syntax ---------- *)
(* For every pattern and EVERY key: `Regex::new(glob_to_regex(p))` succeeds (the text stays
   inside the modelled fragment) and `is_match(key)` is exactly the reference matcher written
   from the documentation. *)
Theorem c19_glob_regex_correct :
  forall p s : list N, regex_is_match (glob_to_regex p) s = Some (glob_match p s).
Proof. exact glob_regex_correct. Qed.

Example c19_glob_regex_correct_ex :
  glob_to_regex (str "logs/*+?.jsonl") = str "(?s)^logs/[^/]*\+.\.jsonl$" /\
  regex_is_match (glob_to_regex (str "logs/*+?.jsonl")) (str "logs/a+b.jsonl") = Some true /\
  glob_match (str "logs/*+?.jsonl") (str "logs/a+b.jsonl") = true /\
  glob_match (str "logs/*+?.jsonl") (str "logs/x/a+b.jsonl") = false /\
  glob_match (str "logs/**+?.jsonl") (str "logs/x/a+b.jsonl") = true /\
  glob_match (str "logs/*+?.jsonl") (str "logs/aab.jsonl") = false /\
  regex_is_match (glob_to_regex (str "a?b")) [97; 10; 98] = Some true /\
  regex_is_match (glob_to_regex (str "**")) [10; 47; 10] = Some true.
Proof. repeat split; vm_compute; reflexivity. Qed.

(* The regression repaired by the fix dae5143. The OLD translation (the same text without the
   leading `(?s)`) was correct only on keys without a line feed, and really failed on one:
   the regex crate's `.` does not match U+000A unless the flag `s` is set, so `?` and `**`
   (but not `*`) refused a line feed inside a key. *)
Theorem c19_glob_regex_old_correct_without_lf :
  forall p s : list N, no_nl s = true ->
    regex_is_match (glob_to_regex_old p) s = Some (glob_match p s).
Proof. exact glob_regex_old_correct. Qed.

Theorem c19_glob_regex_old_newline_refuted :
  exists p s : list N, no_nl s = false /\
    regex_is_match (glob_to_regex_old p) s = Some false /\ glob_match p s = true /\
    regex_is_match (glob_to_regex p) s = Some true.
Proof.
  exists [c_quest], [c_nl]. destruct glob_regex_old_newline_refuted as (H1 & H2 & _ & _ & _ & H6 & _).
  split; [reflexivity|]. repeat split; assumption.
Qed.

Example c19_glob_regex_old_correct_without_lf_ex :
  no_nl (str "logs/a+b.jsonl") = true /\
  glob_to_regex_old (str "logs/*+?.jsonl") = str "^logs/[^/]*\+.\.jsonl$" /\
  regex_is_match (glob_to_regex_old (str "logs/*+?.jsonl")) (str "logs/a+b.jsonl") = Some true /\
  regex_is_match (glob_to_regex_old (str "**")) [10] = Some false.
Proof. repeat split; vm_compute; reflexivity. Qed.

(* the reference matcher IS the documented syntax: a key matches iff it is a concatenation of
   one piece per pattern token, where a character stands for itself, `?` for any one character
   ('/' included), `*` for any run without '/', `**` for any run *)
Theorem c19_glob_match_is_documented_syntax :
  forall p s : list N, glob_match p s = true <-> gmatches (glob_tokens p) s.
Proof. intros p s. exact (tmatch_spec (glob_tokens p) s). Qed.

Example c19_glob_match_is_documented_syntax_ex :
  glob_tokens (str "a/***?+") = [GChar 97; GChar 47; GStarStar; GStar; GQuest; GChar 43] /\
  gmatches (glob_tokens (str "*/?")) (str "ab/c").
Proof.
  split; [vm_compute; reflexivity|].
  apply (proj1 (c19_glob_match_is_documented_syntax _ _)). vm_compute. reflexivity.
Qed.

(* the regex matcher of the model implements the usual language semantics of the fragment,
   for either value of the flag `s` *)
Theorem c19_regex_matcher_is_language :
  forall (r : regex) (s : list N), rmatch r s = true <-> rmatches (fst r) (snd r) s.
Proof. exact rmatch_spec. Qed.

Example c19_regex_matcher_is_language_ex :
  parse (str "^a[^/]*\..$") = Some (false, [ALit 97; ASegStar; ALit 46; AAny]) /\
  parse (str "(?s)^a.*$") = Some (true, [ALit 97; AAnyStar]) /\
  rmatches false [ALit 97; ASegStar; ALit 46; AAny] (str "abc.d") /\
  rmatches true [ALit 97; AAnyStar] [97; 10].
Proof.
  split; [vm_compute; reflexivity|]. split; [vm_compute; reflexivity|]. split.
  - apply (proj1 (c19_regex_matcher_is_language (false, _) _)). vm_compute. reflexivity.
  - apply (proj1 (c19_regex_matcher_is_language (true, _) _)). vm_compute. reflexivity.
Qed.

(* ---------- listing by prefix never hides a match ---------- *)
Theorem c19_prefix_sound :
  forall p s : list N, glob_match p s = true -> prefix_ok (literal_prefix p) s = true.
Proof. exact prefix_sound. Qed.

(* the prefix handed to list_objects is a wildcard-free prefix of the pattern *)
Theorem c19_prefix_is_literal :
  forall p pre : list N, literal_prefix p = Some pre ->
    exists rest, p = pre ++ rest /\ forallb (fun c => negb (is_wild c)) pre = true.
Proof. exact literal_prefix_is_prefix. Qed.

Example c19_prefix_sound_ex :
  literal_prefix (str "data/2024-*/e.jsonl") = Some (str "data/2024-") /\
  literal_prefix (str "*.jsonl") = None /\
  literal_prefix (str "") = Some [] /\
  literal_prefix (str "a.b") = Some (str "a.b") /\
  glob_match (str "data/2024-*/e.jsonl") (str "data/2024-01/e.jsonl") = true /\
  prefix_ok (literal_prefix (str "data/2024-*/e.jsonl")) (str "data/2024-01/e.jsonl") = true /\
  prefix_ok (literal_prefix (str "data/2024-*/e.jsonl")) (str "data/2023-01/e.jsonl") = false.
Proof. repeat split; vm_compute; reflexivity. Qed.

(* ---------- expansion = the sorted list of exactly the matching keys ---------- *)
Theorem c19_expand_spec :
  forall (keys : list (list N)) (p : list N),
    expand (Some keys) p = Ok (expand_ref keys p) /\
    StronglySorted key_le (expand_ref keys p) /\
    (forall k, In k (expand_ref keys p) <-> In k keys /\ glob_match p k = true) /\
    (NoDup keys -> NoDup (expand_ref keys p)).
Proof.
  intros keys p. split; [exact (expand_is_ref keys p)|exact (expand_ref_spec keys p)].
Qed.

Example c19_expand_spec_ex :
  let keys := [str "logs/b.jsonl"; str "data/x.csv"; str "logs/sub/c.jsonl"; str "logs/a.jsonl"] in
  expand (Some keys) (str "logs/*.jsonl") = Ok [str "logs/a.jsonl"; str "logs/b.jsonl"] /\
  expand (Some keys) (str "logs/**") =
    Ok [str "logs/a.jsonl"; str "logs/b.jsonl"; str "logs/sub/c.jsonl"] /\
  expand_required (Some keys) (str "nomatch") = Err NotFound /\
  expand (Some [[10]; [47]; [97]; [97; 10]]) (str "?") = Ok [[10]; [47]; [97]].
Proof. cbv zeta. repeat split; vm_compute; reflexivity. Qed.

(* every pattern is a valid glob: the only error is the store's (bucket missing) *)
Theorem c19_expand_never_invalid :
  forall (bucket : option (list (list N))) (p : list N),
    match bucket with
    | None => expand bucket p = Err NotFound
    | Some keys => exists ks, expand bucket p = Ok ks
    end.
Proof. exact expand_outcome. Qed.

(* key order is a total order and a sorted permutation is unique, hence whatever algorithm
   `Vec<String>::sort` uses it returns the model's `sort_keys` *)
Theorem c19_sorted_result_unique :
  forall l l' : list (list N),
    StronglySorted key_le l' -> Permutation l' l -> l' = sort_keys l.
Proof. exact sort_keys_unique. Qed.

Example c19_sorted_result_unique_ex :
  sort_keys [str "b"; str "a/"; str "a"; str "B"; str "a."] =
  [str "B"; str "a"; str "a."; str "a/"; str "b"].
Proof. vm_compute. reflexivity. Qed.

(* ---------- codec choice and round trip ---------- *)
Theorem c19_cloud_codec_agree : forall key : list N, writer_codec key = reader_ext_codec key.
Proof. exact codec_agree. Qed.

(* the old defect witnesses: dot-file keys, and case variants *)
Example c19_cloud_codec_agree_ex :
  writer_codec (str ".gz") = Some Gzip /\ reader_ext_codec (str ".gz") = Some Gzip /\
  writer_codec (str "dir/.GZ") = Some Gzip /\ writer_codec (str "a.gz/b") = None /\
  writer_codec (str "x.jsonl.ZsT") = Some Zstd /\ writer_codec (str ".bz2") = Some Bzip2 /\
  writer_codec (str "x.XZ") = Some Xz /\ writer_codec (str "x.jsonl") = None.
Proof. repeat split; vm_compute; reflexivity. Qed.

(* Records written under ANY key and read back are unchanged and in order, provided
   (a) each codec's decoder inverts its encoder, and
   (b) each record serialises to a one-line JSON document that deserialises to the record
       (`line_ok`: first byte one of { [ double-quote - digit t f n, no raw LF / CR).
   For a key without codec suffix the reader falls back to signature detection on the stored
   bytes; (b) is what guarantees that the plain payload carries no signature. *)
Theorem c19_cloud_roundtrip :
  forall (R : Type) (ser : R -> list N) (de : list N -> option R)
         (enc : codec -> list N -> list N) (dec : codec -> list N -> option (list N)),
    (forall c b, dec c (enc c b) = Some b) ->
    forall (st : store) (key : list N) (rs : list R),
      Forall (record_ok R ser de) rs ->
      cloud_read de dec (cloud_write ser enc st key rs) key = Ok rs.
Proof. exact cloud_roundtrip. Qed.

(* toy instance: records are Booleans printed as true / false; a codec prepends its signature *)
Definition ex_ser (b : bool) : list N := if b then str "true" else str "false".
Definition ex_de (l : list N) : option bool :=
  if list_eqb l (str "true") then Some true
  else if list_eqb l (str "false") then Some false else None.
Definition ex_magic (c : codec) : list N :=
  match c with Gzip => magic_gzip | Zstd => magic_zstd | Bzip2 => magic_bzip2 | Xz => magic_xz end.
Definition ex_enc (c : codec) (b : list N) : list N := ex_magic c ++ b.
Fixpoint ex_strip (pre s : list N) : option (list N) :=
  match pre, s with
  | [], _ => Some s
  | a :: pre', b :: s' => if a =? b then ex_strip pre' s' else None
  | _ :: _, [] => None
  end.
Definition ex_dec (c : codec) (b : list N) : option (list N) := ex_strip (ex_magic c) b.

Example c19_cloud_roundtrip_ex :
  (forall c b, ex_dec c (ex_enc c b) = Some b) /\
  Forall (record_ok bool ex_ser ex_de) [true; false; true] /\
  cloud_read ex_de ex_dec (cloud_write ex_ser ex_enc [] (str ".gz") [true; false; true]) (str ".gz")
    = Ok [true; false; true] /\
  get (cloud_write ex_ser ex_enc [] (str ".gz") [true]) (str ".gz")
    = Some (magic_gzip ++ str "true" ++ [10]) /\
  cloud_read ex_de ex_dec (cloud_write ex_ser ex_enc [] (str "plain") [false]) (str "plain")
    = Ok [false].
Proof.
  split; [intros [] b; reflexivity|].
  split; [repeat constructor|].
  repeat split; vm_compute; reflexivity.
Qed.

(* the object read back is the LAST one written under the key (no write is skipped, whatever
   was stored there before), also with writes to another key in between *)
Theorem c19_cloud_overwrite :
  forall (R : Type) (ser : R -> list N) (de : list N -> option R)
         (enc : codec -> list N -> list N) (dec : codec -> list N -> option (list N)),
    (forall c b, dec c (enc c b) = Some b) ->
    forall (st : store) (k1 k2 : list N) (a a2 b : list R),
      k1 <> k2 -> Forall (record_ok R ser de) b -> Forall (record_ok R ser de) a2 ->
      cloud_read de dec (cloud_write ser enc (cloud_write ser enc st k1 a) k1 b) k1 = Ok b /\
      let st' := cloud_write ser enc (cloud_write ser enc (cloud_write ser enc st k1 a) k2 a2) k1 b in
      cloud_read de dec st' k1 = Ok b /\ cloud_read de dec st' k2 = Ok a2.
Proof.
  intros R ser de enc dec Hd st k1 k2 a a2 b Hne Hb Ha2. split.
  - exact (cloud_overwrite R ser de enc dec Hd st k1 a b Hb).
  - exact (cloud_overwrite_interleaved R ser de enc dec Hd st k1 k2 a a2 b Hne Hb Ha2).
Qed.

Example c19_cloud_overwrite_ex :
  let st := cloud_write ex_ser ex_enc
              (cloud_write ex_ser ex_enc
                 (cloud_write ex_ser ex_enc [] (str "k.gz") [true; true])
                 (str "other") [false])
              (str "k.gz") [false; false] in
  str "k.gz" <> str "other" /\
  cloud_read ex_de ex_dec st (str "k.gz") = Ok [false; false] /\
  cloud_read ex_de ex_dec st (str "other") = Ok [false] /\
  map fst st = [str "k.gz"; str "other"].
Proof. cbv zeta. split; [discriminate|]. repeat split; vm_compute; reflexivity. Qed.

(* a write leaves every other object as it was *)
Theorem c19_cloud_write_frame :
  forall (R : Type) (ser : R -> list N) (de : list N -> option R)
         (enc : codec -> list N -> list N) (dec : codec -> list N -> option (list N))
         (st : store) (key : list N) (rs : list R) (k2 : list N),
    k2 <> key ->
    cloud_read de dec (cloud_write ser enc st key rs) k2 = cloud_read de dec st k2.
Proof. exact cloud_write_frame. Qed.

(* reading by glob returns the concatenation, in sorted key order, of exactly the objects
   whose keys match the pattern *)
Theorem c19_read_glob_concat :
  forall (R : Type) (de : list N -> option R) (dec : codec -> list N -> option (list N))
         (st : store) (p : list N) (f : list N -> list R),
    st <> [] ->
    (forall k, In k (map fst st) -> glob_match p k = true -> cloud_read de dec st k = Ok (f k)) ->
    read_glob de dec st p = Ok (flat_map f (expand_ref (map fst st) p)).
Proof. exact read_glob_concat. Qed.

Example c19_read_glob_concat_ex :
  let st := cloud_write ex_ser ex_enc
              (cloud_write ex_ser ex_enc
                 (cloud_write ex_ser ex_enc [] (str "d/b.gz") [true])
                 (str "d/a") [false; false])
              (str "e/c") [true; true] in
  read_glob ex_de ex_dec st (str "d/*") = Ok [false; false; true] /\
  read_glob ex_de ex_dec st (str "**") = Ok [false; false; true; true; true].
Proof. cbv zeta. split; vm_compute; reflexivity. Qed.
