(* C19: cloud object JSONL round-trips; glob expansion follows the documented syntax.
   This file holds ONLY the property theorems (each closed by `exact`) and their non-vacuity
   examples. Strings are lists of Unicode code points (N). *)
From Coq Require Import List NArith Bool String Ascii Sorted Permutation.
From IB Require Import IO.Regex IO.CloudGlob IO.CloudStore Proofs.CloudGlobProofs
  Proofs.CloudGlobRoundtrip Proofs.CloudStoreProofs.
Import ListNotations.
Open Scope N_scope.

Definition str (s : string) : list N := map N_of_ascii (list_ascii_of_string s).

(* ---------- the regex produced for a pattern decides the documented syntax ---------- *)
(* For every pattern and EVERY key: `Regex::new(glob_to_regex(p))` succeeds (the text stays
   inside the modelled fragment) and `is_match(key)` is exactly the reference matcher written
   from the documentation. *)
Theorem c19_glob_regex_correct :
  forall p s : list N, regex_is_match (glob_to_regex p) s = Some (glob_match p s).
Proof. exact glob_regex_correct. Qed.

Example c19_glob_regex_correct_ex :
  glob_to_regex (str "logs/*+?.jsonl") = str "(?s)^logs/[^/]*\+.\.jsonl$" /\
  regex_is_match (glob_to_regex (str "logs/*+?.jsonl")) (str "logs/a+b.jsonl") = Some true /\
  glob_match (str "logs/*+?.jsonl") (str "logs/a+b.jsonl") = true /\
  glob_match (str "logs/*+?.jsonl") (str "logs/x/a+b.jsonl") = false /\
  glob_match (str "logs/**+?.jsonl") (str "logs/x/a+b.jsonl") = true /\
  glob_match (str "logs/*+?.jsonl") (str "logs/aab.jsonl") = false /\
  regex_is_match (glob_to_regex (str "a?b")) [97; 10; 98] = Some true /\
  regex_is_match (glob_to_regex (str "**")) [10; 47; 10] = Some true.
Proof. repeat split; vm_compute; reflexivity. Qed.

(* The regression repaired by the fix dae5143. The OLD translation (the same text without the
   leading `(?s)`) was correct only on keys without a line feed, and really failed on one:
   the regex crate's `.` does not match U+000A unless the flag `s` is set, so `?` and `**`
   (but not `*`) refused a line feed inside a key. *)
Theorem c19_glob_regex_old_correct_without_lf :
  forall p s : list N, no_nl s = true ->
    regex_is_match (glob_to_regex_old p) s = Some (glob_match p s).
Proof. exact glob_regex_old_correct. Qed.

Theorem c19_glob_regex_old_newline_refuted :
  exists p s : list N, no_nl s = false /\
    regex_is_match (glob_to_regex_old p) s = Some false /\ glob_match p s = true /\
    regex_is_match (glob_to_regex p) s = Some true.
Proof.
  exists [c_quest], [c_nl]. destruct glob_regex_old_newline_refuted as (H1 & H2 & _ & _ & _ & H6 & _).
  split; [reflexivity|]. repeat split; assumption.
Qed.

Example c19_glob_regex_old_correct_without_lf_ex :
  no_nl (str "logs/a+b.jsonl") = true /\
  glob_to_regex_old (str "logs/*+?.jsonl") = str "^logs/[^/]*\+.\.jsonl$" /\
  regex_is_match (glob_to_regex_old (str "logs/*+?.jsonl")) (str "logs/a+b.jsonl") = Some true /\
  regex_is_match (glob_to_regex_old (str "**")) [10] = Some false.
Proof. repeat split; vm_compute; reflexivity. Qed.

(* the reference matcher IS the documented syntax: a key matches iff it is a concatenation of
   one piece per pattern token, where a character stands for itself, `?` for any one character
   ('/' included), `*` for any run without '/', `**` for any run *)
Theorem c19_glob_match_is_documented_syntax :
  forall p s : list N, glob_match p s = true <-> gmatches (glob_tokens p) s.
Proof. intros p s. exact (tmatch_spec (glob_tokens p) s). Qed.

Example c19_glob_match_is_documented_syntax_ex :
  glob_tokens (str "a/***?+") = [GChar 97; GChar 47; GStarStar; GStar; GQuest; GChar 43] /\
  gmatches (glob_tokens (str "*/?")) (str "ab/c").
Proof.
  split; [vm_compute; reflexivity|].
  apply (proj1 (c19_glob_match_is_documented_syntax _ _)). vm_compute. reflexivity.
Qed.

(* the regex matcher of the model implements the usual language semantics of the fragment,
   for either value of the flag `s` *)
Theorem c19_regex_matcher_is_language :
  forall (r : regex) (s : list N), rmatch r s = true <-> rmatches (fst r) (snd r) s.
Proof. exact rmatch_spec. Qed.

Example c19_regex_matcher_is_language_ex :
  parse (str "^a[^/]*\..$") = Some (false, [ALit 97; ASegStar; ALit 46; AAny]) /\
  parse (str "(?s)^a.*$") = Some (true, [ALit 97; AAnyStar]) /\
  rmatches false [ALit 97; ASegStar; ALit 46; AAny] (str "abc.d") /\
  rmatches true [ALit 97; AAnyStar] [97; 10].
Proof.
  split; [vm_compute; reflexivity|]. split; [vm_compute; reflexivity|]. split.
  - apply (proj1 (c19_regex_matcher_is_language (false, _) _)). vm_compute. reflexivity.
  - apply (proj1 (c19_regex_matcher_is_language (true, _) _)). vm_compute. reflexivity.
Qed.

(* ---------- listing by prefix never hides a match ---------- *)
Theorem c19_prefix_sound :
  forall p s : list N, glob_match p s = true -> prefix_ok (literal_prefix p) s = true.
Proof. exact prefix_sound. Qed.

(* the prefix handed to list_objects is a wildcard-free prefix of the pattern *)
Theorem c19_prefix_is_literal :
  forall p pre : list N, literal_prefix p = Some pre ->
    exists rest, p = pre ++ rest /\ forallb (fun c => negb (is_wild c)) pre = true.
Proof. exact literal_prefix_is_prefix. Qed.

Example c19_prefix_sound_ex :
  literal_prefix (str "data/2024-*/e.jsonl") = Some (str "data/2024-") /\
  literal_prefix (str "*.jsonl") = None /\
  literal_prefix (str "") = Some [] /\
  literal_prefix (str "a.b") = Some (str "a.b") /\
  glob_match (str "data/2024-*/e.jsonl") (str "data/2024-01/e.jsonl") = true /\
  prefix_ok (literal_prefix (str "data/2024-*/e.jsonl")) (str "data/2024-01/e.jsonl") = true /\
  prefix_ok (literal_prefix (str "data/2024-*/e.jsonl")) (str "data/2023-01/e.jsonl") = false.
Proof. repeat split; vm_compute; reflexivity. Qed.

(* ---------- expansion = the sorted list of exactly the matching keys ---------- *)
Theorem c19_expand_spec :
  forall (keys : list (list N)) (p : list N),
    expand (Some keys) p = Ok (expand_ref keys p) /\
    StronglySorted key_le (expand_ref keys p) /\
    (forall k, In k (expand_ref keys p) <-> In k keys /\ glob_match p k = true) /\
    (NoDup keys -> NoDup (expand_ref keys p)).
Proof.
  intros keys p. split; [exact (expand_is_ref keys p)|exact (expand_ref_spec keys p)].
Qed.

Example c19_expand_spec_ex :
  let keys := [str "logs/b.jsonl"; str "data/x.csv"; str "logs/sub/c.jsonl"; str "logs/a.jsonl"] in
  expand (Some keys) (str "logs/*.jsonl") = Ok [str "logs/a.jsonl"; str "logs/b.jsonl"] /\
  expand (Some keys) (str "logs/**") =
    Ok [str "logs/a.jsonl"; str "logs/b.jsonl"; str "logs/sub/c.jsonl"] /\
  expand_required (Some keys) (str "nomatch") = Err NotFound /\
  expand (Some [[10]; [47]; [97]; [97; 10]]) (str "?") = Ok [[10]; [47]; [97]].
Proof. cbv zeta. repeat split; vm_compute; reflexivity. Qed.

(* every pattern is a valid glob: the only error is the store's (bucket missing) *)
Theorem c19_expand_never_invalid :
  forall (bucket : option (list (list N))) (p : list N),
    match bucket with
    | None => expand bucket p = Err NotFound
    | Some keys => exists ks, expand bucket p = Ok ks
    end.
Proof. exact expand_outcome. Qed.

(* key order is a total order and a sorted permutation is unique, hence whatever algorithm
   `Vec<String>::sort` uses it returns the model's `sort_keys` *)
Theorem c19_sorted_result_unique :
  forall l l' : list (list N),
    StronglySorted key_le l' -> Permutation l' l -> l' = sort_keys l.
Proof. exact sort_keys_unique. Qed.

Example c19_sorted_result_unique_ex :
  sort_keys [str "b"; str "a/"; str "a"; str "B"; str "a."] =
  [str "B"; str "a"; str "a."; str "a/"; str "b"].
Proof. vm_compute. reflexivity. Qed.

(* ---------- codec choice and round trip ---------- *)
Theorem c19_cloud_codec_agree : forall key : list N, writer_codec key = reader_ext_codec key.
Proof. exact codec_agree. Qed.

(* the old defect witnesses: dot-file keys, and case variants *)
Example c19_cloud_codec_agree_ex :
  writer_codec (str ".gz") = Some Gzip /\ reader_ext_codec (str ".gz") = Some Gzip /\
  writer_codec (str "dir/.GZ") = Some Gzip /\ writer_codec (str "a.gz/b") = None /\
  writer_codec (str "x.jsonl.ZsT") = Some Zstd /\ writer_codec (str ".bz2") = Some Bzip2 /\
  writer_codec (str "x.XZ") = Some Xz /\ writer_codec (str "x.jsonl") = None.
Proof. repeat split; vm_compute; reflexivity. Qed.

(* Records written under ANY key and read back are unchanged and in order, provided
   (a) each codec's decoder inverts its encoder, and
   (b) each record serialises to a one-line JSON document that deserialises to the record
       (`line_ok`: first byte one of { [ double-quote - digit t f n, no raw LF / CR).
   For a key without codec suffix the reader falls back to signature detection on the stored
   bytes; (b) is what guarantees that the plain payload carries no signature. *)
Theorem c19_cloud_roundtrip :
  forall (R : Type) (ser : R -> list N) (de : list N -> option R)
         (enc : codec -> list N -> list N) (dec : codec -> list N -> option (list N)),
    (forall c b, dec c (enc c b) = Some b) ->
    forall (st : store) (key : list N) (rs : list R),
      Forall (record_ok R ser de) rs ->
      cloud_read de dec (cloud_write ser enc st key rs) key = Ok rs.
Proof. exact cloud_roundtrip. Qed.

(* toy instance: records are Booleans printed as true / false; a codec prepends its signature *)
Definition ex_ser (b : bool) : list N := if b then str "true" else str "false".
Definition ex_de (l : list N) : option bool :=
  if list_eqb l (str "true") then Some true
  else if list_eqb l (str "false") then Some false else None.
Definition ex_magic (c : codec) : list N :=
  match c with Gzip => magic_gzip | Zstd => magic_zstd | Bzip2 => magic_bzip2 | Xz => magic_xz end.
Definition ex_enc (c : codec) (b : list N) : list N := ex_magic c ++ b.
Fixpoint ex_strip (pre s : list N) : option (list N) :=
  match pre, s with
  | [], _ => Some s
  | a :: pre', b :: s' => if a =? b then ex_strip pre' s' else None
  | _ :: _, [] => None
  end.
Definition ex_dec (c : codec) (b : list N) : option (list N) := ex_strip (ex_magic c) b.

Example c19_cloud_roundtrip_ex :
  (forall c b, ex_dec c (ex_enc c b) = Some b) /\
  Forall (record_ok bool ex_ser ex_de) [true; false; true] /\
  cloud_read ex_de ex_dec (cloud_write ex_ser ex_enc [] (str ".gz") [true; false; true]) (str ".gz")
    = Ok [true; false; true] /\
  get (cloud_write ex_ser ex_enc [] (str ".gz") [true]) (str ".gz")
    = Some (magic_gzip ++ str "true" ++ [10]) /\
  cloud_read ex_de ex_dec (cloud_write ex_ser ex_enc [] (str "plain") [false]) (str "plain")
    = Ok [false].
Proof.
  split; [intros [] b; reflexivity|].
  split; [repeat constructor|].
  repeat split; vm_compute; reflexivity.
Qed.

(* the object read back is the LAST one written under the key (no write is skipped, whatever
   was stored there before), also with writes to another key in between *)
Theorem c19_cloud_overwrite :
  forall (R : Type) (ser : R -> list N) (de : list N -> option R)
         (enc : codec -> list N -> list N) (dec : codec -> list N -> option (list N)),
    (forall c b, dec c (enc c b) = Some b) ->
    forall (st : store) (k1 k2 : list N) (a a2 b : list R),
      k1 <> k2 -> Forall (record_ok R ser de) b -> Forall (record_ok R ser de) a2 ->
      cloud_read de dec (cloud_write ser enc (cloud_write ser enc st k1 a) k1 b) k1 = Ok b /\
      let st' := cloud_write ser enc (cloud_write ser enc (cloud_write ser enc st k1 a) k2 a2) k1 b in
      cloud_read de dec st' k1 = Ok b /\ cloud_read de dec st' k2 = Ok a2.
Proof.
  intros R ser de enc dec Hd st k1 k2 a a2 b Hne Hb Ha2. split.
  - exact (cloud_overwrite R ser de enc dec Hd st k1 a b Hb).
  - exact (cloud_overwrite_interleaved R ser de enc dec Hd st k1 k2 a a2 b Hne Hb Ha2).
Qed.

Example c19_cloud_overwrite_ex :
  let st := cloud_write ex_ser ex_enc
              (cloud_write ex_ser ex_enc
                 (cloud_write ex_ser ex_enc [] (str "k.gz") [true; true])
                 (str "other") [false])
              (str "k.gz") [false; false] in
  str "k.gz" <> str "other" /\
  cloud_read ex_de ex_dec st (str "k.gz") = Ok [false; false] /\
  cloud_read ex_de ex_dec st (str "other") = Ok [false] /\
  map fst st = [str "k.gz"; str "other"].
Proof. cbv zeta. split; [discriminate|]. repeat split; vm_compute; reflexivity. Qed.

(* a write leaves every other object as it was *)
Theorem c19_cloud_write_frame :
  forall (R : Type) (ser : R -> list N) (de : list N -> option R)
         (enc : codec -> list N -> list N) (dec : codec -> list N -> option (list N))
         (st : store) (key : list N) (rs : list R) (k2 : list N),
    k2 <> key ->
    cloud_read de dec (cloud_write ser enc st key rs) k2 = cloud_read de dec st k2.
Proof. exact cloud_write_frame. Qed.

(* reading by glob returns the concatenation, in sorted key order, of exactly the objects
   whose keys match the pattern *)
Theorem c19_read_glob_concat :
  forall (R : Type) (de : list N -> option R) (dec : codec -> list N -> option (list N))
         (st : store) (p : list N) (f : list N -> list R),
    st <> [] ->
    (forall k, In k (map fst st) -> glob_match p k = true -> cloud_read de dec st k = Ok (f k)) ->
    read_glob de dec st p = Ok (flat_map f (expand_ref (map fst st) p)).
Proof. exact read_glob_concat. Qed.

Example c19_read_glob_concat_ex :
  let st := cloud_write ex_ser ex_enc
              (cloud_write ex_ser ex_enc
                 (cloud_write ex_ser ex_enc [] (str "d/b.gz") [true])
                 (str "d/a") [false; false])
              (str "e/c") [true; true] in
  read_glob ex_de ex_dec st (str "d/*") = Ok [false; false; true] /\
  read_glob ex_de ex_dec st (str "**") = Ok [false; false; true; true; true].
Proof. cbv zeta. split; vm_compute; reflexivity. Qed.

(* ====================================================================================== *)
(* One store, several buckets, sequences of calls (model: IO/CloudStore.v)                 *)
(* ====================================================================================== *)

(* split conjunctions only (never an equation), then compute each part *)
Ltac vsplit := repeat match goal with |- _ /\ _ => split end; vm_compute; reflexivity.

(* the store of fake.rs is a map over (bucket, key) slots: put and delete act on one slot *)
Theorem c19_store_slots :
  forall (ms : mstore) (b k v b2 k2 : list N),
    ms_get (ms_put ms b k v) b k = Some v /\
    ms_get (ms_delete ms b k) b k = None /\
    ((b2, k2) <> (b, k) ->
     ms_get (ms_put ms b k v) b2 k2 = ms_get ms b2 k2 /\
     ms_get (ms_delete ms b k) b2 k2 = ms_get ms b2 k2).
Proof.
  intros ms b k v b2 k2. split; [exact (ms_get_put_same ms b k v)|].
  split; [exact (ms_get_delete_same ms b k)|]. intros Hne.
  split; [exact (ms_get_put_other ms b k v b2 k2 Hne)|exact (ms_get_delete_other ms b k b2 k2 Hne)].
Qed.

Example c19_store_slots_ex :
  let ms := ms_put (ms_put [] (str "a") (str "b/c") [1]) (str "a/b") (str "c") [2] in
  (str "a/b", str "c") <> (str "a", str "b/c") /\
  ms_get ms (str "a") (str "b/c") = Some [1] /\ ms_get ms (str "a/b") (str "c") = Some [2] /\
  ms_get (ms_delete ms (str "a") (str "b/c")) (str "a/b") (str "c") = Some [2] /\
  ms_keys (ms_delete ms (str "a") (str "b/c")) (str "a") = Some [] /\
  ms_keys ms (str "nobucket") = None.
Proof. cbv zeta. split; [discriminate|]. vsplit. Qed.

(* object_exists agrees with what list_objects shows *)
Theorem c19_exists_iff_listed :
  forall (ms : mstore) (b k : list N),
    ms_exists ms b k = true <-> exists ks, ms_keys ms b = Some ks /\ In k ks.
Proof. exact ms_exists_iff_listed. Qed.

Example c19_exists_iff_listed_ex :
  ms_exists (ms_put [] (str "b") (str "k") []) (str "b") (str "k") = true /\
  ms_exists (ms_delete (ms_put [] (str "b") (str "k") []) (str "b") (str "k")) (str "b") (str "k") = false.
Proof. vsplit. Qed.

(* round trip in ANY bucket of ANY store *)
Theorem c19_bucket_roundtrip :
  forall (R : Type) (ser : R -> list N) (de : list N -> option R)
         (enc : codec -> list N -> list N) (dec : codec -> list N -> option (list N)),
    (forall c b, dec c (enc c b) = Some b) ->
    forall (ms : mstore) (b k : list N) (rs : list R),
      Forall (record_ok R ser de) rs ->
      ms_read de dec (ms_write ser enc ms b k rs) b k = Ok rs.
Proof. exact ms_roundtrip. Qed.

Example c19_bucket_roundtrip_ex :
  let ms := ms_write ex_ser ex_enc (ms_write ex_ser ex_enc [] (str "b") (str "k.gz") [true])
                     (str "b2") (str "k.gz") [false; false] in
  Forall (record_ok bool ex_ser ex_de) [false; false] /\
  ms_read ex_de ex_dec ms (str "b") (str "k.gz") = Ok [true] /\
  ms_read ex_de ex_dec ms (str "b2") (str "k.gz") = Ok [false; false] /\
  ms_read ex_de ex_dec ms (str "b3") (str "k.gz") = Err NotFound.
Proof. cbv zeta. split; [repeat constructor|]. vsplit. Qed.

(* buckets are isolated: a write or a delete in one bucket changes no read, no expansion and no
   glob read in another *)
Theorem c19_bucket_isolation :
  forall (R : Type) (ser : R -> list N) (de : list N -> option R)
         (enc : codec -> list N -> list N) (dec : codec -> list N -> option (list N))
         (ms : mstore) (b k : list N) (rs : list R) (b2 k2 p : list N),
    b2 <> b ->
    let w := ms_write ser enc ms b k rs in
    let d := ms_delete ms b k in
    ms_read de dec w b2 k2 = ms_read de dec ms b2 k2 /\
    ms_expand w b2 p = ms_expand ms b2 p /\
    ms_read_glob de dec w b2 p = ms_read_glob de dec ms b2 p /\
    ms_read de dec d b2 k2 = ms_read de dec ms b2 k2 /\
    ms_expand d b2 p = ms_expand ms b2 p /\
    ms_read_glob de dec d b2 p = ms_read_glob de dec ms b2 p.
Proof. exact ms_bucket_isolation. Qed.

Example c19_bucket_isolation_ex :
  let ms := ms_write ex_ser ex_enc [] (str "a/b") (str "c") [true] in
  let w := ms_write ex_ser ex_enc ms (str "a") (str "b/c") [false] in
  str "a/b" <> str "a" /\
  ms_expand w (str "a/b") (str "**") = Ok [str "c"] /\
  ms_expand w (str "a") (str "**") = Ok [str "b/c"] /\
  ms_read_glob ex_de ex_dec w (str "a/b") (str "*") = Ok [true].
Proof. cbv zeta. split; [discriminate|]. vsplit. Qed.

(* delete: the object is gone, the bucket stays (expansion is Ok, without that key, even when it
   was the last object); deleting from a bucket that does not exist does not create it *)
Theorem c19_delete :
  forall (R : Type) (de : list N -> option R) (dec : codec -> list N -> option (list N))
         (ms : mstore) (b k p : list N),
    ms_read de dec (ms_delete ms b k) b k = Err NotFound /\
    (forall ks, ms_keys ms b = Some ks ->
       ms_expand (ms_delete ms b k) b p =
         Ok (expand_ref (filter (fun k' => negb (list_eqb k k')) ks) p) /\
       (forall k', In k' (expand_ref (filter (fun k' => negb (list_eqb k k')) ks) p) <->
                   k' <> k /\ In k' ks /\ glob_match p k' = true)) /\
    (ms_keys ms b = None -> ms_expand (ms_delete ms b k) b p = Err NotFound).
Proof.
  intros R de dec ms b k p. split; [exact (ms_read_deleted R de dec ms b k)|].
  split; [exact (ms_expand_after_delete ms b k p)|exact (ms_delete_no_bucket ms b k p)].
Qed.

Example c19_delete_ex :
  let ms := ms_write ex_ser ex_enc [] (str "b") (str "only") [true] in
  let d := ms_delete ms (str "b") (str "only") in
  ms_keys ms (str "b") = Some [str "only"] /\
  ms_expand d (str "b") (str "**") = Ok [] /\
  ms_expand_required d (str "b") (str "**") = Err NotFound /\
  ms_read ex_de ex_dec d (str "b") (str "only") = Err NotFound /\
  ms_expand (ms_delete [] (str "b") (str "only")) (str "b") (str "**") = Err NotFound /\
  ms_read ex_de ex_dec (ms_write ex_ser ex_enc d (str "b") (str "only") [false]) (str "b") (str "only")
    = Ok [false].
Proof. cbv zeta. vsplit. Qed.

(* after ANY sequence of writes and deletes on any store, a slot reads as the LAST call that
   named it says: the records of that write, NotFound after a delete, unchanged if untouched *)
Theorem c19_session_read :
  forall (R : Type) (ser : R -> list N) (de : list N -> option R)
         (enc : codec -> list N -> list N) (dec : codec -> list N -> option (list N)),
    (forall c b, dec c (enc c b) = Some b) ->
    forall (ops : list (op R)) (ms : mstore) (b k : list N),
      Forall (op_ok R ser de) ops ->
      ms_read de dec (run_ops ser enc ms ops) b k =
        match last_on ops b k None with
        | Some (Some rs) => Ok rs
        | Some None => Err NotFound
        | None => ms_read de dec ms b k
        end.
Proof. exact session_read. Qed.

Definition ex_ops : list (op bool) :=
  [OWrite (str "b") (str "k.gz") [true; true]; OWrite (str "b2") (str "k.gz") [false];
   ODelete (str "b") (str "k.gz"); OWrite (str "b") (str "j") [true];
   OWrite (str "b") (str "k.gz") [false; true]; ODelete (str "b2") (str "k.gz");
   ODelete (str "b3") (str "x")].

Example c19_session_read_ex :
  Forall (op_ok bool ex_ser ex_de) ex_ops /\
  last_on ex_ops (str "b") (str "k.gz") None = Some (Some [false; true]) /\
  last_on ex_ops (str "b2") (str "k.gz") None = Some None /\
  last_on ex_ops (str "b") (str "never") None = None /\
  ms_read ex_de ex_dec (run_ops ex_ser ex_enc [] ex_ops) (str "b") (str "k.gz") = Ok [false; true] /\
  ms_read ex_de ex_dec (run_ops ex_ser ex_enc [] ex_ops) (str "b2") (str "k.gz") = Err NotFound.
Proof.
  split; [repeat constructor|]. vsplit.
Qed.

(* ... and glob expansion on a store built from nothing by such a sequence: NotFound iff no
   write ever went to the bucket (a delete creates none, and a bucket emptied by deletes stays);
   otherwise the sorted list of exactly the matching keys whose last call was a write *)
Theorem c19_session_expand :
  forall (R : Type) (ser : R -> list N) (de : list N -> option R)
         (enc : codec -> list N -> list N)
         (ops : list (op R)) (b p : list N),
    Forall (op_ok R ser de) ops ->
    let ms := run_ops ser enc [] ops in
    (existsb (writes_to b) ops = false -> ms_expand ms b p = Err NotFound) /\
    (existsb (writes_to b) ops = true ->
     exists ks, ms_expand ms b p = Ok (expand_ref ks p) /\ NoDup ks /\
       forall k, In k ks <-> exists rs, last_on ops b k None = Some (Some rs)).
Proof. exact session_expand. Qed.

Example c19_session_expand_ex :
  let ms := run_ops ex_ser ex_enc [] ex_ops in
  ms_expand ms (str "b") (str "**") = Ok [str "j"; str "k.gz"] /\
  ms_expand ms (str "b2") (str "**") = Ok [] /\
  ms_expand ms (str "b3") (str "**") = Err NotFound /\
  existsb (writes_to (R := bool) (str "b3")) ex_ops = false /\
  existsb (writes_to (R := bool) (str "b2")) ex_ops = true.
Proof. cbv zeta. vsplit. Qed.

(* copy_object: an object written by write_cloud_jsonl_vec stays readable under a new key (in any
   bucket) of the same codec class or with no codec suffix at all - the reader then detects the
   codec from the signature of the bytes, which every encoder emits; nothing else changes.
   A missing source is NotFound. *)
Theorem c19_copy_readable :
  forall (R : Type) (ser : R -> list N) (de : list N -> option R)
         (enc : codec -> list N -> list N) (dec : codec -> list N -> option (list N)),
    (forall c b, dec c (enc c b) = Some b) ->
    (forall c x, magic_codec (enc c x) = Some c) ->
    forall (ms : mstore) (sb sk db dk : list N) (rs : list R),
      Forall (record_ok R ser de) rs ->
      ms_get ms sb sk = Some (object_bytes ser enc sk rs) ->
      writer_codec dk = writer_codec sk \/ writer_codec dk = None ->
      exists ms', ms_copy ms sb sk db dk = Ok ms' /\ ms_read de dec ms' db dk = Ok rs /\
                  (forall b2 k2, (b2, k2) <> (db, dk) -> ms_get ms' b2 k2 = ms_get ms b2 k2).
Proof. exact copy_readable. Qed.

Theorem c19_copy_missing :
  forall (ms : mstore) (sb sk db dk : list N),
    ms_get ms sb sk = None -> ms_copy ms sb sk db dk = Err NotFound.
Proof. exact copy_missing. Qed.

Example c19_copy_readable_ex :
  let ms := ms_write ex_ser ex_enc [] (str "b") (str "k.gz") [true; false] in
  (forall c x, magic_codec (ex_enc c x) = Some c) /\
  ms_get ms (str "b") (str "k.gz") = Some (object_bytes ex_ser ex_enc (str "k.gz") [true; false]) /\
  writer_codec (str "plain") = None /\ writer_codec (str "c.GZIP") = writer_codec (str "k.gz") /\
  match ms_copy ms (str "b") (str "k.gz") (str "other") (str "plain") with
  | Ok ms' => ms_read ex_de ex_dec ms' (str "other") (str "plain") = Ok [true; false]
  | Err _ => False
  end /\
  match ms_copy ms (str "b") (str "k.gz") (str "b") (str "c.zst") with
  | Ok ms' => ms_read ex_de ex_dec ms' (str "b") (str "c.zst") = Err InternalError
  | Err _ => False
  end /\
  ms_copy ms (str "b") (str "missing") (str "b") (str "z") = Err NotFound.
Proof.
  cbv zeta. split; [intros [] x; reflexivity|]. vsplit.
Qed.

(* read_cloud_jsonl_vec accepts more than the writer produces: CR LF line ends, white-space-only
   lines, JSON white space around a record, and a last record without line feed. Assumed of the
   deserialiser: it skips JSON white space (space, tab, CR) around a document. *)
Theorem c19_loose_text_read :
  forall (R : Type) (ser : R -> list N) (de : list N -> option R),
    (forall pre post l, forallb is_pad pre = true -> forallb is_pad post = true ->
                        de (pre ++ l ++ post) = de l) ->
    forall (dec : codec -> list N -> option (list N)) (st : store) (key : list N)
           (items : list (item R)) (last : option R),
      Forall (item_ok R ser de) items ->
      match last with Some r => record_ok R ser de r | None => True end ->
      reader_ext_codec key = None ->
      magic_codec (loose_text ser items last) = None ->
      get st key = Some (loose_text ser items last) ->
      cloud_read de dec st key = Ok (loose_recs items last).
Proof. exact loose_read. Qed.

(* a deserialiser that ignores padding altogether *)
Definition ex_de_pad (l : list N) : option bool := ex_de (filter (fun c => negb (is_pad c)) l).
Definition ex_items : list (item bool) :=
  [IBlank [] false; IRec [32; 32] true [9] true; IBlank [32; 13; 9] true; IRec [] false [13] false;
   IBlank [] true].

Lemma ex_de_pad_ok : forall pre post l,
  forallb is_pad pre = true -> forallb is_pad post = true -> ex_de_pad (pre ++ l ++ post) = ex_de_pad l.
Proof.
  intros pre post l Hpre Hpost. unfold ex_de_pad. f_equal. rewrite !filter_app.
  assert (E : forall w, forallb is_pad w = true -> filter (fun c => negb (is_pad c)) w = []).
  { induction w as [|c w IH]; intros H; [reflexivity|]. cbn in H |- *.
    apply andb_true_iff in H as [Hc Hw]. rewrite Hc. cbn. apply IH. exact Hw. }
  rewrite (E pre Hpre), (E post Hpost), app_nil_r. reflexivity.
Qed.

Example c19_loose_text_read_ex :
  (forall pre post l, forallb is_pad pre = true -> forallb is_pad post = true ->
                      ex_de_pad (pre ++ l ++ post) = ex_de_pad l) /\
  Forall (item_ok bool ex_ser ex_de_pad) ex_items /\ record_ok bool ex_ser ex_de_pad true /\
  loose_text ex_ser ex_items (Some true) =
    [10] ++ str "  true" ++ [9; 13; 10] ++ [32; 13; 9; 13; 10] ++ str "false" ++ [13; 10] ++ [13; 10] ++ str "true" /\
  magic_codec (loose_text ex_ser ex_items (Some true)) = None /\
  cloud_read ex_de_pad ex_dec [(str "t", loose_text ex_ser ex_items (Some true))] (str "t")
    = Ok [true; false; true].
Proof.
  split; [exact ex_de_pad_ok|].
  split; [repeat constructor|]. split; [split; vm_compute; reflexivity|].
  vsplit.
Qed.

(* white-space-only lines are recognised over all of Unicode White_Space (what str::trim strips),
   read off the UTF-8 bytes; any other ASCII first byte makes the line non-blank *)
Theorem c19_blank_lines :
  (forall chunks, Forall (fun c => In c ws_utf8) chunks -> is_blank (List.concat chunks) = true) /\
  (forall b rest, b < 128 -> is_ws b = false -> is_blank (b :: rest) = false).
Proof. split; [exact blank_of_ws_chunks|exact not_blank_ascii]. Qed.

Example c19_blank_lines_ex :
  Forall (fun c => In c ws_utf8) [[32]; [194; 160]; [227; 128; 128]; [226; 128; 131]; [9]] /\
  is_blank [32; 194; 160; 227; 128; 128; 226; 128; 131; 9] = true /\
  is_blank [226; 128; 139] = false /\ is_blank [239; 187; 191] = false /\ is_blank [194; 161] = false.
Proof.
  split; [repeat (apply Forall_cons; [cbn; repeat (first [left; reflexivity | right])|]); apply Forall_nil|].
  vsplit.
Qed.

(* the merge sort the correspondence runs on large buckets is the same function as the model's
   sort, hence the fast expansion is the model's expansion *)
Theorem c19_merge_sort_is_sort :
  (forall l : list (list N), msort_keys l = sort_keys l) /\
  (forall (bucket : option (list (list N))) (p : list N), expand_fast bucket p = expand bucket p).
Proof. split; [exact msort_keys_eq|exact expand_fast_eq]. Qed.

Example c19_merge_sort_is_sort_ex :
  msort_keys [str "part-10"; str "part-2"; str "part-1"; str "b"; str "a/"; str "a"; str "part-10/x"] =
  [str "a"; str "a/"; str "b"; str "part-1"; str "part-10"; str "part-10/x"; str "part-2"].
Proof. vm_compute. reflexivity. Qed.

(* the suffix test of the codec choice IS a suffix test, and the if-chain of the writer picks the
   first class, in the order gzip, zstd, bzip2, xz, one of whose extensions ends the lower-cased key *)
Theorem c19_ends_with_is_suffix :
  forall s suf : list N, ends_with s suf = true <-> exists pre, s = pre ++ suf.
Proof. exact ends_with_spec. Qed.

Theorem c19_writer_codec_spec :
  forall key : list N,
    let lk := map lower key in
    let has := fun exts => exists e pre, In e exts /\ lk = pre ++ e in
    match writer_codec key with
    | Some Gzip => has [ext_gz; ext_gzip]
    | Some Zstd => ~ has [ext_gz; ext_gzip] /\ has [ext_zst; ext_zstd]
    | Some Bzip2 => ~ has [ext_gz; ext_gzip] /\ ~ has [ext_zst; ext_zstd] /\ has [ext_bz2; ext_bzip2]
    | Some Xz => ~ has [ext_gz; ext_gzip] /\ ~ has [ext_zst; ext_zstd] /\ ~ has [ext_bz2; ext_bzip2] /\
                 has [ext_xz]
    | None => ~ has [ext_gz; ext_gzip] /\ ~ has [ext_zst; ext_zstd] /\ ~ has [ext_bz2; ext_bzip2] /\
              ~ has [ext_xz]
    end.
Proof. exact writer_codec_spec. Qed.

Example c19_writer_codec_spec_ex :
  ends_with (str "dir/x.jsonl.gz") ext_gz = true /\ str "dir/x.jsonl.gz" = str "dir/x.jsonl" ++ ext_gz /\
  ends_with (str "x.gz.bak") ext_gz = false /\
  writer_codec (str "a.gz.XZ") = Some Xz /\ writer_codec (str "a.xz.Gz") = Some Gzip /\
  writer_codec (str "x.gz.bak") = None /\ writer_codec (str "K.BZIP2") = Some Bzip2.
Proof. vsplit. Qed.

(* the ObjectIO contract promises no order for list_objects: whatever permutation of the keys
   with the listing prefix the store hands over, filtering it by the compiled pattern and sorting
   gives the expansion of the whole bucket (the fake store happens to list in sorted order) *)
Theorem c19_listing_order_irrelevant :
  forall (ks : list (list N)) (p : list N) (listing : list (list N)) (r : regex),
    parse (glob_to_regex p) = Some r ->
    Permutation listing (filter (prefix_ok (literal_prefix p)) ks) ->
    sort_keys (filter (rmatch r) listing) = expand_ref ks p.
Proof. exact listing_order_irrelevant. Qed.

Example c19_listing_order_irrelevant_ex :
  let ks := [str "d/b"; str "e/x"; str "d/a"; str "d/c/z"; str "da"] in
  let p := str "d/*" in
  exists r, parse (glob_to_regex p) = Some r /\
    Permutation [str "d/c/z"; str "d/a"; str "d/b"] (filter (prefix_ok (literal_prefix p)) ks) /\
    sort_keys (filter (rmatch r) [str "d/c/z"; str "d/a"; str "d/b"]) = [str "d/a"; str "d/b"] /\
    expand_ref ks p = [str "d/a"; str "d/b"] /\
    ms_list (ms_put (ms_put [] (str "b") (str "d/b") []) (str "b") (str "d/a") []) (str "b") (Some (str "d/"))
      = Ok [str "d/a"; str "d/b"].
Proof.
  cbv zeta. eexists. split; [vm_compute; reflexivity|]. split.
  - vm_compute. apply Permutation_sym.
    eapply perm_trans; [apply perm_swap|].
    eapply perm_trans; [apply perm_skip; apply perm_swap|]. apply perm_swap.
  - vsplit.
Qed.

(* reading by glob after any sequence of writes and deletes on a store built from nothing: the
   concatenation, in sorted key order, of the records LAST written under exactly the matching keys
   whose last call was a write *)
Theorem c19_session_read_glob :
  forall (R : Type) (ser : R -> list N) (de : list N -> option R)
         (enc : codec -> list N -> list N) (dec : codec -> list N -> option (list N)),
    (forall c b, dec c (enc c b) = Some b) ->
    forall (ops : list (op R)) (b p : list N),
      Forall (op_ok R ser de) ops -> existsb (writes_to b) ops = true ->
      exists ks, ms_expand (run_ops ser enc [] ops) b p = Ok ks /\
        StronglySorted key_le ks /\
        (forall k, In k ks <-> glob_match p k = true /\ exists rs, last_on ops b k None = Some (Some rs)) /\
        ms_read_glob de dec (run_ops ser enc [] ops) b p = Ok (flat_map (last_recs R ops b) ks).
Proof. exact session_read_glob. Qed.

Example c19_session_read_glob_ex :
  existsb (writes_to (R := bool) (str "b")) ex_ops = true /\
  ms_read_glob ex_de ex_dec (run_ops ex_ser ex_enc [] ex_ops) (str "b") (str "*") = Ok [true; false; true] /\
  flat_map (last_recs bool ex_ops (str "b")) [str "j"; str "k.gz"] = [true; false; true] /\
  ms_read_glob ex_de ex_dec (run_ops ex_ser ex_enc [] ex_ops) (str "b2") (str "*") = Ok [].
Proof. vsplit. Qed.
