(* C19 (placeholder; theorems follow) *)
From IB Require Import IO.Regex IO.CloudGlob.
