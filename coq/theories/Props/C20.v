(* C20: the shipped test assertions accept exactly equal collections.
   This file holds ONLY the property theorems (each closed by `exact`) and their
   non-vacuity examples. `= true` means the assertion returns, `= false` that it panics. *)
From Coq Require Import List ZArith Bool Permutation SetoidList SetoidPermutation.
From IB Require Import Testing.Assertions Testing.AssertionsMore Testing.MockIO.
From IB Require Import Proofs.AssertionsProofs Proofs.AssertionsMoreProofs Proofs.AssertionsSetoidProofs
                       Proofs.AssertionsKvAnyEqProofs Proofs.MockIOProofs.
Import ListNotations.

(* ---------- ordered ---------- *)
Theorem c20_ordered_iff :
  forall (A : Type) (eqb : A -> A -> bool),
    (forall x y, reflect (x = y) (eqb x y)) ->
    forall actual expected : list A,
      assert_collections_equal eqb actual expected = true <-> actual = expected.
Proof. exact ordered_iff. Qed.

Example c20_ordered_iff_ex :
  assert_collections_equal Z.eqb [1; 2; 2]%Z [1; 2; 2]%Z = true /\
  assert_collections_equal Z.eqb [1; 2; 2]%Z [2; 1; 2]%Z = false.
Proof. split; vm_compute; reflexivity. Qed.

(* ---------- unordered: multiset equality ---------- *)
Theorem c20_unordered_iff :
  forall (A : Type) (eqb : A -> A -> bool),
    (forall x y, reflect (x = y) (eqb x y)) ->
    forall actual expected : list A,
      assert_collections_unordered_equal eqb actual expected = true <->
      Permutation actual expected.
Proof. exact unordered_iff. Qed.

Example c20_unordered_iff_ex :
  assert_collections_unordered_equal Z.eqb [3; 1; 2; 1]%Z [1; 1; 2; 3]%Z = true /\
  Permutation [3; 1; 2; 1]%Z [1; 1; 2; 3]%Z.
Proof.
  assert (H : assert_collections_unordered_equal Z.eqb [3; 1; 2; 1]%Z [1; 1; 2; 3]%Z = true)
    by (vm_compute; reflexivity).
  split; [exact H|]. exact (proj1 (c20_unordered_iff Z Z.eqb Z.eqb_spec _ _) H).
Qed.

(* the assertion never accepts collections that differ in how often an element occurs *)
Theorem c20_never_accepts_multiplicity_change :
  forall (A : Type) (eqb : A -> A -> bool),
    (forall x y, reflect (x = y) (eqb x y)) ->
    forall (dec : forall x y : A, {x = y} + {x <> y}) (actual expected : list A) (x : A),
      count_occ dec actual x <> count_occ dec expected x ->
      assert_collections_unordered_equal eqb actual expected = false.
Proof. exact unordered_multiplicity. Qed.

(* the old defect witness: same length, same set, different multiplicities *)
Example c20_never_accepts_multiplicity_change_ex :
  count_occ Z.eq_dec [1; 1; 2]%Z 1%Z <> count_occ Z.eq_dec [1; 2; 2]%Z 1%Z /\
  assert_collections_unordered_equal Z.eqb [1; 1; 2]%Z [1; 2; 2]%Z = false.
Proof.
  assert (H : count_occ Z.eq_dec [1; 1; 2]%Z 1%Z <> count_occ Z.eq_dec [1; 2; 2]%Z 1%Z)
    by (vm_compute; discriminate).
  split; [exact H|].
  exact (c20_never_accepts_multiplicity_change Z Z.eqb Z.eqb_spec Z.eq_dec _ _ _ H).
Qed.

(* ---------- key-sorted (key, value) rows: multiset equality, also with repeated keys ---------- *)
Theorem c20_kv_iff :
  forall (V : Type) (veqb : V -> V -> bool),
    (forall x y, reflect (x = y) (veqb x y)) ->
    forall actual expected : list (Z * V),
      assert_kv_collections_equal veqb actual expected = true <-> Permutation actual expected.
Proof. exact kv_iff. Qed.

Example c20_kv_iff_ex :
  assert_kv_collections_equal Z.eqb [(1, 10); (1, 20); (0, 5)]%Z [(0, 5); (1, 20); (1, 10)]%Z = true /\
  Permutation [(1, 10); (1, 20); (0, 5)]%Z [(0, 5); (1, 20); (1, 10)]%Z /\
  assert_kv_collections_equal Z.eqb [(1, 10); (1, 10); (0, 5)]%Z [(0, 5); (1, 20); (1, 10)]%Z = false.
Proof.
  assert (H : assert_kv_collections_equal Z.eqb
                [(1, 10); (1, 20); (0, 5)]%Z [(0, 5); (1, 20); (1, 10)]%Z = true)
    by (vm_compute; reflexivity).
  split; [exact H|]. split; [|vm_compute; reflexivity].
  exact (proj1 (c20_kv_iff Z Z.eqb Z.eqb_spec _ _) H).
Qed.

(* ---------- grouped data (key, list of values) ---------- *)
(* acceptance always means: the groups of `expected` can be rearranged so that, position by
   position, the keys are equal and the value lists are equal as multisets *)
Theorem c20_grouped_sound :
  forall (V : Type) (veqb : V -> V -> bool),
    (forall x y, reflect (x = y) (veqb x y)) ->
    forall actual expected : list (Z * list V),
      assert_grouped_kv_equal veqb actual expected = true ->
      exists expected',
        Permutation expected expected' /\
        Forall2 (fun x y => fst x = fst y /\ Permutation (snd x) (snd y)) actual expected'.
Proof. exact grouped_sound. Qed.

Example c20_grouped_sound_ex :
  assert_grouped_kv_equal Z.eqb [(2, [3]); (1, [1; 2; 1])]%Z [(1, [1; 1; 2]); (2, [3])]%Z = true /\
  assert_grouped_kv_equal Z.eqb [(2, [3]); (1, [1; 2; 1])]%Z [(1, [1; 2; 2]); (2, [3])]%Z = false.
Proof. split; vm_compute; reflexivity. Qed.

(* grouped data proper (each key occurs once on either side): accepted iff that pairing exists *)
Theorem c20_grouped_iff_nodup :
  forall (V : Type) (veqb : V -> V -> bool),
    (forall x y, reflect (x = y) (veqb x y)) ->
    forall actual expected : list (Z * list V),
      NoDup (map fst actual) -> NoDup (map fst expected) ->
      (assert_grouped_kv_equal veqb actual expected = true <->
       exists expected',
         Permutation expected expected' /\
         Forall2 (fun x y => fst x = fst y /\ Permutation (snd x) (snd y)) actual expected').
Proof. exact grouped_iff_nodup. Qed.

Example c20_grouped_iff_nodup_ex :
  NoDup (map fst [(2, [3]); (1, [1; 2; 1])]%Z) /\ NoDup (map fst [(1, [1; 1; 2]); (2, [3])]%Z) /\
  exists expected',
    Permutation [(1, [1; 1; 2]); (2, [3])]%Z expected' /\
    Forall2 (fun x y : Z * list Z => fst x = fst y /\ Permutation (snd x) (snd y))
            [(2, [3]); (1, [1; 2; 1])]%Z expected'.
Proof.
  assert (Ha : NoDup (map fst [(2, [3]); (1, [1; 2; 1])]%Z)).
  { repeat constructor; cbn; intuition discriminate. }
  assert (He : NoDup (map fst [(1, [1; 1; 2]); (2, [3])]%Z)).
  { repeat constructor; cbn; intuition discriminate. }
  split; [exact Ha|]. split; [exact He|].
  apply (proj1 (c20_grouped_iff_nodup Z Z.eqb Z.eqb_spec _ _ Ha He)). vm_compute. reflexivity.
Qed.

(* the same, in the words of the property: the same keys and, per key, the same multiset of values *)
Theorem c20_grouped_iff_same_keys_values :
  forall (V : Type) (veqb : V -> V -> bool),
    (forall x y, reflect (x = y) (veqb x y)) ->
    forall actual expected : list (Z * list V),
      NoDup (map fst actual) -> NoDup (map fst expected) ->
      (assert_grouped_kv_equal veqb actual expected = true <->
       (forall k, In k (map fst actual) <-> In k (map fst expected)) /\
       (forall k va ve, In (k, va) actual -> In (k, ve) expected -> Permutation va ve)).
Proof. exact grouped_iff_same_keys_values. Qed.

Example c20_grouped_iff_same_keys_values_ex :
  (forall k, In k (map fst [(2, [3]); (1, [1; 2; 1])]%Z) <-> In k (map fst [(1, [1; 1; 2]); (2, [3])]%Z)) /\
  (forall k va ve, In (k, va) [(2, [3]); (1, [1; 2; 1])]%Z -> In (k, ve) [(1, [1; 1; 2]); (2, [3])]%Z ->
                   Permutation va ve).
Proof.
  assert (Ha : NoDup (map fst [(2, [3]); (1, [1; 2; 1])]%Z)).
  { repeat constructor; cbn; intuition discriminate. }
  assert (He : NoDup (map fst [(1, [1; 1; 2]); (2, [3])]%Z)).
  { repeat constructor; cbn; intuition discriminate. }
  apply (proj1 (c20_grouped_iff_same_keys_values Z Z.eqb Z.eqb_spec _ _ Ha He)).
  vm_compute. reflexivity.
Qed.

(* a value occurring a different number of times under the same key is never accepted *)
Theorem c20_grouped_never_accepts_multiplicity_change :
  forall (V : Type) (veqb : V -> V -> bool),
    (forall x y, reflect (x = y) (veqb x y)) ->
    forall (dec : forall x y : V, {x = y} + {x <> y})
           (actual expected : list (Z * list V)) (k : Z) (va ve : list V) (x : V),
      NoDup (map fst actual) ->
      In (k, va) actual -> In (k, ve) expected ->
      count_occ dec va x <> count_occ dec ve x ->
      assert_grouped_kv_equal veqb actual expected = false.
Proof. exact grouped_multiplicity. Qed.

(* the old defect witness [(k,[1;1])] vs [(k,[1])], and one of equal length *)
Example c20_grouped_never_accepts_multiplicity_change_ex :
  assert_grouped_kv_equal Z.eqb [(7, [1; 1])]%Z [(7, [1])]%Z = false /\
  assert_grouped_kv_equal Z.eqb [(7, [1; 1; 2])]%Z [(7, [1; 2; 2])]%Z = false.
Proof.
  split.
  - apply (c20_grouped_never_accepts_multiplicity_change Z Z.eqb Z.eqb_spec Z.eq_dec
             [(7, [1; 1])]%Z [(7, [1])]%Z 7%Z [1; 1]%Z [1]%Z 1%Z).
    + repeat constructor. cbn. intuition.
    + left. reflexivity.
    + left. reflexivity.
    + vm_compute. discriminate.
  - vm_compute. reflexivity.
Qed.

(* limit of the grouped assertion, outside grouped data proper: when a key repeats, the stable
   sort keeps the input order of its groups and they are compared position by position, so a
   reordering of equal-key groups is rejected although the pairing of c20_grouped_sound exists *)
Example c20_grouped_repeated_key_rejected :
  assert_grouped_kv_equal Z.eqb [(1, [1]); (1, [2])]%Z [(1, [2]); (1, [1])]%Z = false.
Proof. vm_compute. reflexivity. Qed.

(* ====================================================================================== *)
(* element types with a weaker equality                                                    *)
(* ====================================================================================== *)

(* T: PartialEq only. Whatever `==` is (not even reflexive: NaN), the ordered assertion passes
   exactly when the two slices have the same length and are `==` position by position. *)
Theorem c20_ordered_iff_any_eq :
  forall (A : Type) (eqb : A -> A -> bool) (actual expected : list A),
    assert_collections_equal eqb actual expected = true <->
    Forall2 (fun x y => eqb x y = true) actual expected.
Proof. exact ordered_iff_forall2. Qed.

(* an equality under which negative numbers equal nothing *)
Definition nan_like_eqb (x y : Z) : bool := (0 <=? x)%Z && (x =? y)%Z.

Example c20_ordered_iff_any_eq_ex :
  assert_collections_equal nan_like_eqb [1; 2]%Z [1; 2]%Z = true /\
  Forall2 (fun x y => nan_like_eqb x y = true) [1; 2]%Z [1; 2]%Z /\
  assert_collections_equal nan_like_eqb [1; -2]%Z [1; -2]%Z = false.
Proof.
  assert (H : assert_collections_equal nan_like_eqb [1; 2]%Z [1; 2]%Z = true) by (vm_compute; reflexivity).
  split; [exact H|]. split; [|vm_compute; reflexivity].
  exact (proj1 (c20_ordered_iff_any_eq Z nan_like_eqb _ _) H).
Qed.

(* ... so a collection holding an element that is not equal to itself differs from itself *)
Theorem c20_ordered_self_irreflexive :
  forall (A : Type) (eqb : A -> A -> bool) (a : list A) (x : A),
    In x a -> eqb x x = false -> assert_collections_equal eqb a a = false.
Proof. exact ordered_self_irreflexive. Qed.

Example c20_ordered_self_irreflexive_ex :
  In (-2)%Z [1; -2; 3]%Z /\ nan_like_eqb (-2) (-2) = false /\
  assert_collections_equal nan_like_eqb [1; -2; 3]%Z [1; -2; 3]%Z = false.
Proof.
  assert (Hi : In (-2)%Z [1; -2; 3]%Z) by (right; left; reflexivity).
  assert (Hx : nan_like_eqb (-2) (-2) = false) by (vm_compute; reflexivity).
  split; [exact Hi|]. split; [exact Hx|].
  exact (c20_ordered_self_irreflexive Z nan_like_eqb _ _ Hi Hx).
Qed.

(* slices of zero-sized elements: only the two lengths matter, for every length *)
Theorem c20_ordered_repeat :
  forall (A : Type) (eqb : A -> A -> bool) (x : A) (n m : nat),
    eqb x x = true ->
    assert_collections_equal eqb (repeat x n) (repeat x m) = Nat.eqb n m.
Proof. exact ordered_repeat. Qed.

Example c20_ordered_repeat_ex :
  assert_collections_equal (fun _ _ : unit => true) (repeat tt 300) (repeat tt 44) = false /\
  assert_collections_equal (fun _ _ : unit => true) (repeat tt 300) (repeat tt 300) = true.
Proof.
  split.
  - rewrite (c20_ordered_repeat unit (fun _ _ => true) tt 300 44 eq_refl). vm_compute. reflexivity.
  - rewrite (c20_ordered_repeat unit (fun _ _ => true) tt 300 300 eq_refl). vm_compute. reflexivity.
Qed.

(* T: Eq + Hash where Eq is an equivalence coarser than identity (say, it compares one field): the
   unordered assertion decides equality as multisets up to that equivalence *)
Theorem c20_unordered_iff_equivalence :
  forall (A : Type) (eqb : A -> A -> bool),
    (forall x, eqb x x = true) ->
    (forall x y, eqb x y = true -> eqb y x = true) ->
    (forall x y z, eqb x y = true -> eqb y z = true -> eqb x z = true) ->
    forall actual expected : list A,
      assert_collections_unordered_equal eqb actual expected = true <->
      PermutationA (fun x y => eqb x y = true) actual expected.
Proof. exact unordered_iff_equivalence. Qed.

(* pairs (value, tag) compared by value only *)
Definition by_value_eqb (x y : Z * Z) : bool := (fst x =? fst y)%Z.

Example c20_unordered_iff_equivalence_ex :
  assert_collections_unordered_equal by_value_eqb [(1, 10); (2, 11); (1, 12)]%Z [(2, 20); (1, 21); (1, 22)]%Z = true /\
  PermutationA (fun x y => by_value_eqb x y = true) [(1, 10); (2, 11); (1, 12)]%Z [(2, 20); (1, 21); (1, 22)]%Z /\
  assert_collections_unordered_equal by_value_eqb [(1, 10); (2, 11); (1, 12)]%Z [(2, 20); (2, 21); (1, 22)]%Z = false.
Proof.
  assert (Hr : forall x, by_value_eqb x x = true) by (intros x; apply Z.eqb_refl).
  assert (Hs : forall x y, by_value_eqb x y = true -> by_value_eqb y x = true).
  { intros x y H. unfold by_value_eqb in *. rewrite Z.eqb_sym. exact H. }
  assert (Ht : forall x y z, by_value_eqb x y = true -> by_value_eqb y z = true -> by_value_eqb x z = true).
  { intros x y z H1 H2. unfold by_value_eqb in *. apply Z.eqb_eq in H1. apply Z.eqb_eq in H2.
    apply Z.eqb_eq. congruence. }
  assert (H : assert_collections_unordered_equal by_value_eqb
                [(1, 10); (2, 11); (1, 12)]%Z [(2, 20); (1, 21); (1, 22)]%Z = true) by (vm_compute; reflexivity).
  split; [exact H|]. split; [|vm_compute; reflexivity].
  exact (proj1 (c20_unordered_iff_equivalence (Z * Z) by_value_eqb Hr Hs Ht _ _) H).
Qed.

(* the grouped assertion under such an equivalence on the values: acceptance means the groups pair
   off with equal keys and value lists that are equal as multisets up to the equivalence *)
Theorem c20_grouped_sound_equivalence :
  forall (V : Type) (veqb : V -> V -> bool),
    (forall x, veqb x x = true) ->
    (forall x y, veqb x y = true -> veqb y x = true) ->
    (forall x y z, veqb x y = true -> veqb y z = true -> veqb x z = true) ->
    forall actual expected : list (Z * list V),
      assert_grouped_kv_equal veqb actual expected = true ->
      exists expected',
        Permutation expected expected' /\
        Forall2 (fun x y => fst x = fst y /\ PermutationA (fun v w => veqb v w = true) (snd x) (snd y))
                actual expected'.
Proof. exact grouped_sound_equiv. Qed.

Example c20_grouped_sound_equivalence_ex :
  assert_grouped_kv_equal by_value_eqb [(2, [(3, 0)]); (1, [(1, 1); (2, 2); (1, 3)])]%Z
                                       [(1, [(1, 7); (1, 8); (2, 9)]); (2, [(3, 6)])]%Z = true /\
  assert_grouped_kv_equal by_value_eqb [(2, [(3, 0)]); (1, [(1, 1); (2, 2); (1, 3)])]%Z
                                       [(1, [(1, 7); (2, 8); (2, 9)]); (2, [(3, 6)])]%Z = false /\
  exists expected',
    Permutation [(1, [(1, 7); (1, 8); (2, 9)]); (2, [(3, 6)])]%Z expected' /\
    Forall2 (fun x y : Z * list (Z * Z) =>
               fst x = fst y /\ PermutationA (fun v w => by_value_eqb v w = true) (snd x) (snd y))
            [(2, [(3, 0)]); (1, [(1, 1); (2, 2); (1, 3)])]%Z expected'.
Proof.
  assert (Hr : forall x, by_value_eqb x x = true) by (intros x; apply Z.eqb_refl).
  assert (Hs : forall x y, by_value_eqb x y = true -> by_value_eqb y x = true).
  { intros x y H. unfold by_value_eqb in *. rewrite Z.eqb_sym. exact H. }
  assert (Ht : forall x y z, by_value_eqb x y = true -> by_value_eqb y z = true -> by_value_eqb x z = true).
  { intros x y z H1 H2. unfold by_value_eqb in *. apply Z.eqb_eq in H1. apply Z.eqb_eq in H2.
    apply Z.eqb_eq. congruence. }
  assert (H : assert_grouped_kv_equal by_value_eqb [(2, [(3, 0)]); (1, [(1, 1); (2, 2); (1, 3)])]%Z
                [(1, [(1, 7); (1, 8); (2, 9)]); (2, [(3, 6)])]%Z = true) by (vm_compute; reflexivity).
  split; [exact H|]. split; [vm_compute; reflexivity|].
  exact (c20_grouped_sound_equivalence (Z * Z) by_value_eqb Hr Hs Ht _ _ H).
Qed.

(* V: PartialEq only (what the signature of assert_kv_collections_equal asks for), no law assumed
   for ==: acceptance still means that the rows pair off one-to-one with equal keys and
   `expected value == actual value` *)
Theorem c20_kv_sound_any_eq :
  forall (V : Type) (veqb : V -> V -> bool) (actual expected : list (Z * V)),
    assert_kv_collections_equal veqb actual expected = true ->
    exists actual' expected',
      Permutation actual actual' /\ Permutation expected expected' /\
      Forall2 (fun x y => fst x = fst y /\ veqb (snd y) (snd x) = true) actual' expected'.
Proof. exact kv_sound_any_eq. Qed.

Example c20_kv_sound_any_eq_ex :
  assert_kv_collections_equal nan_like_eqb [(1, 10); (1, 20); (0, 5)]%Z [(0, 5); (1, 20); (1, 10)]%Z = true /\
  exists actual' expected',
    Permutation [(1, 10); (1, 20); (0, 5)]%Z actual' /\ Permutation [(0, 5); (1, 20); (1, 10)]%Z expected' /\
    Forall2 (fun x y : Z * Z => fst x = fst y /\ nan_like_eqb (snd y) (snd x) = true) actual' expected'.
Proof.
  assert (H : assert_kv_collections_equal nan_like_eqb
                [(1, 10); (1, 20); (0, 5)]%Z [(0, 5); (1, 20); (1, 10)]%Z = true) by (vm_compute; reflexivity).
  split; [exact H|]. exact (c20_kv_sound_any_eq Z nan_like_eqb _ _ H).
Qed.

(* ... so a row whose value is == to nothing (a NaN) is never accepted, not even against itself *)
Theorem c20_kv_rejects_unmatchable :
  forall (V : Type) (veqb : V -> V -> bool) (actual expected : list (Z * V)) (k : Z) (v : V),
    In (k, v) actual -> (forall w, veqb w v = false) ->
    assert_kv_collections_equal veqb actual expected = false.
Proof. exact kv_rejects_unmatchable. Qed.

(* an equality under which nothing equals a negative number (either side) *)
Definition nan_eqb (x y : Z) : bool := (0 <=? x)%Z && (0 <=? y)%Z && (x =? y)%Z.

Example c20_kv_rejects_unmatchable_ex :
  In (1, -20)%Z [(1, 10); (1, -20)]%Z /\ (forall w, nan_eqb w (-20) = false) /\
  assert_kv_collections_equal nan_eqb [(1, 10); (1, -20)]%Z [(1, 10); (1, -20)]%Z = false.
Proof.
  assert (Hi : In (1, -20)%Z [(1, 10); (1, -20)]%Z) by (right; left; reflexivity).
  assert (Hn : forall w, nan_eqb w (-20) = false).
  { intros w. unfold nan_eqb. destruct (0 <=? w)%Z; reflexivity. }
  split; [exact Hi|]. split; [exact Hn|].
  exact (c20_kv_rejects_unmatchable Z nan_eqb _ _ 1%Z (-20)%Z Hi Hn).
Qed.

(* the count comparison done once per distinct element (what the correspondence check runs on
   inputs of up to 65537 elements) is the same function *)
Theorem c20_unordered_fast_eq :
  forall (A : Type) (eqb : A -> A -> bool),
    (forall x y, reflect (x = y) (eqb x y)) ->
    forall actual expected : list A,
      assert_collections_unordered_equal_fast eqb actual expected =
      assert_collections_unordered_equal eqb actual expected.
Proof. exact unordered_fast_eq. Qed.

Example c20_unordered_fast_eq_ex :
  assert_collections_unordered_equal_fast Z.eqb [3; 1; 2; 1]%Z [1; 1; 2; 3]%Z = true /\
  assert_collections_unordered_equal_fast Z.eqb [1; 1; 2]%Z [1; 2; 2]%Z = false.
Proof. split; vm_compute; reflexivity. Qed.

(* ====================================================================================== *)
(* assert_all / assert_any / assert_none                                                   *)
(* ====================================================================================== *)
Theorem c20_all_iff :
  forall (A : Type) (p : A -> bool) (l : list A),
    assert_all p l = true <-> Forall (fun x => p x = true) l.
Proof. exact all_iff. Qed.

Example c20_all_iff_ex :
  assert_all Z.even [2; 4; 6]%Z = true /\ Forall (fun x => Z.even x = true) [2; 4; 6]%Z /\
  assert_all Z.even [2; 3; 6]%Z = false /\ assert_all Z.even [] = true.
Proof.
  assert (H : assert_all Z.even [2; 4; 6]%Z = true) by (vm_compute; reflexivity).
  split; [exact H|]. split; [exact (proj1 (c20_all_iff Z Z.even _) H)|].
  split; vm_compute; reflexivity.
Qed.

Theorem c20_any_iff :
  forall (A : Type) (p : A -> bool) (l : list A),
    assert_any p l = true <-> Exists (fun x => p x = true) l.
Proof. exact any_iff. Qed.

Example c20_any_iff_ex :
  assert_any Z.even [1; 3; 6]%Z = true /\ Exists (fun x => Z.even x = true) [1; 3; 6]%Z /\
  assert_any Z.even [1; 3; 5]%Z = false /\ assert_any Z.even [] = false.
Proof.
  assert (H : assert_any Z.even [1; 3; 6]%Z = true) by (vm_compute; reflexivity).
  split; [exact H|]. split; [exact (proj1 (c20_any_iff Z Z.even _) H)|].
  split; vm_compute; reflexivity.
Qed.

Theorem c20_none_iff :
  forall (A : Type) (p : A -> bool) (l : list A),
    assert_none p l = true <-> Forall (fun x => p x = false) l.
Proof. exact none_iff. Qed.

Example c20_none_iff_ex :
  assert_none Z.even [1; 3; 5]%Z = true /\ Forall (fun x => Z.even x = false) [1; 3; 5]%Z /\
  assert_none Z.even [1; 3; 6]%Z = false /\ assert_none Z.even [] = true.
Proof.
  assert (H : assert_none Z.even [1; 3; 5]%Z = true) by (vm_compute; reflexivity).
  split; [exact H|]. split; [exact (proj1 (c20_none_iff Z Z.even _) H)|].
  split; vm_compute; reflexivity.
Qed.

(* assert_any passes exactly when assert_none panics; assert_none is assert_all of the negation *)
Theorem c20_any_none_dual :
  forall (A : Type) (p : A -> bool) (l : list A), assert_any p l = negb (assert_none p l).
Proof. exact any_none. Qed.

Example c20_any_none_dual_ex :
  assert_any Z.even [1; 3; 6]%Z = negb (assert_none Z.even [1; 3; 6]%Z) /\
  assert_any Z.even [1; 3; 6]%Z = true.
Proof. split; vm_compute; reflexivity. Qed.

Theorem c20_none_is_all_negated :
  forall (A : Type) (p : A -> bool) (l : list A),
    assert_none p l = assert_all (fun x => negb (p x)) l.
Proof. exact none_all_negb. Qed.

Example c20_none_is_all_negated_ex :
  assert_none Z.even [1; 3; 5]%Z = assert_all (fun x => negb (Z.even x)) [1; 3; 5]%Z /\
  assert_none Z.even [1; 3; 5]%Z = true.
Proof. split; vm_compute; reflexivity. Qed.

(* the three predicate assertions do not depend on the order of the collection *)
Theorem c20_all_order_insensitive :
  forall (A : Type) (p : A -> bool) (l l' : list A),
    Permutation l l' -> assert_all p l = assert_all p l'.
Proof. exact all_perm. Qed.

Example c20_all_order_insensitive_ex :
  Permutation [2; 3; 6]%Z [6; 2; 3]%Z /\ assert_all Z.even [2; 3; 6]%Z = assert_all Z.even [6; 2; 3]%Z.
Proof.
  assert (Hp : Permutation [2; 3; 6]%Z [6; 2; 3]%Z).
  { apply Permutation_sym. apply (Permutation_cons_app [2; 3]%Z [] 6%Z). apply Permutation_refl. }
  split; [exact Hp|]. exact (c20_all_order_insensitive Z Z.even _ _ Hp).
Qed.

Theorem c20_any_order_insensitive :
  forall (A : Type) (p : A -> bool) (l l' : list A),
    Permutation l l' -> assert_any p l = assert_any p l'.
Proof. exact any_perm. Qed.

Example c20_any_order_insensitive_ex :
  Permutation [1; 3; 6]%Z [6; 1; 3]%Z /\ assert_any Z.even [1; 3; 6]%Z = assert_any Z.even [6; 1; 3]%Z.
Proof.
  assert (Hp : Permutation [1; 3; 6]%Z [6; 1; 3]%Z).
  { apply Permutation_sym. apply (Permutation_cons_app [1; 3]%Z [] 6%Z). apply Permutation_refl. }
  split; [exact Hp|]. exact (c20_any_order_insensitive Z Z.even _ _ Hp).
Qed.

Theorem c20_none_order_insensitive :
  forall (A : Type) (p : A -> bool) (l l' : list A),
    Permutation l l' -> assert_none p l = assert_none p l'.
Proof. exact none_perm. Qed.

Example c20_none_order_insensitive_ex :
  Permutation [1; 3; 6]%Z [6; 1; 3]%Z /\ assert_none Z.even [1; 3; 6]%Z = assert_none Z.even [6; 1; 3]%Z.
Proof.
  assert (Hp : Permutation [1; 3; 6]%Z [6; 1; 3]%Z).
  { apply Permutation_sym. apply (Permutation_cons_app [1; 3]%Z [] 6%Z). apply Permutation_refl. }
  split; [exact Hp|]. exact (c20_none_order_insensitive Z Z.even _ _ Hp).
Qed.

(* assert_all walks the collection in order and stops at the FIRST element failing the predicate
   (the one its message reports); a passing run has called the predicate once per element *)
Theorem c20_all_stops_at_first_failure :
  forall (A : Type) (p : A -> bool) (l : list A),
    (assert_all p l = true -> calls_all p l = length l) /\
    (assert_all p l = false ->
     exists l1 x l2, l = l1 ++ x :: l2 /\ Forall (fun y => p y = true) l1 /\ p x = false /\
                     calls_all p l = S (length l1)).
Proof. exact all_calls_spec. Qed.

Example c20_all_stops_at_first_failure_ex :
  assert_all Z.even [2; 4; 5; 6; 7]%Z = false /\ calls_all Z.even [2; 4; 5; 6; 7]%Z = 3%nat /\
  assert_all Z.even [2; 4]%Z = true /\ calls_all Z.even [2; 4]%Z = 2%nat.
Proof. repeat split; vm_compute; reflexivity. Qed.

(* assert_any and assert_none stop at the first element satisfying the predicate *)
Theorem c20_any_stops_at_first_hit :
  forall (A : Type) (p : A -> bool) (l : list A),
    (assert_any p l = false -> calls_until_hit p l = length l) /\
    (assert_any p l = true ->
     exists l1 x l2, l = l1 ++ x :: l2 /\ Forall (fun y => p y = false) l1 /\ p x = true /\
                     calls_until_hit p l = S (length l1)).
Proof. exact hit_calls_spec. Qed.

Example c20_any_stops_at_first_hit_ex :
  assert_any Z.even [1; 3; 6; 8]%Z = true /\ calls_until_hit Z.even [1; 3; 6; 8]%Z = 3%nat /\
  assert_any Z.even [1; 3]%Z = false /\ calls_until_hit Z.even [1; 3]%Z = 2%nat.
Proof. repeat split; vm_compute; reflexivity. Qed.

(* ====================================================================================== *)
(* assert_collection_size / assert_contains                                                *)
(* ====================================================================================== *)
Theorem c20_size_iff :
  forall (A : Type) (l : list A) (n : Z),
    assert_collection_size l n = true <-> Z.of_nat (length l) = n.
Proof. exact size_iff. Qed.

Example c20_size_iff_ex :
  assert_collection_size [7; 7; 7]%Z 3%Z = true /\ assert_collection_size [7; 7; 7]%Z 2%Z = false /\
  assert_collection_size [7; 7; 7]%Z 4%Z = false /\ assert_collection_size [7; 7; 7]%Z (3 + 2 ^ 32)%Z = false /\
  assert_collection_size (@nil Z) 0%Z = true.
Proof. repeat split; vm_compute; reflexivity. Qed.

Theorem c20_contains_iff_in :
  forall (A : Type) (eqb : A -> A -> bool),
    (forall x y, reflect (x = y) (eqb x y)) ->
    forall (l : list A) (x : A), assert_contains eqb l x = true <-> In x l.
Proof. exact contains_iff_in. Qed.

Example c20_contains_iff_in_ex :
  assert_contains Z.eqb [4; 1; 3]%Z 3%Z = true /\ In 3%Z [4; 1; 3]%Z /\
  assert_contains Z.eqb [4; 1; 3]%Z 2%Z = false /\ assert_contains Z.eqb [] 2%Z = false.
Proof.
  assert (H : assert_contains Z.eqb [4; 1; 3]%Z 3%Z = true) by (vm_compute; reflexivity).
  split; [exact H|]. split; [exact (proj1 (c20_contains_iff_in Z Z.eqb Z.eqb_spec _ _) H)|].
  split; vm_compute; reflexivity.
Qed.

(* for any PartialEq (collection element on the left of `==`), and as an instance of assert_any *)
Theorem c20_contains_iff_exists :
  forall (A : Type) (eqb : A -> A -> bool) (l : list A) (x : A),
    assert_contains eqb l x = true <-> Exists (fun y => eqb y x = true) l.
Proof. exact contains_iff_exists. Qed.

Example c20_contains_iff_exists_ex :
  assert_contains nan_like_eqb [4; -1; 3]%Z (-1)%Z = false /\
  assert_contains nan_like_eqb [4; -1; 3]%Z 3%Z = true /\
  Exists (fun y => nan_like_eqb y 3 = true) [4; -1; 3]%Z.
Proof.
  assert (H : assert_contains nan_like_eqb [4; -1; 3]%Z 3%Z = true) by (vm_compute; reflexivity).
  split; [vm_compute; reflexivity|]. split; [exact H|].
  exact (proj1 (c20_contains_iff_exists Z nan_like_eqb _ _) H).
Qed.

Theorem c20_contains_is_any :
  forall (A : Type) (eqb : A -> A -> bool) (l : list A) (x : A),
    assert_contains eqb l x = assert_any (fun y => eqb y x) l.
Proof. exact contains_any. Qed.

Example c20_contains_is_any_ex :
  assert_contains Z.eqb [4; 1; 3]%Z 3%Z = assert_any (fun y => Z.eqb y 3) [4; 1; 3]%Z /\
  assert_contains Z.eqb [4; 1; 3]%Z 3%Z = true.
Proof. split; vm_compute; reflexivity. Qed.

Theorem c20_contains_iff_count :
  forall (A : Type) (eqb : A -> A -> bool),
    (forall x y, reflect (x = y) (eqb x y)) ->
    forall (dec : forall x y : A, {x = y} + {x <> y}) (l : list A) (x : A),
      assert_contains eqb l x = true <-> count_occ dec l x > 0.
Proof. exact contains_iff_count. Qed.

Example c20_contains_iff_count_ex :
  count_occ Z.eq_dec [4; 3; 3]%Z 3%Z > 0 /\ assert_contains Z.eqb [4; 3; 3]%Z 3%Z = true.
Proof.
  assert (H : count_occ Z.eq_dec [4; 3; 3]%Z 3%Z > 0) by (vm_compute; repeat constructor).
  split; [exact H|]. exact (proj2 (c20_contains_iff_count Z Z.eqb Z.eqb_spec Z.eq_dec _ _) H).
Qed.

(* ====================================================================================== *)
(* assert_maps_equal                                                                       *)
(* ====================================================================================== *)
(* a HashMap is an association list with pairwise distinct keys. V: PartialEq only: the assertion
   passes iff under every key both maps are vacant or hold values with actual == expected *)
Theorem c20_maps_iff :
  forall (K V : Type) (keqb : K -> K -> bool) (veqb : V -> V -> bool),
    (forall x y, reflect (x = y) (keqb x y)) ->
    forall actual expected : list (K * V),
      NoDup (map fst actual) -> NoDup (map fst expected) ->
      (assert_maps_equal keqb veqb actual expected = true <->
       forall k, match lookup keqb k actual, lookup keqb k expected with
                 | Some x, Some y => veqb x y = true
                 | None, None => True
                 | _, _ => False
                 end).
Proof. exact maps_equal_iff. Qed.

Example c20_maps_iff_ex :
  NoDup (map fst [(1, 5); (2, -6)]%Z) /\
  assert_maps_equal Z.eqb nan_like_eqb [(1, 5); (2, 6)]%Z [(2, 6); (1, 5)]%Z = true /\
  assert_maps_equal Z.eqb nan_like_eqb [(1, 5); (2, -6)]%Z [(1, 5); (2, -6)]%Z = false.
Proof.
  split; [repeat constructor; cbn; intuition discriminate|]. split; vm_compute; reflexivity.
Qed.

(* lawful value equality: the maps are equal as finite maps *)
Theorem c20_maps_iff_lookup :
  forall (K V : Type) (keqb : K -> K -> bool) (veqb : V -> V -> bool),
    (forall x y, reflect (x = y) (keqb x y)) -> (forall x y, reflect (x = y) (veqb x y)) ->
    forall actual expected : list (K * V),
      NoDup (map fst actual) -> NoDup (map fst expected) ->
      (assert_maps_equal keqb veqb actual expected = true <->
       forall k, lookup keqb k actual = lookup keqb k expected).
Proof. exact maps_equal_iff_lookup. Qed.

Example c20_maps_iff_lookup_ex :
  NoDup (map fst [(1, 5); (2, 6)]%Z) /\ NoDup (map fst [(2, 6); (1, 5)]%Z) /\
  (forall k, lookup Z.eqb k [(1, 5); (2, 6)]%Z = lookup Z.eqb k [(2, 6); (1, 5)]%Z).
Proof.
  assert (Ha : NoDup (map fst [(1, 5); (2, 6)]%Z)) by (repeat constructor; cbn; intuition discriminate).
  assert (He : NoDup (map fst [(2, 6); (1, 5)]%Z)) by (repeat constructor; cbn; intuition discriminate).
  split; [exact Ha|]. split; [exact He|].
  apply (proj1 (c20_maps_iff_lookup Z Z Z.eqb Z.eqb Z.eqb_spec Z.eqb_spec _ _ Ha He)).
  vm_compute. reflexivity.
Qed.

(* ... i.e. the same entries in any order *)
Theorem c20_maps_iff_perm :
  forall (K V : Type) (keqb : K -> K -> bool) (veqb : V -> V -> bool),
    (forall x y, reflect (x = y) (keqb x y)) -> (forall x y, reflect (x = y) (veqb x y)) ->
    forall actual expected : list (K * V),
      NoDup (map fst actual) -> NoDup (map fst expected) ->
      (assert_maps_equal keqb veqb actual expected = true <-> Permutation actual expected).
Proof. exact maps_equal_iff_perm. Qed.

Example c20_maps_iff_perm_ex :
  NoDup (map fst [(1, 5); (2, 6); (3, 5)]%Z) /\ NoDup (map fst [(3, 5); (1, 5); (2, 6)]%Z) /\
  Permutation [(1, 5); (2, 6); (3, 5)]%Z [(3, 5); (1, 5); (2, 6)]%Z.
Proof.
  assert (Ha : NoDup (map fst [(1, 5); (2, 6); (3, 5)]%Z)) by (repeat constructor; cbn; intuition discriminate).
  assert (He : NoDup (map fst [(3, 5); (1, 5); (2, 6)]%Z)) by (repeat constructor; cbn; intuition discriminate).
  split; [exact Ha|]. split; [exact He|].
  apply (proj1 (c20_maps_iff_perm Z Z Z.eqb Z.eqb Z.eqb_spec Z.eqb_spec _ _ Ha He)).
  vm_compute. reflexivity.
Qed.

(* ... i.e., in the words of the property: the same key set and the same value under every key *)
Theorem c20_maps_iff_same_keys_values :
  forall (K V : Type) (keqb : K -> K -> bool) (veqb : V -> V -> bool),
    (forall x y, reflect (x = y) (keqb x y)) -> (forall x y, reflect (x = y) (veqb x y)) ->
    forall actual expected : list (K * V),
      NoDup (map fst actual) -> NoDup (map fst expected) ->
      (assert_maps_equal keqb veqb actual expected = true <->
       (forall k, In k (map fst actual) <-> In k (map fst expected)) /\
       (forall k va ve, In (k, va) actual -> In (k, ve) expected -> va = ve)).
Proof. exact maps_equal_iff_same_keys_values. Qed.

Example c20_maps_iff_same_keys_values_ex :
  (forall k, In k (map fst [(1, 5); (2, 6)]%Z) <-> In k (map fst [(2, 6); (1, 5)]%Z)) /\
  (forall k va ve, In (k, va) [(1, 5); (2, 6)]%Z -> In (k, ve) [(2, 6); (1, 5)]%Z -> va = ve).
Proof.
  assert (Ha : NoDup (map fst [(1, 5); (2, 6)]%Z)) by (repeat constructor; cbn; intuition discriminate).
  assert (He : NoDup (map fst [(2, 6); (1, 5)]%Z)) by (repeat constructor; cbn; intuition discriminate).
  apply (proj1 (c20_maps_iff_same_keys_values Z Z Z.eqb Z.eqb Z.eqb_spec Z.eqb_spec _ _ Ha He)).
  vm_compute. reflexivity.
Qed.

(* the order in which a HashMap hands out its entries (the `for` loop over `expected`, the bucket
   order of `actual`) has no influence on the outcome *)
Theorem c20_maps_order_insensitive :
  forall (K V : Type) (keqb : K -> K -> bool) (veqb : V -> V -> bool),
    (forall x y, reflect (x = y) (keqb x y)) ->
    forall a a' e e' : list (K * V),
      NoDup (map fst a) -> NoDup (map fst e) -> Permutation a a' -> Permutation e e' ->
      assert_maps_equal keqb veqb a e = assert_maps_equal keqb veqb a' e'.
Proof. exact maps_equal_perm_invariant. Qed.

Example c20_maps_order_insensitive_ex :
  Permutation [(1, 5); (2, 6)]%Z [(2, 6); (1, 5)]%Z /\
  assert_maps_equal Z.eqb Z.eqb [(1, 5); (2, 6)]%Z [(1, 5); (2, 7)]%Z =
  assert_maps_equal Z.eqb Z.eqb [(2, 6); (1, 5)]%Z [(1, 5); (2, 7)]%Z.
Proof.
  assert (Hp : Permutation [(1, 5); (2, 6)]%Z [(2, 6); (1, 5)]%Z) by apply perm_swap.
  split; [exact Hp|].
  apply (c20_maps_order_insensitive Z Z Z.eqb Z.eqb Z.eqb_spec);
    [repeat constructor; cbn; intuition discriminate|repeat constructor; cbn; intuition discriminate
    |exact Hp|apply Permutation_refl].
Qed.

(* maps as they are built: insert / collect keeps the keys distinct and the last value wins *)
Theorem c20_map_of_nodup :
  forall (K V : Type) (keqb : K -> K -> bool),
    (forall x y, reflect (x = y) (keqb x y)) ->
    forall ins : list (K * V), NoDup (map fst (map_of keqb ins)).
Proof. exact map_of_nodup. Qed.

Example c20_map_of_nodup_ex :
  map_of Z.eqb [(1, 5); (2, 6); (1, 7)]%Z = [(1, 7); (2, 6)]%Z /\
  NoDup (map fst (map_of Z.eqb [(1, 5); (2, 6); (1, 7)]%Z)).
Proof.
  split; [vm_compute; reflexivity|]. exact (c20_map_of_nodup Z Z Z.eqb Z.eqb_spec _).
Qed.

Theorem c20_map_of_last_wins :
  forall (K V : Type) (keqb : K -> K -> bool),
    (forall x y, reflect (x = y) (keqb x y)) ->
    forall (k : K) (ins : list (K * V)), lookup keqb k (map_of keqb ins) = lookup keqb k (rev ins).
Proof. exact lookup_map_of. Qed.

Example c20_map_of_last_wins_ex :
  lookup Z.eqb 1%Z (map_of Z.eqb [(1, 5); (2, 6); (1, 7)]%Z) = Some 7%Z /\
  lookup Z.eqb 1%Z (rev [(1, 5); (2, 6); (1, 7)]%Z) = Some 7%Z.
Proof. split; vm_compute; reflexivity. Qed.

Theorem c20_maps_of_inserts_iff :
  forall (K V : Type) (keqb : K -> K -> bool) (veqb : V -> V -> bool),
    (forall x y, reflect (x = y) (keqb x y)) -> (forall x y, reflect (x = y) (veqb x y)) ->
    forall ia ie : list (K * V),
      assert_maps_equal keqb veqb (map_of keqb ia) (map_of keqb ie) = true <->
      forall k, lookup keqb k (rev ia) = lookup keqb k (rev ie).
Proof. exact maps_of_inserts_iff. Qed.

Example c20_maps_of_inserts_iff_ex :
  assert_maps_equal Z.eqb Z.eqb (map_of Z.eqb [(1, 5); (2, 6); (1, 7)]%Z) (map_of Z.eqb [(2, 6); (1, 7)]%Z) = true /\
  (forall k, lookup Z.eqb k (rev [(1, 5); (2, 6); (1, 7)]%Z) = lookup Z.eqb k (rev [(2, 6); (1, 7)]%Z)) /\
  assert_maps_equal Z.eqb Z.eqb (map_of Z.eqb [(1, 7); (2, 6); (1, 5)]%Z) (map_of Z.eqb [(2, 6); (1, 7)]%Z) = false.
Proof.
  assert (H : assert_maps_equal Z.eqb Z.eqb (map_of Z.eqb [(1, 5); (2, 6); (1, 7)]%Z)
                (map_of Z.eqb [(2, 6); (1, 7)]%Z) = true) by (vm_compute; reflexivity).
  split; [exact H|]. split; [|vm_compute; reflexivity].
  exact (proj1 (c20_maps_of_inserts_iff Z Z Z.eqb Z.eqb Z.eqb_spec Z.eqb_spec _ _) H).
Qed.

(* never accepted: a key on one side only, or different values under a key *)
Theorem c20_maps_reject_extra_key :
  forall (K V : Type) (keqb : K -> K -> bool) (veqb : V -> V -> bool),
    (forall x y, reflect (x = y) (keqb x y)) -> (forall x y, reflect (x = y) (veqb x y)) ->
    forall (actual expected : list (K * V)) (k : K),
      NoDup (map fst actual) -> NoDup (map fst expected) ->
      In k (map fst actual) -> ~ In k (map fst expected) ->
      assert_maps_equal keqb veqb actual expected = false.
Proof. exact maps_reject_extra_key. Qed.

Example c20_maps_reject_extra_key_ex :
  assert_maps_equal Z.eqb Z.eqb [(1, 5); (2, 6)]%Z [(1, 5)]%Z = false /\
  assert_maps_equal Z.eqb Z.eqb [(1, 5); (2, 6)]%Z [(1, 5); (3, 6)]%Z = false.
Proof.
  split; [vm_compute; reflexivity|].
  apply (c20_maps_reject_extra_key Z Z Z.eqb Z.eqb Z.eqb_spec Z.eqb_spec _ _ 2%Z);
    [repeat constructor; cbn; intuition discriminate|repeat constructor; cbn; intuition discriminate
    |cbn; auto|cbn; intuition discriminate].
Qed.

Theorem c20_maps_reject_missing_key :
  forall (K V : Type) (keqb : K -> K -> bool) (veqb : V -> V -> bool),
    (forall x y, reflect (x = y) (keqb x y)) -> (forall x y, reflect (x = y) (veqb x y)) ->
    forall (actual expected : list (K * V)) (k : K),
      NoDup (map fst actual) -> NoDup (map fst expected) ->
      ~ In k (map fst actual) -> In k (map fst expected) ->
      assert_maps_equal keqb veqb actual expected = false.
Proof. exact maps_reject_missing_key. Qed.

Example c20_maps_reject_missing_key_ex :
  assert_maps_equal Z.eqb Z.eqb [(1, 5)]%Z [(1, 5); (2, 6)]%Z = false.
Proof.
  apply (c20_maps_reject_missing_key Z Z Z.eqb Z.eqb Z.eqb_spec Z.eqb_spec _ _ 2%Z);
    [repeat constructor; cbn; intuition discriminate|repeat constructor; cbn; intuition discriminate
    |cbn; intuition discriminate|cbn; auto].
Qed.

Theorem c20_maps_reject_value :
  forall (K V : Type) (keqb : K -> K -> bool) (veqb : V -> V -> bool),
    (forall x y, reflect (x = y) (keqb x y)) -> (forall x y, reflect (x = y) (veqb x y)) ->
    forall (actual expected : list (K * V)) (k : K) (va ve : V),
      NoDup (map fst actual) -> NoDup (map fst expected) ->
      In (k, va) actual -> In (k, ve) expected -> va <> ve ->
      assert_maps_equal keqb veqb actual expected = false.
Proof. exact maps_reject_value. Qed.

Example c20_maps_reject_value_ex :
  assert_maps_equal Z.eqb Z.eqb [(1, 5); (2, 6)]%Z [(2, 7); (1, 5)]%Z = false.
Proof.
  apply (c20_maps_reject_value Z Z Z.eqb Z.eqb Z.eqb_spec Z.eqb_spec _ _ 2%Z 6%Z 7%Z);
    [repeat constructor; cbn; intuition discriminate|repeat constructor; cbn; intuition discriminate
    |cbn; auto|cbn; auto|discriminate].
Qed.

(* ====================================================================================== *)
(* assert_jsonl_equals / assert_csv_equals (file = list of lines, None = cannot be opened)  *)
(* ====================================================================================== *)
(* example instance: a line is Some z (a record if z >= 0, malformed otherwise) or None (blank);
   the csv header row is Some (-1) *)
Definition ex_blank (l : option Z) : bool := match l with None => true | Some _ => false end.
Definition ex_parse (l : option Z) : option Z :=
  match l with Some z => if (0 <=? z)%Z then Some z else None | None => None end.
Definition ex_cparse (h l : option Z) : option Z :=
  match h with Some (-1)%Z => ex_parse l | _ => None end.

(* the JSON Lines assertion passes iff the non-blank lines of the file parse, one by one and in
   order, to the expected records *)
Theorem c20_jsonl_iff :
  forall (L R : Type) (reqb : R -> R -> bool),
    (forall x y, reflect (x = y) (reqb x y)) ->
    forall (blank : L -> bool) (parse : L -> option R) (lines : list L) (expected : list R),
      assert_jsonl_equals reqb blank parse (Some lines) expected = true <->
      Forall2 (fun l x => parse l = Some x) (filter (fun l => negb (blank l)) lines) expected.
Proof. exact jsonl_iff. Qed.

Example c20_jsonl_iff_ex :
  assert_jsonl_equals Z.eqb ex_blank ex_parse (Some [Some 4; None; Some 5; None]%Z) [4; 5]%Z = true /\
  Forall2 (fun l x => ex_parse l = Some x)
          (filter (fun l => negb (ex_blank l)) [Some 4; None; Some 5; None]%Z) [4; 5]%Z /\
  assert_jsonl_equals Z.eqb ex_blank ex_parse (Some [Some 4; None; Some 5]%Z) [4]%Z = false /\
  assert_jsonl_equals Z.eqb ex_blank ex_parse (Some [Some 4; None; Some 5]%Z) [5; 4]%Z = false.
Proof.
  assert (H : assert_jsonl_equals Z.eqb ex_blank ex_parse (Some [Some 4; None; Some 5; None]%Z) [4; 5]%Z = true)
    by (vm_compute; reflexivity).
  split; [exact H|]. split; [exact (proj1 (c20_jsonl_iff _ Z Z.eqb Z.eqb_spec ex_blank ex_parse _ _) H)|].
  split; vm_compute; reflexivity.
Qed.

Theorem c20_jsonl_no_file :
  forall (L R : Type) (reqb : R -> R -> bool) (blank : L -> bool) (parse : L -> option R) (expected : list R),
    assert_jsonl_equals reqb blank parse None expected = false.
Proof. exact jsonl_no_file. Qed.

Example c20_jsonl_no_file_ex :
  assert_jsonl_equals Z.eqb ex_blank ex_parse None [] = false.
Proof. exact (c20_jsonl_no_file _ Z Z.eqb ex_blank ex_parse []). Qed.

(* one malformed line anywhere fails the assertion whatever is expected *)
Theorem c20_jsonl_bad_line :
  forall (L R : Type) (reqb : R -> R -> bool),
    (forall x y, reflect (x = y) (reqb x y)) ->
    forall (blank : L -> bool) (parse : L -> option R) (lines : list L) (l : L) (expected : list R),
      In l lines -> blank l = false -> parse l = None ->
      assert_jsonl_equals reqb blank parse (Some lines) expected = false.
Proof. exact jsonl_bad_line. Qed.

Example c20_jsonl_bad_line_ex :
  assert_jsonl_equals Z.eqb ex_blank ex_parse (Some [Some 4; Some (-3); Some 5]%Z) [4; 5]%Z = false.
Proof.
  apply (c20_jsonl_bad_line _ Z Z.eqb Z.eqb_spec ex_blank ex_parse _ (Some (-3)%Z));
    [right; left; reflexivity|reflexivity|reflexivity].
Qed.

(* blank lines do not matter, wherever they are *)
Theorem c20_jsonl_skips_blank :
  forall (L R : Type) (blank : L -> bool) (parse : L -> option R) (lines : list L),
    read_jsonl blank parse (filter (fun l => negb (blank l)) lines) = read_jsonl blank parse lines.
Proof. exact read_jsonl_skips_blank. Qed.

Example c20_jsonl_skips_blank_ex :
  read_jsonl ex_blank ex_parse [None; Some 4; None; None; Some 5]%Z = Some [4; 5]%Z /\
  read_jsonl ex_blank ex_parse (filter (fun l => negb (ex_blank l)) [None; Some 4; None; None; Some 5]%Z) = Some [4; 5]%Z.
Proof. split; vm_compute; reflexivity. Qed.

(* a file written by mock_jsonl_file is accepted for exactly the data it was written from *)
Theorem c20_jsonl_roundtrip :
  forall (L R : Type) (reqb : R -> R -> bool),
    (forall x y, reflect (x = y) (reqb x y)) ->
    forall (blank : L -> bool) (parse : L -> option R) (print : R -> L),
      (forall x, parse (print x) = Some x) -> (forall x, blank (print x) = false) ->
      forall data expected : list R,
        assert_jsonl_equals reqb blank parse (Some (mock_jsonl_file print data)) expected = true <->
        data = expected.
Proof. exact jsonl_roundtrip. Qed.

(* records are the natural numbers here, so that every record prints to a line that parses back *)
Example c20_jsonl_roundtrip_ex :
  let parse := fun l : option nat => l in
  let blank := fun l : option nat => match l with None => true | _ => false end in
  (forall x, parse (Some x) = Some x) /\ (forall x, blank (Some x) = false) /\
  assert_jsonl_equals Nat.eqb blank parse (Some (mock_jsonl_file (@Some nat) [3; 1; 2])) [3; 1; 2] = true /\
  assert_jsonl_equals Nat.eqb blank parse (Some (mock_jsonl_file (@Some nat) [3; 1; 2])) [3; 2; 1] = false.
Proof.
  cbv zeta. split; [reflexivity|]. split; [reflexivity|]. split.
  - apply (proj2 (c20_jsonl_roundtrip _ nat Nat.eqb Nat.eqb_spec
                    (fun l => match l with None => true | _ => false end) (fun l => l) (@Some nat)
                    (fun x => eq_refl) (fun x => eq_refl) [3; 1; 2] [3; 1; 2])). reflexivity.
  - vm_compute. reflexivity.
Qed.

(* CSV: the first non-empty row is taken as the header row and never compared; the remaining rows,
   deserialized against it, must be the expected records in order *)
Theorem c20_csv_iff :
  forall (L R : Type) (reqb : R -> R -> bool),
    (forall x y, reflect (x = y) (reqb x y)) ->
    forall (cblank : L -> bool) (cparse : L -> L -> option R) (lines : list L) (expected : list R),
      assert_csv_equals reqb cblank cparse (Some lines) expected = true <->
      match filter (fun l => negb (cblank l)) lines with
      | [] => expected = []
      | h :: rows => Forall2 (fun l x => cparse h l = Some x) rows expected
      end.
Proof. exact csv_iff. Qed.

Example c20_csv_iff_ex :
  assert_csv_equals Z.eqb ex_blank ex_cparse (Some [Some (-1); Some 4; None; Some 5]%Z) [4; 5]%Z = true /\
  assert_csv_equals Z.eqb ex_blank ex_cparse (Some [Some 4; Some 5]%Z) [4; 5]%Z = false /\
  assert_csv_equals Z.eqb ex_blank ex_cparse (Some [Some 4]%Z) [] = true /\
  assert_csv_equals Z.eqb ex_blank ex_cparse (Some [Some (-1); Some 4; Some 5]%Z) [4]%Z = false.
Proof. repeat split; vm_compute; reflexivity. Qed.

Theorem c20_csv_no_file :
  forall (L R : Type) (reqb : R -> R -> bool) (cblank : L -> bool) (cparse : L -> L -> option R)
         (expected : list R),
    assert_csv_equals reqb cblank cparse None expected = false.
Proof. exact csv_no_file. Qed.

Example c20_csv_no_file_ex :
  assert_csv_equals Z.eqb ex_blank ex_cparse None [] = false.
Proof. exact (c20_csv_no_file _ Z Z.eqb ex_blank ex_cparse []). Qed.

(* a file written by mock_csv_file (either value of with_header: the flag has no effect) is accepted
   for exactly the data it was written from *)
Theorem c20_csv_roundtrip :
  forall (L R : Type) (reqb : R -> R -> bool),
    (forall x y, reflect (x = y) (reqb x y)) ->
    forall (cblank : L -> bool) (cparse : L -> L -> option R) (print : R -> L) (header : L),
      (forall x, cparse header (print x) = Some x) -> cblank header = false ->
      (forall x, cblank (print x) = false) ->
      forall (data expected : list R) (with_header : bool),
        assert_csv_equals reqb cblank cparse (Some (mock_csv_file print header data with_header)) expected = true <->
        data = expected.
Proof. exact csv_roundtrip. Qed.

Example c20_csv_roundtrip_ex :
  let cblank := fun l : option (option nat) => match l with None => true | _ => false end in
  let cparse := fun h l : option (option nat) => match h, l with Some None, Some (Some x) => Some x | _, _ => None end in
  let print := fun x : nat => Some (Some x) in
  assert_csv_equals Nat.eqb cblank cparse (Some (mock_csv_file print (Some None) [3; 1; 2] false)) [3; 1; 2] = true /\
  mock_csv_file print (Some None) [3; 1; 2] false = mock_csv_file print (Some None) [3; 1; 2] true /\
  mock_csv_file print (Some None) [] true = [].
Proof.
  cbv zeta. split; [|split; reflexivity].
  apply (proj2 (c20_csv_roundtrip _ nat Nat.eqb Nat.eqb_spec
                  (fun l => match l with None => true | _ => false end)
                  (fun h l => match h, l with Some None, Some (Some x) => Some x | _, _ => None end)
                  (fun x => Some (Some x)) (Some None)
                  (fun x => eq_refl) eq_refl (fun x => eq_refl) [3; 1; 2] [3; 1; 2] false)). reflexivity.
Qed.

(* a CSV file that has no header row loses its first record: the reader takes it for the header *)
Theorem c20_csv_headerless_loses_first :
  forall (L R : Type) (reqb : R -> R -> bool),
    (forall x y, reflect (x = y) (reqb x y)) ->
    forall (cblank : L -> bool) (cparse : L -> L -> option R) (print : R -> L)
           (x : R) (data expected : list R),
      (forall y, cblank (print y) = false) ->
      (assert_csv_equals reqb cblank cparse (Some (map print (x :: data))) expected = true <->
       Forall2 (fun l y => cparse (print x) l = Some y) (map print data) expected).
Proof. exact csv_headerless_loses_first. Qed.

(* with a position-based record type (the header names are not looked at) the file [7; 8; 9] without
   a header row is accepted for the expectation [8; 9] *)
Example c20_csv_headerless_loses_first_ex :
  let cblank := fun l : option nat => match l with None => true | _ => false end in
  let cparse := fun (h l : option nat) => l in
  (forall y, cblank (Some y) = false) /\
  assert_csv_equals Nat.eqb cblank cparse (Some (map (@Some nat) [7; 8; 9])) [8; 9] = true /\
  assert_csv_equals Nat.eqb cblank cparse (Some (map (@Some nat) [7; 8; 9])) [7; 8; 9] = false.
Proof. cbv zeta. split; [reflexivity|]. split; vm_compute; reflexivity. Qed.
