(* C20: the shipped test assertions accept exactly equal collections.
   This file holds ONLY the property theorems (each closed by `exact`) and their
   non-vacuity examples. `= true` means the assertion returns, `= false` that it panics. *)
From Coq Require Import List ZArith Bool Permutation.
From IB Require Import Testing.Assertions Proofs.AssertionsProofs.
Import ListNotations.

(* ---------- ordered ---------- *)
Theorem c20_ordered_iff :
  forall (A : Type) (eqb : A -> A -> bool),
    (forall x y, reflect (x = y) (eqb x y)) ->
    forall actual expected : list A,
      assert_collections_equal eqb actual expected = true <-> actual = expected.
Proof. exact ordered_iff. Qed.

Example c20_ordered_iff_ex :
  assert_collections_equal Z.eqb [1; 2; 2]%Z [1; 2; 2]%Z = true /\
  assert_collections_equal Z.eqb [1; 2; 2]%Z [2; 1; 2]%Z = false.
Proof. split; vm_compute; reflexivity. Qed.

(* ---------- unordered: multiset equality ---------- *)
Theorem c20_unordered_iff :
  forall (A : Type) (eqb : A -> A -> bool),
    (forall x y, reflect (x = y) (eqb x y)) ->
    forall actual expected : list A,
      assert_collections_unordered_equal eqb actual expected = true <->
      Permutation actual expected.
Proof. exact unordered_iff. Qed.

Example c20_unordered_iff_ex :
  assert_collections_unordered_equal Z.eqb [3; 1; 2; 1]%Z [1; 1; 2; 3]%Z = true /\
  Permutation [3; 1; 2; 1]%Z [1; 1; 2; 3]%Z.
Proof.
  assert (H : assert_collections_unordered_equal Z.eqb [3; 1; 2; 1]%Z [1; 1; 2; 3]%Z = true)
    by (vm_compute; reflexivity).
  split; [exact H|]. exact (proj1 (c20_unordered_iff Z Z.eqb Z.eqb_spec _ _) H).
Qed.

(* the assertion never accepts collections that differ in how often an element occurs *)
Theorem c20_never_accepts_multiplicity_change :
  forall (A : Type) (eqb : A -> A -> bool),
    (forall x y, reflect (x = y) (eqb x y)) ->
    forall (dec : forall x y : A, {x = y} + {x <> y}) (actual expected : list A) (x : A),
      count_occ dec actual x <> count_occ dec expected x ->
      assert_collections_unordered_equal eqb actual expected = false.
Proof. exact unordered_multiplicity. Qed.

(* the old defect witness: same length, same set, different multiplicities *)
Example c20_never_accepts_multiplicity_change_ex :
  count_occ Z.eq_dec [1; 1; 2]%Z 1%Z <> count_occ Z.eq_dec [1; 2; 2]%Z 1%Z /\
  assert_collections_unordered_equal Z.eqb [1; 1; 2]%Z [1; 2; 2]%Z = false.
Proof.
  assert (H : count_occ Z.eq_dec [1; 1; 2]%Z 1%Z <> count_occ Z.eq_dec [1; 2; 2]%Z 1%Z)
    by (vm_compute; discriminate).
  split; [exact H|].
  exact (c20_never_accepts_multiplicity_change Z Z.eqb Z.eqb_spec Z.eq_dec _ _ _ H).
Qed.

(* ---------- key-sorted (key, value) rows: multiset equality, also with repeated keys ---------- *)
Theorem c20_kv_iff :
  forall (V : Type) (veqb : V -> V -> bool),
    (forall x y, reflect (x = y) (veqb x y)) ->
    forall actual expected : list (Z * V),
      assert_kv_collections_equal veqb actual expected = true <-> Permutation actual expected.
Proof. exact kv_iff. Qed.

Example c20_kv_iff_ex :
  assert_kv_collections_equal Z.eqb [(1, 10); (1, 20); (0, 5)]%Z [(0, 5); (1, 20); (1, 10)]%Z = true /\
  Permutation [(1, 10); (1, 20); (0, 5)]%Z [(0, 5); (1, 20); (1, 10)]%Z /\
  assert_kv_collections_equal Z.eqb [(1, 10); (1, 10); (0, 5)]%Z [(0, 5); (1, 20); (1, 10)]%Z = false.
Proof.
  assert (H : assert_kv_collections_equal Z.eqb
                [(1, 10); (1, 20); (0, 5)]%Z [(0, 5); (1, 20); (1, 10)]%Z = true)
    by (vm_compute; reflexivity).
  split; [exact H|]. split; [|vm_compute; reflexivity].
  exact (proj1 (c20_kv_iff Z Z.eqb Z.eqb_spec _ _) H).
Qed.

(* ---------- grouped data (key, list of values) ---------- *)
(* acceptance always means: the groups of `expected` can be rearranged so that, position by
   position, the keys are equal and the value lists are equal as multisets *)
Theorem c20_grouped_sound :
  forall (V : Type) (veqb : V -> V -> bool),
    (forall x y, reflect (x = y) (veqb x y)) ->
    forall actual expected : list (Z * list V),
      assert_grouped_kv_equal veqb actual expected = true ->
      exists expected',
        Permutation expected expected' /\
        Forall2 (fun x y => fst x = fst y /\ Permutation (snd x) (snd y)) actual expected'.
Proof. exact grouped_sound. Qed.

Example c20_grouped_sound_ex :
  assert_grouped_kv_equal Z.eqb [(2, [3]); (1, [1; 2; 1])]%Z [(1, [1; 1; 2]); (2, [3])]%Z = true /\
  assert_grouped_kv_equal Z.eqb [(2, [3]); (1, [1; 2; 1])]%Z [(1, [1; 2; 2]); (2, [3])]%Z = false.
Proof. split; vm_compute; reflexivity. Qed.

(* grouped data proper (each key occurs once on either side): accepted iff that pairing exists *)
Theorem c20_grouped_iff_nodup :
  forall (V : Type) (veqb : V -> V -> bool),
    (forall x y, reflect (x = y) (veqb x y)) ->
    forall actual expected : list (Z * list V),
      NoDup (map fst actual) -> NoDup (map fst expected) ->
      (assert_grouped_kv_equal veqb actual expected = true <->
       exists expected',
         Permutation expected expected' /\
         Forall2 (fun x y => fst x = fst y /\ Permutation (snd x) (snd y)) actual expected').
Proof. exact grouped_iff_nodup. Qed.

Example c20_grouped_iff_nodup_ex :
  NoDup (map fst [(2, [3]); (1, [1; 2; 1])]%Z) /\ NoDup (map fst [(1, [1; 1; 2]); (2, [3])]%Z) /\
  exists expected',
    Permutation [(1, [1; 1; 2]); (2, [3])]%Z expected' /\
    Forall2 (fun x y : Z * list Z => fst x = fst y /\ Permutation (snd x) (snd y))
            [(2, [3]); (1, [1; 2; 1])]%Z expected'.
Proof.
  assert (Ha : NoDup (map fst [(2, [3]); (1, [1; 2; 1])]%Z)).
  { repeat constructor; cbn; intuition discriminate. }
  assert (He : NoDup (map fst [(1, [1; 1; 2]); (2, [3])]%Z)).
  { repeat constructor; cbn; intuition discriminate. }
  split; [exact Ha|]. split; [exact He|].
  apply (proj1 (c20_grouped_iff_nodup Z Z.eqb Z.eqb_spec _ _ Ha He)). vm_compute. reflexivity.
Qed.

(* the same, in the words of the property: the same keys and, per key, the same multiset of values *)
Theorem c20_grouped_iff_same_keys_values :
  forall (V : Type) (veqb : V -> V -> bool),
    (forall x y, reflect (x = y) (veqb x y)) ->
    forall actual expected : list (Z * list V),
      NoDup (map fst actual) -> NoDup (map fst expected) ->
      (assert_grouped_kv_equal veqb actual expected = true <->
       (forall k, In k (map fst actual) <-> In k (map fst expected)) /\
       (forall k va ve, In (k, va) actual -> In (k, ve) expected -> Permutation va ve)).
Proof. exact grouped_iff_same_keys_values. Qed.

Example c20_grouped_iff_same_keys_values_ex :
  (forall k, In k (map fst [(2, [3]); (1, [1; 2; 1])]%Z) <-> In k (map fst [(1, [1; 1; 2]); (2, [3])]%Z)) /\
  (forall k va ve, In (k, va) [(2, [3]); (1, [1; 2; 1])]%Z -> In (k, ve) [(1, [1; 1; 2]); (2, [3])]%Z ->
                   Permutation va ve).
Proof.
  assert (Ha : NoDup (map fst [(2, [3]); (1, [1; 2; 1])]%Z)).
  { repeat constructor; cbn; intuition discriminate. }
  assert (He : NoDup (map fst [(1, [1; 1; 2]); (2, [3])]%Z)).
  { repeat constructor; cbn; intuition discriminate. }
  apply (proj1 (c20_grouped_iff_same_keys_values Z Z.eqb Z.eqb_spec _ _ Ha He)).
  vm_compute. reflexivity.
Qed.

(* a value occurring a different number of times under the same key is never accepted *)
Theorem c20_grouped_never_accepts_multiplicity_change :
  forall (V : Type) (veqb : V -> V -> bool),
    (forall x y, reflect (x = y) (veqb x y)) ->
    forall (dec : forall x y : V, {x = y} + {x <> y})
           (actual expected : list (Z * list V)) (k : Z) (va ve : list V) (x : V),
      NoDup (map fst actual) ->
      In (k, va) actual -> In (k, ve) expected ->
      count_occ dec va x <> count_occ dec ve x ->
      assert_grouped_kv_equal veqb actual expected = false.
Proof. exact grouped_multiplicity. Qed.

(* the old defect witness [(k,[1;1])] vs [(k,[1])], and one of equal length *)
Example c20_grouped_never_accepts_multiplicity_change_ex :
  assert_grouped_kv_equal Z.eqb [(7, [1; 1])]%Z [(7, [1])]%Z = false /\
  assert_grouped_kv_equal Z.eqb [(7, [1; 1; 2])]%Z [(7, [1; 2; 2])]%Z = false.
Proof.
  split.
  - apply (c20_grouped_never_accepts_multiplicity_change Z Z.eqb Z.eqb_spec Z.eq_dec
             [(7, [1; 1])]%Z [(7, [1])]%Z 7%Z [1; 1]%Z [1]%Z 1%Z).
    + repeat constructor. cbn. intuition.
    + left. reflexivity.
    + left. reflexivity.
    + vm_compute. discriminate.
  - vm_compute. reflexivity.
Qed.

(* limit of the grouped assertion, outside grouped data proper: when a key repeats, the stable
   sort keeps the input order of its groups and they are compared position by position, so a
   reordering of equal-key groups is rejected although the pairing of c20_grouped_sound exists *)
Example c20_grouped_repeated_key_rejected :
  assert_grouped_kv_equal Z.eqb [(1, [1]); (1, [2])]%Z [(1, [2]); (1, [1])]%Z = false.
Proof. vm_compute. reflexivity. Qed.
