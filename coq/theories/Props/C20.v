(* C20: the shipped test assertions accept exactly equal collections.
   This file holds ONLY the property theorems (each closed by `exact`) and their
   non-vacuity examples. *)
From Coq Require Import List ZArith Bool Permutation.
From IB Require Import Testing.Assertions Proofs.AssertionsProofs.
Import ListNotations.

Theorem c20_ordered_iff :
  forall (A : Type) (eqb : A -> A -> bool),
    (forall x y, reflect (x = y) (eqb x y)) ->
    forall actual expected : list A,
      assert_collections_equal eqb actual expected = true <-> actual = expected.
Proof. exact ordered_iff. Qed.
