(* C08: collections are lazy, immutable and re-runnable; branches do not interfere.
   ONLY the property theorems (each closed by `exact`) and their non-vacuity examples.

   Reading guide (model: Pipeline/Graph.v, History.v, Invariant.v):
   - V, F, G are ARBITRARY types: element values, names of user element functions, names of
     join functions; `interp_f`, `interp_g` are ARBITRARY interpretations of the names.
   - `run init_config h = Some (c, evs)`: h is a valid history - any interleaving, by any
     number of threads, of the atomic (one-lock) steps of from_vec / map,filter,.. / join_* /
     collect_* calls in which every call only uses handles whose creating call has returned;
     c is the configuration reached, evs the handles and collect results returned on the way.
   - `value_of_lineage` is defined by recursion on the lineage term alone. *)
From Coq Require Import List Arith Bool.
From IB Require Import Pipeline.Graph Pipeline.History Pipeline.Invariant Pipeline.Rename.
From IB Require Import Proofs.PipelineGraph Proofs.PipelineInv Proofs.PipelineMain Proofs.PipelineLazy.
Import ListNotations.

(* ---------- the invariant ---------- *)
Theorem c08_inv_step :
  forall (V F G : Type) (c : config V F G) (l : label V F G) (c' : config V F G)
         (evs : list (event V F G)),
    Inv c -> cstep c l = Some (c', evs) -> Inv c'.
Proof. exact inv_step. Qed.

Theorem c08_inv_reachable :
  forall (V F G : Type) (h : list (label V F G)) (c : config V F G) (evs : list (event V F G)),
    run init_config h = Some (c, evs) -> Inv c.
Proof. exact inv_reachable. Qed.

(* in every reachable graph an edge goes from an older to a newer node and is THE edge into
   its target: `edges.iter().find(|(_, to)| *to == cur)` cannot pick a wrong predecessor *)
Theorem c08_single_predecessor :
  forall (V F G : Type) (h : list (label V F G)) (c : config V F G) (evs : list (event V F G)),
    run init_config h = Some (c, evs) ->
    forall a b, In (a, b) (edges (c_state c)) ->
                a < b /\ b < next_id (c_state c) /\ pred_of (edges (c_state c)) b = Some a.
Proof. exact single_predecessor. Qed.

(* ---------- distinct identifiers ---------- *)
Theorem c08_ids_distinct :
  forall (V F G : Type) (h : list (label V F G)) (c : config V F G) (evs : list (event V F G)),
    run init_config h = Some (c, evs) ->
    c_pool c = handles_of evs /\
    NoDup (map h_id (handles_of evs)) /\          (* all handles ever returned *)
    NoDup (map fst (nodes (c_state c))).          (* all nodes, incl. the joins' dummy sources *)
Proof. exact ids_distinct. Qed.

(* ---------- a collection's value depends on its lineage only ---------- *)
Theorem c08_lineage_only :
  forall (V F G : Type) (interp_f : F -> list V -> list V)
         (interp_g : G -> list V -> list V -> list V)
         (h1 h2 : list (label V F G)) (c1 c2 : config V F G) (e1 e2 : list (event V F G))
         (x : handle V F G),
    run init_config h1 = Some (c1, e1) ->
    In x (c_pool c1) ->                      (* x's creating call has returned *)
    run c1 h2 = Some (c2, e2) ->             (* ANY continuation by any threads *)
    collect interp_f interp_g (c_state c2) x = value_of_lineage interp_f interp_g (h_lin x) /\
    chain_from (snapshot (c_state c2)) (h_id x) = Ok (chain_of (h_lin x)) /\
    chain_from (snapshot (c_state c1)) (h_id x) = Ok (chain_of (h_lin x)).
Proof. exact lineage_only. Qed.

(* every collect call of every history returns the lineage value: the first, a repeated one,
   one issued while other threads are half-way through building, one of an ancestor after
   descendants and joins were added, one of a sibling *)
Theorem c08_collect_returns_lineage_value :
  forall (V F G : Type) (interp_f : F -> list V -> list V)
         (interp_g : G -> list V -> list V -> list V)
         (h : list (label V F G)) (c : config V F G) (evs : list (event V F G))
         (t : nat) (x : handle V F G) (plan : outcome (list (node V F G))),
    run init_config h = Some (c, evs) ->
    In (EvCollect t x plan) evs ->
    collect_value interp_f interp_g plan = value_of_lineage interp_f interp_g (h_lin x).
Proof. exact collect_events. Qed.

(* collecting consumes nothing: no step of a collect call changes the graph or the pool *)
Theorem c08_collect_does_not_change_state :
  forall (V F G : Type) (c : config V F G) (l : label V F G) (c' : config V F G)
         (evs : list (event V F G)),
    cstep c l = Some (c', evs) -> is_collect_label c l = true ->
    c_state c' = c_state c /\ c_pool c' = c_pool c.
Proof. exact collect_pure. Qed.

(* the graph is append-only: a later snapshot extends an earlier one *)
Theorem c08_monotone :
  forall (V F G : Type) (h : list (label V F G)) (c c' : config V F G) (evs : list (event V F G)),
    run c h = Some (c', evs) ->
    next_id (c_state c) <= next_id (c_state c') /\
    (exists ns, nodes (c_state c') = ns ++ nodes (c_state c)) /\
    (exists es, edges (c_state c') = edges (c_state c) ++ es) /\
    (exists hs, c_pool c' = c_pool c ++ hs).
Proof. exact monotone. Qed.

(* ---------- laziness ---------- *)
(* No definition of the state machine (`cstep`, `run`: History.v) takes an interpretation of the
   function names, so no step - not even the snapshot/backwalk of a collect - can apply a user
   function; user functions are applied only by `collect_value` on the plan a collect event
   carries.  The theorem states this as the corresponding parametricity ("free") theorem: the
   state machine commutes with ANY renaming phi/psi of the function names (to names of other
   types, e.g. to unit: it cannot even tell two user functions apart). *)
Theorem c08_lazy :
  forall (V F G F' G' : Type) (phi : F -> F') (psi : G -> G')
         (h : list (label V F G)) (c : config V F G) (evs : list (event V F G)),
    run init_config h = Some (c, evs) ->
    exists c' : config V F' G',
      run init_config (map (map_label phi psi) h) = Some (c', map (map_event phi psi) evs) /\
      c_state c' = map_state phi psi (c_state c) /\
      c_pool c' = map (map_handle phi psi) (c_pool c) /\
      forall t, c_threads c' t = map_tstate phi psi (c_threads c t).
Proof. exact lazy_renaming. Qed.

(* ======================= non-vacuity examples ======================= *)
(* V = nat, a user function name n means "add n to every element", the only join name means
   "append".  Two threads; thread 1 inserts its node inside the insert/connect window of
   thread 0, both derive from the same parent; later a join of the two siblings, a collect of
   the common ancestor and two collects of the join. *)
Definition ex_f (n : nat) (l : list nat) : list nat := map (Nat.add n) l.
Definition ex_g (_ : unit) (a b : list nat) : list nat := a ++ b.

Definition ex_h1 : list (label nat nat unit) :=
  [ (0, Some (CSource [1; 2]));        (* node 0                       pool[0] *)
    (0, Some (CDerive 10 0));          (* thread 0 inserts node 1 ...           *)
    (1, Some (CDerive 20 0));          (* ... thread 1 inserts node 2 in the window *)
    (1, None);                         (* thread 1 connects 0 -> 2     pool[1] *)
    (0, None) ].                       (* thread 0 connects 0 -> 1     pool[2] *)
Definition ex_h2 : list (label nat nat unit) :=
  [ (1, Some (CJoin tt 1 2)); (1, None);   (* two snapshots *)
    (0, Some (CCollect 0));                (* thread 0 starts collecting the ancestor *)
    (1, None); (1, None);                  (* dummy = node 3, CoGroup = node 4 *)
    (0, None); (0, None);                  (* snapshot taken between insert and connect *)
    (1, None);                             (* connect 3 -> 4               pool[3] *)
    (1, Some (CCollect 3)); (1, None); (1, None);
    (0, Some (CCollect 3)); (0, None); (0, None) ].

Definition ex_x0 : handle nat nat unit := mk_handle 0 (LSrc [1; 2]).
Definition ex_x1 : handle nat nat unit := mk_handle 2 (LDerive 20 (LSrc [1; 2])).
Definition ex_x2 : handle nat nat unit := mk_handle 1 (LDerive 10 (LSrc [1; 2])).
Definition ex_xj : handle nat nat unit :=
  mk_handle 4 (LJoin tt (LDerive 20 (LSrc [1; 2])) (LDerive 10 (LSrc [1; 2]))).

Example c08_inv_reachable_ex :
  exists c evs, run init_config (ex_h1 ++ ex_h2) = Some (c, evs) /\ Inv c /\
                next_id (c_state c) = 5 /\ edges (c_state c) = [(0, 2); (0, 1); (3, 4)].
Proof.
  destruct (run init_config (ex_h1 ++ ex_h2)) as [[c evs]|] eqn:E; [|vm_compute in E; discriminate].
  exists c, evs. split; [reflexivity|]. split; [exact (c08_inv_reachable _ _ _ _ _ _ E)|].
  vm_compute in E. inversion E; subst. split; reflexivity.
Qed.

Example c08_inv_step_ex :
  exists c e c' evs,
    run init_config ex_h1 = Some (c, e) /\
    cstep c (1, Some (CJoin tt 1 2)) = Some (c', evs) /\ Inv c /\ Inv c'.
Proof.
  destruct (run init_config ex_h1) as [[c e]|] eqn:E; [|vm_compute in E; discriminate].
  destruct (cstep c (1, Some (CJoin tt 1 2))) as [[c' evs]|] eqn:E2;
    [|exfalso; vm_compute in E; inversion E; subst; vm_compute in E2; discriminate].
  pose proof (c08_inv_reachable _ _ _ _ _ _ E) as HI.
  exists c, e, c', evs. split; [first [exact E|reflexivity]|]. split; [exact E2|].
  split; [exact HI|]. exact (c08_inv_step _ _ _ _ _ _ _ HI E2).
Qed.

Example c08_single_predecessor_ex :
  exists c evs, run init_config (ex_h1 ++ ex_h2) = Some (c, evs) /\
                In (0, 1) (edges (c_state c)) /\ pred_of (edges (c_state c)) 1 = Some 0.
Proof.
  destruct (run init_config (ex_h1 ++ ex_h2)) as [[c evs]|] eqn:E; [|vm_compute in E; discriminate].
  exists c, evs. split; [reflexivity|].
  assert (Hin : In (0, 1) (edges (c_state c))).
  { vm_compute in E. inversion E; subst. cbn. auto. }
  split; [exact Hin|].
  exact (proj2 (proj2 (c08_single_predecessor _ _ _ _ _ _ E 0 1 Hin))).
Qed.

Example c08_ids_distinct_ex :
  exists c evs, run init_config (ex_h1 ++ ex_h2) = Some (c, evs) /\
                map h_id (handles_of evs) = [0; 2; 1; 4] /\ NoDup (map h_id (handles_of evs)).
Proof.
  destruct (run init_config (ex_h1 ++ ex_h2)) as [[c evs]|] eqn:E; [|vm_compute in E; discriminate].
  exists c, evs. split; [reflexivity|].
  split; [|exact (proj1 (proj2 (c08_ids_distinct _ _ _ _ _ _ E)))].
  vm_compute in E. inversion E; subst. reflexivity.
Qed.

(* the ancestor x0 and the sibling x2, completed in ex_h1, keep their values through ex_h2 *)
Example c08_lineage_only_ex :
  exists c1 e1 c2 e2,
    run init_config ex_h1 = Some (c1, e1) /\ In ex_x0 (c_pool c1) /\ In ex_x2 (c_pool c1) /\
    run c1 ex_h2 = Some (c2, e2) /\
    collect ex_f ex_g (c_state c2) ex_x0 = Ok [1; 2] /\
    collect ex_f ex_g (c_state c2) ex_x2 = Ok [11; 12] /\
    value_of_lineage ex_f ex_g (h_lin ex_x2) = Ok [11; 12].
Proof.
  destruct (run init_config ex_h1) as [[c1 e1]|] eqn:E1; [|vm_compute in E1; discriminate].
  destruct (run c1 ex_h2) as [[c2 e2]|] eqn:E2;
    [|vm_compute in E1; inversion E1; subst; vm_compute in E2; discriminate].
  assert (H0 : In ex_x0 (c_pool c1)) by (vm_compute in E1; inversion E1; subst; cbn; auto).
  assert (H2 : In ex_x2 (c_pool c1)) by (vm_compute in E1; inversion E1; subst; cbn; auto).
  exists c1, e1, c2, e2. repeat split; auto.
  - rewrite (proj1 (c08_lineage_only _ _ _ ex_f ex_g _ _ _ _ _ _ _ E1 H0 E2)). reflexivity.
  - rewrite (proj1 (c08_lineage_only _ _ _ ex_f ex_g _ _ _ _ _ _ _ E1 H2 E2)). reflexivity.
Qed.

Example c08_collect_returns_lineage_value_ex :
  exists c evs plan,
    run init_config (ex_h1 ++ ex_h2) = Some (c, evs) /\
    In (EvCollect 1 ex_xj plan) evs /\ In (EvCollect 0 ex_xj plan) evs /\
    In (EvCollect 0 ex_x0 (Ok [NSource [1; 2]])) evs /\
    collect_value ex_f ex_g plan = Ok [21; 22; 11; 12] /\
    value_of_lineage ex_f ex_g (h_lin ex_xj) = Ok [21; 22; 11; 12].
Proof.
  destruct (run init_config (ex_h1 ++ ex_h2)) as [[c evs]|] eqn:E; [|vm_compute in E; discriminate].
  exists c, evs, (Ok (chain_of (h_lin ex_xj))).
  assert (H1 : In (EvCollect 1 ex_xj (Ok (chain_of (h_lin ex_xj)))) evs)
    by (vm_compute in E; inversion E; subst; cbn; auto 10).
  assert (H2 : In (EvCollect 0 ex_xj (Ok (chain_of (h_lin ex_xj)))) evs)
    by (vm_compute in E; inversion E; subst; cbn; auto 10).
  assert (H3 : In (EvCollect 0 ex_x0 (Ok [NSource [1; 2]])) evs)
    by (vm_compute in E; inversion E; subst; cbn; auto 10).
  split; [reflexivity|]. split; [exact H1|]. split; [exact H2|]. split; [exact H3|].
  split; [|reflexivity].
  rewrite (c08_collect_returns_lineage_value _ _ _ ex_f ex_g _ _ _ _ _ _ E H1). reflexivity.
Qed.

Example c08_collect_does_not_change_state_ex :
  exists c e c' evs,
    run init_config ex_h1 = Some (c, e) /\
    is_collect_label c (0, Some (CCollect 2)) = true /\
    cstep c (0, Some (CCollect 2)) = Some (c', evs) /\
    c_state c' = c_state c /\ next_id (c_state c) = 3.
Proof.
  destruct (run init_config ex_h1) as [[c e]|] eqn:E; [|vm_compute in E; discriminate].
  destruct (cstep c (0, Some (CCollect 2))) as [[c' evs]|] eqn:E2;
    [|exfalso; vm_compute in E; inversion E; subst; vm_compute in E2; discriminate].
  assert (Hl : is_collect_label c (0, Some (CCollect 2)) = true)
    by (vm_compute in E; inversion E; subst; reflexivity).
  exists c, e, c', evs. split; [first [exact E|reflexivity]|]. split; [exact Hl|].
  split; [exact E2|].
  split; [exact (proj1 (c08_collect_does_not_change_state _ _ _ _ _ _ _ E2 Hl))|].
  vm_compute in E. inversion E; subst. reflexivity.
Qed.

Example c08_monotone_ex :
  exists c1 e1 c2 e2,
    run init_config ex_h1 = Some (c1, e1) /\ run c1 ex_h2 = Some (c2, e2) /\
    next_id (c_state c1) = 3 /\ next_id (c_state c2) = 5 /\
    exists es, edges (c_state c2) = edges (c_state c1) ++ es.
Proof.
  destruct (run init_config ex_h1) as [[c1 e1]|] eqn:E1; [|vm_compute in E1; discriminate].
  destruct (run c1 ex_h2) as [[c2 e2]|] eqn:E2;
    [|vm_compute in E1; inversion E1; subst; vm_compute in E2; discriminate].
  exists c1, e1, c2, e2. split; [first [exact E1|reflexivity]|]. split; [exact E2|].
  split; [vm_compute in E1; inversion E1; subst; reflexivity|].
  split; [vm_compute in E1; inversion E1; subst; vm_compute in E2; inversion E2; subst; reflexivity|].
  exact (proj1 (proj2 (proj2 (c08_monotone _ _ _ _ _ _ _ E2)))).
Qed.

(* renaming every function name to tt: the erased history runs to the erased result *)
Example c08_lazy_ex :
  exists c evs (c' : config nat unit unit),
    run init_config (ex_h1 ++ ex_h2) = Some (c, evs) /\
    run init_config (map (map_label (fun _ => tt) (fun u => u)) (ex_h1 ++ ex_h2))
      = Some (c', map (map_event (fun _ => tt) (fun u => u)) evs) /\
    map h_id (c_pool c') = [0; 2; 1; 4].
Proof.
  destruct (run init_config (ex_h1 ++ ex_h2)) as [[c evs]|] eqn:E; [|vm_compute in E; discriminate].
  destruct (c08_lazy _ _ _ unit unit (fun _ => tt) (fun u => u) _ _ _ E) as (c' & Hr & _ & Hp & _).
  exists c, evs, c'. split; [reflexivity|]. split; [exact Hr|].
  rewrite Hp, map_map. vm_compute in E. inversion E; subst. reflexivity.
Qed.
