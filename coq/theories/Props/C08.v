(* C08: collections are lazy, immutable and re-runnable; branches do not interfere.
   ONLY the property theorems (each closed by `exact`) and their non-vacuity examples.

   Reading guide (model: Pipeline/Graph.v, History.v, Invariant.v):
   - V, F, G are ARBITRARY types: element values, names of user element functions, names of
     join functions; `interp_f`, `interp_g` are ARBITRARY interpretations of the names.
   - `run init_config h = Some (c, evs)`: h is a valid history - any interleaving, by any
     number of threads, of the atomic (one-lock) steps of from_vec / map,filter,.. / join_* /
     collect_* calls in which every call only uses handles whose creating call has returned;
     c is the configuration reached, evs the handles and collect results returned on the way.
   - `value_of_lineage` is defined by recursion on the lineage term alone. *)
From Coq Require Import List Arith NArith Bool.
From IB Require Import Pipeline.Graph Pipeline.History Pipeline.Invariant Pipeline.Rename.
From IB Require Import Pipeline.Source Pipeline.Multi.
From IB Require Import Proofs.PipelineGraph Proofs.PipelineInv Proofs.PipelineMain Proofs.PipelineLazy.
From IB Require Import Proofs.PipelineSource Proofs.PipelineMulti.
Import ListNotations.

(* ---------- the invariant ---------- *)
Theorem c08_inv_step :
  forall (V F G : Type) (c : config V F G) (l : label V F G) (c' : config V F G)
         (evs : list (event V F G)),
    Inv c -> cstep c l = Some (c', evs) -> Inv c'.
Proof. exact inv_step. Qed.

Theorem c08_inv_reachable :
  forall (V F G : Type) (h : list (label V F G)) (c : config V F G) (evs : list (event V F G)),
    run init_config h = Some (c, evs) -> Inv c.
Proof. exact inv_reachable. Qed.

(* in every reachable graph an edge goes from an older to a newer node and is THE edge into
   its target: `edges.iter().find(|(_, to)| *to == cur)` cannot pick a wrong predecessor *)
Theorem c08_single_predecessor :
  forall (V F G : Type) (h : list (label V F G)) (c : config V F G) (evs : list (event V F G)),
    run init_config h = Some (c, evs) ->
    forall a b, In (a, b) (edges (c_state c)) ->
                a < b /\ b < next_id (c_state c) /\ pred_of (edges (c_state c)) b = Some a.
Proof. exact single_predecessor. Qed.

(* ---------- distinct identifiers ---------- *)
Theorem c08_ids_distinct :
  forall (V F G : Type) (h : list (label V F G)) (c : config V F G) (evs : list (event V F G)),
    run init_config h = Some (c, evs) ->
    c_pool c = handles_of evs /\
    NoDup (map h_id (handles_of evs)) /\          (* all handles ever returned *)
    NoDup (map fst (nodes (c_state c))).          (* all nodes, incl. the joins' dummy sources *)
Proof. exact ids_distinct. Qed.

(* ---------- a collection's value depends on its lineage only ---------- *)
Theorem c08_lineage_only :
  forall (V F G : Type) (interp_f : F -> list V -> list V)
         (interp_g : G -> list V -> list V -> list V)
         (h1 h2 : list (label V F G)) (c1 c2 : config V F G) (e1 e2 : list (event V F G))
         (x : handle V F G),
    run init_config h1 = Some (c1, e1) ->
    In x (c_pool c1) ->                      (* x's creating call has returned *)
    run c1 h2 = Some (c2, e2) ->             (* ANY continuation by any threads *)
    collect interp_f interp_g (c_state c2) x = value_of_lineage interp_f interp_g (h_lin x) /\
    chain_from (snapshot (c_state c2)) (h_id x) = Ok (chain_of (h_lin x)) /\
    chain_from (snapshot (c_state c1)) (h_id x) = Ok (chain_of (h_lin x)).
Proof. exact lineage_only. Qed.

(* every collect call of every history returns the lineage value: the first, a repeated one,
   one issued while other threads are half-way through building, one of an ancestor after
   descendants and joins were added, one of a sibling *)
Theorem c08_collect_returns_lineage_value :
  forall (V F G : Type) (interp_f : F -> list V -> list V)
         (interp_g : G -> list V -> list V -> list V)
         (h : list (label V F G)) (c : config V F G) (evs : list (event V F G))
         (t : nat) (x : handle V F G) (plan : outcome (list (node V F G))),
    run init_config h = Some (c, evs) ->
    In (EvCollect t x plan) evs ->
    collect_value interp_f interp_g plan = value_of_lineage interp_f interp_g (h_lin x).
Proof. exact collect_events. Qed.

(* collecting consumes nothing: no step of a collect call changes the graph or the pool *)
Theorem c08_collect_does_not_change_state :
  forall (V F G : Type) (c : config V F G) (l : label V F G) (c' : config V F G)
         (evs : list (event V F G)),
    cstep c l = Some (c', evs) -> is_collect_label c l = true ->
    c_state c' = c_state c /\ c_pool c' = c_pool c.
Proof. exact collect_pure. Qed.

(* the graph is append-only: a later snapshot extends an earlier one *)
Theorem c08_monotone :
  forall (V F G : Type) (h : list (label V F G)) (c c' : config V F G) (evs : list (event V F G)),
    run c h = Some (c', evs) ->
    next_id (c_state c) <= next_id (c_state c') /\
    (exists ns, nodes (c_state c') = ns ++ nodes (c_state c)) /\
    (exists es, edges (c_state c') = edges (c_state c) ++ es) /\
    (exists hs, c_pool c' = c_pool c ++ hs).
Proof. exact monotone. Qed.

(* ---------- laziness ---------- *)
(* No definition of the state machine (`cstep`, `run`: History.v) takes an interpretation of the
   function names, so no step - not even the snapshot/backwalk of a collect - can apply a user
   function; user functions are applied only by `collect_value` on the plan a collect event
   carries.  The theorem states this as the corresponding parametricity ("free") theorem: the
   state machine commutes with ANY renaming phi/psi of the function names (to names of other
   types, e.g. to unit: it cannot even tell two user functions apart). *)
Theorem c08_lazy :
  forall (V F G F' G' : Type) (phi : F -> F') (psi : G -> G')
         (h : list (label V F G)) (c : config V F G) (evs : list (event V F G)),
    run init_config h = Some (c, evs) ->
    exists c' : config V F' G',
      run init_config (map (map_label phi psi) h) = Some (c', map (map_event phi psi) evs) /\
      c_state c' = map_state phi psi (c_state c) /\
      c_pool c' = map (map_handle phi psi) (c_pool c) /\
      forall t, c_threads c' t = map_tstate phi psi (c_threads c t).
Proof. exact lazy_renaming. Qed.

(* ---------- what a Source node reads (Pipeline/Source.v) ---------- *)
(* Reading guide: a `source` is a payload with its VecOps adapter (from_vec, from_custom_source,
   read_*_streaming); `seq_read` is the Source arm of the sequential engine (clone_any),
   `par_head` / `par_read` the head of the parallel engine (len -> partition request -> split,
   falling back to clone_any); `lawful o p rows`: clone_any yields rows and whenever split
   answers, its partitions are rows in order. *)

(* both engines, for every partition count, read a lawful source as the SAME list of rows:
   the `d` of the graph model's `NSource d` *)
Theorem c08_source_read_mode_independent :
  forall (V : Type) (s : source V) (rows : list V),
    lawful (s_ops s) (s_payload s) rows ->
    seq_read s = ROk rows /\
    forall partitions : nat,
      par_read s partitions = ROk rows /\
      (exists ps, par_head s partitions = ROk ps /\ concat ps = rows) /\
      1 <= par_parts s partitions <= Nat.max partitions 1.
Proof. exact source_modes. Qed.

(* VecOpsImpl (from_vec), a user adapter that hides the length, the paged user adapter with
   every len / split behaviour: all lawful, for all data *)
Theorem c08_builtin_sources_lawful :
  forall V : Type,
    (forall v : list V, lawful impl_ops v v) /\
    (forall P (o : vec_ops V P) p rows, lawful o p rows -> lawful (nolen_ops o) p rows) /\
    (forall len_known sm (pg : list (list V)), lawful (pages_ops len_known sm) pg (concat pg)).
Proof. exact builtin_sources_lawful. Qed.

(* the streamed JSONL (blank lines counted for the ranges, skipped by the reader) / CSV / Parquet
   sources: lawful for every file and every shard size (0 behaves as 1) *)
Theorem c08_streamed_sources_lawful :
  forall V : Type,
    (forall (ls : list (option V)) (per : N),
        lawful jsonl_ops (build_jsonl_shards ls per) (rows_of_lines ls)) /\
    (forall (rows : list V) (per : N), lawful csv_ops (build_csv_shards rows per) rows) /\
    (forall (groups : list (list V)) (per : N),
        lawful parquet_ops (build_parquet_shards groups per) (concat groups)).
Proof. exact streamed_sources_lawful. Qed.

(* len() = None ("size unknown until read"): the parallel engine asks for ONE partition and
   still returns the rows - never an empty result (seeded change C08-r4m3) *)
Theorem c08_unknown_length_source :
  forall (V P : Type) (o : vec_ops V P) (p : P) (rows : list V) (partitions : nat),
    lawful o p rows ->
    let s := mk_source P (nolen_ops o) p in
    par_parts s partitions = 1 /\ par_read s partitions = ROk rows /\ seq_read s = ROk rows.
Proof. exact nolen_source_reads. Qed.

(* One adapter OBJECT shared by many sources (an `Arc<dyn VecOps>` may keep state: the model
   threads a state through all calls): if the adapter is lawful in every state, then for ANY
   program of reads - any order, repetition, modes, partition counts - every read returns the
   rows of its own payload: collecting other collections never changes what one returns *)
Theorem c08_shared_adapter_reads :
  forall (V St P : Type) (o : st_ops V St P) (ok : P -> Prop) (rows : P -> list V),
    st_lawful o ok rows ->
    forall (l : list (P * read_mode)) (st : St),
      Forall (fun pm => ok (fst pm)) l ->
      st_reads o st l = map (fun pm => ROk (rows (fst pm))) l.
Proof. exact shared_adapter_reads. Qed.

(* ... which holds for the (stateless) JSONL adapter over any files and shard sizes *)
Theorem c08_jsonl_shared_adapter :
  forall (V : Type) (l : list (list (option V) * N * read_mode)),
    st_reads (pure_st jsonl_ops) tt
             (map (fun x => (build_jsonl_shards (fst (fst x)) (snd (fst x)), snd x)) l)
    = map (fun x => ROk (rows_of_lines (fst (fst x)))) l.
Proof. exact jsonl_shared_reads. Qed.

(* ... and FAILS for an adapter that remembers decoded shards by line range (seeded change
   C08-r4m1): with two files of equal line ranges, the file read first defines what the other
   returns; the stateless adapter returns each file's own rows *)
Theorem c08_memo_adapter_refuted :
  let a := build_jsonl_shards [Some 1; Some 2; Some 3; Some 4] 2%N in
  let b := build_jsonl_shards [Some 10; Some 20; Some 30; Some 40] 2%N in
  st_reads memo_jsonl_ops [] [(a, RdSeq); (b, RdSeq); (b, RdPar 2); (a, RdPar 2)]
    = [ROk [1; 2; 3; 4]; ROk [1; 2; 3; 4]; ROk [10; 20; 30; 40]; ROk [10; 20; 30; 40]]
  /\ st_reads (pure_st jsonl_ops) tt [(a, RdSeq); (b, RdSeq); (b, RdPar 2); (a, RdPar 2)]
    = [ROk [1; 2; 3; 4]; ROk [10; 20; 30; 40]; ROk [10; 20; 30; 40]; ROk [1; 2; 3; 4]].
Proof. exact memo_adapter_refuted. Qed.

(* the handle of a lawful custom source, in any history and after any continuation: collect
   returns exactly the rows both engines read from the source *)
Theorem c08_custom_source_rerunnable :
  forall (V F G : Type) (interp_f : F -> list V -> list V)
         (interp_g : G -> list V -> list V -> list V)
         (s : source V) (rows : list V)
         (h1 h2 : list (label V F G)) (c1 c2 : config V F G) (e1 e2 : list (event V F G))
         (x : handle V F G),
    lawful (s_ops s) (s_payload s) rows ->
    run init_config h1 = Some (c1, e1) ->
    In x (c_pool c1) -> h_lin x = LSrc rows ->
    run c1 h2 = Some (c2, e2) ->
    collect interp_f interp_g (c_state c2) x = Ok rows /\
    seq_read s = ROk rows /\
    forall partitions : nat, par_read s partitions = ROk rows.
Proof. exact custom_source_rerunnable. Qed.

(* ---------- several pipelines ---------- *)
(* Reading guide (Pipeline/Multi.v): a multi-pipeline configuration is a family of pipeline
   configurations; a step names the pipeline whose lock it takes; `proj q h` = the steps of h on
   pipeline q.  Thread identifiers are global. *)

(* pipelines are independent state machines: whatever the other pipelines do in between, a
   history acts on pipeline q exactly like its projection on q *)
Theorem c08_pipelines_independent :
  forall (V F G : Type) (h : list (mlabel V F G)) (mc mc' : mconfig V F G)
         (evs : list (event V F G)),
    mrun mc h = Some (mc', evs) ->
    forall q, exists evs_q,
      run (mc q) (proj q h) = Some (mc' q, evs_q) /\ (forall e, In e evs_q -> In e evs).
Proof. exact mrun_proj. Qed.

(* every pipeline of every reachable multi-pipeline configuration satisfies the invariant and has
   pairwise distinct node and handle ids (ids are per pipeline: two pipelines both start at 0) *)
Theorem c08_multi_pipeline_reachable :
  forall (V F G : Type) (h : list (mlabel V F G)) (mc : mconfig V F G) (evs : list (event V F G)),
    mrun minit h = Some (mc, evs) ->
    forall q,
      Inv (mc q) /\
      NoDup (map fst (nodes (c_state (mc q)))) /\
      NoDup (map h_id (c_pool (mc q))) /\
      exists evs_q, run init_config (proj q h) = Some (mc q, evs_q).
Proof. exact multi_reachable. Qed.

(* every collect of every multi-pipeline history returns the lineage value *)
Theorem c08_multi_pipeline_collect :
  forall (V F G : Type) (interp_f : F -> list V -> list V)
         (interp_g : G -> list V -> list V -> list V)
         (h : list (mlabel V F G)) (mc : mconfig V F G) (evs : list (event V F G))
         (t : nat) (x : handle V F G) (plan : outcome (list (node V F G))),
    mrun minit h = Some (mc, evs) ->
    In (EvCollect t x plan) evs ->
    collect_value interp_f interp_g plan = value_of_lineage interp_f interp_g (h_lin x).
Proof. exact multi_collect_events. Qed.

(* ======================= non-vacuity examples ======================= *)
(* V = nat, a user function name n means "add n to every element", the only join name means
   "append".  Two threads; thread 1 inserts its node inside the insert/connect window of
   thread 0, both derive from the same parent; later a join of the two siblings, a collect of
   the common ancestor and two collects of the join. *)
Definition ex_f (n : nat) (l : list nat) : list nat := map (Nat.add n) l.
Definition ex_g (_ : unit) (a b : list nat) : list nat := a ++ b.

Definition ex_h1 : list (label nat nat unit) :=
  [ (0, Some (CSource [1; 2]));        (* node 0                       pool[0] *)
    (0, Some (CDerive 10 0));          (* thread 0 inserts node 1 ...           *)
    (1, Some (CDerive 20 0));          (* ... thread 1 inserts node 2 in the window *)
    (1, None);                         (* thread 1 connects 0 -> 2     pool[1] *)
    (0, None) ].                       (* thread 0 connects 0 -> 1     pool[2] *)
Definition ex_h2 : list (label nat nat unit) :=
  [ (1, Some (CJoin tt 1 2)); (1, None);   (* two snapshots *)
    (0, Some (CCollect 0));                (* thread 0 starts collecting the ancestor *)
    (1, None); (1, None);                  (* dummy = node 3, CoGroup = node 4 *)
    (0, None); (0, None);                  (* snapshot taken between insert and connect *)
    (1, None);                             (* connect 3 -> 4               pool[3] *)
    (1, Some (CCollect 3)); (1, None); (1, None);
    (0, Some (CCollect 3)); (0, None); (0, None) ].

Definition ex_x0 : handle nat nat unit := mk_handle 0 (LSrc [1; 2]).
Definition ex_x1 : handle nat nat unit := mk_handle 2 (LDerive 20 (LSrc [1; 2])).
Definition ex_x2 : handle nat nat unit := mk_handle 1 (LDerive 10 (LSrc [1; 2])).
Definition ex_xj : handle nat nat unit :=
  mk_handle 4 (LJoin tt (LDerive 20 (LSrc [1; 2])) (LDerive 10 (LSrc [1; 2]))).

Example c08_inv_reachable_ex :
  exists c evs, run init_config (ex_h1 ++ ex_h2) = Some (c, evs) /\ Inv c /\
                next_id (c_state c) = 5 /\ edges (c_state c) = [(0, 2); (0, 1); (3, 4)].
Proof.
  destruct (run init_config (ex_h1 ++ ex_h2)) as [[c evs]|] eqn:E; [|vm_compute in E; discriminate].
  exists c, evs. split; [reflexivity|]. split; [exact (c08_inv_reachable _ _ _ _ _ _ E)|].
  vm_compute in E. inversion E; subst. split; reflexivity.
Qed.

Example c08_inv_step_ex :
  exists c e c' evs,
    run init_config ex_h1 = Some (c, e) /\
    cstep c (1, Some (CJoin tt 1 2)) = Some (c', evs) /\ Inv c /\ Inv c'.
Proof.
  destruct (run init_config ex_h1) as [[c e]|] eqn:E; [|vm_compute in E; discriminate].
  destruct (cstep c (1, Some (CJoin tt 1 2))) as [[c' evs]|] eqn:E2;
    [|exfalso; vm_compute in E; inversion E; subst; vm_compute in E2; discriminate].
  pose proof (c08_inv_reachable _ _ _ _ _ _ E) as HI.
  exists c, e, c', evs. split; [first [exact E|reflexivity]|]. split; [exact E2|].
  split; [exact HI|]. exact (c08_inv_step _ _ _ _ _ _ _ HI E2).
Qed.

Example c08_single_predecessor_ex :
  exists c evs, run init_config (ex_h1 ++ ex_h2) = Some (c, evs) /\
                In (0, 1) (edges (c_state c)) /\ pred_of (edges (c_state c)) 1 = Some 0.
Proof.
  destruct (run init_config (ex_h1 ++ ex_h2)) as [[c evs]|] eqn:E; [|vm_compute in E; discriminate].
  exists c, evs. split; [reflexivity|].
  assert (Hin : In (0, 1) (edges (c_state c))).
  { vm_compute in E. inversion E; subst. cbn. auto. }
  split; [exact Hin|].
  exact (proj2 (proj2 (c08_single_predecessor _ _ _ _ _ _ E 0 1 Hin))).
Qed.

Example c08_ids_distinct_ex :
  exists c evs, run init_config (ex_h1 ++ ex_h2) = Some (c, evs) /\
                map h_id (handles_of evs) = [0; 2; 1; 4] /\ NoDup (map h_id (handles_of evs)).
Proof.
  destruct (run init_config (ex_h1 ++ ex_h2)) as [[c evs]|] eqn:E; [|vm_compute in E; discriminate].
  exists c, evs. split; [reflexivity|].
  split; [|exact (proj1 (proj2 (c08_ids_distinct _ _ _ _ _ _ E)))].
  vm_compute in E. inversion E; subst. reflexivity.
Qed.

(* the ancestor x0 and the sibling x2, completed in ex_h1, keep their values through ex_h2 *)
Example c08_lineage_only_ex :
  exists c1 e1 c2 e2,
    run init_config ex_h1 = Some (c1, e1) /\ In ex_x0 (c_pool c1) /\ In ex_x2 (c_pool c1) /\
    run c1 ex_h2 = Some (c2, e2) /\
    collect ex_f ex_g (c_state c2) ex_x0 = Ok [1; 2] /\
    collect ex_f ex_g (c_state c2) ex_x2 = Ok [11; 12] /\
    value_of_lineage ex_f ex_g (h_lin ex_x2) = Ok [11; 12].
Proof.
  destruct (run init_config ex_h1) as [[c1 e1]|] eqn:E1; [|vm_compute in E1; discriminate].
  destruct (run c1 ex_h2) as [[c2 e2]|] eqn:E2;
    [|vm_compute in E1; inversion E1; subst; vm_compute in E2; discriminate].
  assert (H0 : In ex_x0 (c_pool c1)) by (vm_compute in E1; inversion E1; subst; cbn; auto).
  assert (H2 : In ex_x2 (c_pool c1)) by (vm_compute in E1; inversion E1; subst; cbn; auto).
  exists c1, e1, c2, e2. repeat split; auto.
  - rewrite (proj1 (c08_lineage_only _ _ _ ex_f ex_g _ _ _ _ _ _ _ E1 H0 E2)). reflexivity.
  - rewrite (proj1 (c08_lineage_only _ _ _ ex_f ex_g _ _ _ _ _ _ _ E1 H2 E2)). reflexivity.
Qed.

Example c08_collect_returns_lineage_value_ex :
  exists c evs plan,
    run init_config (ex_h1 ++ ex_h2) = Some (c, evs) /\
    In (EvCollect 1 ex_xj plan) evs /\ In (EvCollect 0 ex_xj plan) evs /\
    In (EvCollect 0 ex_x0 (Ok [NSource [1; 2]])) evs /\
    collect_value ex_f ex_g plan = Ok [21; 22; 11; 12] /\
    value_of_lineage ex_f ex_g (h_lin ex_xj) = Ok [21; 22; 11; 12].
Proof.
  destruct (run init_config (ex_h1 ++ ex_h2)) as [[c evs]|] eqn:E; [|vm_compute in E; discriminate].
  exists c, evs, (Ok (chain_of (h_lin ex_xj))).
  assert (H1 : In (EvCollect 1 ex_xj (Ok (chain_of (h_lin ex_xj)))) evs)
    by (vm_compute in E; inversion E; subst; cbn; auto 10).
  assert (H2 : In (EvCollect 0 ex_xj (Ok (chain_of (h_lin ex_xj)))) evs)
    by (vm_compute in E; inversion E; subst; cbn; auto 10).
  assert (H3 : In (EvCollect 0 ex_x0 (Ok [NSource [1; 2]])) evs)
    by (vm_compute in E; inversion E; subst; cbn; auto 10).
  split; [reflexivity|]. split; [exact H1|]. split; [exact H2|]. split; [exact H3|].
  split; [|reflexivity].
  rewrite (c08_collect_returns_lineage_value _ _ _ ex_f ex_g _ _ _ _ _ _ E H1). reflexivity.
Qed.

Example c08_collect_does_not_change_state_ex :
  exists c e c' evs,
    run init_config ex_h1 = Some (c, e) /\
    is_collect_label c (0, Some (CCollect 2)) = true /\
    cstep c (0, Some (CCollect 2)) = Some (c', evs) /\
    c_state c' = c_state c /\ next_id (c_state c) = 3.
Proof.
  destruct (run init_config ex_h1) as [[c e]|] eqn:E; [|vm_compute in E; discriminate].
  destruct (cstep c (0, Some (CCollect 2))) as [[c' evs]|] eqn:E2;
    [|exfalso; vm_compute in E; inversion E; subst; vm_compute in E2; discriminate].
  assert (Hl : is_collect_label c (0, Some (CCollect 2)) = true)
    by (vm_compute in E; inversion E; subst; reflexivity).
  exists c, e, c', evs. split; [first [exact E|reflexivity]|]. split; [exact Hl|].
  split; [exact E2|].
  split; [exact (proj1 (c08_collect_does_not_change_state _ _ _ _ _ _ _ E2 Hl))|].
  vm_compute in E. inversion E; subst. reflexivity.
Qed.

Example c08_monotone_ex :
  exists c1 e1 c2 e2,
    run init_config ex_h1 = Some (c1, e1) /\ run c1 ex_h2 = Some (c2, e2) /\
    next_id (c_state c1) = 3 /\ next_id (c_state c2) = 5 /\
    exists es, edges (c_state c2) = edges (c_state c1) ++ es.
Proof.
  destruct (run init_config ex_h1) as [[c1 e1]|] eqn:E1; [|vm_compute in E1; discriminate].
  destruct (run c1 ex_h2) as [[c2 e2]|] eqn:E2;
    [|vm_compute in E1; inversion E1; subst; vm_compute in E2; discriminate].
  exists c1, e1, c2, e2. split; [first [exact E1|reflexivity]|]. split; [exact E2|].
  split; [vm_compute in E1; inversion E1; subst; reflexivity|].
  split; [vm_compute in E1; inversion E1; subst; vm_compute in E2; inversion E2; subst; reflexivity|].
  exact (proj1 (proj2 (proj2 (c08_monotone _ _ _ _ _ _ _ E2)))).
Qed.

(* renaming every function name to tt: the erased history runs to the erased result *)
Example c08_lazy_ex :
  exists c evs (c' : config nat unit unit),
    run init_config (ex_h1 ++ ex_h2) = Some (c, evs) /\
    run init_config (map (map_label (fun _ => tt) (fun u => u)) (ex_h1 ++ ex_h2))
      = Some (c', map (map_event (fun _ => tt) (fun u => u)) evs) /\
    map h_id (c_pool c') = [0; 2; 1; 4].
Proof.
  destruct (run init_config (ex_h1 ++ ex_h2)) as [[c evs]|] eqn:E; [|vm_compute in E; discriminate].
  destruct (c08_lazy _ _ _ unit unit (fun _ => tt) (fun u => u) _ _ _ E) as (c' & Hr & _ & Hp & _).
  exists c, evs, c'. split; [reflexivity|]. split; [exact Hr|].
  rewrite Hp, map_map. vm_compute in E. inversion E; subst. reflexivity.
Qed.

(* ---------- sources ---------- *)
(* a JSONL file with a blank line, 2 lines per shard: len = 5 lines, 3 partitions, 4 rows *)
Definition ex_lines : list (option nat) := [Some 1; None; Some 2; Some 3; Some 4].
Example c08_source_read_mode_independent_ex :
  let s := jsonl_source ex_lines 2%N in
  lawful (s_ops s) (s_payload s) [1; 2; 3; 4] /\
  seq_read s = ROk [1; 2; 3; 4] /\
  par_head s 7 = ROk [[1]; [2; 3]; [4]] /\ par_parts s 7 = 5 /\
  par_read s 0 = ROk [1; 2; 3; 4].
Proof.
  intros s.
  assert (HL : lawful (s_ops s) (s_payload s) [1; 2; 3; 4])
    by exact (proj1 (c08_streamed_sources_lawful nat) ex_lines 2%N).
  split; [exact HL|].
  split; [exact (proj1 (c08_source_read_mode_independent _ s _ HL))|].
  split; [reflexivity|]. split; [reflexivity|].
  exact (proj1 (proj2 (c08_source_read_mode_independent _ s _ HL) 0)).
Qed.

Example c08_builtin_sources_lawful_ex :
  lawful impl_ops [1; 2; 3; 4; 5] [1; 2; 3; 4; 5] /\
  vo_split impl_ops [1; 2; 3; 4; 5] 2 = Some [[1; 2; 3]; [4; 5]] /\
  lawful (pages_ops false SplitPages) [[1; 2]; []; [3]] [1; 2; 3] /\
  vo_split (pages_ops true SplitChunks) [[1; 2]; []; [3]] 3 = Some [[1]; [2]; [3]] /\
  vo_split (pages_ops true SplitNone) [[1; 2]; []; [3]] 3 = None.
Proof.
  split; [exact (proj1 (c08_builtin_sources_lawful nat) _)|]. split; [reflexivity|].
  split; [exact (proj2 (proj2 (c08_builtin_sources_lawful nat)) false SplitPages [[1; 2]; []; [3]])|].
  split; reflexivity.
Qed.

Example c08_streamed_sources_lawful_ex :
  lawful csv_ops (build_csv_shards [1; 2; 3; 4; 5] 2%N) [1; 2; 3; 4; 5] /\
  vo_split csv_ops (build_csv_shards [1; 2; 3; 4; 5] 2%N) 9 = Some [[1; 2]; [3; 4]; [5]] /\
  lawful parquet_ops (build_parquet_shards [[1; 2]; [3]; [4; 5]] 2%N) [1; 2; 3; 4; 5] /\
  vo_split parquet_ops (build_parquet_shards [[1; 2]; [3]; [4; 5]] 2%N) 1 = Some [[1; 2; 3]; [4; 5]] /\
  vo_len parquet_ops (build_parquet_shards [[1; 2]; [3]; [4; 5]] 0%N) = Some 5.
Proof.
  split; [exact (proj1 (proj2 (c08_streamed_sources_lawful nat)) [1; 2; 3; 4; 5] 2%N)|].
  split; [reflexivity|].
  split; [exact (proj2 (proj2 (c08_streamed_sources_lawful nat)) [[1; 2]; [3]; [4; 5]] 2%N)|].
  split; reflexivity.
Qed.

(* the paged feed of the seeded change's demonstration: len unknown, three pages *)
Example c08_unknown_length_source_ex :
  let s := mk_source (list (list nat)) (nolen_ops (pages_ops true SplitPages)) [[1; 2]; [3]; [4; 5; 6]] in
  vo_len (s_ops s) (s_payload s) = None /\
  par_parts s 3 = 1 /\ par_head s 3 = ROk [[1; 2]; [3]; [4; 5; 6]] /\
  par_read s 3 = ROk [1; 2; 3; 4; 5; 6] /\ seq_read s = ROk [1; 2; 3; 4; 5; 6].
Proof.
  intros s. split; [reflexivity|].
  assert (HL : lawful (pages_ops true SplitPages) [[1; 2]; [3]; [4; 5; 6]] [1; 2; 3; 4; 5; 6])
    by exact (proj2 (proj2 (c08_builtin_sources_lawful nat)) true SplitPages _).
  destruct (c08_unknown_length_source _ _ _ _ _ 3 HL) as (H1 & H2 & H3).
  split; [exact H1|]. split; [reflexivity|]. split; [exact H2|exact H3].
Qed.

(* an adapter with state that IS lawful: it counts its calls *)
Definition ex_counting : st_ops nat nat (list nat) :=
  mk_st_ops (fun _ v => Some (length v)) (fun c v n => (S c, Some (impl_split v n)))
            (fun c v => (S c, Some v)).
Example c08_shared_adapter_reads_ex :
  st_lawful ex_counting (fun _ => True) (fun v => v) /\
  st_reads ex_counting 0 [([1; 2; 3], RdPar 2); ([7; 8], RdSeq); ([1; 2; 3], RdSeq)]
    = [ROk [1; 2; 3]; ROk [7; 8]; ROk [1; 2; 3]].
Proof.
  assert (HL : st_lawful ex_counting (fun _ => True) (fun v => v)).
  { intros st p _. split; [reflexivity|]. intros n ps H. cbn in H. inversion H.
    exact (proj2 (proj1 (c08_builtin_sources_lawful nat) p) n _ eq_refl). }
  split; [exact HL|].
  apply (c08_shared_adapter_reads _ _ _ ex_counting _ _ HL). repeat constructor.
Qed.

Example c08_jsonl_shared_adapter_ex :
  st_reads (pure_st jsonl_ops) tt
           [(build_jsonl_shards [Some 1; None; Some 2] 2%N, RdPar 4);
            (build_jsonl_shards [Some 7; Some 8; None] 2%N, RdSeq);
            (build_jsonl_shards [Some 1; None; Some 2] 2%N, RdSeq)]
  = [ROk [1; 2]; ROk [7; 8]; ROk [1; 2]].
Proof.
  exact (c08_jsonl_shared_adapter nat
           [([Some 1; None; Some 2], 2%N, RdPar 4); ([Some 7; Some 8; None], 2%N, RdSeq);
            ([Some 1; None; Some 2], 2%N, RdSeq)]).
Qed.

Example c08_memo_adapter_refuted_ex :
  snd (st_read memo_jsonl_ops [] (build_jsonl_shards [Some 1; Some 2] 1%N) RdSeq) = ROk [1; 2] /\
  st_reads memo_jsonl_ops [] [(build_jsonl_shards [Some 1; Some 2] 1%N, RdSeq);
                              (build_jsonl_shards [Some 5; Some 6] 1%N, RdSeq)]
    = [ROk [1; 2]; ROk [1; 2]].
Proof. vm_compute. split; reflexivity. Qed.

(* a custom source created by thread 1 while thread 0 is between insert and connect; collected
   after more building *)
Example c08_custom_source_rerunnable_ex :
  let s := jsonl_source ex_lines 2%N in
  let h1 : list (label nat nat unit) :=
    [ (0, Some (CSource [9])); (0, Some (CDerive 1 0)); (1, Some (CSource [1; 2; 3; 4])); (0, None) ] in
  let h2 : list (label nat nat unit) := [ (1, Some (CDerive 5 1)); (1, None); (0, Some (CJoin tt 1 3)) ] in
  let x : handle nat nat unit := mk_handle 2 (LSrc [1; 2; 3; 4]) in
  exists c1 e1 c2 e2,
    run init_config h1 = Some (c1, e1) /\ In x (c_pool c1) /\ run c1 h2 = Some (c2, e2) /\
    collect ex_f ex_g (c_state c2) x = Ok [1; 2; 3; 4] /\ par_read s 3 = ROk [1; 2; 3; 4].
Proof.
  intros s h1 h2 x.
  destruct (run init_config h1) as [[c1 e1]|] eqn:E1; [|vm_compute in E1; discriminate].
  destruct (run c1 h2) as [[c2 e2]|] eqn:E2;
    [|vm_compute in E1; inversion E1; subst; vm_compute in E2; discriminate].
  assert (Hin : In x (c_pool c1)) by (vm_compute in E1; inversion E1; subst; cbn; auto).
  assert (HL : lawful (s_ops s) (s_payload s) [1; 2; 3; 4])
    by exact (proj1 (c08_streamed_sources_lawful nat) ex_lines 2%N).
  destruct (c08_custom_source_rerunnable _ _ _ ex_f ex_g s _ h1 h2 _ _ _ _ x HL E1 Hin eq_refl E2)
    as (Hc & _ & Hp).
  exists c1, e1, c2, e2. split; [reflexivity|]. split; [exact Hin|]. split; [exact E2|].
  split; [exact Hc|exact (Hp 3)].
Qed.

(* ---------- several pipelines ---------- *)
(* two pipelines: thread 0 builds source + map on pipeline 0, thread 1 a source on pipeline 1 and
   collects it while thread 0 is between insert and connect; both pipelines number from 0 *)
Definition ex_mh : list (mlabel nat nat unit) :=
  [ (0, (0, Some (CSource [1; 2]))); (1, (1, Some (CSource [5])));
    (0, (0, Some (CDerive 10 0))); (1, (1, Some (CCollect 0))); (0, (0, None));
    (1, (1, None)); (1, (1, None));
    (0, (0, Some (CCollect 1))); (0, (0, None)); (0, (0, None)) ].

Example c08_pipelines_independent_ex :
  exists mc evs evs0,
    mrun minit ex_mh = Some (mc, evs) /\
    proj 0 ex_mh = [ (0, Some (CSource [1; 2])); (0, Some (CDerive 10 0)); (0, None);
                     (0, Some (CCollect 1)); (0, None); (0, None) ] /\
    run init_config (proj 0 ex_mh) = Some (mc 0, evs0) /\
    next_id (c_state (mc 0)) = 2 /\ next_id (c_state (mc 1)) = 1 /\ next_id (c_state (mc 2)) = 0.
Proof.
  destruct (mrun minit ex_mh) as [[mc evs]|] eqn:E; [|vm_compute in E; discriminate].
  destruct (c08_pipelines_independent _ _ _ _ _ _ _ E 0) as [evs0 [Hr _]].
  exists mc, evs, evs0. split; [reflexivity|]. split; [reflexivity|]. split; [exact Hr|].
  vm_compute in E. inversion E; subst. repeat split.
Qed.

Example c08_multi_pipeline_reachable_ex :
  exists mc evs,
    mrun minit ex_mh = Some (mc, evs) /\ Inv (mc 0) /\ Inv (mc 1) /\
    map h_id (c_pool (mc 0)) = [0; 1] /\ map h_id (c_pool (mc 1)) = [0].
Proof.
  destruct (mrun minit ex_mh) as [[mc evs]|] eqn:E; [|vm_compute in E; discriminate].
  exists mc, evs. split; [reflexivity|].
  split; [exact (proj1 (c08_multi_pipeline_reachable _ _ _ _ _ _ E 0))|].
  split; [exact (proj1 (c08_multi_pipeline_reachable _ _ _ _ _ _ E 1))|].
  vm_compute in E. inversion E; subst. split; reflexivity.
Qed.

Example c08_multi_pipeline_collect_ex :
  exists mc evs plan0 plan1,
    mrun minit ex_mh = Some (mc, evs) /\
    In (EvCollect 0 (mk_handle 1 (LDerive 10 (LSrc [1; 2]))) plan0) evs /\
    In (EvCollect 1 (mk_handle 0 (LSrc [5])) plan1) evs /\
    collect_value ex_f ex_g plan0 = Ok [11; 12] /\ collect_value ex_f ex_g plan1 = Ok [5].
Proof.
  destruct (mrun minit ex_mh) as [[mc evs]|] eqn:E; [|vm_compute in E; discriminate].
  exists mc, evs, (Ok [NSource [1; 2]; NStateless 10]), (Ok [NSource [5]]).
  assert (H0 : In (EvCollect 0 (mk_handle 1 (LDerive 10 (LSrc [1; 2])))
                             (Ok [NSource [1; 2]; NStateless 10])) evs)
    by (vm_compute in E; inversion E; subst; cbn; auto 10).
  assert (H1 : In (EvCollect 1 (mk_handle 0 (LSrc [5])) (Ok [NSource [5]])) evs)
    by (vm_compute in E; inversion E; subst; cbn; auto 10).
  split; [reflexivity|]. split; [exact H0|]. split; [exact H1|].
  split.
  - rewrite (c08_multi_pipeline_collect _ _ _ ex_f ex_g _ _ _ _ _ _ E H0). reflexivity.
  - rewrite (c08_multi_pipeline_collect _ _ _ ex_f ex_g _ _ _ _ _ _ E H1). reflexivity.
Qed.
