(* C14: reservoir sampling - right size, real elements only, reproducible, mode-stable.
   ONLY the property theorems (each closed by `exact`) and their non-vacuity examples.

   Vocabulary (model: Combiners/Reservoir.v, a transcription of src/combiners/sampling.rs and of the
   way helpers/sampling.rs + combine_global.rs + combine.rs + planner.rs + runner.rs drive it):
     sample_parts k seed parts   the sample when the input reaches the combiner cut into the
                                 partitions `parts` (per-partition accumulators merged left to
                                 right, as runner.rs does with fanout = None); the input is
                                 `concat parts`;
     global_seq / global_par p   sample_reservoir collected sequentially / with p partitions
                                 (`*_vec`: the one-element collection holding that sample);
     keyed_parts / keyed_*       the same for sample_values_reservoir(_vec);
     built k seed a m            accumulator a is reachable from create by ANY sequence of
                                 add_input and merge steps (any merge tree), having consumed m;
     topk_spec k seed parts      the CLOSED FORM of the sample (Combiners/ReservoirTopK.v): the j-th
                                 element of a partition gets the j-th priority of the seed's
                                 stream, an item is (priority, seq = j, gpos = position in the
                                 whole input, value); keep the k greatest items for the
                                 lexicographic order on (priority, seq, gpos), return them sorted by
                                 (priority desc, seq asc, gpos asc); msort = its merge sort;
     keyed_unfused_parts         the per-key sample when it feeds a join (GroupByKey node + the
                                 group-wise local step of combine_values_lifted);
     InvK k a                    the accumulator invariant: heap entries = live slots of the
                                 store (as multisets), alive = number of live slots, alive <= k.
   "Sub-multiset" is stated by occurrence counts: nothing invented, nothing returned more often
   than it occurs.  All theorems hold for every element type, every k (0 and k >= n included),
   every seed and every partitioning. *)
From Coq Require Import List ZArith NArith Bool Permutation Sorting.Sorted.
From IB Require Import Combiners.Reservoir Combiners.ReservoirTopK Proofs.Reservoir Proofs.ReservoirKeyed
  Proofs.ReservoirNatural Proofs.ReservoirBigK Proofs.ReservoirProps
  Proofs.ReservoirTopK Proofs.ReservoirTopKKeyed.
From IB Require Proofs.ReservoirFast.
Import ListNotations.

(* ---------- the accumulator invariant is established by create, kept by add_input and merge ---------- *)
Theorem c14_invariant_preserved :
  forall (T : Type) (k : nat) (seed : N),
    InvK k (@create T k seed) /\
    (forall (a : pracc T) (v : T), InvK k a -> InvK k (add a v)) /\
    (forall a b : pracc T, InvK k a -> InvK k b -> InvK k (merge a b)).
Proof. exact @invariant_preserved. Qed.

Example c14_invariant_preserved_ex :
  (* a trimmed accumulator with a tombstone: 3 values into k = 2 *)
  let a := local 2 7%N [10; 20; 30]%Z in
  InvK 2 a /\ palive a = 2 /\ length (pstore a) = 3 /\ length (pheap a) = 2.
Proof.
  cbv zeta. split.
  - unfold local. cbn [fold_left].
    destruct (c14_invariant_preserved Z 2 7%N) as [Hc [Ha _]].
    apply Ha, Ha, Ha, Hc.
  - vm_compute. repeat split; reflexivity.
Qed.

(* ---------- right size ---------- *)
Theorem c14_sample_size :
  forall (T : Type) (k : nat) (seed : N) (parts : list (list T)),
    length (sample_parts k seed parts) = Nat.min k (length (concat parts)).
Proof. exact @p_sample_size. Qed.

Example c14_sample_size_ex :
  length (sample_parts 3 42%N [[1; 2]; []; [3; 4; 5]; [6]]%Z) = 3 /\
  length (sample_parts 9 42%N [[1; 2]; []; [3; 4; 5]; [6]]%Z) = 6 /\
  length (sample_parts 0 42%N [[1; 2]; []; [3; 4; 5]; [6]]%Z) = 0.
Proof. rewrite !c14_sample_size. vm_compute. repeat split; reflexivity. Qed.

(* ---------- real elements only ---------- *)
Theorem c14_sample_submultiset :
  forall (T : Type) (dec : forall x y : T, {x = y} + {x <> y})
         (k : nat) (seed : N) (parts : list (list T)) (x : T),
    count_occ dec (sample_parts k seed parts) x <= count_occ dec (concat parts) x.
Proof. exact @p_sample_submultiset. Qed.

Example c14_sample_submultiset_ex :
  (* input with duplicates: 7 occurs twice, the sample returns it at most twice *)
  count_occ Z.eq_dec (sample_parts 4 1%N [[7; 1]; [7; 2; 3]]%Z) 7%Z <= 2 /\
  sample_parts 4 1%N [[7; 1]; [7; 2; 3]]%Z = [3; 7; 7; 2]%Z.
Proof.
  split; [|vm_compute; reflexivity].
  exact (c14_sample_submultiset Z Z.eq_dec 4 1%N [[7; 1]; [7; 2; 3]]%Z 7%Z).
Qed.

(* ---------- the same for every merge order / fan-in tree / interleaving of adds and merges ---------- *)
Theorem c14_any_merge_order :
  forall (T : Type) (dec : forall x y : T, {x = y} + {x <> y})
         (k : nat) (seed : N) (a : pracc T) (m : list T),
    built k seed a m ->
    length (finish a) = Nat.min k (length m) /\
    forall x, count_occ dec (finish a) x <= count_occ dec m x.
Proof. exact @p_any_merge_order. Qed.

Example c14_any_merge_order_ex :
  (* right-nested merge with an add after a merge: merge(local [1;2], add(merge(local [3], local [4;5]), 6)) *)
  let a := merge (local 2 5%N [1; 2]%Z)
                 (add (merge (local 2 5%N [3]%Z) (local 2 5%N [4; 5]%Z)) 6%Z) in
  built 2 5%N a [1; 2; 3; 4; 5; 6]%Z /\ length (finish a) = 2.
Proof.
  cbv zeta.
  assert (B : built 2 5%N (merge (local 2 5%N [1; 2]%Z)
                (add (merge (local 2 5%N [3]%Z) (local 2 5%N [4; 5]%Z)) 6%Z))
                ([1; 2] ++ (([3] ++ [4; 5]) ++ [6]))%Z).
  { apply built_merge; [apply built_local|]. apply built_add.
    apply built_merge; apply built_local. }
  split; [exact B|].
  exact (proj1 (c14_any_merge_order Z Z.eq_dec 2 5%N _ _ B)).
Qed.

(* ---------- the two global entry points, sequential and parallel (runner partitioning) ---------- *)
Theorem c14_global_entry_points :
  forall (T : Type) (dec : forall x y : T, {x = y} + {x <> y})
         (k : nat) (seed : N) (p : nat) (data : list T),
    global_seq_vec k seed data = [global_seq k seed data] /\
    global_par_vec k seed p data = [global_par k seed p data] /\
    length (global_seq k seed data) = Nat.min k (length data) /\
    length (global_par k seed p data) = Nat.min k (length data) /\
    (forall x, count_occ dec (global_seq k seed data) x <= count_occ dec data x) /\
    (forall x, count_occ dec (global_par k seed p data) x <= count_occ dec data x).
Proof. exact @p_global_entry_points. Qed.

Example c14_global_entry_points_ex :
  global_par_vec 3 9%N 3 [5; 5; 6; 7; 8; 5; 9]%Z = [[5; 8; 5]]%Z /\
  runner_split 3 [5; 5; 6; 7; 8; 5; 9]%Z = [[5; 5; 6]; [7; 8; 5]; [9]]%Z.
Proof. vm_compute. split; reflexivity. Qed.

(* ---------- per key: every key exactly once; per key right size and real elements only;
   also for the flattened (key, value) form ---------- *)
Theorem c14_per_key :
  forall (T : Type) (dec : forall x y : T, {x = y} + {x <> y})
         (K : Type) (keqb : K -> K -> bool),
    (forall x y, reflect (x = y) (keqb x y)) ->
    forall (k : nat) (seed : N) (parts : list (list (K * T))),
      let data := concat parts in
      let out := keyed_parts keqb k seed parts in
      NoDup (map fst out) /\
      (forall key, In key (map fst out) <-> In key (map fst data)) /\
      (forall key s, In (key, s) out ->
         length s = Nat.min k (length (vals keqb key data)) /\
         forall x, count_occ dec s x <= count_occ dec (vals keqb key data) x) /\
      (forall key,
         let flat := vals keqb key (flatten_keyed out) in
         length flat = Nat.min k (length (vals keqb key data)) /\
         forall x, count_occ dec flat x <= count_occ dec (vals keqb key data) x).
Proof. exact @p_per_key. Qed.

Example c14_per_key_ex :
  keyed_parts Z.eqb 2 3%N [[(1, 10); (2, 20); (1, 11)]; [(1, 12); (2, 21)]; [(3, 30)]]%Z
  = [(1, [11; 12]); (2, [20; 21]); (3, [30])]%Z /\
  vals Z.eqb 1%Z (concat [[(1, 10); (2, 20); (1, 11)]; [(1, 12); (2, 21)]; [(3, 30)]]%Z)
  = [10; 11; 12]%Z.
Proof. vm_compute. split; reflexivity. Qed.

(* the four keyed observables are instances of keyed_parts whose partitions concatenate to the input *)
Theorem c14_keyed_entry_points :
  forall (T K : Type) (keqb : K -> K -> bool) (k : nat) (seed : N) (p : nat) (data : list (K * T)),
    keyed_seq_vec keqb k seed data = keyed_parts keqb k seed [data] /\
    keyed_par_vec keqb k seed p data = keyed_parts keqb k seed (runner_split p data) /\
    keyed_seq keqb k seed data = flatten_keyed (keyed_seq_vec keqb k seed data) /\
    keyed_par keqb k seed p data = flatten_keyed (keyed_par_vec keqb k seed p data) /\
    concat [data] = data /\ concat (runner_split p data) = data.
Proof. exact @p_keyed_entry_points. Qed.

Example c14_keyed_entry_points_ex :
  keyed_par Z.eqb 1 3%N 2 [(1, 10); (2, 20); (1, 11); (2, 21)]%Z = [(1, 11); (2, 21)]%Z.
Proof. vm_compute. reflexivity. Qed.

(* ---------- the per-key result does not depend on the HashMap iteration order inside merge ---------- *)
Theorem c14_map_order_irrelevant :
  forall (K T : Type) (keqb : K -> K -> bool),
    (forall x y, reflect (x = y) (keqb x y)) ->
    forall (k : nat) (seed : N) (m m' accs : list (K * pracc T)) (key : K),
      NoDup (map fst m) -> Permutation m m' ->
      lookup keqb key (cv_merge_one keqb k seed accs m) =
      lookup keqb key (cv_merge_one keqb k seed accs m').
Proof. exact @merge_one_order_irrelevant. Qed.

Example c14_map_order_irrelevant_ex :
  let m := cv_local Z.eqb 2 3%N [(1, 10); (2, 20); (1, 11)]%Z in
  NoDup (map fst m) /\ Permutation m (rev m) /\ m <> rev m.
Proof.
  cbv zeta. split; [apply nodup_local; exact Z.eqb_spec|].
  split; [apply Permutation_rev|]. vm_compute. discriminate.
Qed.

(* ---------- "take everything" sizes: for every k larger than the input the sample is the same
   list (all n elements, same order), whatever the partitioning; likewise per key.  (So
   k = usize::MAX, 2^63, ... behave like k = n + 1; the correspondence runs the model with
   min(k, n+1).) ---------- *)
Theorem c14_large_k_irrelevant :
  forall (T : Type) (k k' : nat) (seed : N) (parts : list (list T)),
    length (concat parts) < k -> length (concat parts) < k' ->
    sample_parts k' seed parts = sample_parts k seed parts.
Proof. exact @sample_parts_big_k. Qed.

Example c14_large_k_irrelevant_ex :
  sample_parts 300 42%N [[1; 2]; [3; 4]]%Z = sample_parts 5 42%N [[1; 2]; [3; 4]]%Z /\
  sample_parts 5 42%N [[1; 2]; [3; 4]]%Z = [1; 3; 2; 4]%Z.
Proof.
  split; [|vm_compute; reflexivity].
  apply c14_large_k_irrelevant; apply PeanoNat.Nat.ltb_lt; reflexivity.
Qed.

Theorem c14_large_k_irrelevant_keyed :
  forall (K T : Type) (keqb : K -> K -> bool),
    (forall x y, reflect (x = y) (keqb x y)) ->
    forall (k k' : nat) (seed : N) (parts : list (list (K * T))),
      length (concat parts) < k -> length (concat parts) < k' ->
      keyed_parts keqb k' seed parts = keyed_parts keqb k seed parts.
Proof. exact @keyed_parts_big_k. Qed.

Example c14_large_k_irrelevant_keyed_ex :
  keyed_parts Z.eqb 9 3%N [[(1, 10); (2, 20)]; [(1, 11)]]%Z
  = keyed_parts Z.eqb 4 3%N [[(1, 10); (2, 20)]; [(1, 11)]]%Z /\
  keyed_parts Z.eqb 4 3%N [[(1, 10); (2, 20)]; [(1, 11)]]%Z = [(1, [10; 11]); (2, [20])]%Z.
Proof.
  split; [|vm_compute; reflexivity].
  apply (c14_large_k_irrelevant_keyed Z Z Z.eqb Z.eqb_spec); apply PeanoNat.Nat.ltb_lt; reflexivity.
Qed.

(* ---------- reproducible: the sample is a function of (k, seed, partitioning).  (Functional
   determinism of the model; that the real code is this function is what the bit-exact
   correspondence runs validate, each pipeline being built and run twice.) ---------- *)
Theorem c14_reproducible :
  forall (T : Type) (k1 k2 : nat) (seed1 seed2 : N) (parts1 parts2 : list (list T)),
    k1 = k2 -> seed1 = seed2 -> parts1 = parts2 ->
    sample_parts k1 seed1 parts1 = sample_parts k2 seed2 parts2.
Proof. exact p_reproducible. Qed.

Example c14_reproducible_ex :
  sample_parts 2 42%N [[1; 2; 3]; [4; 5]]%Z = [1; 4]%Z /\
  sample_parts 2 43%N [[1; 2; 3]; [4; 5]]%Z <> [1; 4]%Z.
Proof. vm_compute. split; [reflexivity|discriminate]. Qed.

(* ---------- the sampler never inspects the elements: relabelling the input relabels the sample.
   So which positions of which partition are selected depends on (k, seed, shape of the
   partitioning) only: reproducibility in a strong form - and the reason why the sample changes
   with the partitioning. ---------- *)
Theorem c14_selection_ignores_elements :
  forall (T U : Type) (f : T -> U) (k : nat) (seed : N) (parts : list (list T)),
    sample_parts k seed (map (map f) parts) = map f (sample_parts k seed parts).
Proof. exact @sample_parts_natural. Qed.

Example c14_selection_ignores_elements_ex :
  (* the sample of any two-partition input of shape [3; 2] is (position 0 of part 0, position 0 of
     part 1) for k = 2, seed 42 *)
  sample_parts 2 42%N [[(0, 0); (0, 1); (0, 2)]; [(1, 0); (1, 1)]]%nat = [(0, 0); (1, 0)]%nat /\
  sample_parts 2 42%N (map (map (fun p : nat * nat => (10 * fst p + snd p)%nat))
                           [[(0, 0); (0, 1); (0, 2)]; [(1, 0); (1, 1)]]%nat) = [0; 10]%nat.
Proof.
  assert (E : sample_parts 2 42%N [[(0, 0); (0, 1); (0, 2)]; [(1, 0); (1, 1)]]%nat
              = [(0, 0); (1, 0)]%nat) by (vm_compute; reflexivity).
  split; [exact E|]. rewrite c14_selection_ignores_elements, E. reflexivity.
Qed.

(* ---------- mode stability: REFUTED.  The documented "identical for sequential and parallel
   execution" fails on the faithful model (and on the real code: known finding
   C14-mode-instability): every partition restarts the same random stream, so the priority of an
   element depends on its position inside its partition. ---------- *)
Theorem c14_mode_stable_refuted :
  let data := map Z.of_nat (seq 0 20) in
  global_seq 5 42%N data = [15; 11; 19; 9; 4]%Z /\
  global_par 5 42%N 4 data = [4; 9; 14; 19; 18]%Z /\
  ~ Permutation (global_seq 5 42%N data) (global_par 5 42%N 4 data).
Proof. exact p_mode_stable_refuted. Qed.

(* ---------- mode stability outside the known-finding class: two partitionings of the same input
   give the same sample (as a multiset) when k = 0, when k >= n, or when the partitionings
   coincide.  (For k >= n the ORDER of the returned vector may still differ.) ---------- *)
Theorem c14_mode_stable_outside_class :
  forall (T : Type) (k : nat) (seed : N) (parts1 parts2 : list (list T)),
    concat parts1 = concat parts2 ->
    k = 0 \/ length (concat parts1) <= k \/ parts1 = parts2 ->
    Permutation (sample_parts k seed parts1) (sample_parts k seed parts2).
Proof. exact @p_mode_stable_outside_class. Qed.

Example c14_mode_stable_outside_class_ex :
  (* k >= n: same elements, different order *)
  sample_parts 4 42%N [[1; 2; 3; 4]]%Z = [4; 1; 2; 3]%Z /\
  sample_parts 4 42%N [[1; 2]; [3; 4]]%Z = [1; 3; 2; 4]%Z /\
  Permutation (sample_parts 4 42%N [[1; 2; 3; 4]]%Z) (sample_parts 4 42%N [[1; 2]; [3; 4]]%Z).
Proof.
  split; [vm_compute; reflexivity|]. split; [vm_compute; reflexivity|].
  apply c14_mode_stable_outside_class; [reflexivity|]. right. left. cbn. auto.
Qed.

(* ====================================================================================
   The closed form: WHAT the reservoir computes (functional correctness of the sampler).
   ==================================================================================== *)

(* ---------- the store / heap / trim-loop / index-remapping machine computes exactly "the k items of
   greatest (priority, seq, position), ordered by (priority desc, seq asc, position asc)", for
   every element type, k, seed and partitioning (this is also what lets the correspondence check
   evaluate inputs of 100 000 elements) ---------- *)
Theorem c14_topk_closed_form :
  forall (T : Type) (k : nat) (seed : N) (parts : list (list T)),
    sample_parts k seed parts = topk_spec k seed parts.
Proof. exact @sample_parts_topk. Qed.

Example c14_topk_closed_form_ex :
  topk_spec 2 42%N [[1; 2; 3]; [4; 5]]%Z = [1; 4]%Z /\
  sample_parts 2 42%N [[1; 2; 3]; [4; 5]]%Z = [1; 4]%Z /\
  (* the two survivors tie on (priority, seq): first elements of their partitions *)
  map (fun x => (it_seq x, it_gpos x))
      (firstn 2 (msort (keep_leb N.ltb)
                       (items_parts (prio_stream 3 (stream_state0 42%N)) 0 [[1; 2; 3]; [4; 5]]%Z)))
  = [(0, 3); (0, 0)]%N.
Proof.
  split; [vm_compute; reflexivity|]. split; [|vm_compute; reflexivity].
  rewrite c14_topk_closed_form. vm_compute. reflexivity.
Qed.

(* ---------- nothing that was left out beats anything that was selected ---------- *)
Theorem c14_selected_dominate :
  forall (T : Type) (k : nat) (seed : N) (parts : list (list T)),
    let items := items_parts (prio_stream (max_len parts) (stream_state0 seed)) 0 parts in
    let ranked := msort (keep_leb N.ltb) items in
    sample_parts k seed parts = map it_val (msort (out_leb N.ltb) (firstn k ranked)) /\
    Permutation (firstn k ranked ++ skipn k ranked) items /\
    forall x y, In x (firstn k ranked) -> In y (skipn k ranked) -> keep_ge x y.
Proof. exact topk_selected_dominate. Qed.

Example c14_selected_dominate_ex :
  let items := items_parts (prio_stream 4 (stream_state0 7%N)) 0 [[10; 20; 30; 40]; [50; 60]]%Z in
  let ranked := msort (keep_leb N.ltb) items in
  map it_val (firstn 3 ranked) = [30; 50; 10]%Z /\ map it_val (skipn 3 ranked) = [40; 60; 20]%Z /\
  sample_parts 3 7%N [[10; 20; 30; 40]; [50; 60]]%Z = [30; 10; 50]%Z.
Proof. vm_compute. repeat split; reflexivity. Qed.

(* ---------- the two global entry points in closed form ---------- *)
Theorem c14_topk_entry_points :
  forall (T : Type) (k : nat) (seed : N) (p : nat) (data : list T),
    global_seq k seed data = topk_spec k seed [data] /\
    global_par k seed p data = topk_spec k seed (runner_split p data).
Proof. exact topk_entry_points. Qed.

Example c14_topk_entry_points_ex :
  topk_spec 3 9%N (runner_split 3 [5; 5; 6; 7; 8; 5; 9]%Z) = [5; 8; 5]%Z /\
  topk_spec 3 9%N [[5; 5; 6; 7; 8; 5; 9]]%Z = [5; 8; 5]%Z.
Proof. vm_compute. split; reflexivity. Qed.

(* ---------- the merge sort of the closed form is a sorting function ---------- *)
Theorem c14_msort_is_sort :
  forall (A : Type) (leb : A -> A -> bool),
    (forall a b, leb a b = true \/ leb b a = true) ->
    (forall a b c, leb a b = true -> leb b c = true -> leb a c = true) ->
    forall l, Permutation (msort leb l) l /\
              StronglySorted (fun a b => leb a b = true) (msort leb l).
Proof. exact msort_is_sort. Qed.

Example c14_msort_is_sort_ex :
  msort Nat.leb [3; 1; 2; 3; 0]%nat = [0; 1; 2; 3; 3]%nat /\
  (forall a b, Nat.leb a b = true \/ Nat.leb b a = true) /\
  (forall a b c, Nat.leb a b = true -> Nat.leb b c = true -> Nat.leb a c = true).
Proof.
  split; [vm_compute; reflexivity|]. split.
  - intros a b. destruct (PeanoNat.Nat.le_ge_cases a b) as [H|H];
      [left|right]; apply PeanoNat.Nat.leb_le; exact H.
  - intros a b c H1 H2. apply PeanoNat.Nat.leb_le. apply PeanoNat.Nat.leb_le in H1, H2.
    exact (PeanoNat.Nat.le_trans _ _ _ H1 H2).
Qed.

(* ---------- per key, collected directly: the closed form of the key's values as cut by the
   partitioning (partitions without the key are invisible) ---------- *)
Theorem c14_keyed_topk :
  forall (K T : Type) (keqb : K -> K -> bool),
    (forall x y, reflect (x = y) (keqb x y)) ->
    forall (k : nat) (seed : N) (parts : list (list (K * T))) (key : K),
      (In key (map fst (concat parts)) ->
       lookup keqb key (keyed_parts keqb k seed parts)
       = Some (topk_spec k seed (map (key_vals keqb key) parts))) /\
      (~ In key (map fst (concat parts)) ->
       lookup keqb key (keyed_parts keqb k seed parts) = None).
Proof. exact @keyed_parts_topk. Qed.

Example c14_keyed_topk_ex :
  let parts := [[(1, 10); (2, 20); (1, 11)]; [(2, 21)]; [(1, 12); (2, 22)]]%Z in
  In 1%Z (map fst (concat parts)) /\
  map (key_vals Z.eqb 1%Z) parts = [[10; 11]; []; [12]]%Z /\
  lookup Z.eqb 1%Z (keyed_parts Z.eqb 2 3%N parts) = Some [11; 12]%Z.
Proof. vm_compute. split; [left; reflexivity|split; reflexivity]. Qed.

(* ---------- per key, feeding a join (the un-lifted route): the closed form of ALL the key's values
   as ONE partition - independent of the partitioning, and equal to what the sequential direct
   collection returns ---------- *)
Theorem c14_unfused_route_topk :
  forall (K T : Type) (keqb : K -> K -> bool),
    (forall x y, reflect (x = y) (keqb x y)) ->
    forall (k : nat) (seed : N) (parts : list (list (K * T))) (key : K),
      (In key (map fst (concat parts)) ->
       lookup keqb key (keyed_unfused_parts keqb k seed parts)
       = Some (topk_spec k seed [key_vals keqb key (concat parts)])) /\
      (~ In key (map fst (concat parts)) ->
       lookup keqb key (keyed_unfused_parts keqb k seed parts) = None).
Proof. exact @keyed_unfused_topk. Qed.

Example c14_unfused_route_topk_ex :
  let parts := [[(1, 10); (2, 20); (1, 11)]; [(2, 21)]; [(1, 12); (2, 22)]]%Z in
  lookup Z.eqb 1%Z (keyed_unfused_parts Z.eqb 1 3%N parts) = Some [12]%Z /\
  lookup Z.eqb 1%Z (keyed_parts Z.eqb 1 3%N [concat parts]) = Some [12]%Z /\
  (* ... whereas the direct collection with these three partitions gives another sample *)
  lookup Z.eqb 1%Z (keyed_parts Z.eqb 1 3%N parts) = Some [11]%Z.
Proof. vm_compute. repeat split; reflexivity. Qed.

(* ---------- the per-key evaluators the correspondence check runs agree, at every key, with the
   operational model ---------- *)
Theorem c14_keyed_evaluators_agree :
  forall (K T : Type) (keqb : K -> K -> bool),
    (forall x y, reflect (x = y) (keqb x y)) ->
    forall (k : nat) (seed : N) (parts : list (list (K * T))) (key : K),
      lookup keqb key (keyed_parts keqb k seed parts)
      = lookup keqb key (keyed_topk keqb (@topk_spec T) k seed parts) /\
      lookup keqb key (keyed_unfused_parts keqb k seed parts)
      = lookup keqb key (keyed_topk_unfused keqb (@topk_spec T) k seed parts).
Proof. exact @keyed_evaluators_agree. Qed.

Example c14_keyed_evaluators_agree_ex :
  let parts := [[(1, 10); (2, 20); (1, 11)]; [(2, 21)]; [(1, 12); (2, 22)]]%Z in
  keyed_topk Z.eqb (@topk_spec Z) 2 3%N parts = [(1, [11; 12]); (2, [21; 22])]%Z /\
  keyed_topk_unfused Z.eqb (@topk_spec Z) 2 3%N parts = [(1, [12; 11]); (2, [22; 21])]%Z.
Proof. vm_compute. split; reflexivity. Qed.

(* ---------- the priority stream can be entered at any position: the j-th priority of a stream is a
   closed expression of (state, j) (SplitMix64's state after j draws is st + j * GOLDEN).  The
   correspondence check uses it to compare the primitive-integer stream of its fast evaluator with
   the model's stream at positions spread over inputs of 100 000 elements. ---------- *)
Theorem c14_stream_jump_ahead :
  forall (n : nat) (st : N) (j : nat),
    (j < n)%nat -> nth_error (prio_stream n st) j = Some (prio_at st (N.of_nat j)).
Proof. exact prio_stream_nth. Qed.

Example c14_stream_jump_ahead_ex :
  nth_error (prio_stream 6 (stream_state0 42%N)) 4 = Some (prio_at (stream_state0 42%N) 4) /\
  prio_at (stream_state0 42%N) 4 = 14804543244209016%N /\
  prio_at (stream_state0 42%N) 99999 = 14760793700513408%N.
Proof.
  split; [apply (c14_stream_jump_ahead 6 _ 4); repeat constructor|].
  vm_compute. split; reflexivity.
Qed.

(* ---------- the evaluator used by the correspondence check for inputs of up to 100 000 elements
   (the same closed form, its priority stream computed on primitive 63-bit integers) is the closed
   form.  A LEMMA, not part of the axiom-free theorem list: its proof (Proofs/ReservoirFast.v) uses
   the standard library's axiomatic specification of primitive integers (Uint63.add_spec, mul_spec,
   lsl_spec, lsr_spec, land_spec, lor_spec, lxor_spec, ltb_spec, eqb_correct, of_to_Z, ...). ---------- *)
Lemma c14_fast_evaluator_is_closed_form :
  forall (T : Type) (k : nat) (seed : N) (parts : list (list T)),
    topk_fast k seed parts = topk_spec k seed parts.
Proof. exact ReservoirFast.topk_fast_spec. Qed.
