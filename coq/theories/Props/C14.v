(* C14 (work in progress: theorems are added below as they are proved) *)
From Coq Require Import List ZArith NArith.
From IB Require Import Combiners.Reservoir.
Import ListNotations.

Theorem c14_mode_stable_refuted :
  exists (k : nat) (seed : N) (data : list Z),
    global_seq k seed data <> global_par k seed 4 data.
Proof.
  exists 5, 42%N, (map Z.of_nat (seq 0 20)). vm_compute. discriminate.
Qed.
