(* C05: per-key and global combines equal a fold, once per key, and always terminate.
   ONLY property theorems (each closed by `exact`) and non-vacuity examples.
   Everything is proved for EVERY lawful combiner (Combiners/Lawful.v; C06 proves the built-ins
   lawful, and any associative-commutative user combiner is lawful: Proofs/CombinersLawful.v),
   every list of partitions `ps`, every fan-out, every map-iteration order `sh`. *)
From Coq Require Import List ZArith Bool Permutation.
From IB Require Import Engine.Val Engine.Ops Engine.AMap Engine.Nodes Engine.Exec Engine.Lang
     Engine.Denote Combiners.Lawful Proofs.EngineCombine.
Import ListNotations.

Definition perm_oracle (sh : nat -> list val -> list val) : Prop :=
  forall i l, Permutation (sh i l) l.

Section C05.
  Variable sh : nat -> list val -> list val.
  Hypothesis sh_perm : perm_oracle sh.
  Variable A : Type.
  Variable c : combiner val A val.
  Variable R : A -> list val -> Prop.
  Variable spec : list val -> val -> Prop.
  Hypothesis c_lawful : lawful c R spec.

  (* combine_values on rows: local per partition, merge, finish per key *)
  Definition cv_out (site : nat) (ps : list (list val)) : list val :=
    cv_merge sh A c site (map (cv_local_pairs A c) ps).
  (* combine_values_lifted on grouped rows (k, Vec<V>) *)
  Definition cvl_out (site : nat) (gps : list (list val)) : list val :=
    cv_merge sh A c site (map (cv_local_groups A c) gps).
End C05.

(* exactly one (key, result) per distinct input key *)
Theorem c05_cv_keys_unique : forall sh A c site ps, perm_oracle sh ->
    NoDup (map vfst (cv_out sh A c site ps)).
Proof. exact cv_keys_unique. Qed.
Theorem c05_cv_keys_exact : forall sh A c site ps k, perm_oracle sh ->
    (In k (map vfst (cv_out sh A c site ps)) <-> In k (map vfst (concat ps))).
Proof. exact cv_keys_exact. Qed.

(* the result for key k is the combiner's output for exactly k's values *)
Theorem c05_cv_value : forall sh A (c : combiner val A val) R spec site ps g,
    perm_oracle sh -> lawful c R spec ->
    In g (cv_out sh A c site ps) ->
    exists o, g = VPair (vfst g) o /\ spec (values_of (vfst g) (concat ps)) o.
Proof. exact cv_value. Qed.

(* ... hence equal to folding k's values one by one, when the specification determines the output *)
Theorem c05_cv_equals_fold : forall sh A (c : combiner val A val) R spec site ps g,
    perm_oracle sh -> lawful c R spec ->
    (forall m o o', spec m o -> spec m o' -> o = o') ->
    In g (cv_out sh A c site ps) ->
    g = VPair (vfst g) (c_finish c (fold_acc c (values_of (vfst g) (concat ps)))).
Proof. exact cv_equals_fold. Qed.

(* lifted entry point on grouped input - also when a key occurs in several groups *)
Theorem c05_cvl_keys_unique : forall sh A c site gps, perm_oracle sh ->
    NoDup (map vfst (cvl_out sh A c site gps)).
Proof. exact cvl_keys_unique. Qed.
Theorem c05_cvl_value : forall sh A (c : combiner val A val) R spec site gps g,
    perm_oracle sh -> lawful c R spec ->
    In g (cvl_out sh A c site gps) ->
    exists o, g = VPair (vfst g) o /\
              spec (concat (map vlist (values_of (vfst g) (concat gps)))) o.
Proof. exact cvl_value. Qed.

(* the multi-round fan-in always terminates: for EVERY fan-out (None, 0, 1, 2, ...) and every
   number of accumulators the loop ends within `length accs` rounds *)
Theorem c05_merge_rounds_terminates : forall A (c : combiner val A val) fuel fanout accs,
    (length accs <= fuel)%nat -> exists accs', merge_rounds A c (S fuel) fanout accs = Ok accs'.
Proof. exact merge_rounds_terminates. Qed.

(* combine_globally, parallel engine: exactly one element, also for no partition at all and for
   empty partitions, equal to the combiner's output for all elements; never Diverge *)
Theorem c05_cg_par : forall A (c : combiner val A val) R spec lifted tin tout fanout ps,
    lawful c R spec -> check_tags tin ps = true ->
    exists o,
      run_combine_global_par {| vc_A := A; vc_c := c |} lifted tin tout fanout ps = Ok (tout, [o])
      /\ spec (concat (map snd ps)) o.
Proof. exact cg_par_spec. Qed.
Theorem c05_cg_seq : forall A (c : combiner val A val) R spec lifted tin tout p,
    lawful c R spec -> fst p = tin ->
    exists o,
      run_combine_global_seq {| vc_A := A; vc_c := c |} lifted tin tout p = Ok (tout, [o])
      /\ spec (snd p) o.
Proof. exact cg_seq_spec. Qed.

(* the loop as it stood before the fix (group size max(fanout,1)) spins forever for fanout 0 / 1
   as soon as there are two accumulators: regression documented as a theorem about the old loop *)
Theorem c05_old_loop_diverges : forall A (c : combiner val A val) fuel a b f,
    (f <= 1)%nat -> merge_rounds_old A c fuel (Some f) [a; b] = Diverge.
Proof. exact old_loop_diverges. Qed.

Example c05_example_sum :
  cv_out id_sh Z comb_sum 0
    [[VPair (VInt 1) (VInt 10); VPair (VInt 2) (VInt 20)]; []; [VPair (VInt 1) (VInt 5)]]
  = [VPair (VInt 1) (VInt 15); VPair (VInt 2) (VInt 20)].
Proof. vm_compute. reflexivity. Qed.
Example c05_example_global_fanout1 :
  run_combine_global_par (comb_of CSum) false TU TU (Some 1%nat)
    [(TU, [VInt 1; VInt 2]); (TU, []); (TU, [VInt 3]); (TU, [VInt 4])] = Ok (TU, [VInt 10]).
Proof. vm_compute. reflexivity. Qed.
Example c05_example_global_empty :
  run_combine_global_par (comb_of CCount) true TU TU None [] = Ok (TU, [VInt 0]).
Proof. vm_compute. reflexivity. Qed.
