(* C09 property theorems (in progress) *)
From Coq Require Import List NArith.
From IB Require Import IO.Shards IO.Jsonl.
