(* C09: file I/O round-trips; sharded, streamed and parallel paths equal the plain ones.
   ONLY the property theorems (each closed by `exact`) and their non-vacuity examples.
   Models: IO/Shards.v (tilings), IO/Jsonl.v (framing, sources, writers, glob), IO/Exec.v (the VecOps
   adapters over arbitrary shard descriptions and the four engines of src/runner.rs).
   `chain a rs b` = the half-open ranges rs are contiguous, start at a and end at b.
   serde_json / csv / parquet / glob appear as hypotheses (de, ser, csv_out, row groups, the matched
   file list); they are validated by the correspondence runs only. *)
From Coq Require Import List ZArith NArith Bool Permutation Sorted.
From IB Require Import IO.Shards IO.Jsonl IO.Exec Proofs.ShardsProofs Proofs.JsonlProofs Proofs.JsonlGlobProofs
  Proofs.ExecProofs.
Import ListNotations.

(* ---------- tilings ---------- *)
(* build_jsonl_shards / build_csv_shards: for every total and every shard size (0 behaves as 1)
   the ranges are contiguous from 0 to total, each non-empty and at most max per 1 long, all but
   the last exactly that long, ceil(total / max per 1) of them *)
Theorem c09_ranges_tile : forall total per : N,
  chain 0 (ranges total per) total
  /\ Forall (fun r => (fst r < snd r)%N /\ (snd r - fst r <= N.max per 1)%N) (ranges total per)
  /\ (forall r, In r (ranges total per) -> snd r <> total -> (snd r - fst r)%N = N.max per 1)
  /\ (total <> 0%N -> N.of_nat (length (ranges total per)) = div_ceil total (N.max per 1))
  /\ ranges total 0 = ranges total 1.
Proof.
  intros total per. split; [apply ranges_chain|]. split; [apply ranges_sizes|].
  split; [apply ranges_full|]. split; [apply ranges_length|reflexivity].
Qed.

Example c09_ranges_tile_ex :
  ranges 10 4 = [(0, 4); (4, 8); (8, 10)]%N /\ ranges 10 0 = ranges 10 1 /\ ranges 3 100 = [(0, 3)]%N
  /\ ranges 0 5 = [].
Proof. vm_compute. repeat split. Qed.

(* the u64 arithmetic of the shard loop stays below total + max per 1 (no wrap-around for any
   real file) *)
Theorem c09_ranges_no_overflow : forall total per i : N,
  total <> 0%N -> (i < div_ceil total (N.max per 1))%N ->
  ((i + 1) * N.max per 1 < total + N.max per 1)%N.
Proof. exact ranges_no_overflow. Qed.

(* build_parquet_shards: the `while` loop over row groups tiles 0..num_groups the same way (and
   terminates within num_groups iterations: the model's fuel is never exhausted early) *)
Theorem c09_group_ranges_tile : forall ng per : N,
  chain 0 (group_ranges ng per) ng
  /\ Forall (fun r => (fst r < snd r)%N /\ (snd r - fst r <= N.max per 1)%N) (group_ranges ng per).
Proof. intros ng per. split; [apply group_ranges_chain|apply group_ranges_sizes]. Qed.

Example c09_group_ranges_tile_ex :
  group_ranges 7 3 = [(0, 3); (3, 6); (6, 7)]%N /\ group_ranges 2 0 = [(0, 1); (1, 2)]%N.
Proof. vm_compute. split; reflexivity. Qed.

(* write_jsonl_par (repaired): clamp(shards,1,n) ranges that are contiguous from 0 to n, each at
   most chunk long; exactly: the ceil-division tiling by chunk followed by empty ranges (n, n) *)
Theorem c09_par_ranges_tile : forall n shards : N,
  chain 0 (par_ranges n shards) n
  /\ Forall (fun r => (snd r - fst r <= par_chunk n shards)%N) (par_ranges n shards)
  /\ (n <> 0%N ->
      N.of_nat (length (par_ranges n shards)) = clamp shards 1 n
      /\ par_ranges n shards
         = ranges n (par_chunk n shards)
           ++ repeat (n, n) (N.to_nat (clamp shards 1 n - div_ceil n (par_chunk n shards)))).
Proof.
  intros n shards. split; [apply par_ranges_chain|]. split; [apply par_ranges_sizes|].
  intros Hz. split; [apply par_ranges_length; assumption|].
  exact (par_ranges_exact n shards Hz).
Qed.

Example c09_par_ranges_tile_ex :
  par_ranges 5 4 = [(0, 2); (2, 4); (4, 5); (5, 5)]%N
  /\ par_ranges 100 16 = ranges 100 7 ++ [(100, 100)]%N
  /\ par_ranges 3 0 = [(0, 3)]%N /\ par_ranges 3 99 = [(0, 1); (1, 2); (2, 3)]%N.
Proof. vm_compute. repeat split. Qed.

(* csv split_ranges: parts clamped to 1..len, indices 0..parts-1 all present (none skipped) when
   len > 0, nothing when len = 0; contiguous from 0 to len, every range non-empty, sizes differ
   by at most one *)
Theorem c09_split_ranges_tile : forall len parts : N,
  chain 0 (map snd (split_ranges len parts)) len
  /\ Forall (fun ir => (fst (snd ir) < snd (snd ir))%N) (split_ranges len parts)
  /\ (forall a b, In a (split_ranges len parts) -> In b (split_ranges len parts) ->
        (rsize (snd a) <= rsize (snd b) + 1)%N)
  /\ (len <> 0%N -> map fst (split_ranges len parts) = nseq (clamp parts 1 len))
  /\ split_ranges 0 parts = [].
Proof.
  intros len parts. split; [apply split_ranges_chain|]. split.
  - eapply Forall_impl; [|apply split_ranges_sizes]. cbn beta. intros ir H. apply H.
  - split; [apply split_ranges_balanced|]. split; [apply split_ranges_idx|apply split_ranges_zero].
Qed.

Example c09_split_ranges_tile_ex :
  split_ranges 10 4 = [(0, (0, 3)); (1, (3, 6)); (2, (6, 8)); (3, (8, 10))]%N
  /\ split_ranges 2 5 = [(0, (0, 1)); (1, (1, 2))]%N /\ split_ranges 3 0 = [(0, (0, 3))]%N.
Proof. vm_compute. repeat split. Qed.

(* ---------- streamed = whole ---------- *)
(* THE tiling consequence: slicing any list along a chain from 0 to its length loses nothing,
   duplicates nothing and keeps the order; every slice is a valid Rust slice *)
Theorem c09_tiles_concat : forall (A : Type) (l : list A) (rs : list range),
  chain 0 rs (nlen l) ->
  concat (map (slice l) rs) = l /\ Forall (fun r => valid_range (nlen l) r = true) rs.
Proof.
  intros A l rs H. split; [apply chain_concat_all; assumption|].
  eapply chain_valid; [eassumption|apply N.le_refl].
Qed.

(* JSONL, blank lines included (they count for the shard boundaries and are skipped by the parser):
   for every parser `de`, every file (list of lines) and every shard size, if the whole file reads
   as v then the partitions of the streaming source concatenate to v and both execution modes
   return v; if the whole read fails, both modes fail (Err sequentially, Panic in parallel) *)
Theorem c09_streamed_eq_whole :
  forall (R : Type) (de : list Z -> option R) (ls : list (list Z)) (per : N),
    match read_vec de ls with
    | Ok v =>
        (exists parts, vec_split de ls (build_shards ls per) = Some parts /\ concat parts = v)
        /\ stream_seq de ls per = Ok v
        /\ stream_par de ls per = Ok v
    | _ =>
        vec_split de ls (build_shards ls per) = None
        /\ stream_seq de ls per = Err
        /\ stream_par de ls per = Panic
    end.
Proof. exact @streamed_eq_whole. Qed.

Example c09_streamed_eq_whole_ex :
  let de := fun l : list Z => match l with [z] => Some z | _ => None end in
  let ls := [[65]; []; [32; 9]; [66]; [67]; []]%Z in
  read_vec de ls = Ok [65; 66; 67]%Z
  /\ vec_split de ls (build_shards ls 2) = Some [[65]; [66]; [67]]%Z
  /\ stream_par de ls 2 = Ok [65; 66; 67]%Z
  /\ stream_par de [[65]; [66; 66]]%Z 1 = Panic.
Proof. vm_compute. repeat split. Qed.

(* the range reader is the plain reader on the slice; reading range 0..total is read_jsonl_vec *)
Theorem c09_read_range_is_slice :
  forall (R : Type) (de : list Z -> option R) (ls : list (list Z)) (r : range),
    read_range de ls r = read_vec de (slice ls r)
    /\ read_range de ls (0%N, total_lines ls) = read_vec de ls.
Proof. intros R de ls r. split; [apply read_range_spec|apply read_range_all]. Qed.

(* CSV data rows / Parquet row groups: both modes of the streaming source return the rows of the
   file, for every shard size *)
Theorem c09_streamed_eq_whole_rows : forall (R : Type) (rows : list R) (per : N),
  rows_stream_par rows per = rows /\ rows_stream_seq rows per = rows.
Proof. exact @rows_streamed_eq_whole. Qed.

Theorem c09_streamed_eq_whole_parquet : forall (R : Type) (groups : list (list R)) (per : N),
  pq_stream_par groups per = pq_whole groups /\ pq_stream_seq groups per = pq_whole groups.
Proof. exact @pq_streamed_eq_whole. Qed.

Example c09_streamed_eq_whole_rows_ex :
  rows_stream_par [1; 2; 3; 4; 5]%Z 2 = [1; 2; 3; 4; 5]%Z
  /\ pq_stream_par [[1; 2]; [3]; [4; 5]]%Z 2 = [1; 2; 3; 4; 5]%Z
  /\ pq_stream_seq [[1; 2]; [3]; [4; 5]]%Z 0 = [1; 2; 3; 4; 5]%Z.
Proof. vm_compute. repeat split. Qed.

(* ---------- round trip ---------- *)
(* hypotheses = serde_json's contract for compact output: from_str inverts to_writer, the output
   contains no raw CR / LF and is not whitespace-only *)
Theorem c09_jsonl_roundtrip :
  forall (R : Type) (de : list Z -> option R) (ser : R -> list Z) (rs : list R),
    (forall r, de (ser r) = Some r) ->
    (forall r, no_crlf (ser r) /\ blank_line (ser r) = false) ->
    read_vec de (lines (write_all ser rs)) = Ok rs.
Proof. exact @jsonl_roundtrip. Qed.

Example c09_jsonl_roundtrip_ex :
  let ser := fun z : Z => [123; z; 125]%Z in
  let de := fun l : list Z => match l with [123; z; 125]%Z => Some z | _ => None end in
  (forall r, de (ser r) = Some r)
  /\ (forall r, (r <> 10 /\ r <> 13)%Z -> no_crlf (ser r) /\ blank_line (ser r) = false)
  /\ lines (write_all ser [65; 66]%Z) = [[123; 65; 125]; [123; 66; 125]]%Z
  /\ read_vec de (lines (write_all ser [65; 66]%Z)) = Ok [65; 66]%Z.
Proof.
  cbv zeta. split; [reflexivity|]. split; [|split; vm_compute; reflexivity].
  intros r [H1 H2]. split; [|reflexivity].
  repeat constructor; try discriminate; assumption.
Qed.

(* ---------- parallel writers = sequential writers ---------- *)
(* write_jsonl_par never panics and its file is byte-for-byte the sequential file: any number of
   records (0 included), any requested shard count *)
Theorem c09_par_write_eq_seq_jsonl :
  forall (R : Type) (ser : R -> list Z) (rs : list R) (shards : N),
    write_par ser rs shards = Ok (write_all ser rs).
Proof. exact @par_write_eq_seq_jsonl. Qed.

Example c09_par_write_eq_seq_jsonl_ex :
  write_par (fun z : Z => [z]) [65; 66; 67; 68; 69]%Z 4 = Ok [65; 10; 66; 10; 67; 10; 68; 10; 69; 10]%Z.
Proof. vm_compute. reflexivity. Qed.

(* regression documented: the shard computation before commit 0fc3451 (`start = i * chunk`
   without the clamp) yields the range (6,5) for 5 records / 4 shards and the writer panics *)
Theorem c09_par_write_jsonl_old_refuted :
  In (6, 5)%N (par_ranges_old 5 4)
  /\ write_par_old (fun z : Z => [z]) [0; 1; 2; 3; 4]%Z 4 = Panic.
Proof. split; [exact par_ranges_old_bad|exact write_par_old_panics]. Qed.

(* write_csv_par: only chunk 0 writes the header; under the csv::Writer contract (optional header
   before the first record, then the records one after the other) the parallel file equals the
   sequential one, n = 0 included *)
Theorem c09_par_write_eq_seq_csv :
  forall (R : Type) (csv_out : bool -> list R -> list Z) (hdr : list Z) (row : R -> list Z),
    (forall h rs, csv_out h rs
                  = (if h then match rs with [] => [] | _ => hdr end else []) ++ concat (map row rs)) ->
    forall (h : bool) (rs : list R) (shards : N),
      csv_write_par csv_out h rs shards = Ok (csv_write_seq csv_out h rs).
Proof. exact @par_write_eq_seq_csv. Qed.

Example c09_par_write_eq_seq_csv_ex :
  let csv_out := fun (h : bool) (rs : list Z) =>
    ((if h then match rs with [] => [] | _ => [72; 10] end else []) ++ concat (map (fun r => [r; 10]) rs))%Z in
  csv_write_par csv_out true [65; 66; 67]%Z 2 = Ok [72; 10; 65; 10; 66; 10; 67; 10]%Z
  /\ csv_write_par csv_out true [] 2 = Ok [].
Proof. vm_compute. split; reflexivity. Qed.

(* ---------- glob ---------- *)
(* the glob readers return the concatenation of the matched files in the order of PathBuf's Ord
   (a sorted permutation of the matches), independently of the order the matches are reported in *)
Theorem c09_glob_concat :
  forall (R : Type) (content : path -> list R) (matched : list path),
    matched <> [] ->
    read_glob (fun p => Ok (content p)) matched = Ok (concat (map content (sort_paths matched)))
    /\ StronglySorted path_le (sort_paths matched)
    /\ Permutation (sort_paths matched) matched
    /\ forall matched', Permutation matched matched' ->
         read_glob (fun p => Ok (content p)) matched' = read_glob (fun p => Ok (content p)) matched.
Proof. exact @glob_concat. Qed.

(* "a.b/x" sorts after "a/x" (component-wise), although '.' < '/' byte-wise *)
Example c09_glob_concat_ex :
  sort_paths [[[97; 46; 98]; [120]]; [[97]; [120]]; [[97; 45; 98]; [120]]]%Z
  = [[[97]; [120]]; [[97; 45; 98]; [120]]; [[97; 46; 98]; [120]]]%Z
  /\ @read_glob Z (fun _ => Ok []) [] = Err.
Proof. vm_compute. split; reflexivity. Qed.

(* ---------- every execution configuration (IO/Exec.v) ---------- *)
(* engine e in {exec_seq, exec_par, exec_seq_with_checkpointing, exec_par_with_checkpointing}, p = the
   partition count the Runner resolved. JSONL, ANY shard description whose ranges are contiguous
   from 0 to `total` (build_jsonl_shards' or hand-built), ANY current content: the engine returns
   the plain read of the first `total` lines, or fails in its own way (Err sequentially, Panic in
   parallel) when that read fails *)
Theorem c09_exec_jsonl_any_tiling :
  forall (R : Type) (de : list Z -> option R) (e : engine) (p : N) (ls : list (list Z))
         (rs : list range) (total : N),
    chain 0 rs total ->
    exec_source e p (jsonl_adapter de ls rs total)
    = lift_whole e (read_vec de (firstn (N.to_nat total) ls)).
Proof. exact @exec_jsonl_any_tiling. Qed.

Example c09_exec_jsonl_any_tiling_ex :
  let de := fun l : list Z => match l with [z] => Some z | _ => None end in
  let ls := [[65]; []; [66]; [67]; [68; 68]]%Z in
  chainb 0 [(0, 1); (1, 1); (1, 4)]%N 4 = true
  /\ map (fun e => exec_source e 3 (jsonl_adapter de ls [(0, 1); (1, 1); (1, 4)]%N 4)) all_engines
     = [Ok [65; 66; 67]; Ok [65; 66; 67]; Ok [65; 66; 67]; Ok [65; 66; 67]]%Z
  /\ map (fun e => exec_source e 3 (jsonl_adapter de ls [(0, 2); (2, 5)]%N 5)) all_engines
     = [Err; Panic; Err; Panic].
Proof. vm_compute. repeat split; reflexivity. Qed.

(* read_jsonl_streaming under every engine and every partition count = read_jsonl_vec *)
Theorem c09_exec_jsonl_source :
  forall (R : Type) (de : list Z -> option R) (e : engine) (p : N) (ls : list (list Z)) (per : N),
    exec_source e p (jsonl_source de ls per) = lift_whole e (read_vec de ls).
Proof. exact @exec_jsonl_source. Qed.

Example c09_exec_jsonl_source_ex :
  let de := fun l : list Z => match l with [z] => Some z | _ => None end in
  exec_source ESeqCk 1 (jsonl_source de [[65]; [32]; [66]; [67]]%Z 2) = Ok [65; 66; 67]%Z
  /\ exec_source EParCk 7 (jsonl_source de [[65]; [32]; [66]; [67]]%Z 3) = Ok [65; 66; 67]%Z.
Proof. vm_compute. split; reflexivity. Qed.

(* the file was rewritten after the source handle was built over ls0: every engine reads the first
   |ls0| lines of the new content -- all engines still agree, and nothing of the old content shows *)
Theorem c09_exec_jsonl_stale :
  forall (R : Type) (de : list Z -> option R) (e : engine) (p : N) (ls0 ls : list (list Z)) (per : N),
    exec_source e p (jsonl_adapter de ls (build_shards ls0 per) (total_lines ls0))
    = lift_whole e (read_vec de (firstn (length ls0) ls)).
Proof. exact @exec_jsonl_stale. Qed.

Example c09_exec_jsonl_stale_ex :
  let de := fun l : list Z => match l with [z] => Some z | _ => None end in
  exec_source EPar 2 (jsonl_adapter de [[70]; [71]; [72]]%Z (build_shards [[65]; [66]]%Z 1) (total_lines [[65]; [66]]%Z))
  = Ok [70; 71]%Z.
Proof. vm_compute. reflexivity. Qed.

(* CSV rows: any tiling of [0, total), any current content, every engine *)
Theorem c09_exec_rows_any_tiling :
  forall (R : Type) (e : engine) (p : N) (rows : list R) (rs : list range) (total : N),
    chain 0 rs total ->
    exec_source e p (rows_adapter rows rs total) = Ok (firstn (N.to_nat total) rows).
Proof. exact @exec_rows_any_tiling. Qed.

Theorem c09_exec_rows_source :
  forall (R : Type) (e : engine) (p : N) (rows : list R) (per : N),
    exec_source e p (rows_source rows per) = Ok rows.
Proof. exact @exec_rows_source. Qed.

Example c09_exec_rows_ex :
  map (fun e => exec_source e 5 (rows_source [1; 2; 3; 4; 5]%Z 2)) all_engines
  = repeat (Ok [1; 2; 3; 4; 5]%Z) 4
  /\ chainb 0 [(0, 3); (3, 3); (3, 4)]%N 4 = true
  /\ exec_source EParCk 1 (rows_adapter [1; 2; 3; 4; 5]%Z [(0, 3); (3, 3); (3, 4)]%N 4) = Ok [1; 2; 3; 4]%Z.
Proof. vm_compute. repeat split; reflexivity. Qed.

(* Parquet: any tiling of the first ng row groups of a file that (still) has at least ng groups *)
Theorem c09_exec_parquet_any_tiling :
  forall (R : Type) (e : engine) (p : N) (groups : list (list R)) (rs : list range) (ng tr : N),
    chain 0 rs ng -> (ng <= nlen groups)%N ->
    exec_source e p (pq_adapter groups rs tr) = Ok (concat (firstn (N.to_nat ng) groups)).
Proof. exact @exec_pq_any_tiling. Qed.

(* ... and when the file shrank below the row groups the handle knows, every engine panics (the
   parquet crate rejects the row-group index): no engine returns a partial result *)
Theorem c09_exec_parquet_shrunk :
  forall (R : Type) (e : engine) (p : N) (groups : list (list R)) (rs : list range) (ng tr : N),
    chain 0 rs ng -> (nlen groups < ng)%N ->
    exec_source e p (pq_adapter groups rs tr) = Panic.
Proof. exact @exec_pq_stale_shrunk. Qed.

Theorem c09_exec_parquet_source :
  forall (R : Type) (e : engine) (p : N) (groups : list (list R)) (per : N),
    exec_source e p (pq_source groups per) = Ok (pq_whole groups).
Proof. exact @exec_pq_source. Qed.

Example c09_exec_parquet_ex :
  map (fun e => exec_source e 2 (pq_source [[1; 2]; [3; 4]; [5]]%Z 2)) all_engines
  = repeat (Ok [1; 2; 3; 4; 5]%Z) 4
  /\ chainb 0 (group_ranges 3 2) 3 = true
  /\ map (fun e => exec_source e 2 (pq_adapter [[7; 8]]%Z (group_ranges 3 2) 5)) all_engines
     = repeat Panic 4.
Proof. vm_compute. repeat split; reflexivity. Qed.

(* a streamed source as one side of a join (run_subplan_seq / run_subplan_par): the partitions
   handed to the join concatenate to what the engine returns for the source alone, so the join sees
   the whole file *)
Theorem c09_join_side_eq_whole :
  forall (e : engine) (p : N) (a : adapter Z) (other v : list Z),
    exec_source e p a = Ok v ->
    join_side_ids e p a other = Ok (join_keys v other)
    /\ exists parts, subplan_source e p a = Ok parts /\ concat parts = v.
Proof. exact join_side_eq_whole. Qed.

Example c09_join_side_eq_whole_ex :
  exec_source EParCk 3 (rows_source [0; 1; 2; 3; 4]%Z 2) = Ok [0; 1; 2; 3; 4]%Z
  /\ join_side_ids EParCk 3 (rows_source [0; 1; 2; 3; 4]%Z 2) [1; 2; 2; 4; 5]%Z = Ok [1; 2; 2; 4]%Z
  /\ subplan_source EParCk 3 (rows_source [0; 1; 2; 3; 4]%Z 2) = Ok [[0; 1]; [2; 3]; [4]]%Z.
Proof. vm_compute. repeat split; reflexivity. Qed.

(* an adapter whose split (for every requested count) and clone_any describe the same data gives
   the same records under all four engines and every partition count *)
Theorem c09_engines_agree :
  forall (R : Type) (a : adapter R) (v : list R),
    ad_clone a = Ok v ->
    (forall n, exists parts, ad_split a n = Ok parts /\ concat parts = v) ->
    forall (e : engine) (p : N), exec_source e p a = Ok v.
Proof. exact @engines_agree. Qed.

Example c09_engines_agree_ex :
  let a := rows_source [1; 2; 3]%Z 2 in
  ad_clone a = Ok [1; 2; 3]%Z
  /\ (forall n, exists parts, ad_split a n = Ok parts /\ concat parts = [1; 2; 3]%Z).
Proof.
  cbv zeta. split; [vm_compute; reflexivity|].
  intros n. exists [[1; 2]; [3]]%Z. split; vm_compute; reflexivity.
Qed.

(* the in-memory adapter of from_vec (VecOpsImpl: chunks of ceil(len / n)) is such an adapter *)
Theorem c09_exec_mem_source :
  forall (R : Type) (e : engine) (p : N) (v : list R), exec_source e p (mem_adapter v) = Ok v.
Proof. exact @exec_mem_source. Qed.

Example c09_exec_mem_source_ex :
  mem_split [1; 2; 3; 4; 5]%Z 2 = [[1; 2; 3]; [4; 5]]%Z /\ mem_split [1; 2; 3]%Z 1 = [[1; 2; 3]]%Z
  /\ exec_source EPar 2 (mem_adapter [1; 2; 3; 4; 5]%Z) = Ok [1; 2; 3; 4; 5]%Z.
Proof. vm_compute. repeat split; reflexivity. Qed.

(* regression documented (seeded change C09-r4m2): taking the first partition of split(payload, 1)
   as "the whole source" is right for every in-memory source and wrong for a file source with more
   than one shard -- which is why only a streamed source under Runner{Sequential, checkpointing}
   shows it *)
Theorem c09_first_split_refuted :
  (forall (R : Type) (v : list R), source_first_split (mem_adapter v) = Ok v)
  /\ source_first_split (rows_source [1; 2; 3]%Z 2) = Ok [1; 2]%Z
  /\ exec_source ESeqCk 4 (rows_source [1; 2; 3]%Z 2) = Ok [1; 2; 3]%Z.
Proof. exact first_split_refuted. Qed.

(* ---------- the range readers on arbitrary ranges ---------- *)
(* read_jsonl_range: adjacent ranges compose (failures propagate left to right); an empty or
   inverted range reads nothing *)
Theorem c09_read_range_compose :
  forall (R : Type) (de : list Z -> option R) (ls : list (list Z)) (a b c : N),
    (a <= b)%N -> (b <= c)%N ->
    oapp (read_range de ls (a, b)) (read_range de ls (b, c)) = read_range de ls (a, c).
Proof. exact @read_range_app. Qed.

Theorem c09_read_range_degenerate :
  forall (R : Type) (de : list Z -> option R) (ls : list (list Z)) (s e : N),
    (e <= s)%N -> read_range de ls (s, e) = Ok [].
Proof. exact @read_range_degenerate. Qed.

Example c09_read_range_ex :
  let de := fun l : list Z => match l with [z] => Some z | _ => None end in
  let ls := [[65]; []; [66]; [67; 67]; [68]]%Z in
  read_range de ls (0, 2)%N = Ok [65]%Z /\ read_range de ls (2, 3)%N = Ok [66]%Z
  /\ read_range de ls (0, 3)%N = Ok [65; 66]%Z /\ read_range de ls (2, 5)%N = Err
  /\ read_range de ls (3, 1)%N = Ok [] /\ read_range de ls (4, 1000000)%N = Ok [68]%Z.
Proof. vm_compute. repeat split; reflexivity. Qed.

(* read_csv_range's index loop (skip while i < start, stop at i >= end) is the slice, for every
   start / end: inverted ranges are empty, ends beyond the file are clamped to its length *)
Theorem c09_rows_loop_is_slice :
  forall (R : Type) (rows : list R) (r : range),
    rows_read_loop 0 rows (fst r) (snd r) = rows_read_range rows r
    /\ ((snd r <= fst r)%N -> rows_read_range rows r = [])
    /\ rows_read_range rows (N.min (fst r) (nlen rows), N.min (snd r) (nlen rows)) = rows_read_range rows r.
Proof. exact @rows_loop_is_slice. Qed.

Example c09_rows_loop_is_slice_ex :
  rows_read_loop 0 [10; 11; 12; 13]%Z 1 3 = [11; 12]%Z /\ rows_read_loop 0 [10; 11; 12; 13]%Z 3 1 = []
  /\ rows_read_loop 0 [10; 11; 12; 13]%Z 2 1099511627776 = [12; 13]%Z.
Proof. vm_compute. repeat split; reflexivity. Qed.

(* ---------- consistency of the two models, corollaries ---------- *)
(* collect_seq / collect_par as modelled in IO/Jsonl.v (stream_seq / stream_par, rows_stream_seq / _par, pq_stream_seq / _par) are the
   ESeq / EPar instances of the engine model, for every partition count *)
Theorem c09_stream_is_exec :
  forall (R : Type) (de : list Z -> option R) (ls : list (list Z)) (per p : N),
    stream_seq de ls per = exec_source ESeq p (jsonl_source de ls per)
    /\ stream_par de ls per = exec_source EPar p (jsonl_source de ls per).
Proof. exact @stream_is_exec. Qed.

Theorem c09_rows_parquet_stream_is_exec :
  forall (R : Type) (rows : list R) (groups : list (list R)) (per p : N),
    exec_source ESeq p (rows_source rows per) = Ok (rows_stream_seq rows per)
    /\ exec_source EPar p (rows_source rows per) = Ok (rows_stream_par rows per)
    /\ exec_source ESeq p (pq_source groups per) = Ok (pq_stream_seq groups per)
    /\ exec_source EPar p (pq_source groups per) = Ok (pq_stream_par groups per).
Proof. exact @rows_pq_stream_is_exec. Qed.

Example c09_stream_is_exec_ex :
  let de := fun l : list Z => match l with [z] => Some z | _ => None end in
  stream_par de [[65]; [66; 66]]%Z 1 = Panic
  /\ exec_source EPar 9 (jsonl_source de [[65]; [66; 66]]%Z 1) = Panic
  /\ exec_source ESeq 9 (jsonl_source de [[65]; [66; 66]]%Z 1) = Err
  /\ exec_source EPar 2 (pq_source [[1]; [2; 3]]%Z 1) = Ok (pq_stream_par [[1]; [2; 3]]%Z 1).
Proof. vm_compute. repeat split; reflexivity. Qed.

(* a JSONL file that only grew (lines appended) after the handle was built: every engine returns
   exactly the records the file had when the handle was built *)
Theorem c09_exec_jsonl_appended :
  forall (R : Type) (de : list Z -> option R) (e : engine) (p : N) (ls0 extra : list (list Z)) (per : N),
    exec_source e p (jsonl_adapter de (ls0 ++ extra) (build_shards ls0 per) (total_lines ls0))
    = lift_whole e (read_vec de ls0).
Proof. exact @exec_jsonl_appended. Qed.

Example c09_exec_jsonl_appended_ex :
  let de := fun l : list Z => match l with [z] => Some z | _ => None end in
  exec_source ESeqCk 1 (jsonl_adapter de ([[65]; [66]] ++ [[67]; [0; 0]])%Z (build_shards [[65]; [66]]%Z 1)
                          (total_lines [[65]; [66]]%Z))
  = Ok [65; 66]%Z.
Proof. vm_compute. reflexivity. Qed.

(* exec_par's `partitions.max(1).min(total_len.max(1))` is between 1 and both bounds *)
Theorem c09_par_parts_bounds :
  forall (R : Type) (a : adapter R) (p : N),
    (1 <= par_parts p a)%N
    /\ (par_parts p a <= N.max p 1)%N
    /\ (par_parts p a <= N.max (match ad_len a with Some l => l | None => 0 end) 1)%N.
Proof. exact @par_parts_bounds. Qed.

Example c09_par_parts_bounds_ex :
  par_parts 0 (rows_source [1; 2; 3]%Z 1) = 1%N /\ par_parts 64 (rows_source [1; 2; 3]%Z 1) = 3%N
  /\ par_parts 64 (rows_source (@nil Z) 1) = 1%N.
Proof. vm_compute. repeat split; reflexivity. Qed.
