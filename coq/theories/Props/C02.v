(* C02: element-wise pipelines compute the steps as written, in order.
   ONLY property theorems (each closed by `exact`) and non-vacuity examples. *)
From Coq Require Import List ZArith Bool Permutation Sorted.
From IB Require Import Engine.Val Engine.Ops Engine.AMap Engine.Nodes Engine.Exec Engine.Planner
     Engine.Lang Engine.Denote Engine.Static Engine.Sorted Proofs.EngineElementwise
     Proofs.EngineSorted Engine.Auto Proofs.EngineAuto.
Import ListNotations.

(* the chain the builders produce for a source followed by element-wise transforms: one Stateless
   node holding one operator per call *)
Definition raw_chain (s : source) (ops : list dynop) : list node :=
  NB (BSource s) :: map (fun o => NB (BStateless [o])) ops.

(* For ARBITRARY user functions (any element-wise operators, any coherent source, any partition
   count, either mode): the optimised plan returns exactly `sem_ops ops` of the source content -
   the operators applied one after another in the order written. `Ok` = no panic and no
   type-mismatch error; equality of sequences = nothing dropped, duplicated or reordered.
   Hypothesis `reorder_noop`: the planner's reorder pass leaves the fused block as written; the
   programs where it does not form the open known finding C02-reorder (see c02_reorder_refuted). *)
Theorem c02_chain_as_written : forall sh s ops term parts,
    coherent s -> Forall ew ops -> tags_ok (s_tag s) ops = Some term ->
    reorder_noop (fuse (raw_chain s ops)) ->
    exec_seq sh term (optimise (raw_chain s ops)) = Ok (sem_ops ops (s_all s)) /\
    exec_par sh term (optimise (raw_chain s ops)) parts = Ok (sem_ops ops (s_all s)).
Proof. exact chain_as_written. Qed.

(* the same for programs of the step language, against the independent list semantics *)
Theorem c02_program_as_written : forall s steps parts,
    forallb elementwise_step steps = true -> well_typed (src_tag s) steps = true ->
    reorder_noop (fuse (cs_chain (compile s steps))) ->
    run_seq s steps = Ok (denote s steps) /\ run_par s steps parts = Ok (denote s steps).
Proof. exact program_as_written. Qed.

(* when exactly does the reorder pass change a block: it is all value-only/key-preserving/
   reorder-safe, has at least two operators, and is not already sorted by (cost != 1, cost) *)
Theorem c02_reorder_class : forall ops,
    reorder_ops ops <> ops ->
    all_value_only ops = true /\ (2 <= length ops)%nat /\
    ~ StronglySorted (fun a b => rkey_leb a b = true) ops.
Proof. exact reorder_class. Qed.
Theorem c02_sorted_block_untouched : forall ops,
    StronglySorted (fun a b => rkey_leb a b = true) ops -> reorder_ops ops = ops.
Proof. exact sorted_block_untouched. Qed.

(* OPEN KNOWN FINDING (C02-reorder): the reorder pass is unsound.
   (a) wrong result, (b) internal type-mismatch panic. Both are theorems about the model and are
   replayed against the real code on every run of the check. *)
Theorem c02_reorder_refuted_wrong_result :
  let s := SrcVec TKV [VPair (VInt 1) (VInt 1); VPair (VInt 1) (VInt 2);
                       VPair (VInt 1) (VInt 3); VPair (VInt 1) (VInt 4)] in
  let steps := [SMapValues (FAdd 1); SFilterValues (PModEq 2 0)] in
  run_seq s steps = Ok [VPair (VInt 1) (VInt 3); VPair (VInt 1) (VInt 5)] /\
  denote s steps = [VPair (VInt 1) (VInt 2); VPair (VInt 1) (VInt 4)].
Proof. exact reorder_refuted_wrong_result. Qed.
Theorem c02_reorder_refuted_panic :
  let s := SrcVec TKV [VPair (VInt 1) (VInt 1)] in
  run_seq s [SMapValuesW (FAdd 1); SFilterValuesW PTrue] = Panic.
Proof. exact reorder_refuted_panic. Qed.

(* The sorting collectors (helpers/collect_sorted.rs).  collect_seq_sorted / collect_par_sorted:
   the result is a sorted permutation of the plain result, and there is only one such list. *)
Theorem c02_sorted_collect_spec : forall rows,
    Permutation rows (sort_rows rows) /\
    StronglySorted (fun a b => val_leb a b = true) (sort_rows rows) /\
    forall out, Permutation rows out -> StronglySorted (fun a b => val_leb a b = true) out ->
                out = sort_rows rows.
Proof. exact sort_rows_spec. Qed.

(* collect_par_sorted_by_key: nothing lost or invented, keys ascend, and for EVERY key the rows
   carrying it are exactly the rows of the plain result in their original order (the sort is
   stable: no element is reordered against another element of its key) - and these facts
   determine the result, so they hold for whatever stable sorting algorithm the library uses. *)
Theorem c02_sorted_by_key_is_stable_sort : forall rows,
    let out := sort_rows_by_key rows in
    Permutation rows out /\
    StronglySorted (fun a b => val_leb (row_key a) (row_key b) = true) out /\
    (forall a, filter (same_key a) out = filter (same_key a) rows) /\
    forall out',
      StronglySorted (fun a b => val_leb (row_key a) (row_key b) = true) out' ->
      (forall a, filter (same_key a) out' = filter (same_key a) rows) ->
      out' = out.
Proof. exact sort_rows_by_key_spec. Qed.

(* whole programs through the sorting collectors (which = 0 collect_seq_sorted, 1
   collect_par_sorted, 2 collect_par_sorted_by_key): the sorted list interpretation *)
Theorem c02_sorted_program_as_written : forall which s steps parts,
    forallb elementwise_step steps = true -> well_typed (src_tag s) steps = true ->
    reorder_noop (fuse (cs_chain (compile s steps))) ->
    run_sorted which (run_seq s steps) = Ok (sorted_collect which (denote s steps)) /\
    run_sorted which (run_par s steps parts) = Ok (sorted_collect which (denote s steps)).
Proof. exact program_sorted_as_written. Qed.

(* `partitions: None` (collect_par(None, None), the commonest call): the runner takes the
   planner's suggestion - about 64 000 rows per partition clamped to [hw, 8 hw], hw = max(cpus, 2) -
   or 2 hw when the source cannot tell its length.  The suggestion is never 0 and its clamp never
   has min > max; and whatever is chosen, on a machine with ANY number of cores, an element-wise
   program returns the list interpretation. *)
Theorem c02_suggested_partitions_range : forall n cpus p,
    suggest_partitions (Some n) cpus = Some p ->
    (Nat.max cpus 2 <= p <= 8 * Nat.max cpus 2)%nat /\ (2 <= p)%nat.
Proof. exact suggest_partitions_range. Qed.
Theorem c02_auto_partitions_as_written : forall s steps requested len_hint cpus,
    forallb elementwise_step steps = true -> well_typed (src_tag s) steps = true ->
    reorder_noop (fuse (cs_chain (compile s steps))) ->
    run_par_auto s steps requested len_hint cpus = Ok (denote s steps).
Proof. exact program_as_written_auto. Qed.

Example c02_auto_example :
  suggest_partitions (Some 1000%nat) 16 = Some 16%nat /\
  suggest_partitions (Some (200 * 64 * 1000)%nat) 16 = Some 128%nat /\
  choose_parts None None 16 = 32%nat /\ choose_parts (Some 5%nat) (Some 9%nat) 16 = 5%nat /\
  let s := SrcVec TU [VInt 1; VInt 2; VInt 3; VInt 4; VInt 5] in
  let steps := [SMap (FMul 3); SFilter (PNot (PModEq 2 0))] in
  run_par_auto s steps None (Some 5%nat) 16 = Ok [VInt 3; VInt 9; VInt 15].
Proof. repeat split; vm_compute; reflexivity. Qed.

Example c02_sorted_example :
  let rows := [VPair (VInt 2) (VInt 9); VPair (VInt 1) (VInt 7); VPair (VInt 2) (VInt 3);
               VPair (VInt 1) (VInt 8); VPair (VInt 2) (VInt 5)] in
  sort_rows_by_key rows
  = [VPair (VInt 1) (VInt 7); VPair (VInt 1) (VInt 8);
     VPair (VInt 2) (VInt 9); VPair (VInt 2) (VInt 3); VPair (VInt 2) (VInt 5)] /\
  sort_rows rows
  = [VPair (VInt 1) (VInt 7); VPair (VInt 1) (VInt 8);
     VPair (VInt 2) (VInt 3); VPair (VInt 2) (VInt 5); VPair (VInt 2) (VInt 9)].
Proof. split; vm_compute; reflexivity. Qed.

Example c02_example :
  let s := SrcVec TU [VInt 1; VInt 2; VInt 3; VInt 4; VInt 5] in
  let steps := [SMap (FMul 3); SFilter (PNot (PModEq 2 0)); SKeyBy (FMod 2);
                SFilterValues (PLt 14); SMapValues (FAdd 100); SUnkey] in
  forallb elementwise_step steps = true /\ well_typed (src_tag s) steps = true /\
  reorder_noop (fuse (cs_chain (compile s steps))) /\
  run_par s steps 3 = Ok (denote s steps) /\
  denote s steps = [VPair (VInt 1) (VInt 103); VPair (VInt 1) (VInt 109)].
Proof. repeat split; vm_compute; reflexivity. Qed.
