(* C02: element-wise pipelines compute the steps as written, in order.
   ONLY property theorems (each closed by `exact`) and non-vacuity examples. *)
From Coq Require Import List ZArith Bool Permutation Sorted.
From IB Require Import Engine.Val Engine.Ops Engine.AMap Engine.Nodes Engine.Exec Engine.Planner
     Engine.Lang Engine.Denote Engine.Static Proofs.EngineElementwise.
Import ListNotations.

(* the chain the builders produce for a source followed by element-wise transforms: one Stateless
   node holding one operator per call *)
Definition raw_chain (s : source) (ops : list dynop) : list node :=
  NB (BSource s) :: map (fun o => NB (BStateless [o])) ops.

(* For ARBITRARY user functions (any element-wise operators, any coherent source, any partition
   count, either mode): the optimised plan returns exactly `sem_ops ops` of the source content -
   the operators applied one after another in the order written. `Ok` = no panic and no
   type-mismatch error; equality of sequences = nothing dropped, duplicated or reordered.
   Hypothesis `reorder_noop`: the planner's reorder pass leaves the fused block as written; the
   programs where it does not form the open known finding C02-reorder (see c02_reorder_refuted). *)
Theorem c02_chain_as_written : forall sh s ops term parts,
    coherent s -> Forall ew ops -> tags_ok (s_tag s) ops = Some term ->
    reorder_noop (fuse (raw_chain s ops)) ->
    exec_seq sh term (optimise (raw_chain s ops)) = Ok (sem_ops ops (s_all s)) /\
    exec_par sh term (optimise (raw_chain s ops)) parts = Ok (sem_ops ops (s_all s)).
Proof. exact chain_as_written. Qed.

(* the same for programs of the step language, against the independent list semantics *)
Theorem c02_program_as_written : forall s steps parts,
    forallb elementwise_step steps = true -> well_typed (src_tag s) steps = true ->
    reorder_noop (fuse (cs_chain (compile s steps))) ->
    run_seq s steps = Ok (denote s steps) /\ run_par s steps parts = Ok (denote s steps).
Proof. exact program_as_written. Qed.

(* when exactly does the reorder pass change a block: it is all value-only/key-preserving/
   reorder-safe, has at least two operators, and is not already sorted by (cost != 1, cost) *)
Theorem c02_reorder_class : forall ops,
    reorder_ops ops <> ops ->
    all_value_only ops = true /\ (2 <= length ops)%nat /\
    ~ StronglySorted (fun a b => rkey_leb a b = true) ops.
Proof. exact reorder_class. Qed.
Theorem c02_sorted_block_untouched : forall ops,
    StronglySorted (fun a b => rkey_leb a b = true) ops -> reorder_ops ops = ops.
Proof. exact sorted_block_untouched. Qed.

(* OPEN KNOWN FINDING (C02-reorder): the reorder pass is unsound.
   (a) wrong result, (b) internal type-mismatch panic. Both are theorems about the model and are
   replayed against the real code on every run of the check. *)
Theorem c02_reorder_refuted_wrong_result :
  let s := SrcVec TKV [VPair (VInt 1) (VInt 1); VPair (VInt 1) (VInt 2);
                       VPair (VInt 1) (VInt 3); VPair (VInt 1) (VInt 4)] in
  let steps := [SMapValues (FAdd 1); SFilterValues (PModEq 2 0)] in
  run_seq s steps = Ok [VPair (VInt 1) (VInt 3); VPair (VInt 1) (VInt 5)] /\
  denote s steps = [VPair (VInt 1) (VInt 2); VPair (VInt 1) (VInt 4)].
Proof. exact reorder_refuted_wrong_result. Qed.
Theorem c02_reorder_refuted_panic :
  let s := SrcVec TKV [VPair (VInt 1) (VInt 1)] in
  run_seq s [SMapValuesW (FAdd 1); SFilterValuesW PTrue] = Panic.
Proof. exact reorder_refuted_panic. Qed.

Example c02_example :
  let s := SrcVec TU [VInt 1; VInt 2; VInt 3; VInt 4; VInt 5] in
  let steps := [SMap (FMul 3); SFilter (PNot (PModEq 2 0)); SKeyBy (FMod 2);
                SFilterValues (PLt 14); SMapValues (FAdd 100); SUnkey] in
  forallb elementwise_step steps = true /\ well_typed (src_tag s) steps = true /\
  reorder_noop (fuse (cs_chain (compile s steps))) /\
  run_par s steps 3 = Ok (denote s steps) /\
  denote s steps = [VPair (VInt 1) (VInt 103); VPair (VInt 1) (VInt 109)].
Proof. repeat split; vm_compute; reflexivity. Qed.
