(* C02: element-wise pipelines compute the steps as written, in order.
   ONLY property theorems (each closed by `exact`) and non-vacuity examples. *)
From Coq Require Import List ZArith Bool Permutation Sorted.
From IB Require Import Engine.Val Engine.Ops Engine.AMap Engine.Nodes Engine.Exec Engine.Planner
     Engine.Lang Engine.Denote Engine.Static Engine.Sorted Proofs.EngineElementwise
     Proofs.EngineElementwiseSpec Proofs.EngineSorted Engine.Auto Proofs.EngineAuto.
Import ListNotations.

(* the chain the builders produce for a source followed by element-wise transforms: one Stateless
   node holding one operator per call *)
Definition raw_chain (s : source) (ops : list dynop) : list node :=
  NB (BSource s) :: map (fun o => NB (BStateless [o])) ops.

(* For ARBITRARY user functions (any element-wise operators, any coherent source, any partition
   count, either mode): the optimised plan returns exactly `sem_ops ops` of the source content -
   the operators applied one after another in the order written. `Ok` = no panic and no
   type-mismatch error; equality of sequences = nothing dropped, duplicated or reordered.
   Hypothesis `reorder_noop`: the planner's reorder pass leaves the fused block as written; the
   programs where it does not form the open known finding C02-reorder (see c02_reorder_refuted). *)
Theorem c02_chain_as_written : forall sh s ops term parts,
    coherent s -> Forall ew ops -> tags_ok (s_tag s) ops = Some term ->
    reorder_noop (fuse (raw_chain s ops)) ->
    exec_seq sh term (optimise (raw_chain s ops)) = Ok (sem_ops ops (s_all s)) /\
    exec_par sh term (optimise (raw_chain s ops)) parts = Ok (sem_ops ops (s_all s)).
Proof. exact chain_as_written. Qed.

(* the same for programs of the step language, against the independent list semantics *)
Theorem c02_program_as_written : forall s steps parts,
    forallb elementwise_step steps = true -> well_typed (src_tag s) steps = true ->
    reorder_noop (fuse (cs_chain (compile s steps))) ->
    run_seq s steps = Ok (denote s steps) /\ run_par s steps parts = Ok (denote s steps).
Proof. exact program_as_written. Qed.

(* when exactly does the reorder pass change a block: it is all value-only/key-preserving/
   reorder-safe, has at least two operators, and is not already sorted by (cost != 1, cost) *)
Theorem c02_reorder_class : forall ops,
    reorder_ops ops <> ops ->
    all_value_only ops = true /\ (2 <= length ops)%nat /\
    ~ StronglySorted (fun a b => rkey_leb a b = true) ops.
Proof. exact reorder_class. Qed.
Theorem c02_sorted_block_untouched : forall ops,
    StronglySorted (fun a b => rkey_leb a b = true) ops -> reorder_ops ops = ops.
Proof. exact sorted_block_untouched. Qed.

(* OPEN KNOWN FINDING (C02-reorder): the reorder pass is unsound.
   (a) wrong result, (b) internal type-mismatch panic. Both are theorems about the model and are
   replayed against the real code on every run of the check. *)
Theorem c02_reorder_refuted_wrong_result :
  let s := SrcVec TKV [VPair (VInt 1) (VInt 1); VPair (VInt 1) (VInt 2);
                       VPair (VInt 1) (VInt 3); VPair (VInt 1) (VInt 4)] in
  let steps := [SMapValues (FAdd 1); SFilterValues (PModEq 2 0)] in
  run_seq s steps = Ok [VPair (VInt 1) (VInt 3); VPair (VInt 1) (VInt 5)] /\
  denote s steps = [VPair (VInt 1) (VInt 2); VPair (VInt 1) (VInt 4)].
Proof. exact reorder_refuted_wrong_result. Qed.
Theorem c02_reorder_refuted_panic :
  let s := SrcVec TKV [VPair (VInt 1) (VInt 1)] in
  run_seq s [SMapValuesW (FAdd 1); SFilterValuesW PTrue] = Panic.
Proof. exact reorder_refuted_panic. Qed.

(* The sorting collectors (helpers/collect_sorted.rs).  collect_seq_sorted / collect_par_sorted:
   the result is a sorted permutation of the plain result, and there is only one such list. *)
Theorem c02_sorted_collect_spec : forall rows,
    Permutation rows (sort_rows rows) /\
    StronglySorted (fun a b => val_leb a b = true) (sort_rows rows) /\
    forall out, Permutation rows out -> StronglySorted (fun a b => val_leb a b = true) out ->
                out = sort_rows rows.
Proof. exact sort_rows_spec. Qed.

(* collect_par_sorted_by_key: nothing lost or invented, keys ascend, and for EVERY key the rows
   carrying it are exactly the rows of the plain result in their original order (the sort is
   stable: no element is reordered against another element of its key) - and these facts
   determine the result, so they hold for whatever stable sorting algorithm the library uses. *)
Theorem c02_sorted_by_key_is_stable_sort : forall rows,
    let out := sort_rows_by_key rows in
    Permutation rows out /\
    StronglySorted (fun a b => val_leb (row_key a) (row_key b) = true) out /\
    (forall a, filter (same_key a) out = filter (same_key a) rows) /\
    forall out',
      StronglySorted (fun a b => val_leb (row_key a) (row_key b) = true) out' ->
      (forall a, filter (same_key a) out' = filter (same_key a) rows) ->
      out' = out.
Proof. exact sort_rows_by_key_spec. Qed.

(* whole programs through the sorting collectors (which = 0 collect_seq_sorted, 1
   collect_par_sorted, 2 collect_par_sorted_by_key): the sorted list interpretation *)
Theorem c02_sorted_program_as_written : forall which s steps parts,
    forallb elementwise_step steps = true -> well_typed (src_tag s) steps = true ->
    reorder_noop (fuse (cs_chain (compile s steps))) ->
    run_sorted which (run_seq s steps) = Ok (sorted_collect which (denote s steps)) /\
    run_sorted which (run_par s steps parts) = Ok (sorted_collect which (denote s steps)).
Proof. exact program_sorted_as_written. Qed.

(* `partitions: None` (collect_par(None, None), the commonest call): the runner takes the
   planner's suggestion - about 64 000 rows per partition clamped to [hw, 8 hw], hw = max(cpus, 2) -
   or 2 hw when the source cannot tell its length.  The suggestion is never 0 and its clamp never
   has min > max; and whatever is chosen, on a machine with ANY number of cores, an element-wise
   program returns the list interpretation. *)
Theorem c02_suggested_partitions_range : forall n cpus p,
    suggest_partitions (Some n) cpus = Some p ->
    (Nat.max cpus 2 <= p <= 8 * Nat.max cpus 2)%nat /\ (2 <= p)%nat.
Proof. exact suggest_partitions_range. Qed.
Theorem c02_auto_partitions_as_written : forall s steps requested len_hint cpus,
    forallb elementwise_step steps = true -> well_typed (src_tag s) steps = true ->
    reorder_noop (fuse (cs_chain (compile s steps))) ->
    run_par_auto s steps requested len_hint cpus = Ok (denote s steps).
Proof. exact program_as_written_auto. Qed.

Example c02_auto_example :
  suggest_partitions (Some 1000%nat) 16 = Some 16%nat /\
  suggest_partitions (Some (200 * 64 * 1000)%nat) 16 = Some 128%nat /\
  choose_parts None None 16 = 32%nat /\ choose_parts (Some 5%nat) (Some 9%nat) 16 = 5%nat /\
  let s := SrcVec TU [VInt 1; VInt 2; VInt 3; VInt 4; VInt 5] in
  let steps := [SMap (FMul 3); SFilter (PNot (PModEq 2 0))] in
  run_par_auto s steps None (Some 5%nat) 16 = Ok [VInt 3; VInt 9; VInt 15].
Proof. repeat split; vm_compute; reflexivity. Qed.

Example c02_sorted_example :
  let rows := [VPair (VInt 2) (VInt 9); VPair (VInt 1) (VInt 7); VPair (VInt 2) (VInt 3);
               VPair (VInt 1) (VInt 8); VPair (VInt 2) (VInt 5)] in
  sort_rows_by_key rows
  = [VPair (VInt 1) (VInt 7); VPair (VInt 1) (VInt 8);
     VPair (VInt 2) (VInt 9); VPair (VInt 2) (VInt 3); VPair (VInt 2) (VInt 5)] /\
  sort_rows rows
  = [VPair (VInt 1) (VInt 7); VPair (VInt 1) (VInt 8);
     VPair (VInt 2) (VInt 3); VPair (VInt 2) (VInt 5); VPair (VInt 2) (VInt 9)].
Proof. split; vm_compute; reflexivity. Qed.

Example c02_example :
  let s := SrcVec TU [VInt 1; VInt 2; VInt 3; VInt 4; VInt 5] in
  let steps := [SMap (FMul 3); SFilter (PNot (PModEq 2 0)); SKeyBy (FMod 2);
                SFilterValues (PLt 14); SMapValues (FAdd 100); SUnkey] in
  forallb elementwise_step steps = true /\ well_typed (src_tag s) steps = true /\
  reorder_noop (fuse (cs_chain (compile s steps))) /\
  run_par s steps 3 = Ok (denote s steps) /\
  denote s steps = [VPair (VInt 1) (VInt 103); VPair (VInt 1) (VInt 109)].
Proof. repeat split; vm_compute; reflexivity. Qed.

Local Open Scope nat_scope.

(* ------------------------------------------------------------------------------------------
   What "the steps applied one after another" (sem_ops, the right-hand side of
   c02_chain_as_written) MEANS, stated without reference to how sem_ops is computed.
   ------------------------------------------------------------------------------------------ *)

(* 1. An element-wise chain is ONE flat_map: there is a single function g from an input element to
   the list of its outputs, and the result is the outputs of the 1st input, then those of the
   2nd, ... - nothing depends on neighbours or on position.  That g is necessarily
   x |-> sem_ops ops [x] (the chain run on the one-element list). *)
Theorem c02_sem_ops_is_flat_map : forall ops,
    Forall ew ops -> exists g : val -> list val, forall l, sem_ops ops l = flat_map g l.
Proof. exact sem_ops_is_flat_map. Qed.
Theorem c02_sem_ops_pointwise : forall ops l,
    Forall ew ops -> sem_ops ops l = flat_map (fun x => sem_ops ops [x]) l.
Proof. exact sem_ops_pointwise. Qed.
Theorem c02_sem_ops_flat_map_unique : forall ops (g : val -> list val),
    (forall l, sem_ops ops l = flat_map g l) -> forall x, g x = sem_ops ops [x].
Proof. exact sem_ops_flat_map_unique. Qed.
(* with the operators' own element functions gs named (ew_fn o g): the chain's function is their
   composition in the order written *)
Theorem c02_sem_ops_flat_map_compose : forall ops gs,
    Forall2 ew_fn ops gs ->
    forall l, sem_ops ops l
              = flat_map (fun x => fold_left (fun acc g => flat_map g acc) gs [x]) l.
Proof. exact sem_ops_flat_map_compose. Qed.

(* 2. The chain commutes with concatenation and maps [] to []; hence it gives the same result
   for ANY way of cutting the input into partitions. *)
Theorem c02_sem_ops_app : forall ops,
    Forall ew ops ->
    (forall l1 l2, sem_ops ops (l1 ++ l2) = sem_ops ops l1 ++ sem_ops ops l2) /\
    sem_ops ops [] = [].
Proof. exact sem_ops_app_nil. Qed.
Theorem c02_sem_ops_any_partitioning : forall ops l parts,
    Forall ew ops -> concat parts = l -> concat (map (sem_ops ops) parts) = sem_ops ops l.
Proof. exact sem_ops_any_partitioning. Qed.

(* an operator that is a map with function f / a filter with predicate p *)
Definition map_op (o : dynop) (f : val -> val) : Prop := forall l, op_fn o l = Some (map f l).
Definition filter_op (o : dynop) (p : val -> bool) : Prop :=
  forall l, op_fn o l = Some (filter p l).
(* f1, f2, ..., fn applied in the order written: fn (... (f2 (f1 x))) *)
Definition apply_in_order (fs : list (val -> val)) (x : val) : val :=
  fold_left (fun acc f => f acc) fs x.
(* every predicate holds *)
Definition all_hold (ps : list (val -> bool)) (x : val) : bool := forallb (fun p => p x) ps.

(* the library's map / map_values / filter / filter_values operators have these shapes *)
Theorem c02_op_map_is_map : forall i o f uid, map_op (op_map i o f uid) f.
Proof. exact op_map_is_map. Qed.
Theorem c02_op_map_values_is_map : forall i o f uid,
    map_op (op_map_values i o f uid) (on_snd f).
Proof. exact op_map_values_is_map. Qed.
Theorem c02_op_filter_is_filter : forall i p uid, filter_op (op_filter i p uid) p.
Proof. exact op_filter_is_filter. Qed.
Theorem c02_op_filter_values_is_filter : forall i p uid,
    filter_op (op_filter_values i p uid) (fun kv => p (vsnd kv)).
Proof. exact op_filter_values_is_filter. Qed.
(* and chains of them are element-wise, so c02_chain_as_written applies to them *)
Theorem c02_maps_are_ew : forall ops fs, Forall2 map_op ops fs -> Forall ew ops.
Proof. exact maps_are_ew. Qed.
Theorem c02_filters_are_ew : forall ops ps, Forall2 filter_op ops ps -> Forall ew ops.
Proof. exact filters_are_ew. Qed.

(* 3. A chain of maps is positional: same length, and the i-th output is the composition of the
   functions, in the order written, applied to the i-th input (and there is no i-th output
   exactly when there is no i-th input). *)
Theorem c02_maps_positional : forall ops fs,
    Forall2 map_op ops fs ->
    forall l,
      sem_ops ops l = map (apply_in_order fs) l /\
      length (sem_ops ops l) = length l /\
      forall i, nth_error (sem_ops ops l) i = option_map (apply_in_order fs) (nth_error l i).
Proof. exact sem_ops_maps_positional. Qed.

(* 4. A chain of filters returns `filter` of the conjunction of the predicates: exactly the
   elements of the input satisfying every predicate, as a subsequence of the input - the input
   with some positions erased (mask_select keeps the positions whose mask bit is true), in the
   original order and multiplicity; and the result does not depend on the order in which the
   filters were written. *)
Theorem c02_filters_subsequence : forall ops ps,
    Forall2 filter_op ops ps ->
    forall l,
      sem_ops ops l = filter (all_hold ps) l /\
      (forall x, In x (sem_ops ops l) <-> In x l /\ forall p, In p ps -> p x = true) /\
      (length (sem_ops ops l) <= length l)%nat /\
      exists mask, length mask = length l /\ sem_ops ops l = mask_select val mask l.
Proof. exact sem_ops_filters_subsequence. Qed.
Theorem c02_filters_order_irrelevant : forall ops ops' ps ps',
    Forall2 filter_op ops ps -> Forall2 filter_op ops' ps' -> Permutation ps ps' ->
    forall l, sem_ops ops l = sem_ops ops' l.
Proof. exact sem_ops_filters_order_irrelevant. Qed.

Definition ex_triple (v : val) : val := match v with VInt z => VInt (3 * z) | _ => v end.
Definition ex_succ (v : val) : val := match v with VInt z => VInt (z + 1) | _ => v end.
Definition ex_odd (v : val) : bool := match v with VInt z => Z.odd z | _ => false end.
Definition ex_small (v : val) : bool := match v with VInt z => Z.ltb z 10 | _ => false end.
Definition ex_twice (v : val) : list val := [v; v].

(* 1 + 2 with real operators: a map, a filter and a flat_map; the chain's element function,
   the result on a list, and two different partitionings of that list *)
Example c02_flat_map_example :
  let ops := [op_map 0 0 ex_triple 1; op_filter 0 ex_odd 2; op_flat_map 0 0 ex_twice 3] in
  let l := [VInt 1; VInt 2; VInt 3; VInt 4; VInt 5] in
  Forall ew ops /\
  sem_ops ops [VInt 1] = [VInt 3; VInt 3] /\ sem_ops ops [VInt 2] = [] /\
  sem_ops ops l = flat_map (fun x => sem_ops ops [x]) l /\
  sem_ops ops l = [VInt 3; VInt 3; VInt 9; VInt 9; VInt 15; VInt 15] /\
  concat (map (sem_ops ops) [[VInt 1; VInt 2]; []; [VInt 3; VInt 4; VInt 5]]) = sem_ops ops l /\
  concat (map (sem_ops ops) [[VInt 1]; [VInt 2; VInt 3; VInt 4]; [VInt 5]]) = sem_ops ops l.
Proof.
  intros ops l.
  assert (Hew : Forall ew ops).
  { apply (ew_fn_ew ops [fun x => [ex_triple x]; fun x => if ex_odd x then [x] else []; ex_twice]).
    apply Forall2_cons; [|apply Forall2_cons; [|apply Forall2_cons; [|apply Forall2_nil]]];
      intros l0; cbn; [rewrite map_as_flat_map | rewrite filter_as_flat_map | ]; reflexivity. }
  split; [exact Hew|]. split; [reflexivity|]. split; [reflexivity|].
  split; [apply c02_sem_ops_pointwise; exact Hew|]. split; [reflexivity|].
  split; apply c02_sem_ops_any_partitioning; try exact Hew; reflexivity.
Qed.

(* 3 with real operators: x |-> 3x then x |-> x+1, i.e. 3x+1 at every position (not 3(x+1)) *)
Example c02_maps_example :
  let ops := [op_map 0 0 ex_triple 1; op_map 0 0 ex_succ 2] in
  let l := [VInt 1; VInt 2; VInt 3] in
  Forall2 map_op ops [ex_triple; ex_succ] /\
  sem_ops ops l = [VInt 4; VInt 7; VInt 10] /\
  nth_error (sem_ops ops l) 1 = Some (apply_in_order [ex_triple; ex_succ] (VInt 2)) /\
  apply_in_order [ex_triple; ex_succ] (VInt 2) = VInt 7 /\
  nth_error (sem_ops ops l) 3 = None.
Proof.
  intros ops l.
  assert (H : Forall2 map_op ops [ex_triple; ex_succ]).
  { repeat constructor; apply c02_op_map_is_map. }
  split; [exact H|]. split; [reflexivity|].
  destruct (c02_maps_positional ops _ H l) as [_ [_ Hn]].
  split; [rewrite Hn; reflexivity|]. split; [reflexivity|]. rewrite Hn. reflexivity.
Qed.

(* 4 with real operators: two filters written in either order select the same subsequence *)
Example c02_filters_example :
  let ops := [op_filter 0 ex_odd 1; op_filter 0 ex_small 2] in
  let ops' := [op_filter 0 ex_small 2; op_filter 0 ex_odd 1] in
  let l := [VInt 11; VInt 3; VInt 4; VInt 3; VInt 1; VInt 13] in
  Forall2 filter_op ops [ex_odd; ex_small] /\
  sem_ops ops l = [VInt 3; VInt 3; VInt 1] /\
  sem_ops ops l = filter (all_hold [ex_odd; ex_small]) l /\
  sem_ops ops l = mask_select val [false; true; false; true; true; false] l /\
  sem_ops ops' l = sem_ops ops l.
Proof.
  intros ops ops' l.
  assert (H : Forall2 filter_op ops [ex_odd; ex_small]).
  { repeat constructor; apply c02_op_filter_is_filter. }
  assert (H' : Forall2 filter_op ops' [ex_small; ex_odd]).
  { repeat constructor; apply c02_op_filter_is_filter. }
  split; [exact H|]. split; [reflexivity|].
  split; [apply (c02_filters_subsequence ops _ H l)|]. split; [reflexivity|].
  apply (c02_filters_order_irrelevant ops' ops _ _ H' H). apply perm_swap.
Qed.
