(* C13: tumbling windows partition event time; window grouping loses nothing.
   This file holds ONLY the property theorems (each closed by `exact`) and their non-vacuity
   examples.  Model: Window/Tumble.v (Window::tumble over Z with explicit u64 semantics, debug
   and release profile) and Window/Grouping.v (key_by_window / group_by_window /
   group_by_key_and_window over an arbitrary list of partitions).
   `win_start ts size off = ts - (ts - off) mod size` is the mathematically correct start. *)
From Coq Require Import List ZArith Bool Permutation.
From IB Require Import Window.Tumble Window.Grouping
     Proofs.WindowTumbleProofs Proofs.WindowGroupingProofs Proofs.WindowCorrProofs.
From IB Require Corr.C13.
Import ListNotations.
Open Scope Z_scope.

(* ---- every representable timestamp gets the window of the specification ---- *)
Theorem c13_tumble_spec :
  forall ts size off : Z,
    1 <= size -> off mod size <= ts -> win_start ts size off + size < 2 ^ 64 ->
    let s := win_start ts size off in
    tumble_debug ts size off = Ok (s, s + size)
    /\ s <= ts < s + size
    /\ (s + size) - s = size
    /\ (s - off) mod size = 0
    /\ (exists j : Z, s = off + j * size)
    /\ 0 <= s.
Proof. exact tumble_spec. Qed.

Example c13_tumble_spec_ex :   (* ts below the offset, negative multiple: [15,25) = 25 - 1*10 *)
  1 <= 10 /\ 25 mod 10 <= 17 /\ win_start 17 10 25 + 10 < 2 ^ 64
  /\ tumble_debug 17 10 25 = Ok (15, 25).
Proof. vm_compute. repeat split; congruence. Qed.

(* ---- "exactly one window": any window with the three properties is that one ---- *)
Theorem c13_tumble_unique :
  forall ts size off s e : Z,
    1 <= size -> e - s = size -> (s - off) mod size = 0 -> s <= ts < e ->
    (s, e) = (win_start ts size off, win_start ts size off + size).
Proof. exact tumble_unique. Qed.

Example c13_tumble_unique_ex :
  1 <= 10 /\ 35 - 25 = 10 /\ (25 - 5) mod 10 = 0 /\ 25 <= 27 < 35
  /\ (win_start 27 10 5, win_start 27 10 5 + 10) = (25, 35).
Proof. vm_compute. repeat split; congruence. Qed.

(* ---- windows partition event time ---- *)
Theorem c13_same_window_iff :
  forall size off t1 t2 : Z,
    1 <= size ->
    (win_start t1 size off = win_start t2 size off <->
     win_start t1 size off <= t2 < win_start t1 size off + size).
Proof. exact same_window_iff. Qed.

Example c13_same_window_ex : win_start 25 10 5 = win_start 34 10 5 /\ win_start 24 10 5 <> win_start 25 10 5.
Proof. vm_compute. split; congruence. Qed.

(* ---- the model panics exactly on size <= 0 and on the known class ---- *)
Theorem c13_tumble_panics_iff :
  forall ts size off : Z,
    tumble_debug ts size off = Panic <-> (size <= 0 \/ unrepresentable ts size off = true).
Proof. exact tumble_panics_iff. Qed.

Example c13_tumble_panics_ex :
  unrepresentable 3 10 5 = true /\ unrepresentable (2 ^ 64 - 1) 10 0 = true
  /\ unrepresentable 17 10 25 = false.
Proof. vm_compute. repeat split. Qed.

(* ---- the open known-finding class: no u64 window exists there ---- *)
Theorem c13_unrepresentable :
  forall ts size off : Z,
    1 <= size -> ts < off mod size ->
    (forall s e : Z, 0 <= s -> is_window_of ts size off (s, e) = true -> False)
    /\ tumble_debug ts size off = Panic.
Proof. exact unrepresentable_low. Qed.

Theorem c13_unrepresentable_high :
  forall ts size off : Z,
    1 <= size -> 2 ^ 64 <= win_start ts size off + size ->
    (forall s e : Z, e < 2 ^ 64 -> is_window_of ts size off (s, e) = true -> False)
    /\ tumble_debug ts size off = Panic.
Proof. exact unrepresentable_high. Qed.

Example c13_unrepresentable_ex :
  1 <= 10 /\ 3 < 5 mod 10 /\ 2 ^ 64 <= win_start (2 ^ 64 - 1) 10 0 + 10
  /\ is_window_of 3 10 5 (-5, 5) = true.
Proof. vm_compute. repeat split; congruence. Qed.

(* the model really fails on the registered witness; an optimised build returns a wrong window *)
Theorem c13_tumble_refuted :
  tumble_debug 3 10 5 = Panic
  /\ exists w, tumble_release 3 10 5 = Ok w /\ is_window_of 3 10 5 w = false.
Proof. split; [vm_compute; reflexivity|]. eexists. split; vm_compute; reflexivity. Qed.

(* the class decided by the correspondence check is the class of the theorems *)
Theorem c13_known_class_is_unrepresentable :
  forall ts size off : Z,
    Corr.C13.known_class ts size off = unrepresentable ts size off.
Proof. exact known_class_eq. Qed.

(* ---- an optimised (wrapping) build returns the same window wherever the checked one does ---- *)
Theorem c13_release_agrees :
  forall (ts size off : Z) (w : Z * Z),
    tumble_debug ts size off = Ok w -> tumble_release ts size off = Ok w.
Proof. exact tumble_release_agrees. Qed.

Example c13_release_agrees_ex : tumble_debug 17 10 25 = Ok (15, 25) /\ tumble_release 17 10 25 = Ok (15, 25).
Proof. vm_compute. split; reflexivity. Qed.

(* ---- grouping: every element in exactly the group of its window; nothing lost or duplicated.
   `exact_grouping eqb groups tagged` = keys of `groups` are unique, flatten groups is a
   permutation of `tagged`, the key set is the set of windows that occur, and every group is
   exactly (all of, in input order) the values tagged with its key, hence non-empty.
   `ps` is any list of partitions: [data] for collect_seq, the runner's split for collect_par. ---- *)
Theorem c13_group_by_window_exact :
  forall (V : Type) (size off : Z) (ps : list (list (Z * V))),
    1 <= size ->
    (forall ev, In ev (concat ps) -> unrepresentable (fst ev) size off = false) ->
    exists groups,
      group_by_window tumble_debug size off ps = Ok groups
      /\ NoDup (map fst groups)
      /\ Permutation (flatten groups) (map (spec_tag_unkeyed size off) (concat ps))
      /\ (forall w, In w (map fst groups)
                    <-> In w (map fst (map (spec_tag_unkeyed size off) (concat ps))))
      /\ (forall w, lookup window_eqb w groups
                    = values_of window_eqb w (map (spec_tag_unkeyed size off) (concat ps)))
      /\ (forall w vs, In (w, vs) groups ->
                       vs = values_of window_eqb w (map (spec_tag_unkeyed size off) (concat ps))
                       /\ vs <> []).
Proof. exact group_by_window_exact. Qed.

Theorem c13_group_by_key_and_window_exact :
  forall (K V : Type) (keqb : K -> K -> bool),
    (forall x y, reflect (x = y) (keqb x y)) ->
    forall (size off : Z) (ps : list (list (K * (Z * V)))),
      1 <= size ->
      (forall kv, In kv (concat ps) -> unrepresentable (fst (snd kv)) size off = false) ->
      exists groups,
        group_by_key_and_window keqb tumble_debug size off ps = Ok groups
        /\ NoDup (map fst groups)
        /\ Permutation (flatten groups) (map (spec_tag_keyed size off) (concat ps))
        /\ (forall kw, In kw (map fst groups)
                       <-> In kw (map fst (map (spec_tag_keyed size off) (concat ps))))
        /\ (forall kw, lookup (kw_eqb keqb) kw groups
                       = values_of (kw_eqb keqb) kw (map (spec_tag_keyed size off) (concat ps)))
        /\ (forall kw vs, In (kw, vs) groups ->
                          vs = values_of (kw_eqb keqb) kw (map (spec_tag_keyed size off) (concat ps))
                          /\ vs <> []).
Proof. exact group_by_key_and_window_exact. Qed.

Example c13_group_ex :   (* 3 windows, 2 partitions, a window spanning the partition boundary *)
  group_by_window tumble_debug 10 25 [[(17, 1); (5, 2)]; [(22, 3); (25, 4)]]
  = Ok [((15, 25), [1; 3]); ((5, 15), [2]); ((25, 35), [4])]
  /\ forallb (fun ev => negb (unrepresentable (fst ev) 10 25)) [(17, 1); (5, 2); (22, 3); (25, 4)] = true.
Proof. vm_compute. split; reflexivity. Qed.

Example c13_group_keyed_ex :
  group_by_key_and_window Z.eqb tumble_debug 10 5 [[(1, (7, 10)); (2, (8, 20))]; [(1, (14, 30)); (1, (15, 40))]]
  = Ok [((1, (5, 15)), [10; 30]); ((2, (5, 15)), [20]); ((1, (15, 25)), [40])].
Proof. vm_compute. reflexivity. Qed.

(* key_by_window alone: element-wise, order kept *)
Theorem c13_key_by_window_exact :
  forall (V : Type) (size off : Z) (ps : list (list (Z * V))),
    1 <= size ->
    (forall ev, In ev (concat ps) -> unrepresentable (fst ev) size off = false) ->
    key_by_window_unkeyed tumble_debug size off ps = Ok (map (map (spec_tag_unkeyed size off)) ps).
Proof. exact key_by_window_exact. Qed.

Theorem c13_key_by_window_keyed_exact :
  forall (K V : Type) (size off : Z) (ps : list (list (K * (Z * V)))),
    1 <= size ->
    (forall kv, In kv (concat ps) -> unrepresentable (fst (snd kv)) size off = false) ->
    key_by_window_keyed tumble_debug size off ps = Ok (map (map (spec_tag_keyed size off)) ps).
Proof. exact key_by_window_keyed_exact. Qed.

(* a run that contains one event of the known class (or size 0) panics as a whole *)
Theorem c13_group_by_window_panics :
  forall (V : Type) (size off : Z) (ps : list (list (Z * V))) (ev : Z * V),
    In ev (concat ps) -> (size <= 0 \/ unrepresentable (fst ev) size off = true) ->
    group_by_window tumble_debug size off ps = Panic.
Proof. exact group_by_window_panics. Qed.

Theorem c13_group_by_key_and_window_panics :
  forall (K V : Type) (keqb : K -> K -> bool) (size off : Z)
         (ps : list (list (K * (Z * V)))) (kv : K * (Z * V)),
    In kv (concat ps) -> (size <= 0 \/ unrepresentable (fst (snd kv)) size off = true) ->
    group_by_key_and_window keqb tumble_debug size off ps = Panic.
Proof. exact group_by_key_and_window_panics. Qed.

Example c13_group_panics_ex :
  group_by_window tumble_debug 10 5 [[(30, 1)]; [(3, 2)]] = Panic.
Proof. vm_compute. reflexivity. Qed.

(* both execution modes: every group is the same list whatever the partitioning *)
Theorem c13_grouping_mode_independent :
  forall (K V : Type) (keqb : K -> K -> bool),
    (forall x y, reflect (x = y) (keqb x y)) ->
    forall (data : list (K * V)) (ps : list (list (K * V))),
      concat ps = data ->
      forall k, lookup keqb k (gbk keqb ps) = lookup keqb k (gbk keqb [data]).
Proof. exact gbk_mode_independent. Qed.

(* ---- Window's Eq / Hash / Ord agree on (start, end).  In the model a Window IS the pair
   (start, end), so "equal iff same (start,end)" is true by construction of the model; what is
   proved is that the transcribed `==` (window_eqb), `cmp` (window_cmp: start, then end),
   `partial_cmp` and the words fed to the hasher (window_hash_feed) all decide exactly pair
   equality.  That the real impls behave like these definitions is what the "weq"/"weqrow"
   correspondence cases check (exhaustive over small windows + u64 extremes). ---- *)
Theorem c13_window_eq_iff_pair :
  forall a b : window, window_eqb a b = true <-> a = b.
Proof. exact window_eq_iff_pair. Qed.

Theorem c13_window_eq_hash_ord_consistent :
  forall a b : window,
    (window_eqb a b = true <-> a = b)
    /\ (window_cmp a b = Eq <-> a = b)
    /\ window_partial_cmp a b = Some (window_cmp a b)
    /\ (window_hash_feed a = window_hash_feed b <-> a = b)
    /\ window_cmp b a = CompOpp (window_cmp a b).
Proof. exact window_consistent. Qed.

Example c13_window_eq_ex :   (* same start, different end: different keys, ordered by end *)
  window_eqb (0, 2) (0, 4) = false /\ window_cmp (0, 2) (0, 4) = Lt /\ window_cmp (0, 4) (2, 4) = Lt
  /\ window_hash_feed (0, 2) <> window_hash_feed (0, 4).
Proof. vm_compute. repeat split; congruence. Qed.

(* ---- two window sizes meeting in ONE group_by_key (multi-resolution windowing): windows
   that share a start or an end but differ in length stay distinct groups; nothing lost ---- *)
Theorem c13_group_by_mixed_window_exact :
  forall (V : Type) (s1 s2 off : Z) (ps : list (list (Z * (Z * V)))),
    1 <= s1 -> 1 <= s2 ->
    (forall e, In e (concat ps) ->
               unrepresentable (fst (snd e)) (if fst e =? 0 then s1 else s2) off = false) ->
    exists groups,
      group_by_mixed_window tumble_debug s1 s2 off ps = Ok groups
      /\ NoDup (map fst groups)
      /\ Permutation (flatten groups) (map (spec_tag_mixed s1 s2 off) (concat ps))
      /\ (forall w, In w (map fst groups)
                    <-> In w (map fst (map (spec_tag_mixed s1 s2 off) (concat ps))))
      /\ (forall w, lookup window_eqb w groups
                    = values_of window_eqb w (map (spec_tag_mixed s1 s2 off) (concat ps)))
      /\ (forall w vs, In (w, vs) groups ->
                       vs = values_of window_eqb w (map (spec_tag_mixed s1 s2 off) (concat ps))
                       /\ vs <> []).
Proof. exact group_by_mixed_window_exact. Qed.

Example c13_group_mixed_ex :   (* [0,2) and [0,4), [4,6) and [4,8) stay apart, 2 partitions *)
  group_by_mixed_window tumble_debug 2 4 0 [[(0, (1, 1)); (1, (1, 2)); (0, (3, 3))]; [(1, (3, 4)); (1, (5, 5)); (0, (5, 6))]]
  = Ok [((0, 2), [1]); ((0, 4), [2; 4]); ((2, 4), [3]); ((4, 8), [5]); ((4, 6), [6])].
Proof. vm_compute. reflexivity. Qed.
