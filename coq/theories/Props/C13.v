(* C13: tumbling windows partition event time; window grouping loses nothing.
   This file holds ONLY the property theorems (each closed by `exact`) and their non-vacuity
   examples.  Model: Window/Tumble.v (Window::tumble over Z with explicit u64 semantics, debug
   and release profile) and Window/Grouping.v (key_by_window / group_by_window /
   group_by_key_and_window over an arbitrary list of partitions).
   `win_start ts size off = ts - (ts - off) mod size` is the mathematically correct start. *)
From Coq Require Import List ZArith Bool Permutation.
From IB Require Import Window.Tumble Window.Grouping Window.Timestamped Window.Join Window.Collect
     Proofs.WindowTumbleProofs Proofs.WindowGroupingProofs Proofs.WindowCorrProofs
     Proofs.WindowTimestampedProofs Proofs.WindowJoinProofs Proofs.WindowCollectProofs.
From Coq Require Import Sorted.
From IB Require Corr.C13.
Import ListNotations.
Open Scope Z_scope.

(* ---- every representable timestamp gets the window of the specification ---- *)
Theorem c13_tumble_spec :
  forall ts size off : Z,
    1 <= size -> off mod size <= ts -> win_start ts size off + size < 2 ^ 64 ->
    let s := win_start ts size off in
    tumble_debug ts size off = Ok (s, s + size)
    /\ s <= ts < s + size
    /\ (s + size) - s = size
    /\ (s - off) mod size = 0
    /\ (exists j : Z, s = off + j * size)
    /\ 0 <= s.
Proof. exact tumble_spec. Qed.

Example c13_tumble_spec_ex :   (* ts below the offset, negative multiple: [15,25) = 25 - 1*10 *)
  1 <= 10 /\ 25 mod 10 <= 17 /\ win_start 17 10 25 + 10 < 2 ^ 64
  /\ tumble_debug 17 10 25 = Ok (15, 25).
Proof. vm_compute. repeat split; congruence. Qed.

(* ---- "exactly one window": any window with the three properties is that one ---- *)
Theorem c13_tumble_unique :
  forall ts size off s e : Z,
    1 <= size -> e - s = size -> (s - off) mod size = 0 -> s <= ts < e ->
    (s, e) = (win_start ts size off, win_start ts size off + size).
Proof. exact tumble_unique. Qed.

Example c13_tumble_unique_ex :
  1 <= 10 /\ 35 - 25 = 10 /\ (25 - 5) mod 10 = 0 /\ 25 <= 27 < 35
  /\ (win_start 27 10 5, win_start 27 10 5 + 10) = (25, 35).
Proof. vm_compute. repeat split; congruence. Qed.

(* ---- windows partition event time ---- *)
Theorem c13_same_window_iff :
  forall size off t1 t2 : Z,
    1 <= size ->
    (win_start t1 size off = win_start t2 size off <->
     win_start t1 size off <= t2 < win_start t1 size off + size).
Proof. exact same_window_iff. Qed.

Example c13_same_window_ex : win_start 25 10 5 = win_start 34 10 5 /\ win_start 24 10 5 <> win_start 25 10 5.
Proof. vm_compute. split; congruence. Qed.

(* ---- the model panics exactly on size <= 0 and on the known class ---- *)
Theorem c13_tumble_panics_iff :
  forall ts size off : Z,
    tumble_debug ts size off = Panic <-> (size <= 0 \/ unrepresentable ts size off = true).
Proof. exact tumble_panics_iff. Qed.

Example c13_tumble_panics_ex :
  unrepresentable 3 10 5 = true /\ unrepresentable (2 ^ 64 - 1) 10 0 = true
  /\ unrepresentable 17 10 25 = false.
Proof. vm_compute. repeat split. Qed.

(* ---- the open known-finding class: no u64 window exists there ---- *)
Theorem c13_unrepresentable :
  forall ts size off : Z,
    1 <= size -> ts < off mod size ->
    (forall s e : Z, 0 <= s -> is_window_of ts size off (s, e) = true -> False)
    /\ tumble_debug ts size off = Panic.
Proof. exact unrepresentable_low. Qed.

Theorem c13_unrepresentable_high :
  forall ts size off : Z,
    1 <= size -> 2 ^ 64 <= win_start ts size off + size ->
    (forall s e : Z, e < 2 ^ 64 -> is_window_of ts size off (s, e) = true -> False)
    /\ tumble_debug ts size off = Panic.
Proof. exact unrepresentable_high. Qed.

Example c13_unrepresentable_ex :
  1 <= 10 /\ 3 < 5 mod 10 /\ 2 ^ 64 <= win_start (2 ^ 64 - 1) 10 0 + 10
  /\ is_window_of 3 10 5 (-5, 5) = true.
Proof. vm_compute. repeat split; congruence. Qed.

(* the model really fails on the registered witness; an optimised build returns a wrong window *)
Theorem c13_tumble_refuted :
  tumble_debug 3 10 5 = Panic
  /\ exists w, tumble_release 3 10 5 = Ok w /\ is_window_of 3 10 5 w = false.
Proof. split; [vm_compute; reflexivity|]. eexists. split; vm_compute; reflexivity. Qed.

(* the class decided by the correspondence check is the class of the theorems *)
Theorem c13_known_class_is_unrepresentable :
  forall ts size off : Z,
    Corr.C13.known_class ts size off = unrepresentable ts size off.
Proof. exact known_class_eq. Qed.

(* ---- an optimised (wrapping) build returns the same window wherever the checked one does ---- *)
Theorem c13_release_agrees :
  forall (ts size off : Z) (w : Z * Z),
    tumble_debug ts size off = Ok w -> tumble_release ts size off = Ok w.
Proof. exact tumble_release_agrees. Qed.

Example c13_release_agrees_ex : tumble_debug 17 10 25 = Ok (15, 25) /\ tumble_release 17 10 25 = Ok (15, 25).
Proof. vm_compute. split; reflexivity. Qed.

(* ---- grouping: every element in exactly the group of its window; nothing lost or duplicated.
   `exact_grouping eqb groups tagged` = keys of `groups` are unique, flatten groups is a
   permutation of `tagged`, the key set is the set of windows that occur, and every group is
   exactly (all of, in input order) the values tagged with its key, hence non-empty.
   `ps` is any list of partitions: [data] for collect_seq, the runner's split for collect_par. ---- *)
Theorem c13_group_by_window_exact :
  forall (V : Type) (size off : Z) (ps : list (list (Z * V))),
    1 <= size ->
    (forall ev, In ev (concat ps) -> unrepresentable (fst ev) size off = false) ->
    exists groups,
      group_by_window tumble_debug size off ps = Ok groups
      /\ NoDup (map fst groups)
      /\ Permutation (flatten groups) (map (spec_tag_unkeyed size off) (concat ps))
      /\ (forall w, In w (map fst groups)
                    <-> In w (map fst (map (spec_tag_unkeyed size off) (concat ps))))
      /\ (forall w, lookup window_eqb w groups
                    = values_of window_eqb w (map (spec_tag_unkeyed size off) (concat ps)))
      /\ (forall w vs, In (w, vs) groups ->
                       vs = values_of window_eqb w (map (spec_tag_unkeyed size off) (concat ps))
                       /\ vs <> []).
Proof. exact group_by_window_exact. Qed.

Theorem c13_group_by_key_and_window_exact :
  forall (K V : Type) (keqb : K -> K -> bool),
    (forall x y, reflect (x = y) (keqb x y)) ->
    forall (size off : Z) (ps : list (list (K * (Z * V)))),
      1 <= size ->
      (forall kv, In kv (concat ps) -> unrepresentable (fst (snd kv)) size off = false) ->
      exists groups,
        group_by_key_and_window keqb tumble_debug size off ps = Ok groups
        /\ NoDup (map fst groups)
        /\ Permutation (flatten groups) (map (spec_tag_keyed size off) (concat ps))
        /\ (forall kw, In kw (map fst groups)
                       <-> In kw (map fst (map (spec_tag_keyed size off) (concat ps))))
        /\ (forall kw, lookup (kw_eqb keqb) kw groups
                       = values_of (kw_eqb keqb) kw (map (spec_tag_keyed size off) (concat ps)))
        /\ (forall kw vs, In (kw, vs) groups ->
                          vs = values_of (kw_eqb keqb) kw (map (spec_tag_keyed size off) (concat ps))
                          /\ vs <> []).
Proof. exact group_by_key_and_window_exact. Qed.

Example c13_group_ex :   (* 3 windows, 2 partitions, a window spanning the partition boundary *)
  group_by_window tumble_debug 10 25 [[(17, 1); (5, 2)]; [(22, 3); (25, 4)]]
  = Ok [((15, 25), [1; 3]); ((5, 15), [2]); ((25, 35), [4])]
  /\ forallb (fun ev => negb (unrepresentable (fst ev) 10 25)) [(17, 1); (5, 2); (22, 3); (25, 4)] = true.
Proof. vm_compute. split; reflexivity. Qed.

Example c13_group_keyed_ex :
  group_by_key_and_window Z.eqb tumble_debug 10 5 [[(1, (7, 10)); (2, (8, 20))]; [(1, (14, 30)); (1, (15, 40))]]
  = Ok [((1, (5, 15)), [10; 30]); ((2, (5, 15)), [20]); ((1, (15, 25)), [40])].
Proof. vm_compute. reflexivity. Qed.

(* key_by_window alone: element-wise, order kept *)
Theorem c13_key_by_window_exact :
  forall (V : Type) (size off : Z) (ps : list (list (Z * V))),
    1 <= size ->
    (forall ev, In ev (concat ps) -> unrepresentable (fst ev) size off = false) ->
    key_by_window_unkeyed tumble_debug size off ps = Ok (map (map (spec_tag_unkeyed size off)) ps).
Proof. exact key_by_window_exact. Qed.

Theorem c13_key_by_window_keyed_exact :
  forall (K V : Type) (size off : Z) (ps : list (list (K * (Z * V)))),
    1 <= size ->
    (forall kv, In kv (concat ps) -> unrepresentable (fst (snd kv)) size off = false) ->
    key_by_window_keyed tumble_debug size off ps = Ok (map (map (spec_tag_keyed size off)) ps).
Proof. exact key_by_window_keyed_exact. Qed.

(* a run that contains one event of the known class (or size 0) panics as a whole *)
Theorem c13_group_by_window_panics :
  forall (V : Type) (size off : Z) (ps : list (list (Z * V))) (ev : Z * V),
    In ev (concat ps) -> (size <= 0 \/ unrepresentable (fst ev) size off = true) ->
    group_by_window tumble_debug size off ps = Panic.
Proof. exact group_by_window_panics. Qed.

Theorem c13_group_by_key_and_window_panics :
  forall (K V : Type) (keqb : K -> K -> bool) (size off : Z)
         (ps : list (list (K * (Z * V)))) (kv : K * (Z * V)),
    In kv (concat ps) -> (size <= 0 \/ unrepresentable (fst (snd kv)) size off = true) ->
    group_by_key_and_window keqb tumble_debug size off ps = Panic.
Proof. exact group_by_key_and_window_panics. Qed.

Example c13_group_panics_ex :
  group_by_window tumble_debug 10 5 [[(30, 1)]; [(3, 2)]] = Panic.
Proof. vm_compute. reflexivity. Qed.

(* both execution modes: every group is the same list whatever the partitioning *)
Theorem c13_grouping_mode_independent :
  forall (K V : Type) (keqb : K -> K -> bool),
    (forall x y, reflect (x = y) (keqb x y)) ->
    forall (data : list (K * V)) (ps : list (list (K * V))),
      concat ps = data ->
      forall k, lookup keqb k (gbk keqb ps) = lookup keqb k (gbk keqb [data]).
Proof. exact gbk_mode_independent. Qed.

(* ---- Window's Eq / Hash / Ord agree on (start, end).  In the model a Window IS the pair
   (start, end), so "equal iff same (start,end)" is true by construction of the model; what is
   proved is that the transcribed `==` (window_eqb), `cmp` (window_cmp: start, then end),
   `partial_cmp` and the words fed to the hasher (window_hash_feed) all decide exactly pair
   equality.  That the real impls behave like these definitions is what the "weq"/"weqrow"
   correspondence cases check (exhaustive over small windows + u64 extremes). ---- *)
Theorem c13_window_eq_iff_pair :
  forall a b : window, window_eqb a b = true <-> a = b.
Proof. exact window_eq_iff_pair. Qed.

Theorem c13_window_eq_hash_ord_consistent :
  forall a b : window,
    (window_eqb a b = true <-> a = b)
    /\ (window_cmp a b = Eq <-> a = b)
    /\ window_partial_cmp a b = Some (window_cmp a b)
    /\ (window_hash_feed a = window_hash_feed b <-> a = b)
    /\ window_cmp b a = CompOpp (window_cmp a b).
Proof. exact window_consistent. Qed.

Example c13_window_eq_ex :   (* same start, different end: different keys, ordered by end *)
  window_eqb (0, 2) (0, 4) = false /\ window_cmp (0, 2) (0, 4) = Lt /\ window_cmp (0, 4) (2, 4) = Lt
  /\ window_hash_feed (0, 2) <> window_hash_feed (0, 4).
Proof. vm_compute. repeat split; congruence. Qed.

(* ---- two window sizes meeting in ONE group_by_key (multi-resolution windowing): windows
   that share a start or an end but differ in length stay distinct groups; nothing lost ---- *)
Theorem c13_group_by_mixed_window_exact :
  forall (V : Type) (s1 s2 off : Z) (ps : list (list (Z * (Z * V)))),
    1 <= s1 -> 1 <= s2 ->
    (forall e, In e (concat ps) ->
               unrepresentable (fst (snd e)) (if fst e =? 0 then s1 else s2) off = false) ->
    exists groups,
      group_by_mixed_window tumble_debug s1 s2 off ps = Ok groups
      /\ NoDup (map fst groups)
      /\ Permutation (flatten groups) (map (spec_tag_mixed s1 s2 off) (concat ps))
      /\ (forall w, In w (map fst groups)
                    <-> In w (map fst (map (spec_tag_mixed s1 s2 off) (concat ps))))
      /\ (forall w, lookup window_eqb w groups
                    = values_of window_eqb w (map (spec_tag_mixed s1 s2 off) (concat ps)))
      /\ (forall w vs, In (w, vs) groups ->
                       vs = values_of window_eqb w (map (spec_tag_mixed s1 s2 off) (concat ps))
                       /\ vs <> []).
Proof. exact group_by_mixed_window_exact. Qed.

Example c13_group_mixed_ex :   (* [0,2) and [0,4), [4,6) and [4,8) stay apart, 2 partitions *)
  group_by_mixed_window tumble_debug 2 4 0 [[(0, (1, 1)); (1, (1, 2)); (0, (3, 3))]; [(1, (3, 4)); (1, (5, 5)); (0, (5, 6))]]
  = Ok [((0, 2), [1]); ((0, 4), [2; 4]); ((2, 4), [3]); ((4, 8), [5]); ((4, 6), [6])].
Proof. vm_compute. reflexivity. Qed.

(* =====================================================================================
   Entry points of helpers/timestamped.rs, Window::new                (Window/Timestamped.v)
   ===================================================================================== *)

(* ---- Window::new: a window iff end >= start in a debug build (the debug_assert), always in release ---- *)
Theorem c13_window_new_spec :
  forall s e : Z,
    (window_new_debug s e = Ok (s, e) <-> s <= e)
    /\ (window_new_debug s e = Panic <-> e < s)
    /\ window_new_release s e = Ok (s, e).
Proof. exact window_new_spec. Qed.

Example c13_window_new_ex :
  window_new_debug 3 (2 ^ 64 - 1) = Ok (3, 2 ^ 64 - 1) /\ window_new_debug 5 5 = Ok (5, 5)
  /\ window_new_debug 5 4 = Panic.
Proof. vm_compute. repeat split. Qed.

(* ---- every window Window::tumble returns is non-empty, fits u64 and passes Window::new ---- *)
Theorem c13_tumble_window_valid :
  forall (ts size off : Z) (w : window),
    tumble_debug ts size off = Ok w ->
    fst w < snd w /\ 0 <= fst w /\ snd w < 2 ^ 64 /\ window_new_debug (fst w) (snd w) = Ok w.
Proof. exact tumble_window_valid. Qed.

Example c13_tumble_window_valid_ex : tumble_debug (2 ^ 63 + 7) 1000 250 = Ok (9223372036854775250, 9223372036854776250).
Proof. vm_compute. reflexivity. Qed.

(* ---- attach_timestamps / to_timestamped are element-wise: every element kept once, in order, with
   exactly the timestamp ts_fn gives (no clamping, no filtering: 0 and values >= 2^63 included), and
   they commute with the partitioning of the source ---- *)
Theorem c13_entry_points_exact :
  forall (T : Type) (f : T -> Z) (p : list T) (q : list (Z * T)) (ps : list (list T)),
    (map snd (attach_timestamps f p) = p /\ map fst (attach_timestamps f p) = map f p
     /\ length (attach_timestamps f p) = length p)
    /\ to_timestamped q = q
    /\ concat (map (attach_timestamps f) ps) = attach_timestamps f (concat ps).
Proof. exact entry_points_exact. Qed.

Example c13_entry_points_ex :
  attach_timestamps (fun v => 2 ^ 63 + v) [0; 5] = [(2 ^ 63, 0); (2 ^ 63 + 5, 5)]
  /\ to_timestamped [(0, 7); (2 ^ 64 - 1, 8)] = [(0, 7); (2 ^ 64 - 1, 8)].
Proof. vm_compute. split; reflexivity. Qed.

(* ---- src.attach_timestamps(f).group_by_window(size, off): every element in exactly the group of the
   window of f(element), for every partitioning (`exact_grouping` is the five-fold statement spelled
   out in c13_group_by_window_exact: unique keys, flatten = permutation of the tagged input, key set =
   occurring windows, every group = all values of its window in input order, non-empty) ---- *)
Theorem c13_attach_group_by_window_exact :
  forall (T : Type) (f : T -> Z) (size off : Z) (ps : list (list T)),
    1 <= size ->
    (forall t, In t (concat ps) -> unrepresentable (f t) size off = false) ->
    exists groups,
      attach_group_by_window tumble_debug f size off ps = Ok groups
      /\ exact_grouping window_eqb groups (map (spec_tag_attached f size off) (concat ps)).
Proof. exact attach_group_by_window_exact. Qed.

Example c13_attach_group_ex :   (* timestamps above i64::MAX, late event, 2 partitions *)
  attach_group_by_window tumble_debug (fun v => 2 ^ 63 + v) 10 0 [[12; 3]; [8; 15]]
  = Ok [((9223372036854775820, 9223372036854775830), [12; 15]);
        ((9223372036854775810, 9223372036854775820), [3; 8])]
  /\ forallb (fun v => negb (unrepresentable (2 ^ 63 + v) 10 0)) [12; 3; 8; 15] = true.
Proof. vm_compute. split; reflexivity. Qed.

Theorem c13_to_timestamped_group_by_window_exact :
  forall (T : Type) (size off : Z) (ps : list (list (Z * T))),
    1 <= size ->
    (forall ev, In ev (concat ps) -> unrepresentable (fst ev) size off = false) ->
    exists groups,
      to_timestamped_group_by_window tumble_debug size off ps = Ok groups
      /\ exact_grouping window_eqb groups (map (spec_tag_unkeyed size off) (concat ps)).
Proof. exact to_timestamped_group_by_window_exact. Qed.

Example c13_to_timestamped_group_ex :   (* the event at the epoch is kept *)
  to_timestamped_group_by_window tumble_debug 10 0 [[(12, 1); (0, 2)]; [(9, 3)]]
  = Ok [((10, 20), [1]); ((0, 10), [2; 3])].
Proof. vm_compute. reflexivity. Qed.

(* ---- src.attach_timestamps(f).key_by(kf).group_by_key_and_window(size, off) ---- *)
Theorem c13_attach_key_group_exact :
  forall (T K : Type) (keqb : K -> K -> bool),
    (forall x y, reflect (x = y) (keqb x y)) ->
    forall (f : T -> Z) (kf : Z * T -> K) (size off : Z) (ps : list (list T)),
      1 <= size ->
      (forall t, In t (concat ps) -> unrepresentable (f t) size off = false) ->
      exists groups,
        attach_key_group keqb tumble_debug f kf size off ps = Ok groups
        /\ exact_grouping (kw_eqb keqb) groups
                          (map (spec_tag_attached_keyed f kf size off) (concat ps)).
Proof. exact attach_key_group_exact. Qed.

Example c13_attach_key_group_ex :
  attach_key_group Z.eqb tumble_debug (fun v => 3 * v) (fun tv => snd tv mod 2) 10 5 [[2; 3]; [4; 5]]
  = Ok [((0, (5, 15)), [2; 4]); ((1, (5, 15)), [3]); ((1, (15, 25)), [5])].
Proof. vm_compute. reflexivity. Qed.

(* one stamped event of the known class (or size 0) panics the run *)
Theorem c13_attach_group_by_window_panics :
  forall (T : Type) (f : T -> Z) (size off : Z) (ps : list (list T)) (t : T),
    In t (concat ps) -> (size <= 0 \/ unrepresentable (f t) size off = true) ->
    attach_group_by_window tumble_debug f size off ps = Panic.
Proof. exact attach_group_by_window_panics. Qed.

Example c13_attach_panics_ex :
  attach_group_by_window tumble_debug (fun v => 2 ^ 64 - 1 - v) 10 0 [[100]; [3]] = Panic.
Proof. vm_compute. reflexivity. Qed.

(* =====================================================================================
   Window groupings feeding joins                                          (Window/Join.v)
   ===================================================================================== *)

(* ---- the hash join of joins.rs computes the nested-loop join, up to the order of the rows:
   `join_spec keqb jk l r` = for every left row its matches (or, for left/full, one (Some, None)
   row), then, for right/full, the right rows whose key the left side does not have ---- *)
Theorem c13_join_is_nested_loop_join :
  forall (K V W : Type) (keqb : K -> K -> bool),
    (forall x y, reflect (x = y) (keqb x y)) ->
    forall (jk : jkind) (l : list (K * V)) (r : list (K * W)),
      Permutation (join_exec keqb jk l r) (join_spec keqb jk l r).
Proof. exact join_exec_spec. Qed.

Theorem c13_join_rows_iff :
  forall (K V W : Type) (keqb : K -> K -> bool),
    (forall x y, reflect (x = y) (keqb x y)) ->
    forall (jk : jkind) (l : list (K * V)) (r : list (K * W)) (k : K),
      (forall v w, In (k, (Some v, Some w)) (join_exec keqb jk l r) <-> In (k, v) l /\ In (k, w) r)
      /\ (forall v, In (k, (Some v, None)) (join_exec keqb jk l r)
                    <-> lefty jk = true /\ In (k, v) l /\ ~ In k (map fst r))
      /\ (forall w, In (k, (None, Some w)) (join_exec keqb jk l r)
                    <-> righty jk = true /\ In (k, w) r /\ ~ In k (map fst l))
      /\ ~ In (k, (None, None)) (join_exec keqb jk l r).
Proof. exact join_rows_iff. Qed.

Example c13_join_ex :   (* [0,10) matches twice, [0,20) (same start) does not match, [30,40) only right *)
  join_exec window_eqb JFull [((0, 10), 1); ((10, 20), 2)] [((0, 10), 7); ((0, 20), 8); ((0, 10), 9)]
  = [((0, 10), (Some 1, Some 7)); ((0, 10), (Some 1, Some 9)); ((10, 20), (Some 2, None));
     ((0, 20), (None, Some 8))].
Proof. vm_compute. reflexivity. Qed.

(* ---- a grouped collection on either side of a join: the joined rows are the same multiset for
   every partitioning of the grouping's source (ps / qs: parallel / sequential run) ---- *)
Theorem c13_window_join_mode_independent :
  forall (K V W : Type) (keqb : K -> K -> bool),
    (forall x y, reflect (x = y) (keqb x y)) ->
    forall (jk : jkind) (ps qs : list (list (K * V))),
      concat ps = concat qs ->
      (forall r : list (K * W),
          Permutation (join_exec keqb jk (gbk keqb ps) r) (join_exec keqb jk (gbk keqb qs) r))
      /\ (forall l : list (K * W),
             Permutation (join_exec keqb jk l (gbk keqb ps)) (join_exec keqb jk l (gbk keqb qs))).
Proof. exact join_mode_independent. Qed.

(* ---- events.group_by_window(size, off).join_<jk>(&table): the run succeeds, its rows are the
   nested-loop join of THE groups with the table, and the left component of every row is the whole
   group of its window (all values of the window in input order) - for every partitioning ---- *)
Theorem c13_window_groups_join_table_exact :
  forall (V W : Type) (jk : jkind) (size off : Z) (ps : list (list (Z * V)))
         (table : list (list (window * W))),
    1 <= size ->
    (forall ev, In ev (concat ps) -> unrepresentable (fst ev) size off = false) ->
    exists groups out,
      group_by_window tumble_debug size off ps = Ok groups
      /\ exact_grouping window_eqb groups (map (spec_tag_unkeyed size off) (concat ps))
      /\ window_groups_join_table jk tumble_debug size off ps table = Ok out
      /\ Permutation out (join_spec window_eqb jk groups (concat table))
      /\ (forall w vs ow, In (w, (Some vs, ow)) out ->
                          vs = values_of window_eqb w (map (spec_tag_unkeyed size off) (concat ps))
                          /\ vs <> []).
Proof. exact window_groups_join_table_exact. Qed.

Theorem c13_table_join_window_groups_exact :
  forall (V W : Type) (jk : jkind) (size off : Z) (table : list (list (window * W)))
         (ps : list (list (Z * V))),
    1 <= size ->
    (forall ev, In ev (concat ps) -> unrepresentable (fst ev) size off = false) ->
    exists groups out,
      group_by_window tumble_debug size off ps = Ok groups
      /\ exact_grouping window_eqb groups (map (spec_tag_unkeyed size off) (concat ps))
      /\ table_join_window_groups jk tumble_debug size off table ps = Ok out
      /\ Permutation out (join_spec window_eqb jk (concat table) groups)
      /\ (forall w ox vs, In (w, (ox, Some vs)) out ->
                          vs = values_of window_eqb w (map (spec_tag_unkeyed size off) (concat ps))
                          /\ vs <> []).
Proof. exact table_join_window_groups_exact. Qed.

Theorem c13_window_groups_join_table_modes :
  forall (V W : Type) (jk : jkind) (size off : Z) (ps : list (list (Z * V)))
         (table : list (list (window * W))),
    1 <= size ->
    (forall ev, In ev (concat ps) -> unrepresentable (fst ev) size off = false) ->
    exists out_par out_seq,
      window_groups_join_table jk tumble_debug size off ps table = Ok out_par
      /\ window_groups_join_table jk tumble_debug size off [concat ps] [concat table] = Ok out_seq
      /\ Permutation out_par out_seq.
Proof. exact window_groups_join_table_modes. Qed.

Example c13_window_join_ex :   (* window [13,23) has events in both partitions: ONE row with the whole group *)
  window_groups_join_table JInner tumble_debug 10 3 [[(14, 1); (5, 2)]; [(20, 3); (40, 4)]]
                           [[((13, 23), 100); ((3, 13), 200)]; [((53, 63), 300)]]
  = Ok [((13, 23), (Some [1; 3], Some 100)); ((3, 13), (Some [2], Some 200))]
  /\ table_join_window_groups JLeft tumble_debug 10 3 [[((13, 23), 100); ((53, 63), 300)]]
                              [[(14, 1); (5, 2)]; [(20, 3); (40, 4)]]
     = Ok [((13, 23), (Some 100, Some [1; 3])); ((53, 63), (Some 300, None))].
Proof. vm_compute. split; reflexivity. Qed.

Theorem c13_window_join_panics :
  forall (V W : Type) (jk : jkind) (size off : Z) (ps : list (list (Z * V)))
         (table : list (list (window * W))) (ev : Z * V),
    In ev (concat ps) -> (size <= 0 \/ unrepresentable (fst ev) size off = true) ->
    window_groups_join_table jk tumble_debug size off ps table = Panic
    /\ table_join_window_groups jk tumble_debug size off table ps = Panic.
Proof. exact window_join_panics. Qed.

Example c13_window_join_panics_ex :
  window_groups_join_table JInner tumble_debug 10 5 [[(30, 1)]; [(3, 2)]] [[((25, 35), 0)]] = Panic.
Proof. vm_compute. reflexivity. Qed.

(* ---- the joins are parametric in the values (joins over per-group digests = digests of joins) ---- *)
Theorem c13_join_map_values :
  forall (K V V' W W' : Type) (keqb : K -> K -> bool) (f : V -> V') (g : W -> W')
         (jk : jkind) (l : list (K * V)) (r : list (K * W)),
    join_exec keqb jk (map_values K f l) (map_values K g r)
    = map (map_row K V V' W W' f g) (join_exec keqb jk l r).
Proof. exact join_exec_map_values. Qed.

(* =====================================================================================
   Sorting collectors and digests                                         (Window/Collect.v)
   ===================================================================================== *)

(* ---- Window::cmp (start, then end) and the derived (K, Window) order are total orders:
   cmp = Eq iff equal, antisymmetric, transitive ---- *)
Theorem c13_window_orders_are_total :
  good_cmp window_cmp
  /\ (forall (K : Type) (kcmp : K -> K -> comparison), good_cmp kcmp -> good_cmp (kw_cmp kcmp)).
Proof. exact (conj good_cmp_window good_cmp_kw). Qed.

(* ---- collect_par_sorted_by_key: a permutation of the rows, sorted by key, stable ---- *)
Theorem c13_sorted_collect_spec :
  forall (K X : Type) (kcmp : K -> K -> comparison) (rows : list (K * X)),
    order_cmp kcmp ->
    Permutation (collect_sorted_by_key kcmp rows) rows
    /\ StronglySorted (fun a b => le_of kcmp (fst a) (fst b) = true) (collect_sorted_by_key kcmp rows)
    /\ (forall k, good_cmp kcmp ->
                  filter (fun a => match kcmp k (fst a) with Eq => true | _ => false end)
                         (collect_sorted_by_key kcmp rows)
                  = filter (fun a => match kcmp k (fst a) with Eq => true | _ => false end) rows).
Proof. exact collect_sorted_spec. Qed.

(* ---- a grouped collection through a sorting collector: the SAME list in both modes, whatever the
   order the HashMap gave and however the source was partitioned ---- *)
Theorem c13_sorted_collect_mode_independent :
  forall (K V : Type) (keqb : K -> K -> bool) (kcmp : K -> K -> comparison),
    (forall x y, reflect (x = y) (keqb x y)) -> good_cmp kcmp ->
    forall ps qs : list (list (K * V)),
      concat ps = concat qs ->
      collect_sorted_by_key kcmp (gbk keqb ps) = collect_sorted_by_key kcmp (gbk keqb qs).
Proof. exact sorted_collect_mode_independent. Qed.

Example c13_sorted_collect_ex :   (* same start: ordered by end; equal keys keep their input order *)
  collect_sorted_by_key window_cmp [((4, 8), 1); ((0, 4), 2); ((4, 6), 3); ((0, 4), 4)]
  = [((0, 4), 2); ((0, 4), 4); ((4, 6), 3); ((4, 8), 1)]
  /\ collect_sorted_by_key window_cmp (gbk window_eqb [[((4, 8), 1); ((0, 4), 2)]; [((4, 6), 3); ((0, 4), 4)]])
     = collect_sorted_by_key window_cmp (gbk window_eqb [[((4, 8), 1); ((0, 4), 2); ((4, 6), 3); ((0, 4), 4)]]).
Proof. vm_compute. split; reflexivity. Qed.

(* ---- the one-pass digest table used for big event sets is the table of (len, sum, first, last)
   of the model's groups, for every partitioning ---- *)
Theorem c13_digest_table_correct :
  forall (K : Type) (keqb : K -> K -> bool),
    (forall x y, reflect (x = y) (keqb x y)) ->
    forall ps : list (list (K * Z)),
      Permutation (digests_of (gbk keqb ps)) (digest_table keqb (concat ps))
      /\ (forall k d, In (k, d) (digest_table keqb (concat ps)) ->
                      d = digest (values_of keqb k (concat ps)) /\ values_of keqb k (concat ps) <> []).
Proof. exact digest_table_correct. Qed.

Theorem c13_digest_spec :
  forall (v : Z) (vs : list Z),
    digest (v :: vs)
    = (Z.of_nat (length (v :: vs)), fold_right Z.add 0 (v :: vs), hd 0 (v :: vs), last (v :: vs) 0).
Proof. exact digest_spec. Qed.

Example c13_digest_ex :
  digest_table window_eqb [((0, 4), 5); ((4, 8), 1); ((0, 4), 7); ((0, 4), 2)]
  = [((0, 4), (3, 14, 5, 2)); ((4, 8), (1, 1, 1, 1))].
Proof. vm_compute. reflexivity. Qed.

(* ---- keyed: events.group_by_key_and_window(..).join_<kind>(table keyed by (K, Window)) ---- *)
Theorem c13_key_window_groups_join_table_exact :
  forall (K V W : Type) (keqb : K -> K -> bool),
    (forall x y, reflect (x = y) (keqb x y)) ->
    forall (jk : jkind) (size off : Z) (ps : list (list (K * (Z * V))))
           (table : list (list ((K * window) * W))),
      1 <= size ->
      (forall kv, In kv (concat ps) -> unrepresentable (fst (snd kv)) size off = false) ->
      exists groups out,
        group_by_key_and_window keqb tumble_debug size off ps = Ok groups
        /\ exact_grouping (kw_eqb keqb) groups (map (spec_tag_keyed size off) (concat ps))
        /\ key_window_groups_join_table keqb jk tumble_debug size off ps table = Ok out
        /\ Permutation out (join_spec (kw_eqb keqb) jk groups (concat table))
        /\ (forall kw vs ow, In (kw, (Some vs, ow)) out ->
                             vs = values_of (kw_eqb keqb) kw (map (spec_tag_keyed size off) (concat ps))
                             /\ vs <> []).
Proof. exact key_window_groups_join_table_exact. Qed.

Example c13_key_window_join_ex :
  key_window_groups_join_table Z.eqb JFull tumble_debug 10 5
    [[(1, (7, 10)); (2, (8, 20))]; [(1, (14, 30))]] [[((1, (5, 15)), 100); ((3, (5, 15)), 300)]]
  = Ok [((1, (5, 15)), (Some [10; 30], Some 100)); ((2, (5, 15)), (Some [20], None));
        ((3, (5, 15)), (None, Some 300))].
Proof. vm_compute. reflexivity. Qed.

(* ---- events.key_by_window(..).join_<kind>(table): stateless sub-plan, the very same rows for
   every partitioning ---- *)
Theorem c13_tagged_window_join_partition_free :
  forall (V W : Type) (jk : jkind) (size off : Z) (ps : list (list (Z * V)))
         (table : list (list (window * W))),
    1 <= size ->
    (forall ev, In ev (concat ps) -> unrepresentable (fst ev) size off = false) ->
    tagged_window_join_table jk tumble_debug size off ps table
    = Ok (join_exec window_eqb jk (map (spec_tag_unkeyed size off) (concat ps)) (concat table)).
Proof. exact tagged_window_join_partition_free. Qed.

Example c13_tagged_window_join_ex :
  tagged_window_join_table JLeft tumble_debug 10 3 [[(14, 1); (5, 2)]; [(20, 3)]] [[((13, 23), 100)]]
  = Ok [((13, 23), (Some 1, Some 100)); ((13, 23), (Some 3, Some 100)); ((3, 13), (Some 2, None))].
Proof. vm_compute. reflexivity. Qed.
