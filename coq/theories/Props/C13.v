(* stub, replaced below *)
From Coq Require Import ZArith.
From IB Require Import Window.Tumble.
Open Scope Z_scope.
Theorem c13_tumble_refuted : tumble_debug 3 10 5 = Panic.
Proof. vm_compute. reflexivity. Qed.
