(* C12 (placeholder while the correspondence is being brought up) *)
From Coq Require Import List ZArith Bool.
From IB Require Import Ckpt.Bincode Ckpt.Store.
