(* C12: checkpoint store - faithful round trip, integrity, bounded retention, true latest.
   This file holds ONLY the property theorems (each closed by `exact`) and their non-vacuity
   examples. Model: Ckpt/Bincode.v (bincode 2.0.1 `standard().with_limit::<16 MiB>()`),
   Ckpt/Store.v (src/checkpoint.rs). Conventions:
     H        SHA-256 as an ARBITRARY function bytes -> digest bytes (nothing is assumed of it);
              section 2b instantiates it with the model of SHA-256 (Ckpt/Sha256.v): md_stream = the
              streaming hasher compute_checksum drives (sha2's new / update / finalize), md_spec =
              FIPS 180-4 one shot, both over the FIPS compression function
     avail    what the allocator can serve; requests beyond it are the outcome Abort
     readdir  the OS directory listing: ANY function returning a permutation of the names present
     files_of pid d   the names in d that checkpoint_file_timestamp accepts for pipeline pid *)
From Coq Require Import List ZArith Bool Permutation String.
From IB Require Import Util.J Ckpt.Bincode Ckpt.Store Ckpt.Sha256.
From IB Require Import Proofs.CkptBincode Proofs.CkptStore Proofs.CkptRetention Proofs.CkptMain
     Proofs.CkptRecent Proofs.CkptSha256.
Import ListNotations.
Open Scope Z_scope.

Definition files_of (pid : bytes) (d : dir) : list name := filter (is_ckpt pid) (dir_names d).
Definition listing_ok (readdir : dir -> list name) : Prop :=
  forall d, Permutation (readdir d) (dir_names d).

(* ------------------------------------------------------------------ 1. faithful round trip *)

(* decode (encode s ++ junk) for every value of the Rust type, EXACTLY: Ok s iff what the limit
   accounting charges (8 per integer, 8 + length per string, 1 for the u8) fits the 16 MiB limit *)
Theorem c12_decode_encode_exact :
  forall avail s junk,
    ckpt_limit <= avail -> wf_value s ->
    decode (Some ckpt_limit) avail (encode s ++ junk)
    = if claim_total s <=? ckpt_limit then DOk s else DErr ELimit.
Proof. exact main_decode_exact. Qed.

Theorem c12_roundtrip_decode :
  forall avail s junk,
    ckpt_limit <= avail -> wf_state s -> claim_total s <= ckpt_limit ->
    decode (Some ckpt_limit) avail (encode s ++ junk) = DOk s.
Proof. exact main_roundtrip_decode. Qed.

(* load_checkpoint (save_checkpoint s) = s, field for field, for every directory, retention
   setting and listing order - unless retention has already deleted that very file (it is then
   older than max_checkpoints newer ones, see c12_retention) *)
Theorem c12_roundtrip :
  forall readdir, listing_ok readdir ->
  forall (H : bytes -> bytes) avail, ckpt_limit <= avail ->
  forall max d s,
    let n := ckpt_name (pipeline_id s) (timestamp s) in
    dir_ok d -> wf_state s -> claim_total s <= ckpt_limit -> name_ok n = true ->
    checksum s = compute_checksum H (meta_str s) ->
    match max with Some m => 0 <= m | None => True end ->
    exists d', save readdir max d s = (Ok n, d')
               /\ (load H avail d' n = Ok s \/ dir_lookup d' n = None)
               /\ (max = None -> load H avail d' n = Ok s).
Proof. exact save_load_roundtrip. Qed.

(* ------------------------------------------------------------------ 2. integrity *)

(* "id:index:timestamp:partitions" determines the four fields, even with ':' inside the id *)
Theorem c12_meta_str_injective :
  forall s1 s2,
    nums_nonneg s1 -> nums_nonneg s2 -> meta_str s1 = meta_str s2 -> protected s1 = protected s2.
Proof. exact meta_str_injective. Qed.

(* whatever load accepts carries the checksum of its own protected fields *)
Theorem c12_integrity :
  forall (H : bytes -> bytes) avail b s',
    load_bytes H avail b = Ok s' -> checksum s' = hex (H (meta_str s')).
Proof. exact main_integrity. Qed.

(* b = any bytes at all (a saved file altered in any way). If load accepts b as a state that still
   has the checksum of the saved state s but other protected fields, then H has a collision. *)
Theorem c12_tamper_detected :
  forall (H : bytes -> bytes) avail, ckpt_limit <= avail ->
  forall s b s',
    nums_nonneg s -> Forall is_byte b ->
    checksum s = compute_checksum H (meta_str s) ->
    load_bytes H avail b = Ok s' -> checksum s' = checksum s ->
    protected s' <> protected s ->
    meta_str s' <> meta_str s /\ hex (H (meta_str s')) = hex (H (meta_str s)).
Proof. exact tamper_detected. Qed.

(* hex is injective on digests, so the collision above is a collision of H itself *)
Theorem c12_hex_injective :
  forall a b, Forall is_byte a -> Forall is_byte b -> hex a = hex b -> a = b.
Proof. exact hex_inj. Qed.

(* altering only the checksum field of a saved file is rejected *)
Theorem c12_checksum_alteration_rejected :
  forall (H : bytes -> bytes) avail, ckpt_limit <= avail ->
  forall s c' junk,
    let s2 := mk_cstate (pipeline_id s) (completed_node_index s) (timestamp s) (partition_count s)
                        c' (exec_mode s) (metadata s) in
    wf_value s2 -> c' <> compute_checksum H (meta_str s) ->
    exists e, load_bytes H avail (encode s2 ++ junk) = Err e.
Proof. exact checksum_alteration_rejected. Qed.

(* ------------------------------------------------------------------ 2b. compute_checksum *)
(* Ckpt/Sha256.v. The construction (padding, blocks, streaming buffer) is generic in the
   compression function: the statements below hold for EVERY compress / initial value / output
   function - in particular for the FIPS 180-4 compression function over both word
   representations of the model: ops_z (words as Z; sha256_z, sha256_spec_z) and ops_int (machine
   integers; sha256, sha256_spec: what the correspondence run evaluates). *)

(* compute_checksum (Sha256::new, ONE update with the whole slice, finalize) computes the one-shot
   FIPS 180-4 function of the data, for data of every length *)
Theorem c12_sha_stream_spec :
  forall (hst : Type) (compress : hst -> bytes -> hst) (h0 : hst) (digest_of : hst -> bytes) data,
    md_stream compress h0 digest_of data = md_spec compress h0 digest_of data.
Proof. exact sha_stream_spec. Qed.

(* ... and so does every other way of cutting the data into update calls (empty pieces, pieces
   across block boundaries): the digest depends on the concatenation only, and on ALL of it *)
Theorem c12_sha_stream_chunks :
  forall (hst : Type) (compress : hst -> bytes -> hst) (h0 : hst) (digest_of : hst -> bytes) chunks,
    md_finalize compress digest_of (fold_left (md_update compress) chunks (md_new h0))
    = md_spec compress h0 digest_of (List.concat chunks).
Proof. exact sha_stream_chunks. Qed.

(* the padded message: whole blocks, 9 .. 72 bytes longer, the bit length in the last 8 bytes *)
Theorem c12_sha_pad_blocks :
  forall data,
    let m := data ++ sha_pad (Z.of_nat (List.length data)) in
    Z.of_nat (List.length m) mod 64 = 0
    /\ (List.length data + 9 <= List.length m < List.length data + 73)%nat
    /\ skipn (List.length m - 8) m = be64 (8 * Z.of_nat (List.length data)).
Proof. exact sha_pad_blocks. Qed.

(* the FIPS instance over Z: a digest is 32 bytes; the checksum string is 64 lower-case hex digits *)
Theorem c12_sha_digest_shape :
  forall data, List.length (sha256_spec_z data) = 32%nat /\ Forall is_byte (sha256_spec_z data).
Proof. exact sha256_z_shape. Qed.

Theorem c12_checksum_shape :
  forall data,
    List.length (compute_checksum sha256_z data) = 64%nat
    /\ Forall is_lower_hex (compute_checksum sha256_z data).
Proof. exact checksum_shape_z. Qed.

(* c12_tamper_detected with H := the streaming hash over any compression function whose output
   function emits 32 bytes (digest_ok; holds for the FIPS instances): what is accepted with the
   old checksum but other protected fields exhibits two different strings with the same ONE-SHOT
   digest - a collision of SHA-256 itself *)
Theorem c12_tamper_detected_sha256 :
  forall (hst : Type) (compress : hst -> bytes -> hst) (h0 : hst) (digest_of : hst -> bytes),
    digest_ok digest_of ->
  forall avail, ckpt_limit <= avail ->
  forall s b s',
    nums_nonneg s -> Forall is_byte b ->
    checksum s = compute_checksum (md_stream compress h0 digest_of) (meta_str s) ->
    load_bytes (md_stream compress h0 digest_of) avail b = Ok s' -> checksum s' = checksum s ->
    protected s' <> protected s ->
    meta_str s' <> meta_str s
    /\ md_spec compress h0 digest_of (meta_str s') = md_spec compress h0 digest_of (meta_str s).
Proof. exact tamper_detected_sha256. Qed.

(* every protected field, ids of every length: the file of a state s2 that differs from the saved
   s in the id, the index, the timestamp or the partition count and keeps s's checksum is rejected
   with the checksum error (LimitExceeded when s2 is beyond the decode limit) - or the hash has a
   collision *)
Theorem c12_field_tamper_sha256 :
  forall (hst : Type) (compress : hst -> bytes -> hst) (h0 : hst) (digest_of : hst -> bytes),
    digest_ok digest_of ->
  forall avail, ckpt_limit <= avail ->
  forall s s2 junk,
    nums_nonneg s -> wf_value s2 ->
    checksum s = compute_checksum (md_stream compress h0 digest_of) (meta_str s) ->
    checksum s2 = checksum s -> protected s2 <> protected s ->
    load_bytes (md_stream compress h0 digest_of) avail (encode s2 ++ junk) = Err LChecksum
    \/ load_bytes (md_stream compress h0 digest_of) avail (encode s2 ++ junk) = Err (LDecode ELimit)
    \/ (meta_str s2 <> meta_str s
        /\ md_spec compress h0 digest_of (meta_str s2) = md_spec compress h0 digest_of (meta_str s)).
Proof. exact field_tamper_sha256. Qed.

(* ------------------------------------------------------------------ 3. malformed bytes *)

(* for EVERY file content load returns Ok or Err - never the Abort outcome *)
Theorem c12_load_total :
  forall (H : bytes -> bytes) avail, ckpt_limit <= avail ->
  forall b, (exists s, load_bytes H avail b = Ok s) \/ (exists e, load_bytes H avail b = Err e).
Proof. exact load_bytes_total. Qed.

(* all allocation requests of one decode together stay within 16 MiB, whatever the bytes *)
Theorem c12_alloc_bound :
  forall avail b,
    ckpt_limit <= avail ->
    zsum (decode_allocs (Some ckpt_limit) avail b) <= 16777216
    /\ (Forall is_byte b ->
        Forall (fun n => 0 <= n <= 16777216) (decode_allocs (Some ckpt_limit) avail b)).
Proof. exact main_alloc_bound. Qed.

(* the Abort outcome is real: the same decoder WITHOUT the limit aborts on the old witness
   (first length prefix 2^63) *)
Theorem c12_unlimited_decoder_aborts :
  decode None 9223372036854775807 [253; 0; 0; 0; 0; 0; 0; 0; 128] = DAbort.
Proof. exact decode_unlimited_aborts. Qed.

(* ------------------------------------------------------------------ 4. retention *)

(* one save with max_checkpoints = Some m (m = 0 included), from ANY directory d (so: after any
   history), for ANY listing order. d1 = d with the new file written. Ties (equal filename
   timestamps, e.g. `_7.bin` and `_007.bin`): any of the tied files may be the one kept - the
   order clause is `<=`. *)
Theorem c12_retention :
  forall readdir, listing_ok readdir ->
  forall (m : Z) (d : dir) (s : cstate),
    let pid := pipeline_id s in
    let n := ckpt_name pid (timestamp s) in
    let d1 := dir_write d n (encode s) in
    dir_ok d -> 0 <= m -> is_u64 (timestamp s) -> name_ok n = true ->
    exists d',
      save readdir (Some m) d s = (Ok n, d') /\ dir_ok d'
      /\ In n (files_of pid d1)
      (* exactly min(m, count) files of this pipeline remain ... *)
      /\ Z.of_nat (List.length (files_of pid d')) = Z.min m (Z.of_nat (List.length (files_of pid d1)))
      (* ... nothing appears or changes content ... *)
      /\ (forall x b, dir_lookup d' x = Some b -> dir_lookup d1 x = Some b)
      (* ... and no deleted file of the pipeline is newer than a kept one *)
      /\ (forall k x, In k (files_of pid d') -> In x (files_of pid d1) -> ~ In x (files_of pid d') ->
            ts_key pid x <= ts_key pid k)
      (* every file that is not a checkpoint of this pipeline is untouched *)
      /\ (forall x, is_ckpt pid x = false -> dir_lookup d' x = dir_lookup d x).
Proof. exact main_retention. Qed.

(* when the filename timestamps of the pipeline's files are pairwise different (always the case
   for names written by save itself) the outcome does not depend on the listing order at all: a
   file survives iff fewer than m files of the pipeline have a greater timestamp *)
Theorem c12_retention_determined :
  forall readdir, listing_ok readdir ->
  forall (m : Z) (d : dir) (s : cstate),
    let pid := pipeline_id s in
    let n := ckpt_name pid (timestamp s) in
    let d1 := dir_write d n (encode s) in
    dir_ok d -> 0 <= m -> is_u64 (timestamp s) -> name_ok n = true ->
    (forall x y, In x (files_of pid d1) -> In y (files_of pid d1) ->
                 ts_key pid x = ts_key pid y -> x = y) ->
    forall x, In x (files_of pid d1) ->
      (In x (files_of pid (snd (save readdir (Some m) d s)))
       <-> Z.of_nat (List.length (newer_than (ts_key pid) x (files_of pid d1))) < m).
Proof. exact retention_determined. Qed.

(* a file is a checkpoint of at most one pipeline: `checkpoint_a_b_200.bin` is a_b's, not a's *)
Theorem c12_owner_unique :
  forall p1 p2 n, is_ckpt p1 n = true -> is_ckpt p2 n = true -> p1 = p2.
Proof. exact owner_unique. Qed.

(* any history of saves, pipeline ids interleaved at will, from any directory: every pipeline
   that was saved at least once ends with at most m files *)
Theorem c12_retention_history :
  forall readdir, listing_ok readdir ->
  forall m h d p,
    dir_ok d -> 0 <= m ->
    Forall (fun s => is_u64 (timestamp s)
                     /\ name_ok (ckpt_name (pipeline_id s) (timestamp s)) = true) h ->
    In p (map pipeline_id h) ->
    Z.of_nat (List.length (files_of p (run_saves readdir (Some m) d h))) <= m.
Proof. exact history_bounded. Qed.

(* ... and what it keeps are most recent ones of everything it ever had: F = its files in the
   initial directory and every name saved for it; no file of F that is gone is newer than one
   that is still there (timestamps in any order, overwrites and re-saves included) *)
Theorem c12_history_recent :
  forall readdir, listing_ok readdir ->
  forall m h d p,
    dir_ok d -> 0 <= m ->
    Forall (fun s => is_u64 (timestamp s)
                     /\ name_ok (ckpt_name (pipeline_id s) (timestamp s)) = true) h ->
    let F := files_of p d ++ saved_names p h in
    let K := files_of p (run_saves readdir (Some m) d h) in
    incl K F
    /\ (forall k x, In k K -> In x F -> ~ In x K -> ts_key p x <= ts_key p k).
Proof. exact history_recent. Qed.

(* ------------------------------------------------------------------ 5. latest, clear *)

Theorem c12_latest_is_max :
  forall readdir, listing_ok readdir ->
  forall pid d,
    match latest readdir true pid d with
    | Some n => In n (files_of pid d)
                /\ forall x, In x (files_of pid d) -> ts_key pid x <= ts_key pid n
    | None => files_of pid d = []
    end.
Proof. exact latest_spec. Qed.

Theorem c12_clear :
  forall readdir, listing_ok readdir ->
  forall pid d,
    dir_ok d ->
    let d' := clear readdir pid d in
    dir_ok d' /\ files_of pid d' = []
    /\ (forall x, is_ckpt pid x = false -> dir_lookup d' x = dir_lookup d x)
    /\ (forall x b, dir_lookup d' x = Some b -> dir_lookup d x = Some b).
Proof. exact clear_spec. Qed.

(* ================================================================== non-vacuity examples *)
Definition exH (x : bytes) : bytes := [zsum x mod 256; Z.of_nat (List.length x) mod 256; 255].
Definition ex_pid : bytes := string_bytes "a:b_1".
Definition ex_state : cstate :=
  let base := mk_cstate ex_pid 300 1700000000000 70000 [] (string_bytes "par")
                        (mk_cmeta 18446744073709551615 [206; 187] 255) in
  mk_cstate ex_pid 300 1700000000000 70000 (compute_checksum exH (meta_str base))
            (string_bytes "par") (metadata base).
Definition ex_avail : Z := 9223372036854775807.
Definition rev_listing (d : dir) : list name := rev (dir_names d).
Lemma rev_listing_ok : listing_ok rev_listing.
Proof. intro d. apply Permutation_sym, Permutation_rev. Qed.

Definition nm (n : string) : name := string_bytes n.
Definition f (n : string) : name * bytes := (string_bytes n, [1]).
Definition ex_dir : dir :=
  [f "checkpoint_a_100.bin"; f "checkpoint_a_b_200.bin"; f "checkpoint_a_300.bin";
   f "checkpoint_a_x.bin"; f "checkpoint_a_7.BIN"; f "checkpoint_a_50.bin"; f "notes.tmp"].
Definition ex_save (pid : string) (ts : Z) : cstate :=
  mk_cstate (string_bytes pid) 1 ts 1 [] [] (mk_cmeta 2 [] 50).

(* c12_decode_encode_exact / c12_roundtrip_decode: hypotheses hold and the state is not trivial
   (multi-byte integers, non-ASCII text, ':' and '_' in the id) *)
Example ex_roundtrip_hyps :
  ckpt_limit <= ex_avail /\ wf_value ex_state /\ wf_state ex_state
  /\ claim_total ex_state <= ckpt_limit
  /\ decode (Some ckpt_limit) ex_avail (encode ex_state ++ [255; 0]) = DOk ex_state
  /\ List.length (encode ex_state) = 47%nat.
Proof.
  unfold wf_value, wf_state, wf_str, is_u64, is_byte.
  repeat split; vm_compute; try reflexivity; intro; discriminate.
Qed.

(* c12_roundtrip: with retention 1 and a reversed listing, in a directory with other files *)
Example ex_roundtrip_save :
  dir_ok ex_dir /\ name_ok (ckpt_name (pipeline_id ex_state) (timestamp ex_state)) = true
  /\ checksum ex_state = compute_checksum exH (meta_str ex_state)
  /\ (let '(r, d') := save rev_listing (Some 1) ex_dir ex_state in
      match r with Ok n => load exH ex_avail d' n = Ok ex_state | _ => False end).
Proof.
  split; [|repeat split; vm_compute; reflexivity].
  unfold dir_ok. vm_compute. repeat constructor; cbn; intuition discriminate.
Qed.

(* c12_meta_str_injective: the colliding-looking ids "a:1" / "a" give different strings *)
Example ex_meta_str :
  meta_str (mk_cstate (string_bytes "a:1") 2 3 4 [] [] (mk_cmeta 0 [] 0)) = string_bytes "a:1:2:3:4"
  /\ meta_str (mk_cstate (string_bytes "a") 1 2 34 [] [] (mk_cmeta 0 [] 0)) = string_bytes "a:1:2:34"
  /\ nums_nonneg ex_state.
Proof. unfold nums_nonneg. repeat split; vm_compute; try reflexivity; intro; discriminate. Qed.

(* c12_integrity / c12_tamper_detected / c12_checksum_alteration_rejected: a saved file loads;
   the same file with the timestamp byte changed, or with one checksum character changed, is
   rejected with the checksum error *)
Example ex_integrity :
  let s := mk_cstate [112] 1 5 2 (compute_checksum exH (string_bytes "p:1:5:2")) [115] (mk_cmeta 3 [109] 50) in
  let t := mk_cstate [112] 1 6 2 (checksum s) [115] (mk_cmeta 3 [109] 50) in
  let c := mk_cstate [112] 1 5 2 (48 :: tl (checksum s)) [115] (mk_cmeta 3 [109] 50) in
  load_bytes exH ex_avail (encode s) = Ok s
  /\ load_bytes exH ex_avail (encode t) = Err LChecksum
  /\ load_bytes exH ex_avail (encode c) = Err LChecksum
  /\ Forall is_byte (encode t) /\ protected t <> protected s /\ wf_value c.
Proof.
  cbv zeta. split; [vm_compute; reflexivity|]. split; [vm_compute; reflexivity|].
  split; [vm_compute; reflexivity|]. split; [|split].
  - vm_compute. repeat constructor; intro; discriminate.
  - vm_compute. intro E. discriminate.
  - unfold wf_value, wf_str, is_u64, is_byte. repeat split; vm_compute; try reflexivity; intro; discriminate.
Qed.

(* c12_load_total / c12_alloc_bound: the old witnesses now give Err, and the only request made is
   within the limit; a length prefix just inside the limit is allocated (and then fails: EEnd) *)
Example ex_malformed :
  load_bytes exH ex_avail [253; 0; 0; 0; 0; 0; 0; 0; 128; 1; 2] = Err (LDecode ELimit)
  /\ load_bytes exH ex_avail [253; 0; 0; 0; 0; 1; 0; 0; 0] = Err (LDecode ELimit)
  /\ load_bytes exH ex_avail [252; 248; 255; 255; 0; 1] = Err (LDecode EEnd)
  /\ decode_allocs (Some ckpt_limit) ex_avail [252; 248; 255; 255; 0; 1] = [16777208]
  /\ load_bytes exH ex_avail [252; 249; 255; 255; 0; 1] = Err (LDecode ELimit)
  /\ decode_allocs (Some ckpt_limit) ex_avail [252; 249; 255; 255; 0; 1] = []
  /\ load_bytes exH ex_avail [1; 255] = Err (LDecode EUtf8)
  /\ load_bytes exH ex_avail [0; 254] = Err (LDecode EDiscriminant)
  /\ load_bytes exH ex_avail [] = Err (LDecode EEnd).
Proof. repeat split; vm_compute; reflexivity. Qed.

(* c12_retention / c12_owner_unique: saving pipeline "a" with max 1 and 2 keeps the newest of a's
   files and leaves a_b's file, the foreign files and the junk alone (old defect witness) *)
Example ex_retention :
  dir_names (snd (save rev_listing (Some 1) ex_dir (ex_save "a" 150)))
  = [nm "checkpoint_a_b_200.bin"; nm "checkpoint_a_300.bin"; nm "checkpoint_a_x.bin"; nm "checkpoint_a_7.BIN"; nm "notes.tmp"]
  /\ dir_names (snd (save dir_names (Some 2) ex_dir (ex_save "a" 150)))
  = [nm "checkpoint_a_150.bin"; nm "checkpoint_a_b_200.bin"; nm "checkpoint_a_300.bin"; nm "checkpoint_a_x.bin"; nm "checkpoint_a_7.BIN"; nm "notes.tmp"]
  /\ dir_names (snd (save dir_names (Some 0) ex_dir (ex_save "a" 150)))
  = [nm "checkpoint_a_b_200.bin"; nm "checkpoint_a_x.bin"; nm "checkpoint_a_7.BIN"; nm "notes.tmp"]
  /\ is_ckpt (string_bytes "a") (string_bytes "checkpoint_a_b_200.bin") = false
  /\ is_ckpt (string_bytes "a_b") (string_bytes "checkpoint_a_b_200.bin") = true
  /\ map (is_ckpt (string_bytes "p"))
         ([nm "checkpoint_p_x.bin"; nm "checkpoint_p_5.BIN"; nm "checkpoint_p_5.tmp"; nm "checkpoint_p_.bin"; nm "checkpoint_p_+.bin"; nm "checkpoint_p_-5.bin"; nm "checkpoint_p_18446744073709551616.bin"; nm "checkpoint_p_5.bin"; nm "checkpoint_p_+5.bin"; nm "checkpoint_p_005.bin"; nm "checkpoint_p_18446744073709551615.bin"])
     = [false; false; false; false; false; false; false; true; true; true; true].
Proof. repeat split; vm_compute; reflexivity. Qed.

(* c12_retention_determined: the timestamps in the example directory are pairwise different *)
Example ex_determined :
  map (ts_key (string_bytes "a"))
      (files_of (string_bytes "a")
                (dir_write ex_dir (ckpt_name (string_bytes "a") 150) (encode (ex_save "a" 150))))
  = [150; 100; 300; 50].
Proof. vm_compute. reflexivity. Qed.

(* c12_retention_history / c12_history_recent: an interleaved history over two pipelines,
   timestamps out of order *)
Example ex_history :
  let h := [ex_save "a" 5; ex_save "a_b" 9; ex_save "a" 3; ex_save "a_b" 1; ex_save "a" 400] in
  Forall (fun s => is_u64 (timestamp s)
                   /\ name_ok (ckpt_name (pipeline_id s) (timestamp s)) = true) h
  /\ dir_names (run_saves rev_listing (Some 2) ex_dir h)
     = [nm "checkpoint_a_400.bin"; nm "checkpoint_a_b_9.bin"; nm "checkpoint_a_b_200.bin"; nm "checkpoint_a_300.bin"; nm "checkpoint_a_x.bin"; nm "checkpoint_a_7.BIN"; nm "notes.tmp"].
Proof.
  cbv zeta. split; [|vm_compute; reflexivity].
  unfold is_u64. repeat constructor; vm_compute; try reflexivity; intro; discriminate.
Qed.

(* c12_latest_is_max / c12_clear *)
Example ex_latest_clear :
  latest rev_listing true (string_bytes "a") ex_dir = Some (string_bytes "checkpoint_a_300.bin")
  /\ latest dir_names true (string_bytes "a_b") ex_dir = Some (string_bytes "checkpoint_a_b_200.bin")
  /\ latest dir_names true (string_bytes "zz") ex_dir = None
  /\ dir_names (clear rev_listing (string_bytes "a") ex_dir)
     = [nm "checkpoint_a_b_200.bin"; nm "checkpoint_a_x.bin"; nm "checkpoint_a_7.BIN"; nm "notes.tmp"].
Proof. repeat split; vm_compute; reflexivity. Qed.

(* c12_sha_stream_spec / c12_sha_digest_shape / c12_checksum_shape / c12_sha_pad_blocks: both word
   instances of the model reproduce the FIPS 180-4 / NIST test vectors "abc", "" and the 56-byte
   message (two blocks after padding), in the streaming and in the one-shot formulation *)
Definition ex_abc_hex : bytes :=
  string_bytes "ba7816bf8f01cfea414140de5dae2223b00361a396177a9cb410ff61f20015ad".
Definition ex_nist56 : bytes := string_bytes "abcdbcdecdefdefgefghfghighijhijkijkljklmklmnlmnomnopnopq".
Example ex_sha_vectors :
  compute_checksum sha256_z (string_bytes "abc") = ex_abc_hex
  /\ hex (sha256_spec_z (string_bytes "abc")) = ex_abc_hex
  /\ compute_checksum sha256 (string_bytes "abc") = ex_abc_hex
  /\ hex (sha256_spec (string_bytes "abc")) = ex_abc_hex
  /\ compute_checksum sha256_z []
     = string_bytes "e3b0c44298fc1c149afbf4c8996fb92427ae41e4649b934ca495991b7852b855"
  /\ compute_checksum sha256 []
     = string_bytes "e3b0c44298fc1c149afbf4c8996fb92427ae41e4649b934ca495991b7852b855"
  /\ compute_checksum sha256_z ex_nist56
     = string_bytes "248d6a61d20638b8e5c026930c3e6039a33ce45964ff2167f6ecedd419db06c1"
  /\ compute_checksum sha256 ex_nist56
     = string_bytes "248d6a61d20638b8e5c026930c3e6039a33ce45964ff2167f6ecedd419db06c1"
  /\ List.length (ex_nist56 ++ sha_pad 56) = 128%nat
  /\ digest_ok (fips_digest ops_z).
Proof. repeat split; try (vm_compute; reflexivity); apply fips_digest_z_ok. Qed.

(* c12_sha_stream_chunks: a 150-byte message fed as 0 + 1 + 63 + 64 + 22 bytes, as whole blocks plus
   the remainder, and at once, gives the same digest; WITHOUT the remainder (what feeding only
   `chunks_exact(64)` does) it does not *)
Definition ex_msg : bytes := map (fun i => Z.of_nat i mod 251) (seq 0 150).
Definition ex_feed (pieces : list bytes) : bytes :=
  md_finalize (fips_compress ops_z) (fips_digest ops_z)
              (fold_left (md_update (fips_compress ops_z)) pieces (md_new (fips_h0 ops_z))).
Example ex_sha_chunks :
  let pieces := [[]; firstn 1 ex_msg; firstn 63 (skipn 1 ex_msg); firstn 64 (skipn 64 ex_msg); skipn 128 ex_msg] in
  List.concat pieces = ex_msg
  /\ ex_feed pieces = sha256_z ex_msg
  /\ ex_feed [firstn 64 ex_msg; firstn 64 (skipn 64 ex_msg); skipn 128 ex_msg] = sha256_z ex_msg
  /\ ex_feed [firstn 64 ex_msg; firstn 64 (skipn 64 ex_msg)] <> sha256_z ex_msg
  /\ sha256 ex_msg = sha256_z ex_msg.
Proof.
  cbv zeta. split; [vm_compute; reflexivity|]. split; [vm_compute; reflexivity|].
  split; [vm_compute; reflexivity|]. split; [|vm_compute; reflexivity].
  vm_compute. intro E. discriminate.
Qed.

(* c12_tamper_detected_sha256 / c12_field_tamper_sha256: a 64-character pipeline id (protected
   string of 70 bytes: index, timestamp and partition count lie in the second SHA-256 block).
   The saved file loads; with the index, the timestamp, the partition count or one id character
   changed and the checksum kept it is rejected with the checksum error *)
Definition ex_long_pid : bytes := List.concat (repeat (string_bytes "0123456789abcdef") 4).
Definition ex_long (pid : bytes) (cni ts pc : Z) (cks : bytes) : cstate :=
  mk_cstate pid cni ts pc cks (string_bytes "seq") (mk_cmeta 3 (string_bytes "Map") 50).
Definition ex_long_saved : cstate :=
  ex_long ex_long_pid 7 9 4 (compute_checksum sha256_z (meta_str (ex_long ex_long_pid 7 9 4 []))).
Example ex_long_id_tamper :
  let c := checksum ex_long_saved in
  List.length (meta_str ex_long_saved) = 70%nat
  /\ nums_nonneg ex_long_saved /\ checksum ex_long_saved = compute_checksum sha256_z (meta_str ex_long_saved)
  /\ load_bytes sha256_z ex_avail (encode ex_long_saved) = Ok ex_long_saved
  /\ load_bytes sha256_z ex_avail (encode (ex_long ex_long_pid 8 9 4 c)) = Err LChecksum
  /\ load_bytes sha256_z ex_avail (encode (ex_long ex_long_pid 7 8 4 c)) = Err LChecksum
  /\ load_bytes sha256_z ex_avail (encode (ex_long ex_long_pid 7 9 5 c)) = Err LChecksum
  /\ load_bytes sha256_z ex_avail (encode (ex_long (firstn 63 ex_long_pid ++ [103]) 7 9 4 c)) = Err LChecksum
  /\ wf_value (ex_long ex_long_pid 7 9 5 c)
  /\ protected (ex_long ex_long_pid 7 9 5 c) <> protected ex_long_saved.
Proof.
  cbv zeta. split; [vm_compute; reflexivity|].
  split; [unfold nums_nonneg; repeat split; vm_compute; intro; discriminate|].
  split; [vm_compute; reflexivity|]. split; [vm_compute; reflexivity|].
  split; [vm_compute; reflexivity|]. split; [vm_compute; reflexivity|].
  split; [vm_compute; reflexivity|]. split; [vm_compute; reflexivity|]. split.
  - unfold wf_value, wf_str, is_u64, is_byte. repeat split; vm_compute; try reflexivity; intro; discriminate.
  - vm_compute. intro E. discriminate.
Qed.
