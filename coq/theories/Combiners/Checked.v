(* Machine integers for Sum<T> (src/combiners/basic.rs: `*acc = take(acc) + v`, `a + v` in
   build_from_group's fold).  Definitions only (proofs: Proofs/CombinersChecked.v).
   The other models take integers as Z; this file says what the `+` of a bounded integer type does
   and lets the theorems state when the Z model IS the machine behaviour.

   T = an integer type with values lo..hi (i64: -2^63..2^63-1, u64: 0..2^64-1, ...).
   * overflow-checked build (debug, `overflow-checks = true`): `+` panics when the exact result is
     outside lo..hi.  A panic anywhere aborts the whole computation: accumulator None.
   * wrapping (release build, or T = std::num::Wrapping<_>): `+` is addition modulo hi-lo+1. *)
From Coq Require Import List ZArith.
From IB Require Import Combiners.Lawful Combiners.Basic.
Import ListNotations.
Open Scope Z_scope.

Definition in_range (lo hi x : Z) : bool := (lo <=? x) && (x <=? hi).

(* checked `acc + v`; None = the computation has panicked *)
Definition checked_add (lo hi : Z) (acc : option Z) (v : Z) : option Z :=
  match acc with
  | Some x => if in_range lo hi (x + v) then Some (x + v) else None
  | None => None
  end.
Definition checked_merge (lo hi : Z) (acc other : option Z) : option Z :=
  match other with
  | Some y => checked_add lo hi acc y
  | None => None
  end.
Definition sum_checked_combiner (lo hi : Z) : combiner Z (option Z) (option Z) := {|
  c_create := Some 0;
  c_add    := checked_add lo hi;
  c_merge  := checked_merge lo hi;
  c_finish := fun a => a;
  c_build  := fun vs => fold_left (checked_add lo hi) vs (Some 0)
|}.

(* total of the positive values and total magnitude of the negative values: every partial sum, in
   any order and grouping, lies between - zneg and + zpos *)
Definition zpos (m : list Z) : Z := fold_right (fun v s => Z.max v 0 + s) 0 m.
Definition zneg (m : list Z) : Z := fold_right (fun v s => Z.max (- v) 0 + s) 0 m.

(* wrapping: the representative of x modulo `modulus` in lo .. lo+modulus-1 *)
Definition wrap (lo modulus x : Z) : Z := (x - lo) mod modulus + lo.
Definition sum_wrapping_combiner (lo modulus : Z) : combiner Z Z Z := {|
  c_create := 0;
  c_add    := fun a v => wrap lo modulus (a + v);
  c_merge  := fun a b => wrap lo modulus (a + b);
  c_finish := fun a => a;
  c_build  := fun vs => fold_left (fun a v => wrap lo modulus (a + v)) vs 0
|}.
Definition wrap_R (lo modulus : Z) (a : Z) (m : list Z) : Prop :=
  a = wrap lo modulus (zsum m).
Definition wrap_spec (lo modulus : Z) (m : list Z) (o : Z) : Prop :=
  o = wrap lo modulus (zsum m).
