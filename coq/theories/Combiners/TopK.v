(* Model of src/combiners/topk.rs: TopK<T> with accumulator BinaryHeap<Reverse<T>> (a min-heap of
   at most k values).  Definitions only (proofs: Proofs/CombinersTopK.v).

   The heap is modelled as the abstract priority queue it implements: the multiset of its
   elements, represented canonically as the ASCENDING sorted list (head = the minimum = what
   `pop()` on a BinaryHeap<Reverse<T>> returns).  The internal array shape of the binary heap is
   unobservable: every consumer in topk.rs drains the heap by `pop()` (merge: acc; finish) or
   re-sorts its content (merge: other), and equal values of an Ord type are indistinguishable.
   Values are Z. *)
From Coq Require Import List ZArith.
From IB Require Import Combiners.Lawful.
Import ListNotations.
Open Scope Z_scope.

(* BinaryHeap<Reverse<T>>::push *)
Fixpoint heap_push (x : Z) (h : list Z) : list Z :=
  match h with
  | [] => [x]
  | y :: r => if x <=? y then x :: h else y :: heap_push x r
  end.
(* BinaryHeap<Reverse<T>>::pop: removes the smallest element (no-op on an empty heap) *)
Definition heap_pop (h : list Z) : list Z := tl h.
(* Extend<..> for BinaryHeap / pushing a sequence of values one by one *)
Definition heap_extend (h : list Z) (xs : list Z) : list Z :=
  fold_left (fun h x => heap_push x h) xs h.
(* `while let Some(Reverse(x)) = acc.pop() { v.push(x) }` yields the ascending order, which is the
   representation itself; `sort_unstable` of the elements of a heap gives the same list *)
Definition sort_asc (l : list Z) : list Z := fold_right heap_push [] l.
Definition sort_desc (l : list Z) : list Z := rev (sort_asc l).

(* add_input: acc.push(Reverse(v)); if acc.len() > self.k { acc.pop(); }
   (also the loop body of build_from_group) *)
Definition topk_add (k : nat) (acc : list Z) (v : Z) : list Z :=
  let acc' := heap_push v acc in
  if (k <? length acc')%nat then heap_pop acc' else acc'.

(* the merge loop of TopK::merge, v1 and v2 "largest first":
     while result.len() < k && (i < v1.len() || j < v2.len()) {
         val = if i >= v1.len() { v2[j++] }
               else if j >= v2.len() || v1[i] >= v2[j] { v1[i++] }
               else { v2[j++] };
         result.push(Reverse(val)) }
   returns the values in the order they are pushed; the first argument is k - result.len() *)
Fixpoint two_pointer (k : nat) (v1 v2 : list Z) : list Z :=
  match k with
  | O => []
  | S k' =>
      match v1, v2 with
      | [], [] => []
      | [], y :: v2' => y :: two_pointer k' [] v2'
      | x :: v1', [] => x :: two_pointer k' v1' []
      | x :: v1', y :: v2' =>
          if x >=? y then x :: two_pointer k' v1' v2 else y :: two_pointer k' v1 v2'
      end
  end.

(* merge: fast path when everything fits, otherwise the two-pointer merge of the two descending
   vectors; the result heap is filled by push *)
Definition topk_merge (k : nat) (acc other : list Z) : list Z :=
  if (length acc + length other <=? k)%nat then heap_extend acc other
  else
    let v1 := rev acc in                 (* pop everything, then reverse: largest first *)
    let v2 := rev (sort_asc other) in    (* collect, sort_unstable, reverse *)
    heap_extend [] (two_pointer k v1 v2).

(* finish: pop everything (ascending), reverse: largest first *)
Definition topk_finish (acc : list Z) : list Z := rev acc.

Definition topk_build (k : nat) (vs : list Z) : list Z := fold_left (topk_add k) vs [].

Definition topk_combiner (k : nat) : combiner Z (list Z) (list Z) := {|
  c_create := [];
  c_add    := topk_add k;
  c_merge  := topk_merge k;
  c_finish := topk_finish;
  c_build  := topk_build k
|}.

(* the k largest values of m, in descending order *)
Definition topk_of (k : nat) (m : list Z) : list Z := firstn k (sort_desc m).
(* the accumulator holds exactly the k largest values of m *)
Definition topk_R (k : nat) (a : list Z) (m : list Z) : Prop := a = rev (topk_of k m).
Definition topk_spec (k : nat) (m : list Z) (o : list Z) : Prop := o = topk_of k m.
