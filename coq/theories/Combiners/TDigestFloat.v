(* The FLOAT instance of the t-digest model (Combiners/TDigest.v): IEEE-754 binary64 through Coq's
   primitive floats; f64::mul_add through Flocq's Bfma (correctly rounded fused multiply-add).
   Used ONLY to execute the model in the correspondence check (Corr/C15.v). Importing Flocq's
   PrimFloat bridge brings classical-reals axioms into scope, so no theorem file imports this. *)
From Coq Require Import List Bool ZArith Floats Uint63.
From Flocq Require Import Core.FLX IEEE754.BinarySingleNaN IEEE754.PrimFloat.
From IB Require Import Combiners.TDigest.
Import ListNotations.

Definition Hp : FLX.Prec_gt_0 FloatOps.prec := eq_refl _.
Definition Hm : Prec_lt_emax FloatOps.prec FloatOps.emax := eq_refl _.

(* x.mul_add(y, z) *)
Definition ffma (x y z : float) : float :=
  B2Prim (@Bfma _ _ Hp Hm mode_NE (Prim2B x) (Prim2B y) (Prim2B z)).

Definition fis_finite (x : float) : bool := negb (PrimFloat.is_nan x || PrimFloat.is_infinity x).

(* f64::min / f64::max (IEEE minNum / maxNum): a NaN operand is ignored. For operands that
   compare equal (+0.0 / -0.0) the first operand is returned; the correspondence generator never
   mixes zeros of both signs in the agreement stream. *)
Definition fmin (a b : float) : float :=
  if PrimFloat.is_nan a then b else if PrimFloat.is_nan b then a
  else if PrimFloat.ltb b a then b else a.
Definition fmax (a b : float) : float :=
  if PrimFloat.is_nan a then b else if PrimFloat.is_nan b then a
  else if PrimFloat.ltb a b then b else a.

Definition farith : arith float := {|
  a_add := PrimFloat.add; a_sub := PrimFloat.sub; a_mul := PrimFloat.mul; a_div := PrimFloat.div;
  a_fma := ffma; a_ltb := PrimFloat.ltb; a_leb := PrimFloat.leb; a_eqb := PrimFloat.eqb;
  a_min := fmin; a_max := fmax; a_abs := PrimFloat.abs; a_is_finite := fis_finite;
  a_of_nat := fun n => PrimFloat.of_uint63 (Uint63.of_Z (Z.of_nat n));
  a_zero := 0%float; a_one := 1%float; a_two := 2%float; a_half := 0.5%float;
  a_eps := 0x1p-52%float; a_pinf := infinity; a_ninf := neg_infinity; a_nan := nan |}.
