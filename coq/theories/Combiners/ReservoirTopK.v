(* What the priority reservoir of src/combiners/sampling.rs COMPUTES, as a closed form, and an
   evaluator of that closed form that is fast enough for inputs of 100 000 elements.
   Definitions only; proofs are in Proofs/ReservoirTopK*.v.

   Combiners/Reservoir.v transcribes the code operation by operation (store / heap / alive, trim
   loops, index remapping).  Here the same result is described directly:

     * the j-th element (j = 0, 1, ..) that ONE accumulator consumes through add_input gets the
       priority  prio(seed, j)  = the j-th value of the SplitMix64 stream started at
       seed * 0xA24BAED40B9C497C, and the sequence number j.  Every partition (and, per key, every
       (partition, key) accumulator) restarts the stream;
     * an item is (priority, seq, gpos, value), gpos = its position in the concatenated input.
       The trim loops pop the minimum of (priority, seq, idx); idx (the slot index) orders two
       items like gpos does, because stores are concatenated left to right.  So what survives all
       trims is the set of the k GREATEST items for the lexicographic order on
       (priority, seq, gpos)  [keep order];
     * finish sorts the survivors by (priority descending, seq ascending) with a stable sort of
       the store order, i.e. by the total order (priority desc, seq asc, gpos asc)  [out order].

   [topk_sample] is generic in the representation of priorities: [topk_spec] instantiates it with
   the N-valued stream of Combiners/Reservoir.v ([sm_next], [prio_of_bits]); [topk_fast] with the
   same stream computed on primitive 63-bit integers (two 32-bit limbs per u64 word), which is
   about 200 times faster under vm_compute.  Both use the same merge sort. *)
From Coq Require Import List NArith ZArith Arith Bool Uint63.
From IB Require Import Combiners.Reservoir.
Import ListNotations.

(* ---------------------------------------------------------------- merge sort (bottom-up, as
   Coq.Sorting.Mergesort, but as plain definitions parametric in the comparison) *)
Section MSort.
  Context {A : Type}.
  Variable leb : A -> A -> bool.

  Fixpoint ms_merge (l1 l2 : list A) : list A :=
    let fix merge_aux (l2 : list A) : list A :=
      match l1, l2 with
      | [], _ => l2
      | _, [] => l1
      | a1 :: l1', a2 :: l2' =>
          if leb a1 a2 then a1 :: ms_merge l1' l2 else a2 :: merge_aux l2'
      end
    in merge_aux l2.

  Fixpoint ms_push (stack : list (option (list A))) (l : list A) : list (option (list A)) :=
    match stack with
    | [] => [Some l]
    | None :: stack' => Some l :: stack'
    | Some l' :: stack' => None :: ms_push stack' (ms_merge l' l)
    end.
  Fixpoint ms_flush (stack : list (option (list A))) : list A :=
    match stack with
    | [] => []
    | None :: stack' => ms_flush stack'
    | Some l :: stack' => ms_merge l (ms_flush stack')
    end.
  Fixpoint ms_iter (stack : list (option (list A))) (l : list A) : list A :=
    match l with
    | [] => ms_flush stack
    | a :: l' => ms_iter (ms_push stack [a]) l'
    end.
  Definition msort (l : list A) : list A := ms_iter [] l.
End MSort.

(* ---------------------------------------------------------------- the closed form *)
Section TopK.
  Context {P T : Type}.
  Variable pltb : P -> P -> bool.            (* strict order on priorities *)

  Definition item : Type := (P * N * N * T)%type.       (* (priority, seq, gpos, value) *)
  Definition it_prio (x : item) : P := fst (fst (fst x)).
  Definition it_seq (x : item) : N := snd (fst (fst x)).
  Definition it_gpos (x : item) : N := snd (fst x).
  Definition it_val (x : item) : T := snd x.

  (* keep order, descending: x comes first when (prio, seq, gpos) of x is the greater one *)
  Definition keep_leb (x y : item) : bool :=
    if pltb (it_prio y) (it_prio x) then true
    else if pltb (it_prio x) (it_prio y) then false
    else if N.ltb (it_seq y) (it_seq x) then true
    else if N.ltb (it_seq x) (it_seq y) then false
    else N.leb (it_gpos y) (it_gpos x).
  (* out order: priority descending, then seq ascending, then store order *)
  Definition out_leb (x y : item) : bool :=
    if pltb (it_prio y) (it_prio x) then true
    else if pltb (it_prio x) (it_prio y) then false
    else if N.ltb (it_seq x) (it_seq y) then true
    else if N.ltb (it_seq y) (it_seq x) then false
    else N.leb (it_gpos x) (it_gpos y).

  (* the items of one partition: the stream restarts, seq restarts, gpos continues *)
  Fixpoint items_part (prios : list P) (sq g : N) (part : list T) {struct part} : list item :=
    match part, prios with
    | v :: r, p :: ps => (p, sq, g, v) :: items_part ps (N.succ sq) (N.succ g) r
    | _, _ => []
    end.
  Fixpoint items_parts (prios : list P) (g : N) (parts : list (list T)) : list item :=
    match parts with
    | [] => []
    | p :: r => items_part prios 0 g p ++ items_parts prios (g + N.of_nat (length p)) r
    end.

  (* [prios] must be at least as long as the longest partition *)
  Definition topk_sample (prios : list P) (k : nat) (parts : list (list T)) : list T :=
    map it_val (msort out_leb (firstn k (msort keep_leb (items_parts prios 0 parts)))).
End TopK.

Definition max_len {T} (parts : list (list T)) : nat :=
  fold_left (fun m p => Nat.max m (length p)) parts 0.

(* ---------------------------------------------------------------- the stream, on N (as in
   Combiners/Reservoir.v: `create` seeds the state, add_input draws one value per element) *)
Definition stream_state0 (seed : N) : N := w64 (seed * SEEDMUL).
Fixpoint prio_stream (n : nat) (st : N) : list N :=
  match n with
  | O => []
  | S n' => let '(s, x) := sm_next st in prio_of_bits x :: prio_stream n' s
  end.

(* SplitMix64's state after j draws is st + j * GOLDEN, so the j-th priority of a stream is
   available directly (Proofs/ReservoirTopK.v: prio_stream_nth) *)
Definition sm_mix (s : N) : N :=
  let z1 := w64 (N.lxor s (N.shiftr s 30) * MIX1) in
  let z2 := w64 (N.lxor z1 (N.shiftr z1 27) * MIX2) in
  N.lxor z2 (N.shiftr z2 31).
Definition prio_at (st : N) (j : N) : N :=
  prio_of_bits (sm_mix (w64 (st + (j + 1) * GOLDEN))).

Definition topk_spec {T} (k : nat) (seed : N) (parts : list (list T)) : list T :=
  topk_sample N.ltb (prio_stream (max_len parts) (stream_state0 seed)) k parts.

(* ---------------------------------------------------------------- the stream, on primitive
   integers: a u64 word is (hi, lo), two 32-bit limbs *)
Section Fast.
  Local Open Scope uint63_scope.
  Definition mask32 : int := 4294967295.
  Definition w_add (a b : int * int) : int * int :=
    let l := snd a + snd b in
    ((fst a + fst b + (l >> 32)) land mask32, l land mask32).
  (* x ^ (x >> s), 0 < s < 32 *)
  Definition w_xorshr (a : int * int) (s : int) : int * int :=
    let '(h, l) := a in
    (h lxor (h >> s), l lxor (((h << (32 - s)) land mask32) lor (l >> s))).
  (* wrapping_mul: low 64 bits of the product; the 32x32 product of the low limbs is split so
     that nothing exceeds 63 bits, the cross products are only needed modulo 2^32 *)
  Definition w_mul (a b : int * int) : int * int :=
    let '(ah, al) := a in
    let '(bh, bl) := b in
    let t0 := al * (bl land 65535) in
    let t1 := al * (bl >> 16) in
    let lo := t0 + ((t1 land 65535) << 16) in
    ((((lo >> 32) + (t1 >> 16)) + ah * bl + al * bh) land mask32, lo land mask32).
  Definition w_of_N (x : N) : int * int :=
    (of_Z (Z.of_N (N.shiftr x 32)), of_Z (Z.of_N (N.land x 4294967295))).
  Definition wGOLDEN : int * int := w_of_N GOLDEN.
  Definition wMIX1 : int * int := w_of_N MIX1.
  Definition wMIX2 : int * int := w_of_N MIX2.
  Definition w_next (st : int * int) : (int * int) * (int * int) :=
    let s := w_add st wGOLDEN in
    let z1 := w_mul (w_xorshr s 30) wMIX1 in
    let z2 := w_mul (w_xorshr z1 27) wMIX2 in
    (s, w_xorshr z2 31).
  (* prio_of_bits: p = x >> 11 (53 bits); 0 |-> 1, p |-> 2p *)
  Definition w_prio (x : int * int) : int :=
    let p := (fst x << 21) lor (snd x >> 11) in
    if (p =? 0) then 1 else 2 * p.
  Fixpoint w_stream (n : nat) (st : int * int) : list int :=
    match n with
    | O => []
    | S n' => let '(s, x) := w_next st in w_prio x :: w_stream n' s
    end.
End Fast.

Definition topk_fast {T} (k : nat) (seed : N) (parts : list (list T)) : list T :=
  topk_sample Uint63.ltb (w_stream (max_len parts) (w_of_N (stream_state0 seed))) k parts.

(* ---------------------------------------------------------------- per key *)
Section TopKKeyed.
  Context {K T : Type}.
  Variable keqb : K -> K -> bool.

  (* the values of one key, in input order *)
  Definition key_vals (key : K) (rows : list (K * T)) : list T :=
    map snd (filter (fun kv => keqb key (fst kv)) rows).
  (* distinct keys in first-occurrence order (small key sets: linear scan) *)
  Definition key_list (rows : list (K * T)) : list K :=
    rev (fold_left (fun acc kv => if existsb (keqb (fst kv)) acc then acc else fst kv :: acc)
                   rows []).
  (* sample_values_reservoir_vec: every (partition, key) pair has its own accumulator, the
     accumulators of one key are merged in partition order; partitions without the key contribute
     an untouched `create` *)
  Definition keyed_topk (sample : nat -> N -> list (list T) -> list T)
             (k : nat) (seed : N) (parts : list (list (K * T))) : list (K * list T) :=
    map (fun key => (key, sample k seed (map (key_vals key) parts))) (key_list (concat parts)).
  (* the same sample when it feeds a join: joins.rs captures the input chain WITHOUT the planner's
     lifting, so the runner executes GroupByKey (all values of a key, in input order, whatever the
     partitioning) and then the group-wise local step: build_from_group over the whole group *)
  Definition keyed_topk_unfused (sample : nat -> N -> list (list T) -> list T)
             (k : nat) (seed : N) (parts : list (list (K * T))) : list (K * list T) :=
    map (fun key => (key, sample k seed [key_vals key (concat parts)])) (key_list (concat parts)).
End TopKKeyed.
