(* The generic combiner interface (src/collection.rs: trait CombineFn {create, add_input, merge,
   finish} and trait LiftableCombiner {build_from_group}) and what it means for a combiner to be
   LAWFUL (= mergeable).  Definitions only; the proofs are in Proofs/CombinersLawful.v.
   The engine model (Engine/*.v, properties C01/C03/C05) is proved "for every lawful combiner"
   and imports this file; C06 proves every built-in combiner lawful. *)
From Coq Require Import List Permutation.
Import ListNotations.

Record combiner (V A O : Type) := {
  c_create : A;                    (* CombineFn::create *)
  c_add    : A -> V -> A;          (* CombineFn::add_input(&mut acc, v) *)
  c_merge  : A -> A -> A;          (* CombineFn::merge(&mut acc, other) *)
  c_finish : A -> O;               (* CombineFn::finish(acc) *)
  c_build  : list V -> A           (* LiftableCombiner::build_from_group(values) *)
}.
Arguments c_create {V A O} c.
Arguments c_add {V A O} c _ _.
Arguments c_merge {V A O} c _ _.
Arguments c_finish {V A O} c _.
Arguments c_build {V A O} c _.

(* R a m : accumulator a stands for the multiset of values m.
   spec m o : o is the mathematical output for the multiset m. *)
Record lawful {V A O} (c : combiner V A O) (R : A -> list V -> Prop)
              (spec : list V -> O -> Prop) : Prop := {
  law_create : R (c_create c) nil;
  law_add    : forall a m v, R a m -> R (c_add c a v) (v :: m);
  law_merge  : forall a b m m', R a m -> R b m' -> R (c_merge c a b) (m ++ m');
  law_build  : forall vs, R (c_build c vs) vs;
  law_perm   : forall a m m', R a m -> Permutation m m' -> R a m';
  law_finish : forall a m, R a m -> spec m (c_finish c a)
}.

(* accumulate all values into one accumulator, one at a time (the "fold" of the property; also the
   default body of LiftableCombiner::build_from_group) *)
Definition fold_acc {V A O} (c : combiner V A O) (vs : list V) : A :=
  fold_left (c_add c) vs (c_create c).

(* ---- every way of producing an accumulator through the public operations ----
   An accumulator expression: a fresh accumulator, one more input added, two accumulators merged,
   or an accumulator built from a whole group. *)
Inductive aexpr (V : Type) : Type :=
| ACreate
| AAdd (e : aexpr V) (v : V)
| AMerge (l r : aexpr V)
| ABuild (vs : list V).
Arguments ACreate {V}.
Arguments AAdd {V} e v.
Arguments AMerge {V} l r.
Arguments ABuild {V} vs.

Fixpoint aeval {V A O} (c : combiner V A O) (e : aexpr V) : A :=
  match e with
  | ACreate => c_create c
  | AAdd e v => c_add c (aeval c e) v
  | AMerge l r => c_merge c (aeval c l) (aeval c r)
  | ABuild vs => c_build c vs
  end.

(* the values that went into an accumulator expression (in some order) *)
Fixpoint avalues {V} (e : aexpr V) : list V :=
  match e with
  | ACreate => []
  | AAdd e v => v :: avalues e
  | AMerge l r => avalues l ++ avalues r
  | ABuild vs => vs
  end.

(* ---- the property's wording: parts, accumulated separately, merged along a tree ----
   A leaf is one part of the input together with how it is accumulated:
   false = one value at a time (create, then add_input for each), true = build_from_group. *)
Inductive mtree (V : Type) : Type :=
| MLeaf (lifted : bool) (part : list V)
| MNode (l r : mtree V).
Arguments MLeaf {V} lifted part.
Arguments MNode {V} l r.

Definition leaf_acc {V A O} (c : combiner V A O) (lifted : bool) (part : list V) : A :=
  if lifted then c_build c part else fold_acc c part.

Fixpoint meval {V A O} (c : combiner V A O) (t : mtree V) : A :=
  match t with
  | MLeaf lifted part => leaf_acc c lifted part
  | MNode l r => c_merge c (meval c l) (meval c r)
  end.

(* the parts at the leaves, left to right *)
Fixpoint mparts {V} (t : mtree V) : list (list V) :=
  match t with
  | MLeaf _ part => [part]
  | MNode l r => mparts l ++ mparts r
  end.

(* left-nested and right-nested merge of a non-empty list of leaves:
   ((p1 + p2) + p3) + p4   and   p1 + (p2 + (p3 + p4)) *)
Fixpoint left_nested {V} (acc : mtree V) (ts : list (mtree V)) : mtree V :=
  match ts with
  | [] => acc
  | t :: r => left_nested (MNode acc t) r
  end.
Fixpoint right_nested {V} (t : mtree V) (ts : list (mtree V)) : mtree V :=
  match ts with
  | [] => t
  | t' :: r => MNode t (right_nested t' r)
  end.

(* A user-facing sufficient condition ("merge is associative and commutative with identity
   create, and add_input is merging a singleton"): a commutative monoid on the accumulator type. *)
Record comm_monoid_combiner {V A O} (c : combiner V A O) (inject : V -> A) : Prop := {
  cm_assoc   : forall a b d, c_merge c (c_merge c a b) d = c_merge c a (c_merge c b d);
  cm_comm    : forall a b, c_merge c a b = c_merge c b a;
  cm_unit    : forall a, c_merge c a (c_create c) = a;
  cm_add     : forall a v, c_add c a v = c_merge c a (inject v);
  cm_build   : forall vs, c_build c vs = fold_acc c vs
}.
(* the accumulator a commutative-monoid combiner assigns to a multiset of values *)
Definition cm_acc {V A O} (c : combiner V A O) (inject : V -> A) (m : list V) : A :=
  fold_right (fun v a => c_merge c a (inject v)) (c_create c) m.
