(* Model of `rank_from_value` of src/combiners/distinct.rs for `u64` elements:

     let mut h = DefaultHasher::new();  v.hash(&mut h);  let u = h.finish();
     NotNan::new((u as f64) / ((u64::MAX as f64) + 1.0))

   `DefaultHasher::new()` is SipHash-1-3 with the all-zero key; `u64::hash` feeds the 8 bytes of
   the value (native = little endian) through `Hasher::write`. So the hash of an element is
   SipHash-1-3(key = 0, message = the 8 little-endian bytes of v): one message block, then the
   length block (8 << 56), then the finalisation.

   64-bit words are pairs of 32-bit limbs held in Coq's primitive 63-bit integers (fast under
   vm_compute). The conversion `u as f64` (round to nearest, ties to even) is done with
   PrimFloat.of_uint63 (exact rounding of a 63-bit integer); for u >= 2^63 the lowest bit is folded
   into a sticky bit first, which does not change the rounding (53-bit significand, 11 bits are
   dropped), and the result is doubled (exact).  (u64::MAX as f64) + 1.0 = 2^64 exactly.

   Definitions only. This file is EXECUTED by the correspondence check (Corr/C15.v) and validated
   there against the ranks the harness computes with the real std DefaultHasher; no theorem of
   Props/C15.v depends on it (the KMV theorems hold for every rank function). *)
From Coq Require Import ZArith Uint63 Floats List.
Import ListNotations.

Record w64 := W64 { w_hi : int; w_lo : int }.

Section Sip.
  Local Open Scope uint63_scope.

  Definition m32 : int := 4294967295.

  (* wrapping_add *)
  Definition wadd (a b : w64) : w64 :=
    let l := w_lo a + w_lo b in
    W64 ((w_hi a + w_hi b + (l >> 32)) land m32) (l land m32).
  Definition wxor (a b : w64) : w64 := W64 (w_hi a lxor w_hi b) (w_lo a lxor w_lo b).
  (* rotate_left(n) for 0 < n < 32 *)
  Definition wrotl (n : int) (a : w64) : w64 :=
    W64 (((w_hi a << n) lor (w_lo a >> (32 - n))) land m32)
        (((w_lo a << n) lor (w_hi a >> (32 - n))) land m32).
  (* rotate_left(32) *)
  Definition wswap (a : w64) : w64 := W64 (w_lo a) (w_hi a).

  Definition sipstate : Type := (w64 * w64 * w64 * w64)%type.

  (* one SipRound (core::hash::sip compress!) *)
  Definition sipround (s : sipstate) : sipstate :=
    let '(v0, v1, v2, v3) := s in
    let v0 := wadd v0 v1 in let v1 := wrotl 13 v1 in let v1 := wxor v1 v0 in
    let v0 := wswap v0 in
    let v2 := wadd v2 v3 in let v3 := wrotl 16 v3 in let v3 := wxor v3 v2 in
    let v0 := wadd v0 v3 in let v3 := wrotl 21 v3 in let v3 := wxor v3 v0 in
    let v2 := wadd v2 v1 in let v1 := wrotl 17 v1 in let v1 := wxor v1 v2 in
    let v2 := wswap v2 in
    (v0, v1, v2, v3).

  (* absorb one 64-bit block with c_rounds = 1 *)
  Definition sipblock (s : sipstate) (m : w64) : sipstate :=
    let '(v0, v1, v2, v3) := s in
    let '(v0, v1, v2, v3) := sipround (v0, v1, v2, wxor v3 m) in
    (wxor v0 m, v1, v2, v3).

  (* "somepseudorandomlygeneratedbytes" xor key 0 *)
  Definition sip_init : sipstate :=
    (W64 1936682341 1886610805, W64 1685025377 1852075885,
     W64 1819895653 1852142177, W64 1952801890 2037671283).

  (* SipHash-1-3, key 0, of the 8-byte message m *)
  Definition siphash13_u64 (m : w64) : w64 :=
    let s := sipblock sip_init m in
    let s := sipblock s (W64 134217728 0) in            (* length 8 << 56 *)
    let '(v0, v1, v2, v3) := s in
    let v2 := wxor v2 (W64 0 255) in
    let '(v0, v1, v2, v3) := sipround (sipround (sipround (v0, v1, v2, v3))) in
    wxor (wxor v0 v1) (wxor v2 v3).

  (* `u as f64` *)
  Definition w64_to_float (u : w64) : float :=
    if (w_hi u <? 2147483648)%uint63
    then PrimFloat.of_uint63 ((w_hi u << 32) lor w_lo u)
    else PrimFloat.mul
           (PrimFloat.of_uint63 (((w_hi u << 31) lor (w_lo u >> 1)) lor (w_lo u land 1)))
           2%float.
End Sip.

(* an element 0 <= e < 2^63 as a 64-bit word *)
Definition w64_of_Z (e : Z) : w64 :=
  let i := Uint63.of_Z e in W64 (Uint63.lsr i 32) (Uint63.land i m32).
Definition Z_of_w64 (u : w64) : Z := (Uint63.to_Z (w_hi u) * 4294967296 + Uint63.to_Z (w_lo u))%Z.

(* DefaultHasher of a u64 element *)
Definition hash_u64 (e : Z) : w64 := siphash13_u64 (w64_of_Z e).

(* rank_from_value::<u64> *)
Definition rank_of_u64 (e : Z) : float :=
  PrimFloat.div (w64_to_float (hash_u64 e)) 0x1p+64%float.
