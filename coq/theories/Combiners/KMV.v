(* Model of the KMV sketch of src/combiners/distinct.rs (KMVAcc::{try_insert, merge_from, finish},
   KMVApproxDistinctCount::{new, create, add_input, merge, finish, build_from_group}).
   Ranks are an abstract type with a Boolean strict order `ltb` and equality `eqb`
   (NotNan<f64> in the code; rank_from_value = DefaultHasher(v) as f64 / 2^64 is passed to the
   model as data). Definitions only; proofs are in Proofs/KMVProofs.v.

   Representation: `heap: BinaryHeap<NotNan<f64>>` (a max-heap) is modelled by its content as an
   ASCENDING list (heap.peek() = the last element, pop removes the last element, push inserts
   in order; the priority-queue contract of BinaryHeap is assumed, not proved).
   `set: HashSet<NotNan<f64>>` always holds exactly the heap's content when k >= 1 (try_insert
   inserts into / removes from both in step; `KMVApproxDistinctCount::new` clamps k to >= 4), so
   the model keeps one list for both: `set.insert(r)` fails <-> r is in the list;
   `set.len()` = its length. *)
From Coq Require Import List Bool Arith.
From IB Require Import Combiners.Lawful.
Import ListNotations.

Record kmv (R : Type) := { k_items : list R; k_k : nat }.
Arguments k_items {R} _. Arguments k_k {R} _.

(* result of KMVAcc::finish before conversion to f64:
   KCount m      = `m as f64`            (m = 0, or fewer than k distinct ranks: exact count)
   KEstimate k r = `(k as f64 - 1.0) / r` (r = the k-th smallest rank = heap.peek()) *)
Inductive kmv_out (R : Type) : Type :=
| KCount (m : nat)
| KEstimate (k : nat) (rk : R).
Arguments KCount {R} m. Arguments KEstimate {R} k rk.

Section KMV.
  Context {R : Type} (ltb eqb : R -> R -> bool).

  (* KMVApproxDistinctCount::new(k) (k.max(4)) followed by create() *)
  Definition kmv_new (k : nat) : kmv R := {| k_items := []; k_k := Nat.max k 4 |}.

  Definition kmv_mem (r : R) (l : list R) : bool := existsb (eqb r) l.

  (* BinaryHeap::push on the ascending content list *)
  Fixpoint kmv_push (r : R) (l : list R) : list R :=
    match l with
    | [] => [r]
    | y :: t => if ltb r y then r :: l else y :: kmv_push r t
    end.

  (* split off the last element (the heap's maximum): Some (rest, max) *)
  Fixpoint unsnoc (l : list R) : option (list R * R) :=
    match l with
    | [] => None
    | x :: t => match unsnoc t with
                | None => Some ([], x)
                | Some (i, z) => Some (x :: i, z)
                end
    end.

  (* KMVAcc::try_insert *)
  Definition try_insert (a : kmv R) (r : R) : kmv R :=
    if kmv_mem r (k_items a) then a                               (* !set.insert(r) *)
    else if length (k_items a) <? k_k a
    then {| k_items := kmv_push r (k_items a); k_k := k_k a |}    (* heap.len() < k *)
    else match unsnoc (k_items a) with
         | Some (rest, rk) =>                                     (* heap.peek() *)
             if ltb r rk
             then {| k_items := kmv_push r rest; k_k := k_k a |}  (* pop, push *)
             else a                                               (* forget r *)
         | None => a               (* k = 0: excluded by the constructor's k.max(4) *)
         end.

  (* KMVAcc::merge_from: pops other's heap (largest first) and try_inserts each *)
  Definition merge_from (a other : kmv R) : kmv R :=
    fold_left try_insert (rev (k_items other)) a.

  (* KMVAcc::finish *)
  Definition kmv_finish (a : kmv R) : kmv_out R :=
    let m := length (k_items a) in
    if m =? 0 then KCount 0
    else if m <? k_k a then KCount m
    else match unsnoc (k_items a) with
         | Some (_, rk) => KEstimate (k_k a) rk
         | None => KCount 0
         end.

  (* build_from_group / a partition's local accumulation *)
  Definition kmv_build (k : nat) (rs : list R) : kmv R := fold_left try_insert rs (kmv_new k).

  (* ---- the specification: the k smallest distinct ranks ---- *)
  (* insertion into an ASCENDING duplicate-free list *)
  Fixpoint uinsert (r : R) (l : list R) : list R :=
    match l with
    | [] => [r]
    | y :: t => if ltb r y then r :: l else if eqb r y then l else y :: uinsert r t
    end.
  (* the distinct ranks of a list, ascending *)
  Definition usort (l : list R) : list R := fold_right uinsert [] l.
  (* the k smallest distinct ranks, ascending *)
  Definition ksmallest (k : nat) (l : list R) : list R := firstn k (usort l).
  (* what finish should return for the multiset of ranks l and sketch size k *)
  Definition kmv_spec (k : nat) (l : list R) : kmv_out R :=
    let u := usort l in
    if length u <? k then KCount (length u)
    else match nth_error u (k - 1) with
         | Some rk => KEstimate k rk
         | None => KCount 0
         end.

  (* ---- the same specification computed in O(n log n): bottom-up merge sort, then removal of
     adjacent duplicates. Proved equal to `usort` / `kmv_spec` in Proofs/KMVProofs.v
     (usort_fast_eq, kmv_fast_eq); the correspondence check uses it for sketch sizes in the
     thousands, where running try_insert d times (O(d*k)) is too slow under vm_compute. ---- *)
  Fixpoint kmerge (a : list R) : list R -> list R :=
    match a with
    | [] => fun b => b
    | x :: a' =>
        fix inner (b : list R) : list R :=
          match b with
          | [] => a
          | y :: b' => if ltb y x then y :: inner b' else x :: kmerge a' b
          end
    end.
  Fixpoint kpairs (l : list (list R)) : list (list R) :=
    match l with
    | a :: b :: r => kmerge a b :: kpairs r
    | _ => l
    end.
  (* `fuel` rounds of pairwise merging; whatever is left is merged one by one (so the result is
     correct for every fuel; with fuel >= log2 (length l) nothing is left) *)
  Fixpoint kmsort_fuel (fuel : nat) (l : list (list R)) : list R :=
    match fuel with
    | O => fold_right kmerge [] l
    | S f => match l with
             | [] => []
             | [a] => a
             | _ => kmsort_fuel f (kpairs l)
             end
    end.
  Definition kmsort (l : list R) : list R := kmsort_fuel 64 (map (fun x => [x]) l).
  (* drop adjacent equal elements of an ascending list *)
  Fixpoint kdedup (l : list R) : list R :=
    match l with
    | a :: ((b :: _) as r) => if eqb a b then kdedup r else a :: kdedup r
    | _ => l
    end.
  Definition usort_fast (l : list R) : list R := kdedup (kmsort l).
  Definition kmv_fast (k : nat) (l : list R) : kmv_out R :=
    let u := usort_fast l in
    if length u <? k then KCount (length u)
    else match nth_error u (k - 1) with
         | Some rk => KEstimate k rk
         | None => KCount 0
         end.

  (* KMVApproxDistinctCount<T> as a combiner over ranks (CombineFn + LiftableCombiner) *)
  Definition kmv_combiner (k : nat) : combiner R (kmv R) (kmv_out R) :=
    {| c_create := kmv_new k; c_add := try_insert; c_merge := merge_from;
       c_finish := kmv_finish; c_build := kmv_build k |}.
End KMV.
