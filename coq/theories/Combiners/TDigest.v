(* Model of src/combiners/quantiles.rs (TDigest, ApproxQuantiles, ApproxMedian).
   ONE model text, written once over an arithmetic record `arith T`; two instances:
     - the EXACT instance below (`xarith`, carrier X = rationals + {+inf, -inf, NaN}), which the
       theorems of Props/C15.v are about;
     - the FLOAT instance (Combiners/TDigestFloat.v: Coq primitive binary64 floats, fused
       multiply-add through Flocq's Bfma), which the correspondence check runs, bit for bit,
       against the real code.
   Definitions only; proofs are in Proofs/TDigest*.v. *)
From Coq Require Import List Bool Arith QArith Qabs.
From IB Require Import Combiners.Lawful.
Import ListNotations.

(* ------------------------------------------------------------------ arithmetic interface
   exactly the f64 operations quantiles.rs uses *)
Record arith (T : Type) := {
  a_add : T -> T -> T;
  a_sub : T -> T -> T;
  a_mul : T -> T -> T;
  a_div : T -> T -> T;
  a_fma : T -> T -> T -> T;        (* x.mul_add(y, z) = x*y + z, one rounding *)
  a_ltb : T -> T -> bool;          (* <  (false when either side is NaN) *)
  a_leb : T -> T -> bool;          (* <= *)
  a_eqb : T -> T -> bool;          (* == *)
  a_min : T -> T -> T;             (* f64::min (a NaN operand is ignored) *)
  a_max : T -> T -> T;             (* f64::max *)
  a_abs : T -> T;
  a_is_finite : T -> bool;
  a_of_nat : nat -> T;             (* usize as f64 *)
  a_zero : T; a_one : T; a_two : T; a_half : T;
  a_eps : T;                       (* f64::EPSILON = 2^-52 *)
  a_pinf : T; a_ninf : T; a_nan : T
}.
Arguments a_add {T} a _ _. Arguments a_sub {T} a _ _. Arguments a_mul {T} a _ _.
Arguments a_div {T} a _ _. Arguments a_fma {T} a _ _ _. Arguments a_ltb {T} a _ _.
Arguments a_leb {T} a _ _. Arguments a_eqb {T} a _ _. Arguments a_min {T} a _ _.
Arguments a_max {T} a _ _. Arguments a_abs {T} a _. Arguments a_is_finite {T} a _.
Arguments a_of_nat {T} a _. Arguments a_zero {T} a. Arguments a_one {T} a.
Arguments a_two {T} a. Arguments a_half {T} a. Arguments a_eps {T} a. Arguments a_pinf {T} a.
Arguments a_ninf {T} a. Arguments a_nan {T} a.

(* struct TDigest { compression, centroids: Vec<Centroid{mean, weight}>, total_weight, min, max } *)
Record digest (T : Type) := {
  d_comp : T;
  d_cents : list (T * T);          (* (mean, weight) *)
  d_total : T;
  d_min : T;
  d_max : T
}.
Arguments d_comp {T} d. Arguments d_cents {T} d. Arguments d_total {T} d.
Arguments d_min {T} d. Arguments d_max {T} d.

(* every way of producing a digest through the public operations (TDigest::new / add /
   add_weighted / merge, and the `compress` that finish / build_from_group perform) *)
Inductive prog (T : Type) : Type :=
| PNew (c : T)
| PAdd (p : prog T) (v : T)
| PAddW (p : prog T) (v w : T)
| PMerge (p1 p2 : prog T)
| PCompress (p : prog T).
Arguments PNew {T} c. Arguments PAdd {T} p v. Arguments PAddW {T} p v w.
Arguments PMerge {T} p1 p2. Arguments PCompress {T} p.

Section Model.
  Context {T : Type} (A : arith T).

  Local Notation "x +! y" := (a_add A x y) (at level 50, left associativity).
  Local Notation "x -! y" := (a_sub A x y) (at level 50, left associativity).
  Local Notation "x *! y" := (a_mul A x y) (at level 40, left associativity).
  Local Notation "x /! y" := (a_div A x y) (at level 40, left associativity).

  (* f64::clamp(lo, hi): if x < lo { lo } else if x > hi { hi } else { x }  (NaN stays NaN) *)
  Definition clamp (x lo hi : T) : T :=
    if a_ltb A x lo then lo else if a_ltb A hi x then hi else x.

  (* TDigest::new *)
  Definition td_new (c : T) : digest T :=
    {| d_comp := c; d_cents := []; d_total := a_zero A; d_min := a_pinf A; d_max := a_ninf A |}.

  (* TDigest::k_size:  (compression * q * (1.0 - q) / 2.0).max(1.0)  with q clamped to [0,1] *)
  Definition k_size (c q : T) : T :=
    let q := clamp q (a_zero A) (a_one A) in
    a_max A (c *! q *! (a_one A -! q) /! a_two A) (a_one A).

  (* sort_by(|a, b| a.mean.partial_cmp(&b.mean).unwrap_or(Equal)): a stable sort; modelled as the
     stable insertion sort (an element goes before the first element that is not smaller) *)
  Fixpoint insert_c (x : T * T) (l : list (T * T)) : list (T * T) :=
    match l with
    | [] => [x]
    | y :: r => if a_ltb A (fst y) (fst x) then y :: insert_c x r else x :: l
    end.
  Fixpoint sort_c (l : list (T * T)) : list (T * T) :=
    match l with [] => [] | x :: r => insert_c x (sort_c r) end.

  (* loop state of `compress`: (compressed, reversed; cumulative_weight; current) *)
  Definition cstate : Type := (list (T * T) * T * (T * T))%type.

  Definition compress_step (c total dmin dmax : T) (st : cstate) (cen : T * T) : cstate :=
    let '(comp, cum, cur) := st in
    let proposed := snd cur +! snd cen in
    let q0 := cum /! total in
    let q1 := (cum +! proposed) /! total in
    let k_limit := a_min A (k_size c q0) (k_size c q1) in
    if a_leb A proposed k_limit then
      let merged := a_fma A (fst cur) (snd cur) (fst cen *! snd cen) /! proposed in
      let mean :=
        if a_is_finite A merged then merged
        else
          (* the weighted sum overflowed (values near f64::MAX): convex combination, clamped *)
          clamp (fst cur *! (snd cur /! proposed) +! fst cen *! (snd cen /! proposed)) dmin dmax in
      (comp, cum, (mean, proposed))
    else
      (cur :: comp, cum +! snd cur, cen).

  (* the centroid list after TDigest::compress *)
  Definition compress_cents (c total dmin dmax : T) (cents : list (T * T)) : list (T * T) :=
    match sort_c cents with
    | [] => []
    | first :: rest =>
        let '(comp, _, cur) := fold_left (compress_step c total dmin dmax) rest ([], a_zero A, first) in
        rev (cur :: comp)
    end.

  (* TDigest::compress *)
  Definition td_compress (d : digest T) : digest T :=
    match d_cents d with
    | [] => d
    | _ => {| d_comp := d_comp d; d_cents := compress_cents (d_comp d) (d_total d) (d_min d) (d_max d) (d_cents d);
              d_total := d_total d; d_min := d_min d; d_max := d_max d |}
    end.

  (* TDigest::add_weighted *)
  Definition td_add_weighted (d : digest T) (value weight : T) : digest T :=
    if negb (a_is_finite A value) then d
    else
      let d1 := {| d_comp := d_comp d; d_cents := d_cents d ++ [(value, weight)];
                   d_total := d_total d +! weight;
                   d_min := a_min A (d_min d) value; d_max := a_max A (d_max d) value |} in
      if a_ltb A (d_comp d *! a_two A) (a_of_nat A (length (d_cents d1)))
      then td_compress d1 else d1.

  (* TDigest::add *)
  Definition td_add (d : digest T) (value : T) : digest T := td_add_weighted d value (a_one A).

  (* TDigest::merge *)
  Definition td_merge (d other : digest T) : digest T :=
    if a_eqb A (d_total other) (a_zero A) then d
    else td_compress
      {| d_comp := d_comp d; d_cents := d_cents d ++ d_cents other;
         d_total := d_total d +! d_total other;
         d_min := a_min A (d_min d) (d_min other); d_max := a_max A (d_max d) (d_max other) |}.

  (* the `for i in 0..len` loop of TDigest::quantile; `left` is min for i = 0 and the previous
     centroid's mean afterwards *)
  Fixpoint q_loop (dmin dmax left : T) (cs : list (T * T)) (cum target : T) : T :=
    match cs with
    | [] => dmax
    | (m, w) :: rest =>
        let next := cum +! w in
        if a_leb A target next then
          if a_ltb A (a_abs A (next -! cum)) (a_eps A) then m
          else
            let fraction := (target -! cum) /! w in
            let right := match rest with [] => dmax | (m', _) :: _ => m' end in
            let span := right -! left in
            let estimate :=
              if a_is_finite A span then left +! fraction *! span
              else left *! (a_one A -! fraction) +! right *! fraction in   (* span overflowed *)
            (* .clamp(self.min, self.max): rounding must not leave the observed range *)
            clamp estimate dmin dmax
        else q_loop dmin dmax m rest next target
    end.

  (* TDigest::quantile *)
  Definition td_quantile (d : digest T) (q : T) : T :=
    match d_cents d with
    | [] => a_nan A
    | _ =>
        let q := clamp q (a_zero A) (a_one A) in
        if a_leb A (a_abs A (q -! a_zero A)) (a_eps A) || (length (d_cents d) =? 1)%nat
        then d_min d
        else if a_leb A (a_abs A (q -! a_one A)) (a_eps A) then d_max d
        else q_loop (d_min d) (d_max d) (d_min d) (d_cents d) (a_zero A) (q *! d_total d)
    end.

  (* TDigest::quantiles *)
  Definition td_quantiles (d : digest T) (qs : list T) : list T := map (td_quantile d) qs.

  (* the loop of TDigest::cdf *)
  Fixpoint cdf_loop (total value prev : T) (cs : list (T * T)) (cum : T) : T :=
    match cs with
    | [] => cum /! total
    | (m, w) :: rest =>
        if a_ltb A value m then
          let fraction := (value -! prev) /! a_max A (m -! prev) (a_eps A) in
          a_fma A fraction w cum /! total
        else cdf_loop total value m rest (cum +! w)
    end.

  (* TDigest::cdf *)
  Definition td_cdf (d : digest T) (value : T) : T :=
    match d_cents d with
    | [] => a_zero A
    | _ =>
        if a_ltb A value (d_min d) then a_zero A
        else if a_leb A (d_max d) value then a_one A
        else cdf_loop (d_total d) value (d_min d) (d_cents d) (a_zero A)
    end.

  (* TDigest::count / is_empty *)
  Definition td_count (d : digest T) : T := d_total d.
  Definition td_is_empty (d : digest T) : bool := a_eqb A (d_total d) (a_zero A).

  (* ApproxQuantiles::finish *)
  Definition aq_finish (qs : list T) (d : digest T) : list T :=
    if td_is_empty d then map (fun _ => a_nan A) qs
    else td_quantiles (td_compress d) qs.

  (* ApproxMedian::finish *)
  Definition am_finish (d : digest T) : T :=
    if td_is_empty d then a_nan A else td_quantile (td_compress d) (a_half A).

  (* ApproxQuantiles / ApproxMedian :: build_from_group *)
  Definition aq_build (c : T) (vs : list T) : digest T :=
    td_compress (fold_left td_add vs (td_new c)).

  (* the f64 literal n/100 (a correctly rounded decimal literal = the correctly rounded quotient
     of the two exactly representable integers) *)
  Definition a_pct (n : nat) : T := a_of_nat A n /! a_of_nat A 100.

  (* the q lists of the convenience constructors ApproxQuantiles::five_number_summary,
     ::percentiles, ::median *)
  Definition qs_five_number : list T := [a_zero A; a_pct 25; a_half A; a_pct 75; a_one A].
  Definition qs_percentiles : list T :=
    [a_pct 1; a_pct 5; a_pct 10; a_pct 25; a_pct 50; a_pct 75; a_pct 90; a_pct 95; a_pct 99].
  Definition qs_median : list T := [a_half A].
  (* ApproxMedian::default(): compression 100 *)
  Definition am_default_compression : T := a_of_nat A 100.

  (* ApproxQuantiles::new(qs, c) and ApproxMedian::new(c) as combiners (CombineFn + LiftableCombiner) *)
  Definition aq_combiner (qs : list T) (c : T) : combiner T (digest T) (list T) :=
    {| c_create := td_new c; c_add := td_add; c_merge := td_merge;
       c_finish := aq_finish qs; c_build := aq_build c |}.
  Definition am_combiner (c : T) : combiner T (digest T) T :=
    {| c_create := td_new c; c_add := td_add; c_merge := td_merge;
       c_finish := am_finish; c_build := aq_build c |}.

  Fixpoint run (p : prog T) : digest T :=
    match p with
    | PNew c => td_new c
    | PAdd p v => td_add (run p) v
    | PAddW p v w => td_add_weighted (run p) v w
    | PMerge p1 p2 => td_merge (run p1) (run p2)
    | PCompress p => td_compress (run p)
    end.
End Model.

(* ------------------------------------------------------------------ the exact instance *)
Inductive X : Type := Fin (q : Q) | PInf | NInf | NaN.

(* Finite operands: exact rational arithmetic. A non-finite operand of + - * / fma yields NaN
   (a simplification of IEEE that no theorem depends on: under the invariants every operand
   of these operations is finite, except a user-supplied q that is NaN or infinite, which clamp
   and the comparisons treat as IEEE does). x / 0 is NaN.
   The two overflow fallbacks of the code (compress: `merged.is_finite()`, quantile:
   `span.is_finite()`, commit 731af2a) are dead code in this instance: `xfinite (Fin _) = true` and
   under the digest invariant every operand is `Fin` (Proofs/TDigestCompress.v, TDigestQuantile.v
   take the first branch by computation). *)
Definition xlift2 (f : Q -> Q -> Q) (a b : X) : X :=
  match a, b with Fin x, Fin y => Fin (f x y) | _, _ => NaN end.
Definition xdiv (a b : X) : X :=
  match a, b with
  | Fin x, Fin y => if Qeq_bool y 0 then NaN else Fin (x / y)
  | _, _ => NaN
  end.
Definition xfma (a b c : X) : X :=
  match a, b, c with Fin x, Fin y, Fin z => Fin (x * y + z) | _, _, _ => NaN end.
Definition qltb (x y : Q) : bool := negb (Qle_bool y x).
Definition xltb (a b : X) : bool :=
  match a, b with
  | Fin x, Fin y => qltb x y
  | NInf, Fin _ | NInf, PInf | Fin _, PInf => true
  | _, _ => false
  end.
Definition xleb (a b : X) : bool :=
  match a, b with
  | Fin x, Fin y => Qle_bool x y
  | NInf, Fin _ | NInf, PInf | Fin _, PInf | NInf, NInf | PInf, PInf => true
  | _, _ => false
  end.
Definition xeqb (a b : X) : bool :=
  match a, b with
  | Fin x, Fin y => Qeq_bool x y
  | NInf, NInf | PInf, PInf => true
  | _, _ => false
  end.
(* f64::min / f64::max: a NaN operand is ignored *)
Definition xmin (a b : X) : X :=
  match a, b with
  | NaN, _ => b
  | _, NaN => a
  | _, _ => if xltb b a then b else a
  end.
Definition xmax (a b : X) : X :=
  match a, b with
  | NaN, _ => b
  | _, NaN => a
  | _, _ => if xltb a b then b else a
  end.
Definition xabs (a : X) : X :=
  match a with Fin x => Fin (Qabs x) | PInf | NInf => PInf | NaN => NaN end.
Definition xfinite (a : X) : bool := match a with Fin _ => true | _ => false end.
Definition qpow2 (n : positive) : Q := Qmake 1 (Pos.pow 2 n).

Definition xarith : arith X := {|
  a_add := xlift2 Qplus; a_sub := xlift2 Qminus; a_mul := xlift2 Qmult; a_div := xdiv;
  a_fma := xfma; a_ltb := xltb; a_leb := xleb; a_eqb := xeqb; a_min := xmin; a_max := xmax;
  a_abs := xabs; a_is_finite := xfinite;
  a_of_nat := fun n => Fin (inject_Z (Z.of_nat n));
  a_zero := Fin 0; a_one := Fin 1; a_two := Fin 2; a_half := Fin (1 # 2);
  a_eps := Fin (qpow2 52); a_pinf := PInf; a_ninf := NInf; a_nan := NaN |}.

(* ------------------------------------------------------------------ vocabulary of the theorems
   (exact instance) *)
(* the finite (value, weight) pairs a program feeds into its digest; TDigest::add uses weight 1 *)
Fixpoint inputs (p : prog X) : list (Q * Q) :=
  match p with
  | PNew _ => []
  | PAdd p v => match v with Fin x => (x, 1%Q) :: inputs p | _ => inputs p end
  | PAddW p v w => match v, w with Fin x, Fin y => (x, y) :: inputs p | _, _ => inputs p end
  | PMerge a b => inputs a ++ inputs b
  | PCompress p => inputs p
  end.
(* every explicit weight is a rational >= 1 *)
Fixpoint wf_prog (p : prog X) : Prop :=
  match p with
  | PNew _ => True
  | PAdd p _ => wf_prog p
  | PAddW p _ w => wf_prog p /\ exists y, w = Fin y /\ (1 <= y)%Q
  | PMerge a b => wf_prog a /\ wf_prog b
  | PCompress p => wf_prog p
  end.
(* lo is the smallest / hi the largest value of a non-empty input list (up to ==) *)
Definition is_lo (lo : Q) (l : list (Q * Q)) : Prop :=
  (exists p, In p l /\ (fst p == lo)%Q) /\ forall p, In p l -> (lo <= fst p)%Q.
Definition is_hi (hi : Q) (l : list (Q * Q)) : Prop :=
  (exists p, In p l /\ (fst p == hi)%Q) /\ forall p, In p l -> (fst p <= hi)%Q.
Definition wsum (l : list (Q * Q)) : Q := fold_right (fun p s => (snd p + s)%Q) 0%Q l.
(* order and equality on X restricted to what the theorems say *)
Definition xle (a b : X) : Prop :=
  match a, b with Fin x, Fin y => (x <= y)%Q | _, _ => False end.
Definition xeq (a b : X) : Prop :=
  match a, b with Fin x, Fin y => (x == y)%Q | PInf, PInf | NInf, NInf | NaN, NaN => True
  | _, _ => False end.

(* ---- vocabulary for the pipeline theorems (Proofs/TDigestPipe.v): the sketch combiners as
   combiners in the sense of Combiners/Lawful.v over the exact instance ---- *)
(* the finite values of a list of inputs, each with the weight 1 that TDigest::add gives it *)
Definition fin_inputs (m : list X) : list (Q * Q) :=
  flat_map (fun v => match v with Fin x => [(x, 1%Q)] | _ => [] end) m.
(* one estimate x for the inputs m: NaN when there is no finite input, else a rational between
   the smallest and the largest finite input *)
Definition est_in_range (m : list X) (x : X) : Prop :=
  (fin_inputs m = [] /\ x = NaN) \/
  (exists lo hi v, is_lo lo (fin_inputs m) /\ is_hi hi (fin_inputs m) /\ x = Fin v /\ (lo <= v <= hi)%Q).
(* the estimate x for the requested q: as above and, in addition, EXACTLY the smallest finite
   input when q <= 0 and the largest when q >= 1 *)
Definition est_for (m : list X) (q x : X) : Prop :=
  (fin_inputs m = [] /\ x = NaN) \/
  (exists lo hi v, is_lo lo (fin_inputs m) /\ is_hi hi (fin_inputs m) /\ x = Fin v /\
                   (lo <= v <= hi)%Q /\
                   (xleb q (Fin 0) = true -> v = lo) /\
                   (xleb (Fin 1) q = true -> (v == hi)%Q)).
(* what ApproxQuantiles / ApproxMedian owe for the inputs m: one estimate per requested q, in the
   order of the request *)
Definition aq_spec (qs : list X) (m : list X) (o : list X) : Prop := Forall2 (est_for m) qs o.
Definition am_spec (m : list X) (o : X) : Prop := est_in_range m o.
