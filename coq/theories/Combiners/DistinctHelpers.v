(* Model of the exact-distinct helpers of src/helpers/distinct.rs, on top of the pipeline model
   (Combiners/SketchPipe.v) and the DistinctSet combiner (Combiners/Distinct.v):

     PCollection::distinct()         = combine_globally(DistinctSet::default(), None)
                                         .flat_map(|vs| vs.clone())
     PCollection::distinct_per_key() = group_by_key().combine_values_lifted(DistinctSet::default())
                                         .flat_map(|(k, vs)| vs -> (k, v))
                                       (the planner drops the GroupByKey and runs the classic
                                        per-pair local: combine_values)

   The order of the output rows is the HashSet's iteration order (arbitrary); nothing below
   depends on it. Definitions only; proofs in Proofs/DistinctHelpersProofs.v. *)
From Coq Require Import List Bool.
From IB Require Import Combiners.Lawful Combiners.Distinct Combiners.SketchPipe.
Import ListNotations.

Section DistinctHelpers.
  Context {T K : Type} (eqb : T -> T -> bool) (keqb : K -> K -> bool).

  (* the rows of from_vec(rows).distinct(), collected with `parts` partitions *)
  Definition distinct_rows (parts : nat) (rows : list T) : list T :=
    combine_globally (distinct_set_combiner eqb) false 0 parts rows.

  (* the values v of the rows (key, v) of from_vec(rows).distinct_per_key() *)
  Definition distinct_per_key_rows (key : K) (parts : nat) (rows : list (K * T)) : list T :=
    match combine_values (distinct_set_combiner eqb) keqb key parts rows with
    | Some vs => vs
    | None => []
    end.
End DistinctHelpers.
