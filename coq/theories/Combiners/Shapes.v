(* Compactly described LARGE inputs and call shapes for the combiner models (C06 "big" cases).
   Definitions only (proofs: Proofs/CombinersShapes.v).

   The harness (harness/src/bin/c06.rs) and the correspondence (Corr/C06.v) describe a group of
   thousands of values by six integers and a way of cutting it into parts by three more; the
   real CombineFn / LiftableCombiner code is run on the expanded values, the models below on the
   very same expansion.

     gen_values start n a b m off = [ ((a*i + b) mod m) + off | i = start .. start+n-1 ]
       (a = 1, m large: ascending run; a = m-1: descending; a = 0: constant; m small: few distinct
        values, many ties; a large and odd, m prime: scrambled)

     chunked mode nest psize vs : vs is cut into consecutive chunks of psize values (the last one
       shorter), chunk i becomes a leaf accumulated by build_from_group or by create + add_input
       (leaf modes as in Corr/C06.v: 0 all add, 1 all build, 2 even chunks build), and the leaves
       are merged left-nested, right-nested or along a balanced tree. *)
From Coq Require Import List ZArith.
From IB Require Import Combiners.Lawful.
Import ListNotations.
Open Scope Z_scope.

(* computed incrementally: x_start = (a*start + b) mod m, x_{i+1} = (x_i + a) mod m with a single
   conditional subtraction (Proofs/CombinersShapes.v: gen_values_closed_form) *)
Fixpoint gen_from (n : nat) (x a' m off : Z) : list Z :=
  match n with
  | O => []
  | S n' => (x + off) :: gen_from n' (let y := x + a' in if y <? m then y else y - m) a' m off
  end.
Definition gen_values (start : Z) (n : nat) (a b m off : Z) : list Z :=
  gen_from n ((a * start + b) mod m) (a mod m) m off.

(* create, then add_input for each value: the accumulator expression of the plain fold *)
Definition fold_expr {V} (vs : list V) : aexpr V := fold_left AAdd vs ACreate.

(* one part, accumulated the lifted (build_from_group) or the unlifted way *)
Definition leaf_expr {V} (lifted : bool) (part : list V) : aexpr V :=
  if lifted then ABuild part else fold_expr part.

(* consecutive chunks of psize values; fuel = an upper bound on the number of chunks *)
Fixpoint chunks_fuel {V} (fuel psize : nat) (l : list V) : list (list V) :=
  match fuel with
  | O => []
  | S f => match l with
           | [] => []
           | _ => firstn psize l :: chunks_fuel f psize (skipn psize l)
           end
  end.
Definition chunks {V} (psize : nat) (l : list V) : list (list V) :=
  chunks_fuel (length l) (Nat.max 1 psize) l.

Definition chunk_lifted (mode : nat) (i : nat) : bool :=
  match mode with O => false | S O => true | _ => Nat.even i end.
Fixpoint leaf_exprs_from {V} (mode i : nat) (parts : list (list V)) : list (aexpr V) :=
  match parts with
  | [] => []
  | p :: r => leaf_expr (chunk_lifted mode i) p :: leaf_exprs_from mode (S i) r
  end.

(* ((e1 + e2) + e3) + e4 *)
Definition nest_left {V} (es : list (aexpr V)) : aexpr V :=
  match es with
  | [] => ACreate
  | e :: r => fold_left AMerge r e
  end.
(* e1 + (e2 + (e3 + e4)) *)
Fixpoint nest_right_from {V} (e : aexpr V) (es : list (aexpr V)) : aexpr V :=
  match es with
  | [] => e
  | e' :: r => AMerge e (nest_right_from e' r)
  end.
Definition nest_right {V} (es : list (aexpr V)) : aexpr V :=
  match es with
  | [] => ACreate
  | e :: r => nest_right_from e r
  end.
(* balanced: the first ceil(n/2) leaves against the rest, recursively *)
Fixpoint nest_balanced_fuel {V} (fuel : nat) (es : list (aexpr V)) : aexpr V :=
  match fuel with
  | O => nest_left es
  | S f =>
      match es with
      | [] => ACreate
      | [e] => e
      | _ => let h := Nat.div2 (S (length es)) in
             AMerge (nest_balanced_fuel f (firstn h es)) (nest_balanced_fuel f (skipn h es))
      end
  end.
Definition nest_balanced {V} (es : list (aexpr V)) : aexpr V := nest_balanced_fuel (length es) es.

(* nest: 0 left-nested, 1 right-nested, otherwise balanced *)
Definition nest_exprs {V} (nest : nat) (es : list (aexpr V)) : aexpr V :=
  match nest with
  | O => nest_left es
  | S O => nest_right es
  | _ => nest_balanced es
  end.

Definition chunked {V} (mode nest psize : nat) (vs : list V) : aexpr V :=
  nest_exprs nest (leaf_exprs_from mode 0 (chunks psize vs)).

(* every merge tree is an accumulator expression *)
Fixpoint aexpr_of_mtree {V} (t : mtree V) : aexpr V :=
  match t with
  | MLeaf lifted part => leaf_expr lifted part
  | MNode l r => AMerge (aexpr_of_mtree l) (aexpr_of_mtree r)
  end.

(* the same call shape over other values (element types that embed into the model's: value codes
   of floats, rationals num/den, order-preserving keys) *)
Definition map_tree {X Y} (f : X -> Y) : mtree X -> mtree Y :=
  fix go t := match t with
              | MLeaf b p => MLeaf b (map f p)
              | MNode l r => MNode (go l) (go r)
              end.
Definition map_aexpr {X Y} (f : X -> Y) : aexpr X -> aexpr Y :=
  fix go e := match e with
              | ACreate => ACreate
              | AAdd e v => AAdd (go e) (f v)
              | AMerge l r => AMerge (go l) (go r)
              | ABuild vs => ABuild (map f vs)
              end.
