(* Model of src/combiners/sampling.rs (PriorityReservoir / PRAcc / SplitMix64) and of the way the
   four sampling entry points of src/helpers/sampling.rs drive it through
   src/helpers/combine_global.rs (combine_globally, fanout = None), src/helpers/combine.rs
   (group_by_key + combine_values_lifted, which planner.rs: lift_gbk_then_combine always rewrites
   to ONE CombineValues node that runs `local_pairs`), src/runner.rs (exec_seq / exec_par) and
   src/type_token.rs (VecOpsImpl::split).  Definitions only; proofs are in Proofs/Reservoir*.v.

   Representation choices (all order-/bit-exact, validated by Corr/C14.v):
   * u64 arithmetic is arithmetic on N followed by an explicit `mod 2^64`.
   * The priority `u = ((next_u64() >> 11) as f64) * 2^-53`, replaced by `f64::from_bits(1)`
     (= 2^-1074) when it is 0.0, is represented by the integer `prio_of_bits`:
       p = next >> 11 (53 bits);  p >= 1 |-> 2*p;  p = 0 |-> 1.
     `p as f64` and the scaling by 2^-53 are exact (p < 2^53, result >= 2^-53 is normal), so
     u = p * 2^-53, and 0 < 2^-1074 < 1 * 2^-53: the map u |-> integer is strictly monotone and
     injective, `OrdF64`'s total_cmp on positive floats is the numeric order.  The replacement
     value can tie only with another replaced 0.
   * `BinaryHeap<Reverse<(OrdF64, u64, usize)>>` is the abstract priority queue it implements: a
     finite multiset of entries (a list in arbitrary order) whose `pop()` removes the minimum of
     the derived lexicographic order on (key, seq, idx).  The array shape of the binary heap is
     not observable (entries of one heap always differ in idx, so the minimum is unique).
   * `seq: u64` and the `usize` fields are `nat` (overflow needs 2^64 insertions).  *)
From Coq Require Import List NArith Arith Bool.
Import ListNotations.

(* ---------------------------------------------------------------- SplitMix64 *)
Definition two64 : N := 18446744073709551616%N.
Definition w64 (x : N) : N := N.modulo x two64.
Definition GOLDEN : N := 0x9E3779B97F4A7C15%N.
Definition MIX1 : N := 0xBF58476D1CE4E5B9%N.
Definition MIX2 : N := 0x94D049BB133111EB%N.
Definition SEEDMUL : N := 0xA24BAED40B9C497C%N.

(* SplitMix64::next_u64: (new state, output) *)
Definition sm_next (state : N) : N * N :=
  let s := w64 (state + GOLDEN) in
  let z1 := w64 (N.lxor s (N.shiftr s 30) * MIX1) in
  let z2 := w64 (N.lxor z1 (N.shiftr z1 27) * MIX2) in
  (s, N.lxor z2 (N.shiftr z2 31)).

(* next_f64 followed by `if u == 0.0 { u = f64::from_bits(1) }`, as an order-isomorphic integer *)
Definition prio_of_bits (x : N) : N :=
  let p := N.shiftr x 11 in
  if N.eqb p 0 then 1%N else (2 * p)%N.

(* ---------------------------------------------------------------- the heap *)
Definition entry : Type := (N * nat * nat)%type.          (* (key, seq, idx) *)

(* derived Ord of the tuple: lexicographic; Reverse<..> makes the BinaryHeap a min-heap *)
Definition entry_ltb (a b : entry) : bool :=
  let '(ka, sa, ia) := a in
  let '(kb, sb, ib) := b in
  if N.ltb ka kb then true else if N.ltb kb ka then false
  else if Nat.ltb sa sb then true else if Nat.ltb sb sa then false
  else Nat.ltb ia ib.
Definition entry_eqb (a b : entry) : bool :=
  let '(ka, sa, ia) := a in
  let '(kb, sb, ib) := b in
  N.eqb ka kb && Nat.eqb sa sb && Nat.eqb ia ib.

Fixpoint heap_min (best : entry) (h : list entry) : entry :=
  match h with
  | [] => best
  | e :: r => heap_min (if entry_ltb e best then e else best) r
  end.
Fixpoint heap_remove (m : entry) (h : list entry) : list entry :=
  match h with
  | [] => []
  | e :: r => if entry_eqb e m then r else e :: heap_remove m r
  end.
(* BinaryHeap::pop *)
Definition heap_pop (h : list entry) : option (entry * list entry) :=
  match h with
  | [] => None
  | e :: r => let m := heap_min e r in Some (m, heap_remove m h)
  end.

(* ---------------------------------------------------------------- PRAcc *)
Section Reservoir.
  Context {T : Type}.

  Definition slot : Type := option (N * nat * T).          (* Option<(OrdF64, u64, T)> *)

  Record pracc := PRAcc {
    pk : nat;                    (* k *)
    prng : N;                    (* rng.state *)
    pseq : nat;                  (* seq *)
    pheap : list entry;          (* heap *)
    pstore : list slot;          (* store *)
    palive : nat                 (* alive *)
  }.

  (* PriorityReservoir::create *)
  Definition create (k : nat) (seed : N) : pracc :=
    PRAcc k (w64 (seed * SEEDMUL)) 0 [] [] 0.

  (* `if let Some(slot) = store.get_mut(i) && slot.is_some() { *slot = None; alive -= 1 }`:
     Some new_store when the slot exists and is occupied *)
  Fixpoint kill_slot (i : nat) (st : list slot) : option (list slot) :=
    match st, i with
    | [], _ => None
    | Some _ :: r, O => Some (None :: r)
    | None :: _, O => None
    | s :: r, S i' => match kill_slot i' r with Some r' => Some (s :: r') | None => None end
    end.

  (* `while acc.alive > acc.k { if let Some(..) = heap.pop() {..} else { break } }`
     every iteration pops one heap entry, so `S (length heap)` iterations are enough *)
  Fixpoint trim (fuel : nat) (a : pracc) : pracc :=
    match fuel with
    | O => a
    | S fuel' =>
        if Nat.ltb (pk a) (palive a) then
          match heap_pop (pheap a) with
          | None => a
          | Some ((_, _, i), h') =>
              match kill_slot i (pstore a) with
              | Some st' => trim fuel' (PRAcc (pk a) (prng a) (pseq a) h' st' (palive a - 1))
              | None => trim fuel' (PRAcc (pk a) (prng a) (pseq a) h' (pstore a) (palive a))
              end
          end
        else a
    end.
  Definition trim_loop (a : pracc) : pracc := trim (S (length (pheap a))) a.

  (* PriorityReservoir::add_input *)
  Definition add (a : pracc) (v : T) : pracc :=
    if Nat.eqb (pk a) 0 then a
    else
      let '(s', x) := sm_next (prng a) in
      let key := prio_of_bits x in
      let seq := pseq a in
      let idx := length (pstore a) in
      trim_loop (PRAcc (pk a) s' (S seq) ((key, seq, idx) :: pheap a)
                       (pstore a ++ [Some (key, seq, v)]) (S (palive a))).

  (* merge, first loop: other's live slots are appended to acc.store; `map[i_old]` *)
  Fixpoint remap_table (base : nat) (st : list slot) : list (option nat) :=
    match st with
    | [] => []
    | Some _ :: r => Some base :: remap_table (S base) r
    | None :: r => None :: remap_table base r
    end.
  Fixpoint live_slots (st : list slot) : list slot :=
    match st with
    | [] => []
    | Some x :: r => Some x :: live_slots r
    | None :: r => live_slots r
    end.
  (* merge, second loop: `if let Some(Some(i_new)) = map.get(i_old) { push((k, s, i_new)) }` *)
  Definition remap_entry (table : list (option nat)) (e : entry) : option entry :=
    let '(k, s, i_old) := e in
    match nth_error table i_old with
    | Some (Some i_new) => Some (k, s, i_new)
    | _ => None
    end.
  Fixpoint filter_map {A B} (f : A -> option B) (l : list A) : list B :=
    match l with
    | [] => []
    | x :: r => match f x with Some y => y :: filter_map f r | None => filter_map f r end
    end.

  (* PriorityReservoir::merge *)
  Definition merge (a other : pracc) : pracc :=
    if Nat.eqb (pk a) 0 then a
    else
      let k' := Nat.max (pk a) (pk other) in
      let table := remap_table (length (pstore a)) (pstore other) in
      let moved := live_slots (pstore other) in
      trim_loop (PRAcc k' (prng a) (pseq a)
                       (filter_map (remap_entry table) (pheap other) ++ pheap a)
                       (pstore a ++ moved)
                       (palive a + length moved)).

  (* finish: live items in store order, stable sort by (key desc, seq asc), truncate(k) *)
  Definition item_before (x y : N * nat * T) : bool :=
    let '(kx, sx, _) := x in
    let '(ky, sy, _) := y in
    if N.ltb ky kx then true else if N.ltb kx ky then false else Nat.leb sx sy.
  Fixpoint sort_insert (x : N * nat * T) (l : list (N * nat * T)) : list (N * nat * T) :=
    match l with
    | [] => [x]
    | y :: r => if item_before x y then x :: l else y :: sort_insert x r
    end.
  (* Vec::sort_by is stable: of two items that compare Equal the earlier one stays first *)
  Definition stable_sort (l : list (N * nat * T)) : list (N * nat * T) :=
    fold_right sort_insert [] l.
  Fixpoint live_items (st : list slot) : list (N * nat * T) :=
    match st with
    | [] => []
    | Some x :: r => x :: live_items r
    | None :: r => live_items r
    end.
  Definition finish (a : pracc) : list T :=
    if Nat.eqb (pk a) 0 || Nat.eqb (palive a) 0 then []
    else map (fun it => snd it) (firstn (pk a) (stable_sort (live_items (pstore a)))).

  (* ------------------------------------------------------------ how the engine drives it *)
  (* combine_globally `local`: create, then add_input for every row of the partition
     (= LiftableCombiner::build_from_group) *)
  Definition local (k : nat) (seed : N) (rows : list T) : pracc :=
    fold_left add rows (create k seed).
  (* combine_globally `merge`: first accumulator, the others merged into it left to right;
     `merge(vec![])` = create *)
  Definition merge_all (k : nat) (seed : N) (accs : list pracc) : pracc :=
    match accs with
    | [] => create k seed
    | a :: r => fold_left merge r a
    end.
  (* the sample for an explicit list of partitions (runner.rs CombineGlobal arm with
     fanout = None: one `merge(accs)` when there is more than one accumulator) *)
  Definition sample_parts (k : nat) (seed : N) (parts : list (list T)) : list T :=
    finish (merge_all k seed (map (local k seed) parts)).

  (* type_token.rs VecOpsImpl::split *)
  Fixpoint chunks_fuel (fuel c : nat) (l : list T) : list (list T) :=
    match fuel with
    | O => []
    | S fuel' =>
        match l with
        | [] => []
        | _ :: _ => firstn c l :: chunks_fuel fuel' c (skipn c l)
        end
    end.
  Definition chunks (c : nat) (l : list T) : list (list T) := chunks_fuel (length l) c l.
  Definition div_ceil (a b : nat) : nat := (a + b - 1) / b.
  Definition vec_split (data : list T) (n : nat) : list (list T) :=
    if Nat.leb n 1 || Nat.leb (length data) 1 then [data]
    else chunks (div_ceil (length data) n) data.
  (* runner.rs: partitions.max(1).min(total_len.max(1)) *)
  Definition clamp_parts (partitions len : nat) : nat :=
    Nat.min (Nat.max partitions 1) (Nat.max len 1).
  Definition runner_split (partitions : nat) (data : list T) : list (list T) :=
    vec_split data (clamp_parts partitions (length data)).

  (* sample_reservoir_vec(k, seed) collected sequentially / with `partitions`: a collection with
     exactly one element, the sample.  sample_reservoir flattens it. *)
  Definition global_seq_vec (k : nat) (seed : N) (data : list T) : list (list T) :=
    [sample_parts k seed [data]].
  Definition global_par_vec (k : nat) (seed : N) (partitions : nat) (data : list T)
    : list (list T) :=
    [sample_parts k seed (runner_split partitions data)].
  Definition global_seq (k : nat) (seed : N) (data : list T) : list T :=
    concat (global_seq_vec k seed data).
  Definition global_par (k : nat) (seed : N) (partitions : nat) (data : list T) : list T :=
    concat (global_par_vec k seed partitions data).
End Reservoir.
Arguments pracc : clear implicits.
Arguments slot : clear implicits.

(* ---------------------------------------------------------------- per-key variant *)
(* HashMap<K, A> as an association list without repeated keys in first-insertion order (the
   real iteration order is arbitrary; nothing below depends on it per key). *)
Section Keyed.
  Context {K T : Type}.
  Variable keqb : K -> K -> bool.

  Fixpoint lookup {A} (k : K) (m : list (K * A)) : option A :=
    match m with
    | [] => None
    | (k', a) :: r => if keqb k k' then Some a else lookup k r
    end.
  (* *map.entry(k).or_insert_with(create) = f(old) *)
  Fixpoint upsert {A} (k : K) (dflt : A) (f : A -> A) (m : list (K * A)) : list (K * A) :=
    match m with
    | [] => [(k, f dflt)]
    | (k', a) :: r => if keqb k k' then (k', f a) :: r else (k', a) :: upsert k dflt f r
    end.

  (* combine_values_lifted `local_pairs`: for (k, v) in partition:
       add_input(map.entry(k).or_insert_with(create), v) *)
  Definition cv_local (k : nat) (seed : N) (rows : list (K * T)) : list (K * pracc T) :=
    fold_left (fun m kv => upsert (fst kv) (create k seed) (fun a => add a (snd kv)) m) rows [].
  (* `merge`: for every partition map, for (k, a) in it:
       merge(accs.entry(k).or_insert_with(create), a) *)
  Definition cv_merge_one (k : nat) (seed : N) (accs m : list (K * pracc T))
    : list (K * pracc T) :=
    fold_left (fun accs ka => upsert (fst ka) (create k seed) (fun a => merge a (snd ka)) accs)
              m accs.
  Definition cv_merge (k : nat) (seed : N) (maps : list (list (K * pracc T)))
    : list (K * list T) :=
    map (fun ka => (fst ka, finish (snd ka))) (fold_left (cv_merge_one k seed) maps []).

  Definition keyed_parts (k : nat) (seed : N) (parts : list (list (K * T))) : list (K * list T) :=
    cv_merge k seed (map (cv_local k seed) parts).
  (* sample_values_reservoir_vec collected sequentially (exec_seq: merge(vec![local(all)])) and
     with `partitions` (exec_par) *)
  Definition keyed_seq_vec (k : nat) (seed : N) (data : list (K * T)) : list (K * list T) :=
    keyed_parts k seed [data].
  Definition keyed_par_vec (k : nat) (seed : N) (partitions : nat) (data : list (K * T))
    : list (K * list T) :=
    keyed_parts k seed (runner_split partitions data).
  (* sample_values_reservoir: flat_map (k, vs) -> [(k, v) for v in vs] *)
  Definition flatten_keyed (g : list (K * list T)) : list (K * T) :=
    flat_map (fun kvs => map (fun v => (fst kvs, v)) (snd kvs)) g.
  Definition keyed_seq (k : nat) (seed : N) (data : list (K * T)) : list (K * T) :=
    flatten_keyed (keyed_seq_vec k seed data).
  Definition keyed_par (k : nat) (seed : N) (partitions : nat) (data : list (K * T))
    : list (K * T) :=
    flatten_keyed (keyed_par_vec k seed partitions data).

  (* ---- the same per-key sample when it is NOT collected directly but feeds a join.
     joins.rs: chain_from captures the input chain as it was built (no planner pass), so the
     runner (run_subplan_seq / run_subplan_par) executes the GroupByKey node and then the
     CombineValues node with its group-wise local step `local_groups`. *)
  (* group_by_key `local`: for (k, v) in partition: m.entry(k).or_default().push(v) *)
  Definition gbk_local (rows : list (K * T)) : list (K * list T) :=
    fold_left (fun m kv => upsert (fst kv) [] (fun vs => vs ++ [snd kv]) m) rows [].
  (* group_by_key `merge`: for every partition map, for (k, vs) in it:
       acc.entry(k).or_default().extend(vs) *)
  Definition gbk_merge (maps : list (list (K * list T))) : list (K * list T) :=
    fold_left (fun acc m =>
                 fold_left (fun acc kvs => upsert (fst kvs) [] (fun vs => vs ++ snd kvs) acc) m acc)
              maps [].
  (* combine_values_lifted `local_groups`: for (k, vs) in partition:
       merge(map.entry(k).or_insert_with(create), build_from_group(&vs)) *)
  Definition cv_local_groups (k : nat) (seed : N) (groups : list (K * list T))
    : list (K * pracc T) :=
    fold_left (fun m g => upsert (fst g) (create k seed)
                                 (fun a => merge a (local k seed (snd g))) m) groups [].
  (* GroupByKey node: local per partition, one merge; CombineValues node on the single resulting
     partition: local_groups, then `merge` of that one map *)
  Definition keyed_unfused_parts (k : nat) (seed : N) (parts : list (list (K * T)))
    : list (K * list T) :=
    cv_merge k seed [cv_local_groups k seed (gbk_merge (map gbk_local parts))].
End Keyed.
