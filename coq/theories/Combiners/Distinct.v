(* Model of src/combiners/distinct.rs: DistinctCount<T> and DistinctSet<T>, accumulator HashSet<T>.
   Definitions only (proofs: Proofs/CombinersDistinct.v).

   A HashSet<T> is modelled as a duplicate-free list (first-insertion order).  Its iteration order
   in Rust is arbitrary and changes from run to run; the only place it shows is the order of
   DistinctSet::finish, so that output is specified (and compared with the real code) up to
   Permutation.  The element type is any type with a Boolean equality `eqb` (T: Eq + Hash). *)
From Coq Require Import List ZArith Bool.
From IB Require Import Combiners.Lawful.
Import ListNotations.

Section Distinct.
  Context {T : Type}.
  Variable eqb : T -> T -> bool.

  (* HashSet::contains *)
  Definition set_mem (x : T) (s : list T) : bool := existsb (eqb x) s.
  (* HashSet::insert *)
  Definition set_insert (s : list T) (x : T) : list T :=
    if set_mem x s then s else s ++ [x].
  (* Extend<T> for HashSet / FromIterator: insert one by one *)
  Definition set_extend (s : list T) (xs : list T) : list T := fold_left set_insert xs s.
  (* merge: if acc.is_empty() { *acc = other } else { acc.extend(other) } *)
  Definition set_merge (acc other : list T) : list T :=
    match acc with
    | [] => other
    | _ => set_extend acc other
    end.
  (* build_from_group: values.iter().cloned().collect::<HashSet<T>>() *)
  Definition set_build (vs : list T) : list T := set_extend [] vs.

  (* DistinctCount: finish = acc.len() as u64 *)
  Definition distinct_count_combiner : combiner T (list T) Z := {|
    c_create := [];
    c_add    := set_insert;
    c_merge  := set_merge;
    c_finish := fun s => Z.of_nat (length s);
    c_build  := set_build
  |}.
  (* DistinctSet: finish = acc.into_iter().collect::<Vec<T>>() (in the set's arbitrary order; the
     model returns its insertion order and nothing may depend on it) *)
  Definition distinct_set_combiner : combiner T (list T) (list T) := {|
    c_create := [];
    c_add    := set_insert;
    c_merge  := set_merge;
    c_finish := fun s => s;
    c_build  := set_build
  |}.

  (* the accumulator is duplicate-free and has exactly the elements of m *)
  Definition set_R (a : list T) (m : list T) : Prop :=
    NoDup a /\ forall x, In x a <-> In x m.
  (* the number of distinct values of m *)
  Definition distinct_count_spec (m : list T) (o : Z) : Prop :=
    exists s, NoDup s /\ (forall x, In x s <-> In x m) /\ o = Z.of_nat (length s).
  (* the set of distinct values of m, as a duplicate-free list in some order *)
  Definition distinct_set_spec (m : list T) (o : list T) : Prop :=
    NoDup o /\ forall x, In x o <-> In x m.
End Distinct.
