(* Model of src/combiners/distinct.rs: DistinctCount<T> and DistinctSet<T>, accumulator HashSet<T>.
   Definitions only (proofs: Proofs/CombinersDistinct.v).

   A HashSet<T> is modelled as a duplicate-free list (first-insertion order).  Its iteration order
   in Rust is arbitrary and changes from run to run; the only place it shows is the order of
   DistinctSet::finish, so that output is specified (and compared with the real code) up to
   Permutation.  The element type is any type with a Boolean equality `eqb` (T: Eq + Hash). *)
From Coq Require Import List ZArith Bool Permutation Sorted.
From IB Require Import Combiners.Lawful.
Import ListNotations.

Section Distinct.
  Context {T : Type}.
  Variable eqb : T -> T -> bool.

  (* HashSet::contains *)
  Definition set_mem (x : T) (s : list T) : bool := existsb (eqb x) s.
  (* HashSet::insert *)
  Definition set_insert (s : list T) (x : T) : list T :=
    if set_mem x s then s else s ++ [x].
  (* Extend<T> for HashSet / FromIterator: insert one by one *)
  Definition set_extend (s : list T) (xs : list T) : list T := fold_left set_insert xs s.
  (* merge: if acc.is_empty() { *acc = other } else { acc.extend(other) } *)
  Definition set_merge (acc other : list T) : list T :=
    match acc with
    | [] => other
    | _ => set_extend acc other
    end.
  (* build_from_group: values.iter().cloned().collect::<HashSet<T>>() *)
  Definition set_build (vs : list T) : list T := set_extend [] vs.

  (* DistinctCount: finish = acc.len() as u64 *)
  Definition distinct_count_combiner : combiner T (list T) Z := {|
    c_create := [];
    c_add    := set_insert;
    c_merge  := set_merge;
    c_finish := fun s => Z.of_nat (length s);
    c_build  := set_build
  |}.
  (* DistinctSet: finish = acc.into_iter().collect::<Vec<T>>() (in the set's arbitrary order; the
     model returns its insertion order and nothing may depend on it) *)
  Definition distinct_set_combiner : combiner T (list T) (list T) := {|
    c_create := [];
    c_add    := set_insert;
    c_merge  := set_merge;
    c_finish := fun s => s;
    c_build  := set_build
  |}.

  (* the accumulator is duplicate-free and has exactly the elements of m *)
  Definition set_R (a : list T) (m : list T) : Prop :=
    NoDup a /\ forall x, In x a <-> In x m.
  (* the number of distinct values of m *)
  Definition distinct_count_spec (m : list T) (o : Z) : Prop :=
    exists s, NoDup s /\ (forall x, In x s <-> In x m) /\ o = Z.of_nat (length s).
  (* the set of distinct values of m, as a duplicate-free list in some order *)
  Definition distinct_set_spec (m : list T) (o : list T) : Prop :=
    NoDup o /\ forall x, In x o <-> In x m.
End Distinct.

(* ===================== KMVApproxDistinctCount<T> (k minimum values) =====================
   src/combiners/distinct.rs: KMVAcc { heap: BinaryHeap<NotNan<f64>> (max-heap of the kept k
   smallest ranks), set: HashSet<NotNan<f64>> (membership test), k }, try_insert, merge_from,
   finish.  Only MERGEABILITY is treated here; the rank function (SipHash of the value scaled to
   [0,1)) and the estimator belong to C15, so both are parameters:
     rank : V -> Z   any function (a rank is compared and tested for equality, nothing else);
     est  : nat -> option Z -> O   what finish computes from m = set.len() and heap.peek():
            0 if m = 0, m if m < k, (k-1)/rk otherwise.
   The max-heap is modelled as the priority queue it implements: the DESCENDING list of its
   elements (head = the maximum = what peek/pop return). *)
Open Scope Z_scope.

(* BinaryHeap<NotNan<f64>>::push *)
Fixpoint maxheap_push (x : Z) (h : list Z) : list Z :=
  match h with
  | [] => [x]
  | y :: r => if y <=? x then x :: h else y :: maxheap_push x r
  end.
(* HashSet::remove *)
Definition zset_remove (x : Z) (s : list Z) : list Z := filter (fun y => negb (y =? x)) s.

Record kmv_acc : Type := { kv_heap : list Z; kv_set : list Z }.

(* KMVAcc::try_insert *)
Definition kmv_try_insert (k : nat) (a : kmv_acc) (r : Z) : kmv_acc :=
  if set_mem Z.eqb r (kv_set a) then a            (* !self.set.insert(r) => return *)
  else
    let set1 := kv_set a ++ [r] in
    if (length (kv_heap a) <? k)%nat then
      {| kv_heap := maxheap_push r (kv_heap a); kv_set := set1 |}
    else
      match kv_heap a with
      | rk :: rest =>                             (* Some(&rk) = self.heap.peek() *)
          if r <? rk then                         (* pop, set.remove(&old), push r *)
            {| kv_heap := maxheap_push r rest; kv_set := zset_remove rk set1 |}
          else                                    (* set.remove(&r) *)
            {| kv_heap := kv_heap a; kv_set := zset_remove r set1 |}
      | [] => {| kv_heap := []; kv_set := set1 |} (* peek() = None: only if k = 0 *)
      end.

(* KMVAcc::merge_from: pop other's heap (largest first) and try_insert each rank *)
Definition kmv_merge_from (k : nat) (a other : kmv_acc) : kmv_acc :=
  fold_left (kmv_try_insert k) (kv_heap other) a.

Definition kmv_combiner {V O : Type} (rank : V -> Z) (est : nat -> option Z -> O) (k : nat)
  : combiner V kmv_acc O := {|
  c_create := {| kv_heap := []; kv_set := [] |};
  c_add    := fun a v => kmv_try_insert k a (rank v);
  c_merge  := kmv_merge_from k;
  c_finish := fun a => est (length (kv_set a)) (hd_error (kv_heap a));
  c_build  := fun vs => fold_left (fun a v => kmv_try_insert k a (rank v)) vs
                                  {| kv_heap := []; kv_set := [] |}
|}.

(* h is the list of the k smallest distinct ranks among rs, largest first: strictly descending,
   at most k long, made of ranks of rs, and any rank of rs left out is larger than all of h,
   which is then full *)
Definition k_smallest (k : nat) (h : list Z) (rs : list Z) : Prop :=
  StronglySorted Z.gt h /\ (length h <= k)%nat /\
  (forall x, In x h -> In x rs) /\
  (forall x, In x rs -> ~ In x h -> length h = k /\ forall y, In y h -> y < x).

Definition kmv_R {V : Type} (rank : V -> Z) (k : nat) (a : kmv_acc) (m : list V) : Prop :=
  k_smallest k (kv_heap a) (map rank m) /\ Permutation (kv_set a) (kv_heap a).
Definition kmv_spec {V O : Type} (rank : V -> Z) (est : nat -> option Z -> O) (k : nat)
           (m : list V) (o : O) : Prop :=
  exists h, k_smallest k h (map rank m) /\ o = est (length h) (hd_error h).
