(* Model of the pipeline entry points through which a sketch combiner (ApproxQuantiles,
   ApproxMedian, KMVApproxDistinctCount) is run, generic over the combiner interface of
   Combiners/Lawful.v:

     src/helpers/combine_global.rs   combine_globally / combine_globally_lifted
     src/helpers/combine.rs          combine_values / combine_values_lifted (lifted local closure
                                     over hand-grouped (K, Vec<V>) records; directly after
                                     group_by_key the planner drops the GroupByKey and runs the
                                     classic per-pair local, i.e. combine_values)
     src/helpers/distinct.rs         approx_distinct_count(k)          = combine_globally(KMV::new(k), None)
                                     approx_distinct_count_per_key(k)  = combine_values(KMV::new(k))
     src/type_token.rs               VecOpsImpl::split
     src/runner.rs                   exec_seq / exec_par, arms CombineGlobal and CombineValues

   Definitions only; proofs are in Proofs/SketchPipeProofs.v. HashMap iteration order never
   matters here: each key has its own accumulator and the partitions are visited in order. *)
From Coq Require Import List Bool Arith.
From IB Require Import Combiners.Lawful Combiners.KMV.
Import ListNotations.

(* ------------------------------------------------------------------ partitioning of a source *)
(* slice::chunks(n) (n >= 1); the fuel is the length of the list *)
Fixpoint chunks_fuel {A} (fuel : nat) (n : nat) (l : list A) : list (list A) :=
  match fuel, l with
  | _, [] => []
  | O, _ => [l]
  | S f, _ => firstn n l :: chunks_fuel f n (skipn n l)
  end.
Definition chunks {A} (n : nat) (l : list A) : list (list A) :=
  chunks_fuel (length l) (Nat.max n 1) l.
Definition div_ceil (a b : nat) : nat := (a + b - 1) / b.
(* VecOpsImpl::split *)
Definition split_vec {A} (l : list A) (n : nat) : list (list A) :=
  if (n <=? 1) || (length l <=? 1) then [l]
  else chunks (div_ceil (length l) n) l.
(* exec_par: parts = partitions.max(1).min(total_len.max(1)); parts = 0 encodes collect_seq
   (exec_seq runs every node on the whole input as one partition) *)
Definition source_parts {A} (l : list A) (parts : nat) : list (list A) :=
  if parts =? 0 then [l]
  else split_vec l (Nat.min (Nat.max parts 1) (Nat.max (length l) 1)).

Section Pipe.
  Context {V A B : Type} (c : combiner V A B).

  (* ---------------------------------------------------------------- CombineGlobal *)
  (* the merge closure of combine_globally(_lifted): the first accumulator absorbs the others *)
  Definition cg_merge (accs : list A) : A :=
    match accs with
    | [] => c_create c
    | first :: rest => fold_left (c_merge c) rest first
    end.
  (* the multi-round fan-out loop of exec_par (f = 0 encodes fanout None = one round over
     everything; Some(n) is used as n.max(2)). When the fuel runs out everything left is merged
     at once, so the result is meaningful for every fuel; the loop needs at most
     log2 (length accs) rounds. *)
  Fixpoint cg_fan (fuel : nat) (f : nat) (accs : list A) : list A :=
    match fuel with
    | O => [cg_merge accs]
    | S fuel' =>
        if length accs <=? 1 then accs
        else if f =? 0 then [cg_merge accs]
        else cg_fan fuel' f (map cg_merge (chunks (Nat.max f 2) accs))
    end.
  (* local closure: create + add_input per row, or build_from_group (lifted) *)
  Definition cg_local (lifted : bool) (rows : list V) : A := leaf_acc c lifted rows.
  (* the accumulator handed to finish, for the given partitions *)
  Definition cg_acc (lifted : bool) (fan : nat) (parts : list (list V)) : A :=
    cg_merge (cg_fan 64 fan (map (cg_local lifted) parts)).
  (* from_vec(rows).combine_globally(_lifted)(comb, fanout) collected with `parts` partitions *)
  Definition combine_globally (lifted : bool) (fan parts : nat) (rows : list V) : B :=
    c_finish c (cg_acc lifted fan (source_parts rows parts)).

  (* ---------------------------------------------------------------- CombineValues *)
  Context {K : Type} (keqb : K -> K -> bool).

  (* the values of `key` in a partition of (key, value) rows, in order *)
  Definition mine (key : K) (part : list (K * V)) : list V :=
    map snd (filter (fun kv => keqb (fst kv) key) part).
  (* local_pairs: map.entry(k).or_insert_with(create) absorbs every value of the key; the key has
     an entry only if it occurs in the partition *)
  Definition cv_local (key : K) (part : list (K * V)) : option A :=
    match mine key part with
    | [] => None
    | vs => Some (fold_left (c_add c) vs (c_create c))
    end.
  (* the merge closure, for one key: accs.entry(k).or_insert_with(create) absorbs the key's
     accumulator of every partition that has one, in partition order *)
  Definition cv_merge (mids : list (option A)) : option A :=
    fold_left (fun acc mid =>
                 match mid with
                 | None => acc
                 | Some a => Some (c_merge c (match acc with Some x => x | None => c_create c end) a)
                 end) mids None.
  Definition cv_acc (key : K) (parts : list (list (K * V))) : option A :=
    cv_merge (map (cv_local key) parts).
  (* from_vec(rows).combine_values(comb), the output for `key` (None: no output row) *)
  Definition combine_values (key : K) (parts : nat) (rows : list (K * V)) : option B :=
    option_map (c_finish c) (cv_acc key (source_parts rows parts)).

  (* ---- combine_values_lifted on hand-grouped records (key, Vec<value>) ---- *)
  (* the groups of `key` in a partition of records, in order *)
  Definition mine_groups (key : K) (part : list (K * list V)) : list (list V) :=
    map snd (filter (fun kv => keqb (fst kv) key) part).
  (* local_groups: for every record of the key, build_from_group(values) is merged into
     map.entry(k).or_insert_with(create) *)
  Definition cvl_local (key : K) (part : list (K * list V)) : option A :=
    match mine_groups key part with
    | [] => None
    | gs => Some (fold_left (fun acc g => c_merge c acc (c_build c g)) gs (c_create c))
    end.
  Definition cvl_acc (key : K) (parts : list (list (K * list V))) : option A :=
    cv_merge (map (cvl_local key) parts).
  Definition combine_values_lifted (key : K) (parts : nat) (recs : list (K * list V)) : option B :=
    option_map (c_finish c) (cvl_acc key (source_parts recs parts)).
End Pipe.

(* ------------------------------------------------------------------ src/helpers/distinct.rs
   over ranks (rank_from_value is applied by add_input / build_from_group; Combiners/KMVRank.v) *)
Section DistinctHelpers.
  Context {R K : Type} (ltb eqb : R -> R -> bool) (keqb : K -> K -> bool).
  (* PCollection::approx_distinct_count(k) = combine_globally(KMVApproxDistinctCount::new(k), None) *)
  Definition approx_distinct_count (k parts : nat) (ranks : list R) : kmv_out R :=
    combine_globally (kmv_combiner ltb eqb k) false 0 parts ranks.
  (* PCollection::approx_distinct_count_per_key(k) = combine_values(KMVApproxDistinctCount::new(k)) *)
  Definition approx_distinct_count_per_key (k : nat) (key : K) (parts : nat) (rows : list (K * R))
    : option (kmv_out R) :=
    combine_values (kmv_combiner ltb eqb k) keqb key parts rows.
End DistinctHelpers.
