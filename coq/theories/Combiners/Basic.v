(* Models of the basic built-in combiners.  Definitions only (proofs: Proofs/CombinersBasic.v).
     Count        src/collection.rs: impl CombineFn<V,u64,u64> for Count, LiftableCombiner for Count
     Sum/Min/Max  src/combiners/basic.rs
     AverageF64   src/combiners/statistical.rs
   Numbers: the Rust code is generic over numeric types; integers are modelled as Z (i64/u64
   overflow is out of scope), f64 as exact rationals Q ("floating-point sums up to rounding" is
   outside the theorems). *)
From Coq Require Import List ZArith QArith.
From IB Require Import Combiners.Lawful.
Import ListNotations.
Open Scope Z_scope.

(* ===================== Count =====================
   create = 0; add_input: *acc += 1; merge: *acc += other; finish = acc;
   build_from_group = values.len() *)
Definition count_combiner (V : Type) : combiner V Z Z := {|
  c_create := 0;
  c_add    := fun a _ => a + 1;
  c_merge  := fun a b => a + b;
  c_finish := fun a => a;
  c_build  := fun vs => Z.of_nat (length vs)
|}.
Definition count_R {V : Type} (a : Z) (m : list V) : Prop := a = Z.of_nat (length m).
Definition count_spec {V : Type} (m : list V) (o : Z) : Prop := o = Z.of_nat (length m).

(* ===================== Sum<T> =====================
   create = T::default(); add_input: *acc = take(acc) + v; merge: *acc = take(acc) + other;
   finish = acc; build_from_group = values.iter().cloned().fold(T::default(), |a, v| a + v) *)
Definition zsum (m : list Z) : Z := fold_right Z.add 0 m.
Definition sum_combiner : combiner Z Z Z := {|
  c_create := 0;
  c_add    := fun a v => a + v;
  c_merge  := fun a b => a + b;
  c_finish := fun a => a;
  c_build  := fun vs => fold_left (fun a v => a + v) vs 0
|}.
Definition sum_R (a : Z) (m : list Z) : Prop := a = zsum m.
Definition sum_spec (m : list Z) (o : Z) : Prop := o = zsum m.

(* ===================== Min<T> =====================
   accumulator Option<T>; finish = acc.expect(..): a panic on an empty group, modelled as the
   output None (Some x = returned x). *)
Definition min_add (acc : option Z) (v : Z) : option Z :=
  match acc with
  | Some cur => if v <? cur then Some v else Some cur
  | None => Some v
  end.
Definition min_merge (acc other : option Z) : option Z :=
  match other with
  | Some b => match acc with
              | Some a => if b <? a then Some b else Some a
              | None => Some b
              end
  | None => acc
  end.
(* Iterator::min: fold keeping the smaller element *)
Definition iter_min (vs : list Z) : option Z :=
  match vs with
  | [] => None
  | x :: r => Some (fold_left (fun m v => if v <? m then v else m) r x)
  end.
Definition min_combiner : combiner Z (option Z) (option Z) := {|
  c_create := None;
  c_add    := min_add;
  c_merge  := min_merge;
  c_finish := fun a => a;       (* None = panic "Min::finish called on empty group" *)
  c_build  := iter_min
|}.
(* a is a least element of m, or m is empty *)
Definition min_R (a : option Z) (m : list Z) : Prop :=
  match a with
  | None => m = []
  | Some x => In x m /\ forall y, In y m -> x <= y
  end.
(* the output is Panic (None) exactly on the empty group, otherwise the minimum *)
Definition min_spec (m : list Z) (o : option Z) : Prop :=
  (m = [] /\ o = None) \/ (exists x, o = Some x /\ In x m /\ forall y, In y m -> x <= y).

(* ===================== Max<T> ===================== *)
Definition max_add (acc : option Z) (v : Z) : option Z :=
  match acc with
  | Some cur => if v >? cur then Some v else Some cur
  | None => Some v
  end.
Definition max_merge (acc other : option Z) : option Z :=
  match other with
  | Some b => match acc with
              | Some a => if b >? a then Some b else Some a
              | None => Some b
              end
  | None => acc
  end.
Definition iter_max (vs : list Z) : option Z :=
  match vs with
  | [] => None
  | x :: r => Some (fold_left (fun m v => if v >=? m then v else m) r x)
  end.
Definition max_combiner : combiner Z (option Z) (option Z) := {|
  c_create := None;
  c_add    := max_add;
  c_merge  := max_merge;
  c_finish := fun a => a;       (* None = panic "Max::finish called on empty group" *)
  c_build  := iter_max
|}.
Definition max_R (a : option Z) (m : list Z) : Prop :=
  match a with
  | None => m = []
  | Some x => In x m /\ forall y, In y m -> y <= x
  end.
Definition max_spec (m : list Z) (o : option Z) : Prop :=
  (m = [] /\ o = None) \/ (exists x, o = Some x /\ In x m /\ forall y, In y m -> y <= x).

(* ===================== AverageF64 =====================
   accumulator (sum : f64, count : u64), here (Q, Z) with exact arithmetic.
   create = (0.0, 0); add_input: acc.0 += v.into(); acc.1 += 1; merge: component-wise +;
   finish = if acc.1 == 0 { 0.0 } else { acc.0 / (acc.1 as f64) };
   build_from_group = (values.iter().map(into).sum(), values.len()) *)
Definition qsum (m : list Q) : Q := fold_right Qplus (0#1)%Q m.
Definition avg_finish (a : Q * Z) : Q :=
  if snd a =? 0 then (0#1)%Q else (fst a / inject_Z (snd a))%Q.
Definition average_combiner : combiner Q (Q * Z) Q := {|
  c_create := ((0#1)%Q, 0);
  c_add    := fun a v => ((fst a + v)%Q, snd a + 1);
  c_merge  := fun a b => ((fst a + fst b)%Q, snd a + snd b);
  c_finish := avg_finish;
  (* Iterator::sum::<f64>() folds from the left starting at 0.0 *)
  c_build  := fun vs => (fold_left Qplus vs (0#1)%Q, Z.of_nat (length vs))
|}.
Definition average_R (a : Q * Z) (m : list Q) : Prop :=
  (fst a == qsum m)%Q /\ snd a = Z.of_nat (length m).
(* the mean: sum / number of values, and 0 for no values (equality of rationals) *)
Definition mean (m : list Q) : Q :=
  match m with
  | [] => (0#1)%Q
  | _ => (qsum m / inject_Z (Z.of_nat (length m)))%Q
  end.
Definition average_spec (m : list Q) (o : Q) : Prop := (o == mean m)%Q.
