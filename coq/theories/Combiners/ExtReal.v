(* Sum<f64> and AverageF64 on inputs that contain NaN and infinities
   (src/combiners/basic.rs Sum<T> at T = f64, src/combiners/statistical.rs AverageF64).
   Definitions only (proofs: Proofs/CombinersExtReal.v).

   IEEE addition on the classes: NaN is absorbing, (+inf) + (-inf) = NaN, otherwise an infinity
   absorbs every finite value.  Finite values are integers counted in a common unit (a power of
   two, e.g. 1/2 in the correspondence runs), so finite sums are exact as long as they stay below
   2^53 units; rounding and the sign of a zero sum are not modelled. *)
From Coq Require Import List ZArith Bool.
From IB Require Import Combiners.Lawful Combiners.Basic.
Import ListNotations.
Open Scope Z_scope.

Inductive xr : Type := XNaN | XPInf | XNInf | XFin (z : Z).

Definition xadd (a b : xr) : xr :=
  match a, b with
  | XNaN, _ | _, XNaN => XNaN
  | XPInf, XNInf | XNInf, XPInf => XNaN
  | XPInf, _ | _, XPInf => XPInf
  | XNInf, _ | _, XNInf => XNInf
  | XFin p, XFin q => XFin (p + q)
  end.

(* Sum<f64>: same shape as Basic.sum_combiner *)
Definition xsum_combiner : combiner xr xr xr := {|
  c_create := XFin 0;
  c_add    := xadd;
  c_merge  := xadd;
  c_finish := fun a => a;
  c_build  := fun vs => fold_left xadd vs (XFin 0)
|}.

(* the mean: a class, or the rational num/den (in units) *)
Inductive xmean : Type := MNaN | MPInf | MNInf | MFin (num den : Z).
(* finish = if acc.1 == 0 { 0.0 } else { acc.0 / (acc.1 as f64) } *)
Definition xavg_finish (a : xr * Z) : xmean :=
  if snd a =? 0 then MFin 0 1
  else match fst a with
       | XNaN => MNaN
       | XPInf => MPInf
       | XNInf => MNInf
       | XFin z => MFin z (snd a)
       end.
(* AverageF64: same shape as Basic.average_combiner; the count counts every sample *)
Definition xavg_combiner : combiner xr (xr * Z) xmean := {|
  c_create := (XFin 0, 0);
  c_add    := fun a v => (xadd (fst a) v, snd a + 1);
  c_merge  := fun a b => (xadd (fst a) (fst b), snd a + snd b);
  c_finish := xavg_finish;
  c_build  := fun vs => (fold_left xadd vs (XFin 0), Z.of_nat (length vs))
|}.

(* what the sum of a multiset of samples is, by classes *)
Definition is_nan (x : xr) : bool := match x with XNaN => true | _ => false end.
Definition is_pinf (x : xr) : bool := match x with XPInf => true | _ => false end.
Definition is_ninf (x : xr) : bool := match x with XNInf => true | _ => false end.
Definition fin_part (x : xr) : Z := match x with XFin z => z | _ => 0 end.
Definition xtotal (m : list xr) : xr :=
  if existsb is_nan m || (existsb is_pinf m && existsb is_ninf m) then XNaN
  else if existsb is_pinf m then XPInf
  else if existsb is_ninf m then XNInf
  else XFin (zsum (map fin_part m)).
